"""C13, discovery and activation operations: ContactlessFrontend.sense() / listen() on the real drivers over the
scriptable simulated chipsets of sim/chip_ops.py.

An operation kind (S... = sense, L... = listen) is a scenario: the target argument, what the remote device does on
the simulated air (the chip's answers to the RF commands / the peer's datagrams) and the documented result
(a target with given attributes, None, or UnsupportedTargetError).  scenario(driver, kind) returns it; the host
commands the driver issues for it are what DriverErr!Cmds(d, k) lists -- the trace validation compares.
"""
import threading

import nfc.clf

from bind import c13_drivers as D
from sim import chip_ops as O
from sim import chip_crc as CRC

H = bytes.fromhex
UID = D.UID
BCC = bytes([UID[0] ^ UID[1] ^ UID[2] ^ UID[3]])
LUID = b"\x08" + UID[1:]                       # sdd_res of a listening Type A target
LBCC = bytes([LUID[0] ^ LUID[1] ^ LUID[2] ^ LUID[3]])
IDM, PMM, SYS = D.IDM, D.PMM, H("12fc")
SENSB_RES = H("50e8253eec00000011008185")
SENSF_RES = b"\x01" + IDM + PMM + SYS         # 19 byte
RID_RES = H("1148b2565400")
ATR_REQ, ATR_RES = D.ATR_REQ, D.ATR_RES
ATR_REQ_F = H("d400") + IDM + H("0000") + H("00000032") + b"Ffm"      # NFCID3 = NFCID2 of the listening device
DEP_REQ = H("d4060033")
PSL_REQ = H("d404001203")                     # DID 0, DSI = DRI = 2 (424 kbps)
PSL_RES = H("d50500")
TT2_CMD = H("3000")
TT4_CMD = H("0200a40400")
TT3_CMD = b"\x10\x06" + IDM + H("010b00018000")
RATS = H("e080")
RATS_RES = H("0578807002")
SENSF_REQ = H("00ffff0100")

SENSE_KINDS = ("STTA2", "STTA4", "STTADEP", "STTA1", "STTA0", "STTA212", "STTB106", "STTB212", "STTB424", "STTB848",
               "STTF212", "STTF424", "SDEP106", "SDEP212", "SDEP424")
LISTEN_KINDS = ("LA2", "LA4", "LA4D", "LADEP", "LA212", "LB106", "LF212", "LF424", "LDEPA", "LDEPF", "LDEPACT",
                "LDEPDSL", "LDEPRLS")
DSL_REQ, RLS_REQ = H("d408"), H("d40a")
CLOSE_KINDS = ("XCLOSE", "SCLOSE", "LCLOSE")     # frontend closed while exchange() / sense() / listen() waits for the lock
OP_KINDS = SENSE_KINDS + LISTEN_KINDS + CLOSE_KINDS
PN53X = ("pn531", "pn532", "pn533", "rcs956", "acr122", "arygon")


def mode_of(kind):
    return "sense" if kind in SENSE_KINDS else ("closed" if kind in CLOSE_KINDS else "listen")


def method_of(kind):
    """the driver method the operation kind ends up in"""
    if kind in CLOSE_KINDS:
        return {"XCLOSE": "exchange", "SCLOSE": "sense", "LCLOSE": "listen"}[kind]
    if kind.startswith("SDEP"):
        return "sense_dep"
    if kind.startswith("LDEP"):
        return "listen_dep"
    return {"STTA": "sense_tta", "STTB": "sense_ttb", "STTF": "sense_ttf"}.get(kind[:4]) or \
        {"LA": "listen_tta", "LB": "listen_ttb", "LF": "listen_ttf"}[kind[:2]]


def brty_of(kind):
    if kind in ("STTA212", "LA212"):
        return "212A"
    if kind[:4] in ("STTB", "STTF", "SDEP") or kind[:2] in ("LB", "LF"):
        n = kind[-3:]
        return n + {"STTB": "B", "STTF": "F", "SDEP": "F"}.get(kind[:4], {"LB": "B", "LF": "F"}.get(kind[:2]))
    return "106A"


def _rt(brty, **kw):
    return nfc.clf.RemoteTarget(brty, **{k: bytearray(v) for k, v in kw.items()})


def _lt(brty, **kw):
    return nfc.clf.LocalTarget(brty, **{k: bytearray(v) for k, v in kw.items()})


class Scn(object):
    """target: argument of sense()/listen(); timeout: of listen(); script: air script of the chip ({code: [payload]} or
    (waiting, answers) for udp); chip: further chip attributes; expect: "Target" | "NoTarget" | "Unsupported";
    brty/attrs: of the documented result"""

    def __init__(self, target, expect, brty=None, attrs=None, script=None, chip=None, timeout=0.1):
        self.target, self.expect, self.brty, self.attrs = target, expect, brty, attrs or {}
        self.script, self.chip, self.timeout = script or {}, chip or {}, timeout


def _listen_target(kind):
    brty = brty_of(kind)
    sel = {"LA2": b"\x00", "LA4": b"\x20", "LA4D": b"\x20", "LADEP": b"\x40", "LA212": b"\x00"}.get(kind, b"\x40")
    if kind.startswith("LDEP"):
        return _lt("106A", sens_res=H("4400"), sdd_res=LUID, sel_res=sel, sensf_res=SENSF_RES, atr_res=ATR_RES)
    if kind.startswith("LA"):
        return _lt(brty, sens_res=H("4400"), sdd_res=LUID, sel_res=sel)
    if kind.startswith("LB"):
        return _lt(brty, sensb_res=SENSB_RES)
    return _lt(brty, sensf_res=SENSF_RES)


def _sense_target(kind):
    brty = brty_of(kind)
    if kind.startswith("SDEP"):
        if kind == "SDEP106":
            brty = "106A"
        return _rt(brty, atr_req=ATR_REQ)
    return _rt(brty)


TTA_ATTRS = dict(sens_res=H("4400"), sdd_res=LUID)


def _atr_fix531(driver, a):
    """pn531.sense_dep reduces the length reduction bits of ATR_REQ / ATR_RES"""
    a = bytearray(a)
    i = 15 if a[1] == 0 else 16
    if driver == "pn531" and a[i] & 0x30 == 0x30:
        a[i] = (a[i] & 0xCF) | 0x20
    return bytes(a)


def scenario_pn53x(driver, kind):
    tg = _sense_target(kind) if kind in SENSE_KINDS else _listen_target(kind)
    brty = brty_of(kind)
    pers = {"acr122": "pn532", "arygon": "pn532"}.get(driver, driver)
    brtys_b = {"pn531": (), "pn533": ("106B", "212B", "424B", "848B")}.get(pers, ("106B",))
    has_t1 = pers in ("pn532", "pn533", "rcs956") and driver != "acr122"
    if kind in ("STTA2", "STTA4", "STTADEP"):
        sel = {"STTA2": b"\x00", "STTA4": b"\x20", "STTADEP": b"\x40"}[kind]
        return Scn(tg, "Target", "106A", dict(sens_res=H("4400"), sel_res=sel, sdd_res=UID),
                   {0x4A: [b"\x01\x01" + H("0044") + sel + b"\x04" + UID]})
    if kind == "STTA1":
        if not has_t1:
            return Scn(tg, "NoTarget", script={0x4A: [b"\x00"]}, chip=dict(fifo=bytearray(b"\x00")))
        return Scn(tg, "Target", "106A", dict(sens_res=H("000c"), rid_res=RID_RES),
                   {0x4A: [b"\x00", b"\x01\x01" + H("0c00") + RID_RES[2:]], 0x40: [b"\x00" + RID_RES]},
                   chip=dict(fifo=bytearray(b"\x00")))
    if kind == "STTA0":
        return Scn(tg, "NoTarget", script={0x4A: [b"\x00"]}, chip=dict(fifo=bytearray(b"\x26")))
    if kind == "STTA212":
        return Scn(tg, "Unsupported")
    if kind.startswith("STTB"):
        if brty not in brtys_b:
            return Scn(tg, "Unsupported")
        return Scn(tg, "Target", brty, dict(sensb_res=SENSB_RES),
                   {0x4A: [b"\x01\x01" + SENSB_RES + b"\x01\x00"], 0x42: [b"\x00", b"\x00" + SENSB_RES]})
    if kind.startswith("STTF"):
        return Scn(tg, "Target", brty, dict(sensf_res=SENSF_RES),
                   {0x4A: [b"\x01\x01" + bytes([len(SENSF_RES) + 1]) + SENSF_RES]})
    if kind.startswith("SDEP"):
        return Scn(tg, "Target", tg.brty, dict(atr_res=_atr_fix531(pers, ATR_RES), atr_req=_atr_fix531(pers, ATR_REQ)),
                   {0x46: [b"\x00\x01" + ATR_RES[2:]]})
    # ---- listen
    if driver == "acr122" or kind in ("LA212", "LB106"):
        return Scn(tg, "Unsupported")
    if pers == "rcs956" and kind in ("LDEPDSL", "LDEPRLS"):
        pass
    elif pers == "rcs956" and (kind in ("LA4", "LA4D", "LDEPACT") or kind.startswith("LF")):
        return Scn(tg, "Unsupported" if kind != "LDEPACT" else "NoTarget",
                   script={} if kind != "LDEPACT" else {0x8C: []})
    sel = bytes(tg.sel_res) if tg.sel_res else b""
    tta = dict(TTA_ATTRS, sel_res=sel)
    if kind == "LA2":
        return Scn(tg, "Target", "106A", dict(tta, tt2_cmd=TT2_CMD), {0x8C: [b"\x00" + TT2_CMD]})
    if kind == "LA4":
        return Scn(tg, "Target", "106A", dict(tta, tt4_cmd=TT4_CMD),
                   {0x8C: [b"\x08" + RATS], 0x88: [b"\x00" + TT4_CMD]})
    if kind == "LA4D":
        return Scn(tg, "Target", "106A", dict(tta, tt4_cmd=TT4_CMD),
                   {0x8C: [b"\x08" + RATS, b"\x08" + RATS], 0x88: [b"\x00\xc2", b"\x00" + TT4_CMD]})
    if kind == "LADEP":
        return Scn(tg, "Target", "106A", dict(tta, atr_req=ATR_REQ),
                   {0x8C: [b"\x04\xf0" + bytes([len(ATR_REQ) + 1]) + ATR_REQ]})
    if kind.startswith("LF"):
        return Scn(tg, "Target", brty, dict(sensf_res=SENSF_RES, tt3_cmd=TT3_CMD[1:]),
                   chip=dict(rf_in=TT3_CMD, rf_in_irq=0x30))
    framed = lambda d: bytes([len(d) + 1]) + d
    dep = dict(dep_req=DEP_REQ, atr_req=ATR_REQ, atr_res=ATR_RES)
    if kind == "LDEPA":
        return Scn(tg, "Target", "106A", dict(dep, **tta),
                   {0x8C: [b"\x04" + framed(ATR_REQ)], 0x88: [b"\x00" + framed(DEP_REQ)]})
    if kind == "LDEPF":
        return Scn(tg, "Target", "424F", dict(dep, psl_req=PSL_REQ, psl_res=PSL_RES, sensf_res=SENSF_RES),
                   {0x8C: [b"\x24" + framed(ATR_REQ)], 0x88: [b"\x00" + framed(PSL_REQ), b"\x00" + framed(DEP_REQ)]})
    if kind in ("LDEPDSL", "LDEPRLS"):                    # deselected / released right after the ATR_RES
        req = DSL_REQ if kind == "LDEPDSL" else RLS_REQ
        return Scn(tg, "NoTarget", script={0x8C: [b"\x04" + framed(ATR_REQ)], 0x88: [b"\x00" + framed(req)]})
    if kind == "LDEPACT":
        return Scn(tg, "Target", "424F", dep,
                   {0x8C: [b"\x25" + framed(ATR_REQ)], 0x88: [b"\x00" + framed(DEP_REQ)]})
    raise KeyError(kind)


def scenario_rcs380(driver, kind):
    tg = _sense_target(kind) if kind in SENSE_KINDS else _listen_target(kind)
    brty = brty_of(kind)
    rx = lambda d: b"\x00\x00\x00\x00\x08" + bytes(d)                 # InCommRF: status, ?, data
    code = {"106A": 11, "212F": 12, "424F": 13}
    tgrx = lambda b, d, fl=3: bytes([code[b], 0, fl]) + b"\x00\x00\x00\x00" + bytes(d)
    framed = lambda d: bytes([len(d) + 1]) + d
    if kind in ("STTA2", "STTA4", "STTADEP", "STTA212"):
        sel = {"STTA4": b"\x20", "STTADEP": b"\x40"}.get(kind, b"\x00")
        return Scn(tg, "Target", brty, dict(sens_res=H("4400"), sel_res=sel, sdd_res=UID),
                   {0x04: [rx(H("4400")), rx(UID + BCC), rx(sel)]})
    if kind == "STTA1":
        return Scn(tg, "Target", "106A", dict(sens_res=H("000c"), rid_res=RID_RES), {0x04: [rx(H("000c")), rx(RID_RES)]})
    if kind == "STTA0":
        return Scn(tg, "NoTarget", script={0x04: []})
    if kind.startswith("STTB"):
        if brty == "848B":
            return Scn(tg, "Unsupported")
        return Scn(tg, "Target", brty, dict(sensb_res=SENSB_RES), {0x04: [rx(SENSB_RES)]})
    if kind.startswith("STTF"):
        return Scn(tg, "Target", brty, dict(sensf_res=SENSF_RES), {0x04: [rx(framed(SENSF_RES))]})
    if kind.startswith("SDEP") or kind in ("LA212", "LB106", "LADEP"):
        return Scn(tg, "Unsupported")
    sel = bytes(tg.sel_res) if tg.sel_res else b""
    tta = dict(TTA_ATTRS, sel_res=sel)
    if kind == "LA2":
        return Scn(tg, "Target", "106A", dict(tta, tt2_cmd=TT2_CMD), {0x48: [tgrx("106A", TT2_CMD)]})
    if kind == "LA4":
        return Scn(tg, "Target", "106A", dict(tta, tt4_cmd=TT4_CMD, rats_cmd=RATS, rats_res=RATS_RES),
                   {0x48: [tgrx("106A", RATS), tgrx("106A", TT4_CMD)]})
    if kind == "LA4D":
        return Scn(tg, "Target", "106A", dict(tta, tt4_cmd=TT4_CMD, rats_cmd=RATS, rats_res=RATS_RES),
                   {0x48: [tgrx("106A", RATS), tgrx("106A", b"\xc2"), tgrx("106A", RATS), tgrx("106A", TT4_CMD)]})
    if kind.startswith("LF"):
        return Scn(tg, "Target", brty, dict(sensf_req=SENSF_REQ, sensf_res=SENSF_RES, tt3_cmd=TT3_CMD[1:]),
                   {0x48: [tgrx(brty, framed(SENSF_REQ)), tgrx(brty, TT3_CMD)]})
    if kind == "LDEPA":
        return Scn(tg, "Target", "106A", dict(tta, dep_req=DEP_REQ, atr_req=ATR_REQ),
                   {0x48: [tgrx("106A", b"\xf0" + framed(ATR_REQ)), tgrx("106A", b"\xf0" + framed(DEP_REQ))]})
    if kind == "LDEPF":
        return Scn(tg, "Target", "424F", dict(dep_req=DEP_REQ, atr_req=ATR_REQ, psl_req=PSL_REQ, sensf_res=SENSF_RES),
                   {0x48: [tgrx("424F", framed(ATR_REQ)), tgrx("424F", framed(PSL_REQ)), tgrx("424F", b""),
                           tgrx("424F", framed(DEP_REQ))]})
    if kind in ("LDEPDSL", "LDEPRLS"):
        req = DSL_REQ if kind == "LDEPDSL" else RLS_REQ
        return Scn(tg, "NoTarget", script={0x48: [tgrx("106A", b"\xf0" + framed(ATR_REQ)), tgrx("106A", b"\xf0" + framed(req)),
                                                  tgrx("106A", b"")]})
    if kind == "LDEPACT":                                 # active mode activation is ignored by this driver
        return Scn(tg, "NoTarget", script={0x48: [tgrx("424F", framed(ATR_REQ), 1)]})
    raise KeyError(kind)


def scenario_udp(driver, kind):
    tg = _sense_target(kind) if kind in SENSE_KINDS else _listen_target(kind)
    brty = brty_of(kind)
    dg = lambda b, d: b.encode() + b" " + bytes(d).hex().encode()
    framed = lambda d: bytes([len(d) + 1]) + d
    if kind in ("STTA2", "STTA4", "STTADEP", "STTA212"):
        sel = {"STTA4": b"\x20", "STTADEP": b"\x40"}.get(kind, b"\x00")
        return Scn(tg, "Target", brty, dict(sens_res=H("4400"), sel_res=sel, sdd_res=UID),
                   ((), [dg(brty, H("4400")), dg(brty, UID + BCC), dg(brty, sel)]))
    if kind == "STTA1":
        return Scn(tg, "Target", "106A", dict(sens_res=H("000c"), rid_res=RID_RES),
                   ((), [dg(brty, H("000c")), dg(brty, RID_RES)]))
    if kind == "STTA0":
        return Scn(tg, "NoTarget", script=((), []))
    if kind.startswith("STTB"):
        if brty == "848B":
            return Scn(tg, "Unsupported", script=((), []))
        return Scn(tg, "Target", brty, dict(sensb_res=SENSB_RES), ((), [dg(brty, SENSB_RES)]))
    if kind.startswith("STTF"):
        return Scn(tg, "Target", brty, dict(sensf_res=SENSF_RES), ((), [dg(brty, framed(SENSF_RES))]))
    if kind.startswith("SDEP"):
        return Scn(tg, "Unsupported", script=((), []))
    sel = bytes(tg.sel_res) if tg.sel_res else b""
    tta = dict(TTA_ATTRS, sel_res=sel)
    act = [dg(brty, b"\x93\x20"), dg(brty, b"\x93\x70" + LUID + LBCC)]          # answers to SENS_RES, SDD_RES
    if kind in ("LA2", "LA212", "LA4", "LA4D", "LADEP"):
        cmd = {"LA2": TT2_CMD, "LA212": TT2_CMD, "LA4": RATS, "LA4D": RATS, "LADEP": b"\xf0" + framed(ATR_REQ)}[kind]
        name = {"LA2": "tt2_cmd", "LA212": "tt2_cmd", "LA4": "tt4_cmd", "LA4D": "tt4_cmd", "LADEP": "atr_req"}[kind]
        return Scn(tg, "Target", brty, dict(tta, **{name: cmd if kind != "LADEP" else ATR_REQ}),
                   ([dg(brty, b"\x26")], act + [dg(brty, cmd)]))
    if kind == "LB106":
        return Scn(tg, "Target", brty, dict(sensb_req=H("050010"), sensb_res=SENSB_RES, tt4_cmd=TT4_CMD),
                   ([dg(brty, H("050010"))], [dg(brty, TT4_CMD)]))
    if kind.startswith("LF"):
        return Scn(tg, "Target", brty, dict(sensf_req=SENSF_REQ, sensf_res=SENSF_RES, tt3_cmd=TT3_CMD[1:]),
                   ([dg(brty, framed(SENSF_REQ))], [dg(brty, TT3_CMD)]))
    if kind == "LDEPA":                                   # SENS_REQ .. SEL_REQ, ATR_REQ, DEP_REQ at 106 kbps
        return Scn(tg, "Target", "106A", dict(tta, atr_req=ATR_REQ, atr_res=ATR_RES, dep_req=DEP_REQ),
                   ([dg("106A", b"\x26")], [dg("106A", b"\x93\x20"), dg("106A", b"\x93\x70" + LUID + LBCC),
                                              dg("106A", b"\xf0" + framed(ATR_REQ)), dg("106A", b"\xf0" + framed(DEP_REQ))]))
    if kind == "LDEPF":                                   # SENSF_REQ, ATR_REQ, PSL_REQ, DEP_REQ at 424 kbps
        return Scn(tg, "Target", "424F", dict(sensf_req=SENSF_REQ, sensf_res=SENSF_RES, atr_req=ATR_REQ_F, atr_res=ATR_RES,
                                              psl_req=PSL_REQ, psl_res=PSL_RES, dep_req=DEP_REQ),
                   ([dg("424F", framed(SENSF_REQ))], [dg("424F", framed(ATR_REQ_F)), dg("424F", framed(PSL_REQ)),
                                                       dg("424F", framed(DEP_REQ))]))
    if kind in ("LDEPDSL", "LDEPRLS"):
        req = DSL_REQ if kind == "LDEPDSL" else RLS_REQ
        return Scn(tg, "NoTarget",
                   script=([dg("106A", b"\x26")], [dg("106A", b"\x93\x20"), dg("106A", b"\x93\x70" + LUID + LBCC),
                                                    dg("106A", b"\xf0" + framed(ATR_REQ)), dg("106A", b"\xf0" + framed(req))]))
    if kind == "LDEPACT":                                 # ATR_REQ without preceding SENSF_REQ (as in active mode)
        return Scn(tg, "Target", "424F", dict(atr_req=ATR_REQ, atr_res=ATR_RES, dep_req=DEP_REQ),
                   ([dg("424F", framed(ATR_REQ))], [dg("424F", framed(DEP_REQ))]))
    raise KeyError(kind)


def scenario(driver, kind):
    if kind in CLOSE_KINDS:
        return Scn(None, "IOErr")
    if driver in PN53X:
        return scenario_pn53x(driver, kind)
    return {"rcs380": scenario_rcs380, "udp": scenario_udp}[driver](driver, kind)


def kinds_of(driver):
    if driver == "rcs956":
        return tuple(k for k in OP_KINDS)
    return OP_KINDS


# ---------------------------------------------------------------------------------------------------
class _SpyLock(object):
    """the frontend lock, telling when somebody starts to wait for it"""

    def __init__(self, real):
        self.real, self.waiting = real, threading.Event()

    def __enter__(self):
        self.waiting.set()
        self.real.acquire()
        return self

    def __exit__(self, *a):
        self.real.release()

    def acquire(self, *a, **kw):
        self.waiting.set()
        return self.real.acquire(*a, **kw)

    def release(self):
        self.real.release()


def closed_while_waiting(rig, kind):
    """Another thread holds the frontend lock (as close() does) while `kind`'s call arrives; it sets device = None
    and lets go.  Deterministic: the device is taken away only after the caller reached the lock."""
    clf = rig.clf
    real, dev = clf.lock, clf.device
    spy = clf.lock = _SpyLock(real)
    clf.target = _rt("106A", sens_res=H("4400"), sel_res=b"\x00", sdd_res=UID)
    fn = {"XCLOSE": lambda: clf.exchange(b"\x30\x00", 0.1), "SCLOSE": lambda: clf.sense(_rt("106A")),
          "LCLOSE": lambda: clf.listen(_listen_target("LA2"), 0.1)}[kind]
    res = []
    real.acquire()
    t = threading.Thread(target=lambda: res.append(classify(fn)))
    t.daemon = True
    try:
        t.start()
        if not spy.waiting.wait(10):
            raise RuntimeError("the caller never reached the frontend lock")
        clf.device = None
    finally:
        real.release()
    t.join(10)
    clf.device, clf.lock, clf.target = dev, real, None
    if not res:
        return "Hang", "thread did not return", None
    return res[0]


def prepare(rig, kind):
    """Script the air for the scenario; returns (scenario, callable that performs the operation)."""
    scn = scenario(rig.driver, kind)
    if kind in CLOSE_KINDS:
        return scn, (lambda: closed_while_waiting(rig, kind))
    clf, dev = rig.clf, rig.device
    clf.target = None
    if rig.driver == "udp":
        if dev.socket is not None:                        # no RFOFF datagram from mute(): every case starts alike
            dev.socket.close()
            dev.socket = None
        dev.rcvd_data = dev.sent_data = 0
        rig.net.set_script(*scn.script)
    else:
        chip = rig.chip
        chip.set_script(scn.script)
        chip.air = None
        chip.clock = rig.clock
        if rig.driver != "rcs380":
            chip.rf_rsp, chip.rf_in, chip.rf_in_irq = b"", b"", 0x20
            chip.fifo = bytearray()
            chip.commirq = chip.divirq = 0
            chip._rx_pending = False
            chip.regs.clear()
            for k, v in scn.chip.items():
                setattr(chip, k, bytearray(v) if isinstance(v, (bytes, bytearray)) else v)
    tg = scn.target
    if mode_of(kind) == "sense":
        return scn, (lambda: clf.sense(tg))
    return scn, (lambda: clf.listen(tg, scn.timeout))


def attrs_of(t):
    return {k: bytes(v) if isinstance(v, (bytes, bytearray)) else v for k, v in t.__dict__.items()
            if not k.startswith("_")}


def classify(fn):
    """-> (outcome class, type name, value) with the classes of DriverErr for operations"""
    try:
        r = fn()
    except BaseException as e:
        if isinstance(e, nfc.clf.UnsupportedTargetError):
            return "Unsupported", type(e).__name__, e
        if type(e) is ValueError:
            return "ValueError", "ValueError", e

        def again():
            raise e
        return D.classify(again)
    if r is None:
        return "NoTarget", "None", None
    if isinstance(r, (nfc.clf.RemoteTarget, nfc.clf.LocalTarget)):
        return "Target", type(r).__name__, r
    return "Internal", "returned " + type(r).__name__, r


def same(scn, o, val):
    """the returned target is the documented one (bit rate and every attribute)"""
    if o != "Target":
        return False
    return val.brty == scn.brty and attrs_of(val) == {k: bytes(v) for k, v in scn.attrs.items()}
