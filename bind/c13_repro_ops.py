"""Stand-alone reproductions of the C13 defects in sense()/listen() with plain mocks (no simulator, no TLC):
    /venv/bin/python /verif/bind/c13_repro_ops.py        (imports nfcpy from /repo/src or $NFCPY_SRC)
Documented (nfc/clf/__init__.py sense/listen, nfc/clf/device.py): a target, None, UnsupportedTargetError, or IOError."""
import sys, logging
import os
sys.path.insert(0, os.environ.get("NFCPY_SRC", "/repo/src"))
logging.disable(logging.CRITICAL)
import nfc.clf, nfc.clf.pn532, nfc.clf.pn533, nfc.clf.rcs956, nfc.clf.rcs380, nfc.clf.udp
from unittest import mock
H = bytearray.fromhex
ACK = H("0000ff00ff00")
ERR = H("0000ff01ff7f8100")
def std(p): p = H(p); return H("0000ff") + bytearray([len(p), 256 - len(p) & 255]) + p + bytearray([256 - sum(p) & 255, 0])
def r380(p): p = H(p); return H("0000ffffff") + bytearray([len(p) & 255, len(p) >> 8, 256 - (len(p) & 255) - (len(p) >> 8) & 255]) + p + bytearray([256 - sum(p) & 255, 0])
def run(name, fn):
    try:
        r = fn(); print("%-58s returned %s" % (name, r))
    except BaseException as e:
        print("%-58s raised %s.%s: %s" % (name, type(e).__module__, type(e).__qualname__, e))

def pn53x_clf(mod, reads):
    t = mock.Mock(); t.read.side_effect = [bytearray(x) for x in reads]      # command() edits the frames in place
    dev = mod.Device.__new__(mod.Device); dev.chipset = mod.Chipset(t, logging.getLogger("x")); dev.log = dev.chipset.log
    clf = nfc.clf.ContactlessFrontend(); clf.device = dev
    return clf
OK32 = [ACK, std("d533")]                                   # RFConfiguration (mute)
LA = lambda sel: nfc.clf.LocalTarget("106A", sens_res=H("4400"), sdd_res=H("08010203"), sel_res=H(sel))
LF = lambda: nfc.clf.LocalTarget("212F", sensf_res=H("01" + "01" * 8 + "ff" * 8 + "12fc"))
# A. Chipset.Error escapes sense()/listen()
clf = pn53x_clf(nfc.clf.pn532, [ACK, ERR])
run("pn532 sense(212F): error frame to mute's RFConfiguration", lambda: clf.sense(nfc.clf.RemoteTarget("212F")))
clf = pn53x_clf(nfc.clf.pn532, OK32 + [ACK, ERR])
run("pn532 sense(212F): error frame to ReadRegister", lambda: clf.sense(nfc.clf.RemoteTarget("212F")))
clf = pn53x_clf(nfc.clf.pn533, OK32 + [ACK, std("d54b0101004400" + "0401020304"), ACK, std("d50727")])
run("pn533 sense(106A): ReadRegister status 27h", lambda: clf.sense(nfc.clf.RemoteTarget("106A")))
clf = pn53x_clf(nfc.clf.pn532, OK32 + [ACK, ERR])
run("pn532 listen(106A): error frame to WriteRegister", lambda: clf.listen(LA("00"), 0.1))
clf = pn53x_clf(nfc.clf.pn532, OK32 + [ACK, std("d509"), ACK, std("d58d08e080"), ACK, std("d59100"), ACK, std("d58900c2"),
                                          ACK, std("d59129")])
run("pn532 listen(106A/TT4): S(DESELECT) answer status 29h", lambda: clf.listen(LA("20"), 0.1))
clf = pn53x_clf(nfc.clf.rcs956, [ACK, ERR])
run("rcs956 sense(106A): error frame to mute's ResetMode", lambda: clf.sense(nfc.clf.RemoteTarget("106A")))
# B. listen_ttf: RxIRq+IdleIRq with an empty FIFO
clf = pn53x_clf(nfc.clf.pn532, OK32 + [ACK, std("d509"), ACK, std("d509"), ACK, std("d50700003000"), ACK, std("d509"),
                                          ACK, std("d50700"), ACK, std("d507")])
run("pn532 listen(212F): CIU_FIFOLevel 0 after RxIRq", lambda: clf.listen(LF(), 0.1))
# C. unsupported bit rate
clf = pn53x_clf(nfc.clf.pn532, OK32 * 3)
run("pn532 sense(212A)", lambda: clf.sense(nfc.clf.RemoteTarget("212A")))
run("pn532 sense(212B, 106A) (unsupported ones are 'ignored')", lambda: clf.sense(nfc.clf.RemoteTarget("212B"), nfc.clf.RemoteTarget("106A")))

# D. rcs380
def r380_clf(reads):
    t = mock.Mock(); t.read.side_effect = [bytearray(x) for x in reads]
    cs = nfc.clf.rcs380.Chipset.__new__(nfc.clf.rcs380.Chipset); cs.transport = t; cs.log = logging.getLogger("x")
    dev = nfc.clf.rcs380.Device.__new__(nfc.clf.rcs380.Device); dev.chipset = cs; dev.log = cs.log
    clf = nfc.clf.ContactlessFrontend(); clf.device = dev
    return clf
MUTE = [ACK, r380("d70700")]
clf = r380_clf([ACK, r380("d70701")])
run("rcs380 sense(212F): SwitchRF (mute) status 01", lambda: clf.sense(nfc.clf.RemoteTarget("212F")))
clf = r380_clf(MUTE + [ACK, r380("d70101")])
run("rcs380 sense(212F): InSetRF status 01", lambda: clf.sense(nfc.clf.RemoteTarget("212F")))
clf = r380_clf(MUTE + [ACK, r380("d70100"), ACK, r380("d70300"), ACK, r380("d70300"), H("0000ffff0000")])
run("rcs380 sense(212F): NAK instead of ACK for InCommRF", lambda: clf.sense(nfc.clf.RemoteTarget("212F")))
clf = r380_clf(MUTE + [ACK, r380("d74101")])
run("rcs380 listen(106A): TgSetRF status 01", lambda: clf.listen(LA("00"), 0.1))
clf = r380_clf(MUTE + [ACK, r380("d74100"), ACK, r380("d74300"), ACK, r380("d74300"), ACK, H("0000ffffff")])
run("rcs380 listen(106A): error frame for TgCommRF", lambda: clf.listen(LA("00"), 0.1))

# E. udp: communication errors escape listen()
def udp_clf(datagrams):
    dev = nfc.clf.udp.Device.__new__(nfc.clf.udp.Device); dev.addr = ("127.0.0.1", 1); dev.socket = mock.Mock()
    dev.socket.sendto.side_effect = lambda d, a: len(d); dev.socket.getsockname.return_value = ("0.0.0.0", 1)
    q = list(datagrams)
    dev.socket.recvfrom.side_effect = lambda n: (q.pop(0), ("127.0.0.1", 2))
    dev.sent_data = dev.rcvd_data = 0; dev._create_socket = lambda: None
    dev.mute = lambda: None
    clf = nfc.clf.ContactlessFrontend(); clf.device = dev
    return clf, q
def sel(q):
    return lambda r, w, x, t=None: ((r, [], []) if q else ([], [], []))
LB = nfc.clf.LocalTarget("106B", sensb_res=H("50e8253eec00000011008185"))
clf, q = udp_clf([b"106B 050010"])
with mock.patch("nfc.clf.udp.select.select", side_effect=sel(q)), mock.patch("nfc.clf.udp.time") as tm:
    tm.time.side_effect = iter(x / 10.0 for x in range(1000))
    run("udp listen(106B): nothing after SENSB_RES", lambda: clf.listen(LB, 1.0))
clf, q = udp_clf([b"106B 050010", b"RFOFF"])
with mock.patch("nfc.clf.udp.select.select", side_effect=sel(q)):
    run("udp listen(106B): RFOFF after SENSB_RES", lambda: clf.listen(LB, 1.0))
clf, q = udp_clf([b"106A 26"])
clf.device.socket.sendto.side_effect = lambda d, a: len(d) - 1
with mock.patch("nfc.clf.udp.select.select", side_effect=sel(q)):
    run("udp listen(106A): short sendto for SENS_RES", lambda: clf.listen(LA("00"), 1.0))

# F. well-formed response frames whose payload is shorter than the command implies (cut between chip and host)
tt4 = lambda: nfc.clf.RemoteTarget("106A", sens_res=H("4403"), sel_res=H("20"), sdd_res=H("01020304"))
clf = pn53x_clf(nfc.clf.pn532, [ACK, std("d50700")]); clf.target = tt4()
run("pn532 exchange: ReadRegister answers 1 of 3 values", lambda: clf.exchange(b"\x02", 0.1))
clf = pn53x_clf(nfc.clf.pn532, [ACK, std("d507000000"), ACK, std("d509"), ACK, std("d533"), ACK, std("d543")]); clf.target = tt4()
run("pn532 exchange: InCommunicateThru answer without status", lambda: clf.exchange(b"\x02", 0.1))
clf = pn53x_clf(nfc.clf.pn533, [ACK, std("d507")]); clf.target = tt4()
run("pn533 exchange: ReadRegister answer without status", lambda: clf.exchange(b"\x02", 0.1))
clf = pn53x_clf(nfc.clf.pn532, OK32 + [ACK, std("d509"), ACK, std("d58d")])
run("pn532 listen(106A): TgInitAsTarget answer without mode", lambda: clf.listen(LA("00"), 0.1))
clf = pn53x_clf(nfc.clf.pn532, OK32 + [ACK, std("d54b0101")])
run("pn532 sense(106A): InListPassiveTarget without target data", lambda: clf.sense(nfc.clf.RemoteTarget("106A")))
clf = r380_clf([ACK, r380("")]); clf.target = tt4()
run("rcs380 exchange: response frame with empty payload", lambda: clf.exchange(b"\x02", 0.1))
clf = r380_clf([ACK, r380("d70100"), ACK, r380("d70300"), ACK, r380("d70300"), ACK, r380("d7050000")]); clf.target = tt4()
run("rcs380 exchange: InCommRF answer with half a status", lambda: clf.exchange(b"\x02", 0.1))
