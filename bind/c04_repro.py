"""stand-alone reproductions of the C04 findings on the real nfc.dep objects over the simulated air"""
import sys; sys.path.insert(0,'/verif')
from vlib import use_repo; use_repo()
import nfc, nfc.dep, nfc.clf
from sim.air import Air

def conv(n, fates, did=None, lri=3, lrt=3, reply=1, show=True):
    air = Air(); ci, ct = air.frontends(); air.clock.install(nfc.dep, nfc.clf)
    ini, tgt = nfc.dep.Initiator(ci), nfc.dep.Target(ct)
    def fi():
        opts = dict(brs=0, acm=False, lri=lri)
        if did is not None: opts['did'] = did
        assert ini.activate(**opts) is not None
        air.script(fates)
        return ini.exchange(bytes(range(256))[:1]*n, 1.0)
    def ft():
        assert tgt.activate(timeout=5.0, lrt=lrt) is not None
        d = tgt.exchange(None, 100.0)
        return tgt.exchange(b'R'*reply, 100.0)
    try:
        res = air.run(fi, ft)
    finally:
        air.clock.uninstall()
    if show:
        for f in air.log:
            if f.data[:3].hex() in ('f0', ) or b'\xd4\x06' in f.data[:4] or b'\xd5\x07' in f.data[:4]:
                print("   ", f.n, f.dir, f.brty, f.data[:8].hex(), "len", len(f.data), f.fate)
    return res, ini, tgt, air

print("1. one corrupted ACK while the initiator is chaining (payload 300 > miu 251):")
res, ini, tgt, air = conv(300, ["deliver", "corrupt"])
print("   initiator:", res[0])
print("2. one lost frame with a DID in use:")
res, ini, tgt, air = conv(10, ["lose"], did=1)
print("   initiator:", res[0])
print("3. target response frame with DID in use, LRi=64, 61-byte reply:")
res, ini, tgt, air = conv(10, [], did=1, lri=0, reply=61, show=False)
f = [f for f in air.log if f.src == "T" and f.data[2:4] == b'\xd5\x07'][-1]
print("   target miu", tgt.miu, "frame", f.data[:6].hex(), "transport data bytes (LEN-1) =", f.data[1]-1, "> LRi = 64")
print("4. same with LRi=254: the LEN byte would be 256")
res, ini, tgt, air = conv(10, [], did=1, lri=3, reply=251, show=False)
print("   target:", res[1])
print("5. did=0 (no faults at all): the initiator sends a DID byte 0, the target holds did=None and ignores every PDU")
res, ini, tgt, air = conv(10, [], did=0)
print("   initiator:", res[0])
print("6. the same Initiator and Target objects are activated again after a session of one exchange (no faults):")
air = Air(); ci, ct = air.frontends(); air.clock.install(nfc.dep, nfc.clf)
ini, tgt = nfc.dep.Initiator(ci), nfc.dep.Target(ct)
def fi():
    for s in range(2):
        assert ini.activate(brs=0, acm=False) is not None
        ini.exchange(b"hello", 1.0)
        ini.deactivate()
    return "both sessions fine"
def ft():
    for s in range(2):
        assert tgt.activate(timeout=5.0) is not None
        r = tgt.exchange(None, 100.0)
        while r is not None:
            r = tgt.exchange(b"world", 100.0)
try:
    res = air.run(fi, ft)
finally:
    air.clock.uninstall()
print("   initiator:", res[0], " (target.pni was still 0 from the first session)")
