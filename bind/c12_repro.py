"""Stand-alone reproductions of the C12 findings against the real nfcpy code (no TLC involved).

    cd /verif && /venv/bin/python -m bind.c12_repro <name>      (NFCPY_SRC honoured)

  wtx-timeout | wtx-transmission | wtx-empty   raw error / IndexError leaves send_apdu() from the S(WTX) loop
  wtx-chaining-error | wtx-chaining-merged     S(WTX) request while the response is chained
  dup-after-failure | stale-after-failure | garbage-after-failure
                                               nothing resynchronises PCD and card after a failed exchange
Exit code 1 = defect reproduced, 0 = not reproduced.
"""
import sys
import vlib
vlib.use_repo()
import nfc, nfc.clf, nfc.tag, nfc.tag.tt4   # noqa


class ScriptedClf(object):
    """clf whose exchange() plays back a list of answers (bytes) or exceptions; logs what was sent"""
    max_send_data_size = 256
    max_recv_data_size = 256

    def __init__(self, answers):
        self.answers = list(answers)
        self.sent = []

    def exchange(self, data, timeout):
        self.sent.append(bytes(data).hex())
        a = self.answers.pop(0)
        if isinstance(a, type) and issubclass(a, Exception):
            raise a("scripted")
        return bytearray(a)


def tag_on(answers, fwi=4):
    target = nfc.clf.RemoteTarget("106A", sens_res=bytearray(b"\x44\x03"), sel_res=bytearray(b"\x20"),
                                  sdd_res=bytearray(b"\x08\x11\x22\x33"))
    ats = bytes([0x06, 0x78, 0x77, (fwi << 4) | 1, 0x02, 0x80])
    clf = ScriptedClf([ats] + list(answers))
    return nfc.tag.activate(clf, target), clf


def attempt(fn):
    try:
        r = fn()
        print("returned:", bytes(r).hex() if r is not None else r)
        return ("ret", r)
    except nfc.tag.tt4.Type4TagCommandError as e:
        print("raised Type4TagCommandError errno=%d (%s)" % (e.errno, e))
        return ("err", e.errno)
    except Exception as e:
        print("raised %s.%s: %s" % (type(e).__module__, type(e).__name__, e))
        return ("raise", type(e).__name__)


def wtx_loop(fault):
    # card answers the I-block with an S(WTX) request; the PCD's S(WTX) response (or the card's next block) is lost
    tag, clf = tag_on([b"\xF2\x01", fault])
    r = attempt(lambda: tag.send_apdu(0, 0xB0, 0, 0, mrl=2))
    print("blocks sent:", clf.sent[1:])
    return r[0] == "raise"


def wtx_chaining_error():
    # no fault at all: I(0) -> I(0, chained); R(ACK,1) -> S(WTX) request; (a correct PCD answers it and gets I(1))
    tag, clf = tag_on([b"\x12\xAA\xBB", b"\xF2\x01", b"\xF2\x01", b"\x03\xCC\x90\x00"])
    r = attempt(lambda: tag.send_apdu(0, 0xB0, 0, 0, mrl=4))
    print("blocks sent:", clf.sent[1:])
    return r[0] != "ret"


def wtx_chaining_merged():
    # I(0) -> I(0, chained); R(ACK,1) -> I(1, chained); R(ACK,0) -> S(WTX) request: bit 0 of F2h equals pni (0), the
    # request is appended to the response as if it were data, and R(ACK,1) goes out instead of the S(WTX) response
    tag, clf = tag_on([b"\x12\xAA", b"\x13\xBB", b"\xF2\x01", b"\x03\xCC\x90\x00"])
    r = attempt(lambda: tag.send_apdu(0, 0xB0, 0, 0, mrl=4))
    print("blocks sent:", clf.sent[1:], "(the third answer was an S(WTX) request, answered with R(ACK))")
    return r[0] == "ret" and bytes(r[1]) != b"\xAA\xBB\xCC"


def after_failure(kind):
    from bind import c12
    if kind == "dup":
        # exchange 1: card executes, its answer is lost twice (n_retry = 1) -> TIMEOUT_ERROR; exchange 2: the answer
        # is lost once, R(NAK) is answered R(ACK) (numbers out of step) and the PCD sends the APDU a second time
        sc = c12.base_script(("A", 8, 11, 256, 256, None), [["apdu", 10, 8, "send_apdu"], ["apdu", 12, 6, "send_apdu"]],
                             fates=["deliver", "lose", "deliver", "lose", "deliver", "lose"])
    elif kind == "stale":
        # exchange 1 as above; exchange 2: the I-block is lost, R(NAK) makes the card repeat its LAST block = old answer
        sc = c12.base_script(("A", 8, 11, 256, 256, None), [["apdu", 10, 8, "send_apdu"], ["apdu", 12, 6, "send_apdu"]],
                             fates=["deliver", "lose", "deliver", "lose", "lose"])
    else:
        # exchange 1 fails after the first block of a chained command was acknowledged; exchange 2's command is
        # appended to that block by the card
        sc = c12.base_script(("A", 0, 14, 256, 256, None), [["apdu", 20, 8, "send_apdu"], ["apdu", 12, 6, "send_apdu"]],
                             fates=["deliver", "deliver", "lose"])
    rig = c12.run_script(sc, "r")
    for e in rig.ev:
        if e["e"] in ("Start", "End"):
            print(e)
        elif e["e"] == "Send":
            print("   PCD ->", e["b"]["t"], e["b"]["bn"], "apdu", e["b"]["a"])
        elif e["e"] == "ToCard":
            print("        fate", e["f"], "card executes" if e["ex"] else "", e["ex"] or "", "card ->", e["rep"]["t"],
                  e["rep"]["bn"], ("response of apdu %d" % e["rep"]["a"]) if e["rep"]["t"] == "I" else "")
        else:
            print("        fate", e["f"])
    print("card executed (apdu ids, -1 = a command that was never sent):", rig.card.executed)
    ends = [e for e in rig.ev if e["e"] == "End"]
    if kind == "dup":
        return rig.card.executed.count(2) > 1
    if kind == "stale":
        return ends[-1]["res"] == "ret" and not ends[-1]["ok"]
    return -1 in rig.card.executed


def main(name):
    if name == "wtx-timeout":
        return wtx_loop(nfc.clf.TimeoutError)
    if name == "wtx-transmission":
        return wtx_loop(nfc.clf.TransmissionError)
    if name == "wtx-empty":
        return wtx_loop(b"")
    if name == "wtx-chaining-error":
        return wtx_chaining_error()
    if name == "wtx-chaining-merged":
        return wtx_chaining_merged()
    if name in ("dup-after-failure", "stale-after-failure", "garbage-after-failure"):
        return after_failure(name.split("-")[0])
    raise SystemExit(__doc__)


if __name__ == "__main__":
    bad = main(sys.argv[1] if len(sys.argv) > 1 else "")
    print("DEFECT REPRODUCED" if bad else "not reproduced")
    sys.exit(1 if bad else 0)
