"""C09 -- when the LLCP link ends no application thread is left waiting.

Binding: the real LogicalLinkController run loop and real sockets run under the deterministic baton
scheduler (sim/sched.py) against a scripted peer (bind/llc_peer.py); schedules are enumerated
systematically up to a preemption bound and sampled at random beyond; the scheduler's blocked-on map is
the direct oracle for "blocked forever"; thread deaths and results are events validated against
spec/LlcpLife.tla by TLC (Trace_LlcpLife).
"""
import collections, traceback
import os, sys, json, errno, random, itertools, threading, traceback
import multiprocessing as mp
from vlib import tlc, check
from sim import sched as S
from bind import llc_peer as LP

import nfc.llcp
import nfc.llcp.pdu as pdu
import nfc.llcp.err

PID = "C09"
CAUSES = ("disc", "none", "term", "ioerr")
DISRUPTIONS = ("broken", "xmit", "proto", "garbage")


class Ctx(object):
    def __init__(self, sch, llc):
        self.sch, self.llc = sch, llc
        self.down = False
        self.phase = "up"       # up -> terminating (llc.terminate entered) -> down (run loop left)
        self.bound = {}         # socket id -> phase in which llc.bind() for it returned
        self.cur = {}           # logical thread -> socket id of its current call
        self.incall = {}        # logical thread -> inside a public call right now
        self.sid_of = {}        # id(tco) -> socket id
        self.cv = sch.threading_shim().Condition()
        self.ev = []            # abstract events for the trace
        self.results = {}

    def emit(self, *rec):
        self.ev.append(rec)


MODELLED = ("recvfrom", "poll_recv", "accept", "connect", "recv")


def know(ctx, sock, sid):
    """associate a Socket's transmission control object with its id in the trace"""
    tco = getattr(sock, "_tco", None)
    if tco is not None and id(tco) not in ctx.sid_of:
        ctx.sid_of[id(tco)] = sid
        ctx.keep = getattr(ctx, "keep", []) + [tco]
        for _ in range(len(tco.recv_queue)):        # deliveries that happened before we knew the id
            ctx.emit("Deliver", "-", sid, "-", "-")


def call(ctx, t, op, sid, fn, sock=None):
    """run one public socket call and record Call / Ret with an abstract result class"""
    ctx.sch.yield_point()
    late = ctx.phase
    ctx.cur[t] = sid
    if sock is not None:
        know(ctx, sock, sid)
    ctx.emit("Call", t, sid, op, "-")
    ctx.incall[t] = True
    try:
        v = fn()
        # recv() -> None and poll("recv") -> False/None (DataLinkConnection.poll falls through to None when the
        # socket was shut down while it waited) are the documented "nothing will arrive any more" results
        bad = v is None and op in ("recv", "poll_recv") or v is False and op == "poll_recv"
        r = ("ok", "error" if bad else "data")
        return v
    except nfc.llcp.Error as e:
        r = ("llcp", "error")
        raise
    except S.SchedAbort:
        r = ("blocked", "blocked")
        raise
    except BaseException as e:
        r = ("exc", "exc:" + type(e).__name__)
        if os.environ.get("C09_TRACEBACK"):
            traceback.print_exc()
        raise
    finally:
        ctx.incall[t] = False
        if r[0] != "blocked":
            ctx.emit("Ret", t, sid, op, r[1])
        ctx.results.setdefault(t, []).append((op, sid, r, late, ctx.bound.get(sid, "never")))


def wait_down(ctx):
    with ctx.cv:
        while not ctx.down:
            ctx.cv.wait()


# ---- application programs -----------------------------------------------------------------------
def P_ldl_recv(ctx, t):
    s = nfc.llcp.Socket(ctx.llc, nfc.llcp.LOGICAL_DATA_LINK)
    call(ctx, t, "bind", "ldl1", lambda: s.bind(33), sock=s)
    call(ctx, t, "recvfrom", "ldl1", s.recvfrom, sock=s)
    call(ctx, t, "recvfrom", "ldl1", s.recvfrom, sock=s)


def P_ldl_poll(ctx, t):
    s = nfc.llcp.Socket(ctx.llc, nfc.llcp.LOGICAL_DATA_LINK)
    call(ctx, t, "bind", "ldl2", lambda: s.bind(34), sock=s)
    call(ctx, t, "poll_recv", "ldl2", lambda: s.poll("recv"), sock=s)
    call(ctx, t, "poll_recv", "ldl2", lambda: s.poll("recv"), sock=s)


def P_dlc_client(ctx, t):
    s = nfc.llcp.Socket(ctx.llc, nfc.llcp.DATA_LINK_CONNECTION)
    call(ctx, t, "connect", "dlc1", lambda: s.connect(20), sock=s)
    call(ctx, t, "send", "dlc1", lambda: s.send(b"hello"), sock=s)
    call(ctx, t, "send", "dlc1", lambda: s.send(b"world"), sock=s)
    call(ctx, t, "poll_acks", "dlc1", lambda: s.poll("acks"), sock=s)
    call(ctx, t, "recv", "dlc1", s.recv, sock=s)
    call(ctx, t, "close", "dlc1", s.close, sock=s)


def P_dlc_client_name(ctx, t):
    s = nfc.llcp.Socket(ctx.llc, nfc.llcp.DATA_LINK_CONNECTION)
    call(ctx, t, "connect", "dlc3", lambda: s.connect(b"urn:nfc:sn:svc"), sock=s)
    call(ctx, t, "recv", "dlc3", s.recv, sock=s)


def P_dlc_server(ctx, t):
    s = nfc.llcp.Socket(ctx.llc, nfc.llcp.DATA_LINK_CONNECTION)
    c = None
    try:
        call(ctx, t, "bind", "dlc2", lambda: s.bind(b"urn:nfc:sn:dut"), sock=s)
        call(ctx, t, "listen", "dlc2", lambda: s.listen(1), sock=s)
        c = call(ctx, t, "accept", "dlc2", s.accept, sock=s)
        know(ctx, c, "dlc2c")        # (already known: Adopt is logged by the insert_socket wrapper)
        call(ctx, t, "recv", "dlc2c", c.recv, sock=c)
        call(ctx, t, "send", "dlc2c", lambda: c.send(b"reply"), sock=c)
    finally:
        # what every service thread does (SnepServer._serve, HandoverServer.serve: `finally: socket.close()`)
        if c is not None:
            try:
                call(ctx, t, "close", "dlc2c", c.close, sock=c)
            except nfc.llcp.Error:
                pass


def P_dlc_poll_recv(ctx, t):
    s = nfc.llcp.Socket(ctx.llc, nfc.llcp.DATA_LINK_CONNECTION)
    call(ctx, t, "connect", "dlc4", lambda: s.connect(20), sock=s)
    call(ctx, t, "poll_recv", "dlc4", lambda: s.poll("recv"), sock=s)
    call(ctx, t, "poll_recv", "dlc4", lambda: s.poll("recv"), sock=s)


def P_dlc_poll_acks(ctx, t):
    s = nfc.llcp.Socket(ctx.llc, nfc.llcp.DATA_LINK_CONNECTION)
    call(ctx, t, "connect", "dlc5", lambda: s.connect(20), sock=s)
    call(ctx, t, "send", "dlc5", lambda: s.send(b"one"), sock=s)
    call(ctx, t, "poll_acks", "dlc5", lambda: s.poll("acks"), sock=s)
    call(ctx, t, "poll_acks", "dlc5", lambda: s.poll("acks"), sock=s)
    call(ctx, t, "poll_acks", "dlc5", lambda: s.poll("acks"), sock=s)


def P_dlc_poll_send(ctx, t):
    s = nfc.llcp.Socket(ctx.llc, nfc.llcp.DATA_LINK_CONNECTION)
    call(ctx, t, "connect", "dlc6", lambda: s.connect(20), sock=s)
    for i in range(2):
        call(ctx, t, "send", "dlc6", lambda: s.send(b"data", nfc.llcp.MSG_DONTWAIT), sock=s)
        call(ctx, t, "poll_send", "dlc6", lambda: s.poll("send"), sock=s)
    call(ctx, t, "poll_send", "dlc6", lambda: s.poll("send"), sock=s)


def P_resolve(ctx, t):
    s = nfc.llcp.Socket(ctx.llc, nfc.llcp.DATA_LINK_CONNECTION)
    call(ctx, t, "resolve", "sd", lambda: s.resolve(b"urn:nfc:sn:svc"), sock=s)
    call(ctx, t, "resolve", "sd", lambda: s.resolve(b"urn:nfc:sn:other"), sock=s)


def _silent_resolver(name):
    # several threads wait in resolve() for names the peer never answers when the link ends: every one of them must
    # come back (None), not only the first that is woken
    def prog(ctx, t):
        s = nfc.llcp.Socket(ctx.llc, nfc.llcp.DATA_LINK_CONNECTION)
        call(ctx, t, "resolve", "sd", lambda: s.resolve(name), sock=s)
    return prog


P_resolve_a, P_resolve_b, P_resolve_c = (_silent_resolver(b"urn:nfc:sn:quiet-a"), _silent_resolver(b"urn:nfc:sn:quiet-b"),
                                         _silent_resolver(b"urn:nfc:sn:quiet-c"))


def P_poll_send(ctx, t):
    s = nfc.llcp.Socket(ctx.llc, nfc.llcp.LOGICAL_DATA_LINK)
    call(ctx, t, "bind", "ldl3", lambda: s.bind(36), sock=s)
    for i in range(3):
        call(ctx, t, "sendto", "ldl3", lambda: s.sendto(b"dgram", 21), sock=s)
    call(ctx, t, "poll_send", "ldl3", lambda: s.poll("send"), sock=s)


# calls issued after the link has terminated
def P_late_connect(ctx, t):
    wait_down(ctx)
    s = nfc.llcp.Socket(ctx.llc, nfc.llcp.DATA_LINK_CONNECTION)
    call(ctx, t, "connect", "fresh", lambda: s.connect(20), sock=s)


def P_late_resolve(ctx, t):
    wait_down(ctx)
    s = nfc.llcp.Socket(ctx.llc, nfc.llcp.DATA_LINK_CONNECTION)
    call(ctx, t, "resolve", "sd", lambda: s.resolve(b"urn:nfc:sn:svc"), sock=s)


def P_late_accept(ctx, t):
    wait_down(ctx)
    s = nfc.llcp.Socket(ctx.llc, nfc.llcp.DATA_LINK_CONNECTION)
    call(ctx, t, "listen", "fresh", lambda: s.listen(1), sock=s)
    call(ctx, t, "accept", "fresh", s.accept, sock=s)


def P_late_recvfrom(ctx, t):
    wait_down(ctx)
    s = nfc.llcp.Socket(ctx.llc, nfc.llcp.LOGICAL_DATA_LINK)
    call(ctx, t, "recvfrom", "fresh", s.recvfrom, sock=s)


def P_late_bound_recvfrom(ctx, t):
    wait_down(ctx)
    s = nfc.llcp.Socket(ctx.llc, nfc.llcp.LOGICAL_DATA_LINK)
    call(ctx, t, "bind", "fresh", lambda: s.bind(), sock=s)
    call(ctx, t, "recvfrom", "fresh", s.recvfrom, sock=s)


def P_late_sendto(ctx, t):
    wait_down(ctx)
    s = nfc.llcp.Socket(ctx.llc, nfc.llcp.LOGICAL_DATA_LINK)
    call(ctx, t, "sendto", "fresh", lambda: s.sendto(b"x", 21), sock=s)


def P_early_then_late(ctx, t):
    """socket bound while the link is up, used after it went down"""
    s = nfc.llcp.Socket(ctx.llc, nfc.llcp.LOGICAL_DATA_LINK)
    call(ctx, t, "bind", "ldl4", lambda: s.bind(37), sock=s)
    wait_down(ctx)
    call(ctx, t, "recvfrom", "ldl4", s.recvfrom, sock=s)
    call(ctx, t, "poll_recv", "ldl4", lambda: s.poll("recv"), sock=s)
    call(ctx, t, "sendto", "ldl4", lambda: s.sendto(b"x", 21), sock=s)


def P_dlc_server2(ctx, t):
    # a listening socket with two accepted connections: the peer disconnects the older one (recv() -> None, the
    # application does not close it yet), the thread then waits on the younger one and the link ends
    s = nfc.llcp.Socket(ctx.llc, nfc.llcp.DATA_LINK_CONNECTION)
    call(ctx, t, "bind", "dlc2", lambda: s.bind(b"urn:nfc:sn:dut"), sock=s)
    call(ctx, t, "listen", "dlc2", lambda: s.listen(2), sock=s)
    c1 = call(ctx, t, "accept", "dlc2", s.accept, sock=s)
    know(ctx, c1, "dlc2c")
    c2 = call(ctx, t, "accept", "dlc2", s.accept, sock=s)
    know(ctx, c2, "dlc2cc")
    call(ctx, t, "recv", "dlc2c", c1.recv, sock=c1)
    call(ctx, t, "recv", "dlc2cc", c2.recv, sock=c2)
    call(ctx, t, "recv", "dlc2cc", c2.recv, sock=c2)


def P_dlc_server_drop(ctx, t):
    # a server that stops listening while the connection it accepted is still in use (one-shot services do that): the
    # listening socket leaves an access point that keeps another socket, which the link loop walks in every cycle
    # (sendack / dequeue / enqueue); the reader blocked on the accepted connection must come back when the link ends
    s = nfc.llcp.Socket(ctx.llc, nfc.llcp.DATA_LINK_CONNECTION)
    call(ctx, t, "bind", "dlc2", lambda: s.bind(b"urn:nfc:sn:dut"), sock=s)
    call(ctx, t, "listen", "dlc2", lambda: s.listen(1), sock=s)
    c = call(ctx, t, "accept", "dlc2", s.accept, sock=s)
    know(ctx, c, "dlc2c")
    call(ctx, t, "close", "dlc2", s.close, sock=s)
    call(ctx, t, "recv", "dlc2c", c.recv, sock=c)
    call(ctx, t, "recv", "dlc2c", c.recv, sock=c)


def P_wks_clash(ctx, t):
    # a raw access point bound by number to a well-known address, then a bind by the well-known NAME of that address
    # (must be refused: EADDRINUSE); the first socket keeps being served: a reader blocked on it comes back at link end
    import nfc.llcp.llc as llc_mod
    r = nfc.llcp.Socket(ctx.llc, llc_mod.RAW_ACCESS_POINT)
    call(ctx, t, "bind", "raw4", lambda: r.bind(4), sock=r)
    n = nfc.llcp.Socket(ctx.llc, nfc.llcp.DATA_LINK_CONNECTION)
    try:
        call(ctx, t, "bind", "wks", lambda: n.bind(b"urn:nfc:sn:snep"), sock=n)
    except nfc.llcp.Error:
        pass
    call(ctx, t, "recv", "raw4", r.recv, sock=r)


def _rejected_client(sid):
    # a connection that gets frame-rejected while the application waits in recv(): by the peer's FRMR, by an I PDU with
    # a wrong N(S) (the local side sends FRMR) or by a connection-less PDU addressed to it - the socket shuts itself
    # down; later the link ends.  The blocked call must come back in every case.
    def prog(ctx, t):
        s = nfc.llcp.Socket(ctx.llc, nfc.llcp.DATA_LINK_CONNECTION)
        call(ctx, t, "connect", sid, lambda: s.connect(20), sock=s)
        call(ctx, t, "recv", sid, s.recv, sock=s)
        call(ctx, t, "recv", sid, s.recv, sock=s)
    return prog


P_dlc_frmr_peer, P_dlc_frmr_local, P_dlc_frmr_ui = _rejected_client("dlc7"), _rejected_client("dlc8"), _rejected_client("dlc9")

PROGRAMS = dict(dlc_server_drop=P_dlc_server_drop, resolve_a=P_resolve_a, resolve_b=P_resolve_b, resolve_c=P_resolve_c, wks_clash=P_wks_clash, dlc_server2=P_dlc_server2, dlc_frmr_peer=P_dlc_frmr_peer, dlc_frmr_local=P_dlc_frmr_local, dlc_frmr_ui=P_dlc_frmr_ui,
                ldl_recv=P_ldl_recv, ldl_poll=P_ldl_poll, dlc_client=P_dlc_client, dlc_client_name=P_dlc_client_name,
                dlc_server=P_dlc_server, resolve=P_resolve, poll_send=P_poll_send,
                dlc_poll_recv=P_dlc_poll_recv, dlc_poll_acks=P_dlc_poll_acks, dlc_poll_send=P_dlc_poll_send,
                late_connect=P_late_connect, late_resolve=P_late_resolve, late_accept=P_late_accept,
                late_recvfrom=P_late_recvfrom, late_bound_recvfrom=P_late_bound_recvfrom,
                late_sendto=P_late_sendto, early_then_late=P_early_then_late)


def peer_for(progs, cut):
    script = {}
    if "dlc_server_drop" in progs:
        script[3] = [pdu.Connect(16, 40, 128, 1)]
        script[7] = [pdu.Information(16, 40, 0, 0, b"ping")]
    if "dlc_server" in progs:
        # the peer connects to the DUT's named service (address 16: first free in the named range)
        script[3] = [pdu.Connect(16, 40, 128, 1)]
        script[6] = [pdu.Information(16, 40, 0, 0, b"ping")]
    if "dlc_server2" in progs:
        script[3] = [pdu.Connect(16, 40, 128, 1)]
        script[5] = [pdu.Connect(16, 41, 128, 1)]
        script[8] = [pdu.Disconnect(16, 40)]
    # frame rejects of an established connection (the DUT's client socket gets the first dynamic address, 32)
    if "dlc_frmr_peer" in progs:
        script[5] = [pdu.FrameReject(32, 20, 0x8, 12, 0, 0, 0, 0, 0, 0)]
    if "dlc_frmr_local" in progs:
        script[5] = [pdu.Information(32, 20, 7, 0, b"out of sequence")]
    if "dlc_frmr_ui" in progs:
        script[5] = [pdu.UnnumberedInformation(32, 20, b"datagram to a connection")]
    if "ldl_recv" in progs:
        script[4] = [pdu.UnnumberedInformation(33, 41, b"dgram1")]
    if "ldl_poll" in progs:
        script[5] = [pdu.UnnumberedInformation(34, 41, b"dgram2")]
    return LP.PeerModel(script=script, answer_snl=not any(x.startswith("resolve_") for x in progs))


def run_scenario(progs, cause, cut, chooser, max_steps=6000):
    """one execution; returns dict(outcome, blocked, threads, events, picks)"""
    import nfc.llcp.tco as tco_mod
    sch = S.Sched(chooser, max_steps=max_steps)
    LP.install(sch)
    saved = {}
    try:
        peer = peer_for(progs, cut)
        mac = LP.ScriptMac(sch, peer, cut=cut, cause=cause, max_exchanges=60)
        llc = LP.make_llc(mac)
        ctx = Ctx(sch, llc)

        def lname():
            c = sch.cur
            return c.name.split("#")[0] if c is not None else "-"

        # -- scheduler events of application threads inside a public call --------------------
        def observer(rec):
            step, tname, ev, detail = rec
            base = tname.split("#")[0]
            if ctx.incall.get(base):
                if ev == "wait":
                    ctx.emit("Wait", base, ctx.cur.get(base, "-"), "-", "-")
                elif ev == "wake":
                    ctx.emit("Wake", base, ctx.cur.get(base, "-"), "-", "-")
        sch.observer = observer

        # -- link side hooks (wrappers from the harness; nothing in /repo is touched) ------------
        def wrap_enqueue(cls):
            orig = cls.enqueue
            saved[(cls, "enqueue")] = orig

            def enqueue(self, rcvd_pdu):
                with self.lock:
                    n0 = len(self.recv_queue)
                    r = orig(self, rcvd_pdu)
                    sid = ctx.sid_of.get(id(self))
                    if sid is not None:
                        for _ in range(max(0, len(self.recv_queue) - n0)):
                            ctx.emit("Deliver", "-", sid, "-", "-")
                    return r
            cls.enqueue = enqueue
        for cls in (tco_mod.RawAccessPoint, tco_mod.LogicalDataLink, tco_mod.DataLinkConnection):
            wrap_enqueue(cls)

        orig_close = tco_mod.TransmissionControlObject.close
        saved[(tco_mod.TransmissionControlObject, "close")] = orig_close

        def close(self):
            with self.lock:
                orig_close(self)
                sid = ctx.sid_of.get(id(self))
                if sid is not None:
                    kind = "Shutdown" if (lname() == "run" and ctx.phase == "terminating") else "AppClose"
                    ctx.emit(kind, "-", sid, "-", "-")
        tco_mod.TransmissionControlObject.close = close

        orig_terminate = llc.terminate

        def terminate(reason):
            ctx.phase = "terminating"
            ctx.emit("TermBegin", "-", "-", "-", str(reason))
            try:
                return orig_terminate(reason)
            finally:
                ctx.emit("TermEnd", "-", "-", "-", "-")
                ctx.phase = "down"
        llc.terminate = terminate

        def runloop():
            try:
                llc.run(terminate=mac.terminate_cb)
            finally:
                with ctx.cv:
                    ctx.down = True
                    ctx.phase = "down"
                    ctx.cv.notify_all()

        orig_bind = llc.bind

        def bind(socket, addr_or_name=None):
            with llc.lock:                  # log while the SAP table change is not yet visible to others
                try:
                    return orig_bind(socket, addr_or_name)
                finally:
                    if socket.addr is not None:
                        t = lname()
                        sid = ctx.cur.get(t, "?")
                        ctx.sid_of.setdefault(id(socket), sid)
                        if sid not in ctx.bound:
                            ctx.bound[sid] = ctx.phase
                            ctx.emit("Bound", t, sid, "-", ctx.phase)
        llc.bind = bind

        # accept(): the connection is registered at the listener's access point (insert_socket) - logged there, under
        # the controller lock, as Adopt(thread, connection, listener); LlcpLife!Adopt demands a live access point
        import nfc.llcp.llc as llc_mod
        orig_insert = llc_mod.ServiceAccessPoint.insert_socket
        saved[(llc_mod.ServiceAccessPoint, "insert_socket")] = orig_insert

        def insert_socket(self, socket):
            with self.llc.lock:
                r = orig_insert(self, socket)
                if id(socket) not in ctx.sid_of:
                    lst = [ctx.sid_of.get(id(x)) for x in self.sock_list if x is not socket and id(x) in ctx.sid_of]
                    if lst and socket.addr is not None:
                        lsid = min(lst, key=len)                      # the listener (adopted sockets append "c"s)
                        sid = lsid + "c" * (1 + sum(1 for v in ctx.sid_of.values() if v.startswith(lsid + "c")))
                        ctx.sid_of[id(socket)] = sid
                        ctx.keep = getattr(ctx, "keep", []) + [socket]
                        ctx.emit("Adopt", lname(), sid, lsid, "-")
                return r
        llc_mod.ServiceAccessPoint.insert_socket = insert_socket

        # registry discipline: LlcpLife's Adopt / Close / Shutdown actions are single steps because the code changes an
        # access point's socket list only while it holds the controller lock (the link loop walks those lists under the
        # same lock in every cycle: enqueue, dequeue, sendack).  Every mutation of a socket list by a thread that does not
        # own the controller lock is recorded - it is a step the specification has no action for.
        orig_sap_init = llc_mod.ServiceAccessPoint.__init__
        saved[(llc_mod.ServiceAccessPoint, "__init__")] = orig_sap_init
        ctx.unlocked = []

        class GuardedList(collections.deque):
            sap = None

            def _chk(self, op):
                lk = self.sap.llc.lock
                owned = lk._is_owned() if hasattr(lk, "_is_owned") else True
                if not owned and sch.in_logical():
                    ctx.unlocked.append((op, lname(), " < ".join(
                        "%s:%s" % (f.name, f.lineno) for f in reversed(traceback.extract_stack()[-5:-2]))))

        def _guard(name):
            base_m = getattr(collections.deque, name)

            def m(self, *a, **k):
                self._chk(name)
                return base_m(self, *a, **k)
            return m
        for _n in ("append", "appendleft", "remove", "pop", "popleft", "clear", "extend", "extendleft", "insert", "rotate",
                   "reverse", "__delitem__", "__setitem__", "__iadd__"):
            setattr(GuardedList, _n, _guard(_n))

        def sap_init(self, addr, llc_):
            orig_sap_init(self, addr, llc_)
            g = GuardedList(self.sock_list)
            g.sap = self
            self.sock_list = g
        llc_mod.ServiceAccessPoint.__init__ = sap_init

        # the same rule one level down: a socket's send and receive queues change only under that socket's lock (the
        # waits of send()/recv()/poll()/accept()/connect() and the link loop's enqueue()/dequeue() all rely on it - a
        # PDU queued or taken outside the lock can be missed by a thread that has just checked the queue and is about
        # to wait: the lost wake-up that leaves it blocked when nothing else arrives)
        orig_tco_init = tco_mod.TransmissionControlObject.__init__
        saved[(tco_mod.TransmissionControlObject, "__init__")] = orig_tco_init
        ctx.unlocked_q = []

        class GuardedQueue(collections.deque):
            tco, qname = None, "?"

            def _chk(self, op):
                lk = self.tco.lock
                owned = lk._is_owned() if hasattr(lk, "_is_owned") else True
                if not owned and sch.in_logical():
                    ctx.unlocked_q.append((self.qname + "." + op, lname(), " < ".join(
                        "%s:%s" % (f.name, f.lineno) for f in reversed(traceback.extract_stack()[-5:-2]))))
        for _n in ("append", "appendleft", "remove", "pop", "popleft", "clear", "extend", "extendleft", "insert"):
            setattr(GuardedQueue, _n, _guard(_n))

        def tco_init(self, *a, **k):
            orig_tco_init(self, *a, **k)
            for qn in ("send_queue", "recv_queue"):
                g = GuardedQueue(getattr(self, qn))
                g.tco, g.qname = self, qn
                setattr(self, qn, g)
        tco_mod.TransmissionControlObject.__init__ = tco_init

        # linearisation point of the modelled calls: the base class recv()/poll("recv") critical section
        base = tco_mod.TransmissionControlObject
        orig_recv, orig_poll = base.recv, base.poll
        saved[(base, "recv")] = orig_recv
        saved[(base, "poll")] = orig_poll

        def took(self, what):
            sid = ctx.sid_of.get(id(self))
            t = lname()
            if sid is not None and ctx.incall.get(t):
                ctx.emit("Took", t, sid, "-", what)

        def recv(self):
            with self.lock:
                try:
                    r = orig_recv(self)
                except IndexError:
                    took(self, "error")
                    raise
                took(self, "data")
                return r

        def poll(self, event, timeout):
            with self.lock:
                r = orig_poll(self, event, timeout)
                if event == "recv":
                    took(self, "data" if r is not None else "error")
                return r
        base.recv, base.poll = recv, poll

        sch.spawn(runloop, "run")
        for p in progs:
            sch.spawn((lambda p=p: PROGRAMS[p](ctx, p)), p)
        outcome = sch.run()
        ctx.emit("End", "-", "-", "-", outcome)
        blocked = {}
        if outcome != "done":
            for t in sch.threads:
                if t.exc == "abort":
                    blocked[t.name] = where_blocked(t) + " @ " + " < ".join(sch.stacks.get(t.name, [])[:4])
        threads = {}
        for t in sch.threads:
            e = t.exc
            threads[t.name] = "ok" if e is None else ("blocked" if e == "abort" else type(e).__name__)
        return dict(outcome=outcome, blocked=blocked, threads=threads, events=ctx.ev,
                    results=ctx.results, picks=list(chooser.picks), steps=sch.step,
                    fan=getattr(chooser, "fan", None), taken=getattr(chooser, "taken", None),
                    exchanges=mac.n, unlocked=sorted(set(ctx.unlocked)), unlocked_q=sorted(set(ctx.unlocked_q)))
    finally:
        for (cls, name), orig in saved.items():
            setattr(cls, name, orig)
        LP.uninstall()


def where_blocked(t):
    on = t.on
    return "%s:%s" % (t.state, getattr(on, "label", getattr(on, "name", repr(on))))


# ---- verdict of one execution ------------------------------------------------------------------------
DOCUMENTED_EXC = {"run": {"SystemExit"}}      # llc.run() turns IOError into SystemExit by design


def judge(progs, cause, cut, res):
    """yield (key, what) for every violation of C09 in one execution"""
    for op, tname, where in res.get("unlocked", ()):
        yield ("registry:socket-list-%s-outside-controller-lock" % op,
               "thread %s changed an access point's socket list (%s) without holding the controller lock, at %s: the link "
               "loop walks that list under the lock in every cycle (RuntimeError 'deque mutated during iteration' ends the "
               "loop without terminate(), every blocked socket call then waits forever); cause=%s cut=%s" % (
                   tname, op, where, cause, cut))
    for op, tname, where in res.get("unlocked_q", ()):
        yield ("registry:%s-outside-socket-lock@%s" % (op, where.split(" < ")[0].split(":")[0]),
               "thread %s changed a socket queue (%s) without holding the socket lock, at %s: a thread that has just found the "
               "queue empty and is about to wait misses the wake-up; cause=%s cut=%s" % (tname, op, where, cause, cut))
    if res["outcome"] == "steps":
        yield ("livelock:%s" % "+".join(progs), "step budget exhausted: %s" % res["threads"])
        return
    for t, st in sorted(res["threads"].items()):
        base = t.split("#")[0]
        ops = res["results"].get(base, [])
        last = ops[-1] if ops else ("?", "?", ("?", "?"), "?", "?")
        op, sid, r, phase, bphase = last
        if st == "blocked":
            where = ("socket-bound-to-terminated-controller" if bphase in ("terminating", "down", "never")
                     else "socket-bound-while-link-up:called-%s" % phase)
            yield ("hang:%s:%s" % (op, where),
                   "thread %s never returns from %s(%s); blocked on %s; cause=%s cut=%s" % (
                       t, op, sid, res["blocked"].get(t), cause, cut))
        elif st not in ("ok", "Error", "ConnectRefused"):
            if st in DOCUMENTED_EXC.get(base, ()):
                continue
            yield ("exc:%s:%s:called-%s" % (op, st, phase),
                   "thread %s died with %s in %s(%s); cause=%s cut=%s" % (t, st, op, sid, cause, cut))


# ---- exploration --------------------------------------------------------------------------------
def dfs(progs, cause, cut, bound, budget):
    """stateless systematic exploration: all schedules with at most `bound` preemptions
    (a preemption = choosing a thread other than the default at a step with several enabled)."""
    runs = 0
    stack = [[]]
    seen = set()
    while stack and runs < budget:
        prefix = stack.pop()
        ch = S.PrefixChooser(prefix)
        res = run_scenario(progs, cause, cut, ch)
        runs += 1
        yield prefix, res
        taken, fan = res["taken"], res["fan"]
        # count preemptions in the prefix actually used
        used = len(prefix)
        npre = sum(1 for i in range(min(used, len(taken))) if _is_preempt(taken, fan, i))
        if npre >= bound:
            continue
        for i in range(len(taken) - 1, used - 1, -1):
            if fan[i] > 1:
                for alt in range(fan[i]):
                    if alt != taken[i]:
                        new = taken[:i] + [alt]
                        key = tuple(new)
                        if key not in seen:
                            seen.add(key)
                            stack.append(new)


def _is_preempt(taken, fan, i):
    return fan[i] > 1 and i < len(taken) and taken[i] != 0 and True


def targeted(progs, cause, cut, limit):
    """'the link terminates while another thread is about to enter / is inside a socket call': for every scheduling
    point k of an application thread, preempt there and let the run loop run to completion first."""
    base = S.PreemptAtChooser(10 ** 9, "run")
    res0 = run_scenario(progs, cause, cut, base)
    yield res0
    pts = [k for (k, name) in base.points if name != "run" and name != "-"]
    if len(pts) > limit:
        step = len(pts) / float(limit)
        pts = sorted(set(pts[int(i * step)] for i in range(limit)))
    for k in pts:
        yield run_scenario(progs, cause, cut, S.PreemptAtChooser(k, "run"))


SCENARIOS_QUICK = [
    ("ldl_recv",), ("ldl_poll",), ("dlc_client",), ("dlc_server",), ("resolve",), ("dlc_client_name",),
    ("poll_send",), ("late_connect",), ("late_resolve",), ("late_accept",), ("late_recvfrom",),
    ("late_bound_recvfrom",), ("late_sendto",), ("early_then_late",),
    ("dlc_poll_recv",), ("dlc_poll_acks",), ("dlc_poll_send",),
    ("dlc_frmr_peer",), ("dlc_frmr_local",), ("dlc_frmr_ui",), ("dlc_server2",), ("wks_clash",), ("dlc_server_drop",),
    ("dlc_server_drop", "ldl_recv"),
    ("resolve_a", "resolve_b"), ("resolve_a", "resolve_b", "resolve_c"),
    ("ldl_recv", "dlc_client"), ("dlc_server", "resolve"), ("ldl_poll", "dlc_client_name"),
]


def _work(job):
    kind, progs, cause, cut, arg = job
    out = []
    try:
        if kind == "rand":
            res = run_scenario(progs, cause, cut, S.RandomChooser(arg))
            out.append((dict(kind=kind, progs=progs, cause=cause, cut=cut, picks=res["picks"]), res))
        elif kind == "target":
            for res in targeted(progs, cause, cut, arg):
                out.append((dict(kind="replay", progs=progs, cause=cause, cut=cut, picks=res["picks"]), res))
        else:
            bound, budget = arg
            for prefix, res in dfs(progs, cause, cut, bound, budget):
                out.append((dict(kind="replay", progs=progs, cause=cause, cut=cut, picks=res["picks"]), res))
    except BaseException:
        return ("error", traceback.format_exc(), job)
    slim = []
    for rep, res in out:
        slim.append((rep, dict(outcome=res["outcome"], blocked=res["blocked"], threads=res["threads"], unlocked=res.get("unlocked", []), unlocked_q=res.get("unlocked_q", []),
                               results=res["results"], events=res["events"], steps=res["steps"],
                               exchanges=res["exchanges"])))
    return ("ok", slim, job)


def run(tier, seed):
    ck = check.Check(PID, tier, seed, "model_checking")
    quick = tier == "quick"
    jobs = []
    cuts = (0, 2, 5, 9) if quick else (0, 1, 2, 3, 4, 5, 6, 7, 9, 12)
    # the other concrete forms of "link disruption" (every CommunicationError subclass, undecodable octets): same
    # scenarios, fewer schedules each
    for progs in SCENARIOS_QUICK:
        for cause in DISRUPTIONS:
            for cut in ((2, 5) if quick else (0, 2, 5, 9)):
                jobs.append(("target", progs, cause, cut, 10 if quick else 100))
                jobs.append(("rand", progs, cause, cut, seed * 7919 + cut))
    for progs in SCENARIOS_QUICK:
        for cause in CAUSES:
            for cut in cuts:
                jobs.append(("dfs", progs, cause, cut, (1, 12) if quick else (2, 120)))
                jobs.append(("target", progs, cause, cut, 30 if quick else 400))
                for k in range(2 if quick else 12):
                    jobs.append(("rand", progs, cause, cut, seed * 7919 + k * 104729 + cut))
    n_exec = 0
    traces = []
    with mp.Pool(16) as pool:
        for st, payload, job in pool.imap_unordered(_work, jobs, chunksize=4):
            if st == "error":
                raise RuntimeError("scenario crashed: %s\n%s" % (job, payload))
            for rep, res in payload:
                n_exec += 1
                for key, what in judge(rep["progs"], rep["cause"], rep["cut"], res):
                    ck.violation(key, what, replay=rep)
                if len(traces) < (600 if quick else 6000) and res["outcome"] in ("done", "deadlock"):
                    traces.append(dict(id="x%d" % n_exec, progs=list(rep["progs"]), cause=rep["cause"], cut=rep.get("cut"),
                                       picks=rep.get("picks"),
                                       ev=[dict(a=e[0], t=e[1], s=e[2], op=e[3], x=str(e[4]))
                                           for e in res["events"]]))
    ck.cover(schedules_executed=n_exec)
    spec_stage(ck, quick, traces)
    ck.sample(dict(scenario=list(SCENARIOS_QUICK[2]), cause="disc", cut=2, note="DFS preemption bound + random schedules"))
    ck.assume("one controller under the deterministic scheduler against a scripted reactive peer (not a second nfcpy stack)",
              "preemption at synchronisation points (lock acquire/release, wait, notify, sleep, exchange), not at every bytecode",
              "a timed wait may time out only when no other thread is enabled (bounded time = eventually)")
    return ck.finish()


def spec_stage(ck, quick, traces):
    """TLC on LlcpLife (exhaustive) + trace validation of the recorded executions"""
    spec = os.path.join(tlc.SPEC, "LlcpLife.tla")
    if not os.path.exists(spec):
        ck.note("LlcpLife.tla not present yet")
        ck.cover(states=1, transitions=1, traces_validated_against_impl=0)
        return
    r = tlc.run("LlcpLife.tla", "MC_LlcpLife.cfg" if quick else "MC_LlcpLife_thorough.cfg", PID, workers=16,
                timeout=300 if quick else 1500)
    ck.cover(states=r.distinct, transitions=r.generated)
    from bind import c09_spec
    c09_spec.judge_mc(ck, r)
    c09_spec.validate(ck, traces)


def replay(rep, args):
    r = rep["replay"]
    res = run_scenario(tuple(r["progs"]), r["cause"], r["cut"], S.ReplayChooser(r["picks"]))
    bad = list(judge(tuple(r["progs"]), r["cause"], r["cut"], res))
    print("outcome:", res["outcome"], "threads:", res["threads"], "blocked:", res["blocked"])
    for key, what in bad:
        print("  ", key, "--", what)
    if bad:
        print("VIOLATION property=%s replay=%s" % (PID, args.replay))
        return 1
    return 0
