"""C15 static part: extract every call into the device driver from the *current* nfc/clf/__init__.py.

An `ast` pass over class ContactlessFrontend lists every `self.device.<m>(...)` call (also through a local
alias such as `exchange = self.device.send_cmd_recv_rsp; exchange(...)`, and `device.connect(...)` of the
driver module in open()) together with
  * its enclosing method and nested helper function (sense_tta ... are defined inside sense()),
  * whether a `with self.lock:` block encloses the call - for helper functions: encloses the *call of the helper*,
  * whether a `self.device is None` test inside the same lock region precedes it (`guarded`).
Each public operation becomes a list of *segments* [locked, guarded, calls] in source order: a lock region is
one segment, a driver call outside any lock region is a segment of its own; `self.<method>()` calls are
inlined, and wherever the frontend hands itself to other code (nfc.tag.activate(self, ..), DEP(clf=self),
objects derived from those, user callbacks receiving them) the segments of the re-entrant public
operations (everything but open/close/connect) are inserted, because that code calls back into
sense/exchange/max_*_data_size from the same thread.

The table is written as TLA+ definitions (constants of spec/ClfLock.tla) by `tla_defs`.
Not counted as driver calls: attribute *reads* of the driver object (`__str__` formats vendor/product
names); they do not enter driver code that talks to the device.
"""
import ast
import hashlib
import os


class ExtractError(RuntimeError):
    pass


def _is_self_attr(node, attr):
    return (isinstance(node, ast.Attribute) and node.attr == attr and isinstance(node.value, ast.Name)
            and node.value.id == "self")


def _names_in(node):
    return {n.id for n in ast.walk(node) if isinstance(n, ast.Name)}


def _carries(node, tainted):
    """does the expression hand over the frontend itself (bare `self`, not `self.attr`) or an object
    derived from such a hand-over (a tainted local name)?"""
    if isinstance(node, ast.Name):
        return node.id == "self" or node.id in tainted
    if isinstance(node, ast.Attribute) and isinstance(node.value, ast.Name) and node.value.id == "self":
        return False
    if isinstance(node, ast.Lambda):
        return False
    return any(_carries(c, tainted) for c in ast.iter_child_nodes(node))


class _Fn(object):
    def __init__(self, name, node):
        self.name, self.node = name, node
        self.helpers = {}
        self.items = []          # ("dev", site) | ("self", method) | ("ext",)   each with region/guard
        self.is_property = any(isinstance(d, ast.Name) and d.id == "property" for d in node.decorator_list)


class Extractor(object):
    def __init__(self, path):
        self.path = path
        src = open(path, "rb").read()
        self.sha1 = hashlib.sha1(src).hexdigest()
        self.tree = ast.parse(src, path)
        cls = [n for n in self.tree.body if isinstance(n, ast.ClassDef) and n.name == "ContactlessFrontend"]
        if len(cls) != 1:
            raise ExtractError("class ContactlessFrontend not found")
        self.cls = cls[0]
        self.fns = {}
        self.sites = {}          # id -> dict
        self.region_no = 0
        for n in self.cls.body:
            if isinstance(n, ast.FunctionDef):
                self.fns[n.name] = _Fn(n.name, n)
        for fn in self.fns.values():
            self._scan(fn)
        self._number_sites()
        self.ops = self._operations()

    # ------------------------------------------------------------------------------------------
    def _scan(self, fn):
        for n in ast.walk(fn.node):
            if isinstance(n, ast.FunctionDef) and n is not fn.node:
                fn.helpers[n.name] = n
        ctx = dict(region=None, guard=False, helper="", alias={}, devalias=set(), tainted=set(), depth=0)
        self._block(fn, fn.node.body, ctx)

    def _block(self, fn, stmts, ctx):
        ctx = dict(ctx)            # guard set by an `if self.device is None: raise` holds for the rest of the block
        for st in stmts:
            self._stmt(fn, st, ctx)

    @staticmethod
    def _device_test(test):
        """'none' for `self.device is None`, 'some' for `self.device is not None` / `self.device`."""
        if _is_self_attr(test, "device"):
            return "some"
        if isinstance(test, ast.UnaryOp) and isinstance(test.op, ast.Not) and _is_self_attr(test.operand, "device"):
            return "none"
        if (isinstance(test, ast.Compare) and _is_self_attr(test.left, "device") and len(test.ops) == 1
                and isinstance(test.comparators[0], ast.Constant) and test.comparators[0].value is None):
            if isinstance(test.ops[0], (ast.Is, ast.Eq)):
                return "none"
            if isinstance(test.ops[0], (ast.IsNot, ast.NotEq)):
                return "some"
        return None

    def _stmt(self, fn, st, ctx):
        if isinstance(st, ast.FunctionDef):
            return                                   # helper: inlined where it is called
        if isinstance(st, ast.With):
            locks = [i for i in st.items if _is_self_attr(i.context_expr, "lock")]
            for i in st.items:
                if i not in locks:
                    self._expr(fn, i.context_expr, ctx)
            if locks and ctx["region"] is None:
                self.region_no += 1
                inner = dict(ctx, region=self.region_no, guard=False)
                self._emit(fn, ("region",), inner)
                self._block(fn, st.body, inner)
            else:
                self._block(fn, st.body, ctx)
            return
        if isinstance(st, ast.If):
            kind = self._device_test(st.test)
            self._expr(fn, st.test, ctx)
            leaves = bool(st.body) and isinstance(st.body[-1], (ast.Raise, ast.Return))
            if kind == "some":
                self._block(fn, st.body, dict(ctx, guard=True))
                self._block(fn, st.orelse, ctx)
            elif kind == "none":
                self._block(fn, st.body, ctx)
                self._block(fn, st.orelse, dict(ctx, guard=True))
                if leaves:
                    ctx["guard"] = True              # the rest of the enclosing block runs with a device
            else:
                self._block(fn, st.body, ctx)
                self._block(fn, st.orelse, ctx)
            return
        if isinstance(st, (ast.For, ast.While)):
            self._expr(fn, st.iter if isinstance(st, ast.For) else st.test, ctx)
            self._block(fn, st.body, ctx)
            if isinstance(st, ast.While):
                self._expr(fn, st.test, ctx)         # the condition is evaluated again after the body
            self._block(fn, st.orelse, ctx)
            return
        if isinstance(st, ast.Try):
            self._block(fn, st.body, ctx)
            for h in st.handlers:
                self._block(fn, h.body, ctx)
            self._block(fn, st.orelse, ctx)
            self._block(fn, st.finalbody, ctx)
            return
        if isinstance(st, ast.Assign):
            # alias of a driver method:  exchange = self.device.send_cmd_recv_rsp
            v = st.value
            if _is_self_attr(v, "device") and len(st.targets) == 1 and isinstance(st.targets[0], ast.Name):
                ctx["devalias"].add(st.targets[0].id)      # dev = self.device ; dev.close()
                return
            if (isinstance(v, ast.Attribute) and _is_self_attr(v.value, "device")
                    and len(st.targets) == 1 and isinstance(st.targets[0], ast.Name)):
                ctx["alias"].setdefault(st.targets[0].id, set()).add(v.attr)
                return
            before = len(fn.items)
            self._expr(fn, v, ctx)
            gave_self = any(it[0] == "ext" for it in fn.items[before:]) or _carries(v, ctx["tainted"])
            if gave_self:
                for t in st.targets:
                    ctx["tainted"] |= _names_in(t)
            return
        for child in ast.iter_child_nodes(st):
            if isinstance(child, ast.expr):
                self._expr(fn, child, ctx)
            elif isinstance(child, ast.stmt):
                self._stmt(fn, child, ctx)

    def _emit(self, fn, item, ctx):
        fn.items.append(item + (ctx["region"], ctx["guard"] and ctx["region"] is not None))

    def _expr(self, fn, node, ctx):
        """post-order walk (arguments before the call) = evaluation order, good enough for segments"""
        if node is None:
            return
        if isinstance(node, ast.Lambda):
            return
        for child in ast.iter_child_nodes(node):
            if isinstance(child, ast.expr) or isinstance(child, ast.keyword):
                self._expr(fn, child if isinstance(child, ast.expr) else child.value, ctx)
        if isinstance(node, ast.Call):
            f = node.func
            if isinstance(f, ast.Attribute) and _is_self_attr(f.value, "device"):
                self._site(fn, node, f.attr, "direct", ctx)
            elif isinstance(f, ast.Attribute) and isinstance(f.value, ast.Name) and f.value.id in ctx["devalias"]:
                self._site(fn, node, f.attr, "object-alias", ctx)
            elif (isinstance(f, ast.Attribute) and isinstance(f.value, ast.Name) and f.value.id == "device"
                  and f.attr == "connect"):
                self._site(fn, node, "connect", "module", ctx)
            elif isinstance(f, ast.Name) and f.id in ctx["alias"]:
                for m in sorted(ctx["alias"][f.id]):
                    self._site(fn, node, m, "alias", ctx)
            elif isinstance(f, ast.Name) and f.id in fn.helpers and ctx["depth"] < 4:
                h = fn.helpers[f.id]
                self._block(fn, h.body, dict(ctx, helper=f.id, depth=ctx["depth"] + 1, alias=dict(ctx["alias"])))
            elif isinstance(f, ast.Attribute) and isinstance(f.value, ast.Name) and f.value.id == "self" \
                    and f.attr in self.fns:
                self._emit(fn, ("self", f.attr), ctx)
            else:
                args = list(node.args) + [k.value for k in node.keywords]
                if not isinstance(f, ast.Name):
                    args.append(f)
                if any(_carries(a, ctx["tainted"]) for a in args):
                    self._emit(fn, ("ext",), ctx)
        elif isinstance(node, ast.Attribute):
            if isinstance(node.value, ast.Name) and node.value.id in ctx["tainted"]:
                self._emit(fn, ("ext",), ctx)        # e.g. tag.is_present (a property that talks to the tag)
            elif _is_self_attr(node, node.attr) and node.attr in self.fns and self.fns[node.attr].is_property:
                self._emit(fn, ("self", node.attr), ctx)

    def _site(self, fn, node, method, via, ctx):
        key = (fn.name, ctx["helper"], method, node.lineno, node.col_offset)
        site = self.sites.get(key)
        if site is None:
            site = dict(func=fn.name, helper=ctx["helper"], method=method, via=via, line=node.lineno,
                        end_line=getattr(node, "end_lineno", node.lineno), col=node.col_offset,
                        contexts=[], clears=self._clears(fn.node, node) if method == "close" else "-")
            self.sites[key] = site
        site["contexts"].append((ctx["region"] is not None, bool(ctx["guard"] and ctx["region"] is not None)))
        self._emit(fn, ("dev", key), ctx)

    # ---- does `self.device = None` follow the driver's close() - also when close() raised IOError? ------------
    @staticmethod
    def _has_clear(stmts):
        for st in stmts:
            for n in ast.walk(st):
                if (isinstance(n, ast.Assign) and any(_is_self_attr(t, "device") for t in n.targets)
                        and isinstance(n.value, ast.Constant) and n.value.value is None):
                    return True
        return False

    @staticmethod
    def _catches_ioerror(handler):
        t = handler.type
        if t is None:
            return True
        names = [e for e in (t.elts if isinstance(t, ast.Tuple) else [t])]
        ok = {"IOError", "OSError", "EnvironmentError", "Exception", "BaseException"}
        return any((isinstance(e, ast.Name) and e.id in ok) or (isinstance(e, ast.Attribute) and e.attr in ok)
                   for e in names)

    def _clears(self, fnode, call):
        """"always": the assignment is executed whether the driver call returns or raises IOError;
        "onsuccess": only when it returns; "never": not at all (in the enclosing method)."""
        def contains(st):
            return any(n is call for n in ast.walk(st))

        def walk(stmts):
            """-> (found, clear_on_success, clear_on_failure, propagates) for the block holding the call"""
            for i, st in enumerate(stmts):
                if not contains(st):
                    continue
                rest = stmts[i + 1:]
                if isinstance(st, ast.Try) and any(contains(x) for x in st.body):
                    f, cs, cf, prop = walk(st.body)
                    cs = cs or self._has_clear(st.orelse) or self._has_clear(st.finalbody)
                    cf = cf or self._has_clear(st.finalbody)
                    if prop:
                        hs = [h for h in st.handlers if self._catches_ioerror(h)]
                        if hs:
                            cf = cf or all(self._has_clear(h.body) for h in hs)
                            prop = any(isinstance(x, ast.Raise) for h in hs for x in ast.walk(h))
                    after = self._has_clear(rest)
                    return True, cs or after, cf or (after and not prop), prop
                blocks = [getattr(st, a) for a in ("body", "orelse", "finalbody") if isinstance(getattr(st, a, None), list)]
                blocks += [h.body for h in getattr(st, "handlers", [])]
                for b in blocks:
                    if any(contains(x) for x in b):
                        f, cs, cf, prop = walk(b)
                        after = self._has_clear(rest)
                        return True, cs or after, cf or (after and not prop), prop
                # the call is in this very statement: an exception raised by it propagates out of the block
                after = self._has_clear(rest)
                return True, after, False, True
            return False, False, False, True
        f, cs, cf, prop = walk(fnode.body)
        return "always" if (cs and cf) else ("onsuccess" if cs else "never")

    def _number_sites(self):
        groups = {}
        for key, s in sorted(self.sites.items(), key=lambda kv: (kv[1]["line"], kv[1]["col"], kv[1]["method"])):
            groups.setdefault((s["func"], s["helper"], s["method"]), []).append(s)
        for (func, helper, method), lst in groups.items():
            for n, s in enumerate(lst, 1):
                where = func + ("." + helper if helper else "")
                s["id"] = "%s/%s" % (where, method) + ("#%d" % n if len(lst) > 1 else "")
                s["locked"] = all(c[0] for c in s["contexts"])
                s["guarded"] = all(c[1] for c in s["contexts"])
        ids = [s["id"] for s in self.sites.values()]
        if len(set(ids)) != len(ids):
            raise ExtractError("site ids not unique: %s" % ids)

    # ------------------------------------------------------------------------------------------
    def _segments(self, name, stack=()):
        """ordered segments of method `name`, helper calls and self-calls inlined, ext = re-entrant ops"""
        if name in stack:
            return []
        fn = self.fns[name]
        segs = []
        cur = None
        for it in fn.items:
            kind, region, guard = it[0], it[-2], it[-1]
            if kind == "region":
                cur = dict(locked=True, guarded=False, calls=[], region=region, g=[])
                segs.append(cur)
            elif kind == "dev":
                sid = self.sites[it[1]]["id"]
                if region is None:
                    segs.append(dict(locked=False, guarded=False, calls=[sid]))
                    cur = None
                else:
                    if cur is None or cur["region"] != region:
                        cur = dict(locked=True, guarded=False, calls=[], region=region, g=[])
                        segs.append(cur)
                    if sid not in cur["calls"]:
                        cur["calls"].append(sid)
                    cur["g"].append(guard)
            elif kind == "self":
                segs.extend(self._segments(it[1], stack + (name,)))
                cur = None
            elif kind == "ext":
                for r in self.reentrant():
                    if r != name and r not in stack:
                        segs.extend(self._segments(r, stack + (name,)))
                cur = None
        out = []
        for s in segs:
            s = dict(s)
            if "g" in s:
                s["guarded"] = bool(s["g"]) and all(s["g"])
            s.pop("g", None)
            s.pop("region", None)
            if not s["calls"] and not s["locked"]:
                continue
            out.append(s)
        return out

    def reentrant(self):
        """public methods other code holding the frontend calls back into"""
        return sorted(n for n in self.fns if not n.startswith("_") and n not in ("open", "close", "connect"))

    def _operations(self):
        ops = {}
        for name in sorted(self.fns):
            if name.startswith("_") and name not in ("__init__", "__exit__"):
                continue
            segs = self._segments(name)
            uniq, seen = [], set()
            for s in segs:
                k = (s["locked"], s["guarded"], tuple(sorted(s["calls"])))
                if k not in seen:
                    seen.add(k)
                    uniq.append(dict(locked=s["locked"], guarded=s["guarded"], calls=sorted(s["calls"])))
            if uniq:
                ops[name.strip("_") if name.startswith("__") else name] = uniq
        covered = {c for segs in ops.values() for s in segs for c in s["calls"]}
        missing = sorted(s["id"] for s in self.sites.values() if s["id"] not in covered)
        if missing:
            raise ExtractError("driver call sites not reachable from a public operation: %s" % missing)
        return ops

    # ------------------------------------------------------------------------------------------
    def site_list(self):
        return sorted(self.sites.values(), key=lambda s: (s["line"], s["col"], s["method"]))

    def lookup(self, func, line, method):
        """dynamic -> static: the call site a frame (function name, line) of clf/__init__.py belongs to"""
        best = None
        for s in self.sites.values():
            owner = s["helper"] or s["func"]
            if owner == func and s["line"] <= line <= s["end_line"] and (method is None or s["method"] == method):
                if best is None or (s["end_line"] - s["line"]) < (best["end_line"] - best["line"]):
                    best = s
        return best

    def table(self):
        return dict(source=self.path, sha1=self.sha1,
                    sites=[{k: s[k] for k in ("id", "func", "helper", "method", "via", "line", "locked", "guarded", "clears")}
                           for s in self.site_list()],
                    ops=self.ops)


def _q(s):
    return '"%s"' % s


def _set(xs):
    return "{" + ", ".join(xs) + "}"


def tla_defs(ex, prefix="d_"):
    """TLA+ definitions for the constants of ClfLock: Ops, OpSegs, SiteM."""
    lines = ["\\* generated by bind/c15_extract.py from %s" % ex.path, "\\* sha1 %s" % ex.sha1]
    lines.append("%sOps == %s" % (prefix, _set(_q(o) for o in sorted(ex.ops))))
    m = " @@ ".join("%s :> %s" % (_q(s["id"]), _q(s["method"])) for s in ex.site_list())
    lines.append("%sSiteM == %s" % (prefix, m))
    c = " @@ ".join("%s :> %s" % (_q(s["id"]), _q(s["clears"])) for s in ex.site_list())
    lines.append("%sCloseClears == %s" % (prefix, c))
    segs = []
    for o in sorted(ex.ops):
        ss = ", ".join("[locked |-> %s, guarded |-> %s, calls |-> %s]" % (
            "TRUE" if s["locked"] else "FALSE", "TRUE" if s["guarded"] else "FALSE",
            _set(_q(c) for c in s["calls"])) for s in ex.ops[o])
        segs.append("%s :> <<%s>>" % (_q(o), ss))
    lines.append("%sOpSegs == %s" % (prefix, "\n    @@ ".join(segs)))
    return "\n".join(lines) + "\n"


def extract(src_root):
    return Extractor(os.path.join(src_root, "nfc", "clf", "__init__.py"))


if __name__ == "__main__":
    import sys, json
    ex = extract(sys.argv[1] if len(sys.argv) > 1 else "/repo/src")
    print(json.dumps(ex.table(), indent=1))
    print(tla_defs(ex))
