"""C08 stage: reading Type 1 / Type 2 tags whose lock control / memory control TLVs reserve bytes INSIDE the data area.

The monitor of C08 (TagRead.tla) has no control TLV geometry; the reference semantics for it is spec/TlvTag.tla
(Walk / RefRead / RefCapacity: reserved range = PageAddr * 2**BytesPerPage + ByteOffset, ceil(bits / 8) lock bytes,
0 = 256).  This stage builds well-formed images with the layout builders of bind/tags12.py - lock bit counts
{1,4,7,8,9,12,16,17,0(=256)} x every position encoding, lock bytes directly in front of the NDEF TLV, directly
behind its length byte, inside the value, at the end of the value / of the area - lets a fresh nfcpy tag object
read them (tag.ndef: offset, capacity, reserved bytes, octets; one over-capacity assignment that must be rejected
without a command) and has TLC (Trace_TlvTag) compare every logged value with the reference reader.
"""
import json, random
from vlib import tlc
from bind import tags12 as T

LOCK_BITS = [1, 4, 7, 8, 9, 12, 16, 17, 0]


def layouts(quick):
    out = []
    vi = 0
    for bi, bits in enumerate(LOCK_BITS):
        nb = (bits if bits else 256)
        nb = (nb + 7) // 8
        # Type 2: 96 / 152 byte data areas; Type 1 static (120) and dynamic (256)
        for kind in ("t2", "t1s", "t1d"):
            ds = 16 if kind == "t2" else 12
            pad = (bi + len(kind)) % 4
            off0 = ds + pad + 5                          # NDEF TLV offset when nothing in front is reserved
            oldn = 30 if kind != "t1s" or nb < 8 else 10
            spots = [("front", off0), ("behind-L", off0 + 2), ("in-value", off0 + 2 + 9), ("value-end", off0 + 2 + oldn)]
            if kind == "t2":
                spots.append(("area-end", 16 + 19 * 8 - nb))
            if quick:
                spots = [s for j, s in enumerate(spots) if (j + bi) % 2 == 0 or s[0] == "in-value"]
            for name, frm in spots:
                encs = T.encodings(frm)
                if not encs:
                    continue
                picks = encs if not quick else [encs[(vi * 5) % len(encs)], encs[(vi * 5 + len(encs) // 2) % len(encs)]]
                for k, pa, bo in picks:
                    vi += 1
                    c = [1, frm, bits, k, (vi * 3) % 16, pa]
                    try:
                        if kind == "t2":
                            d = T.t2_desc(19, pad, [c], oldn, "rnd")
                        elif kind == "t1s":
                            if frm + nb > 104:
                                continue
                            d = T.t1_desc(False, 120, 0x00, pad, [c], oldn, "rnd")
                        else:
                            d = T.t1_desc(True, 256, 0x00, pad, [c], oldn, "rnd")
                        out.append(("%s-lock%d-%s-k%d.%d" % (kind, bits, name, k, pa), d))
                    except ValueError:
                        continue
    # the same for memory control TLVs with the sizes next to the lock byte counts (tt2 / tt1 get_rsvd_byte_range)
    for j, size in enumerate((1, 2, 3, 0)):
        for kind in ("t2", "t1d"):
            frm = (16 if kind == "t2" else 12) + 5 + 2 + 6 + j
            for k, pa, bo in T.encodings(frm)[:2 if quick else 99]:
                c = [2, frm, size, k, j, pa]
                d = T.t2_desc(0x3E, 0, [c], 20, "rnd") if kind == "t2" else T.t1_desc(True, 512, 0x00, 0, [c], 20, "rnd")
                out.append(("%s-mem%d-k%d.%d" % (kind, size, k, pa), d))
    return out


def stage(ck, tier, seed):
    quick = tier == "quick"
    cases = []
    for li, (name, desc) in enumerate(layouts(quick)):
        lseed = seed * 1000 + 7000 + li
        try:
            p = T.probe(desc, lseed)
        except ValueError:
            continue                                     # the stream does not fit this area: not a layout
        if p is None:
            # a well-formed image that nfcpy does not recognise as NDEF is C08's subject as well
            ck.violation("tlv:%s:well-formed-image-not-read-as-ndef" % desc["b"], "layout %s: tag.ndef is None: %s" % (name, json.dumps(desc)),
                         replay=dict(kind="tlv", desc=desc, lseed=lseed))
            continue
        if p["cap"] + 1 >= T.LONG and p["hdr_rsvd"]:
            continue
        cases.append(dict(id="tlv-%s" % name, lay=desc, lseed=lseed, op="write", n=p["cap"] + 1, mseed=seed, cut=None))
    relax = [n for n in T.ALL_INV if n != "CapSound"]
    traces = [T.with_relax(T.run_case(c), relax) for c in cases]
    by_id = {c["id"]: c for c in cases}
    # binding self-test: a read-back byte changed / the logged capacity changed must be rejected
    st = []
    for tr in traces:
        if tr["ev"][-1]["k"] == "ndef" and tr["ev"][-1]["v"]:
            t1 = json.loads(json.dumps(tr)); t1["id"] += "-st-view"; t1["ev"][-1]["v"][0] ^= 0x40
            t2 = json.loads(json.dumps(tr)); t2["id"] += "-st-cap"; t2["ev"][0]["cap"] += 1
            st = [t1, t2]
            break
    verdicts, stats = tlc.validate_traces("Trace_TlvTag.tla", "Trace_TlvTag.cfg", "C08/tlv", traces + st, shards=4 if quick else 12,
                                          timeout=900)
    # a trace whose logged parse (offset / capacity / reserved bytes) deviates is judged once more with the parse taken
    # as logged, so that the capacity bound and the read-back octets are still compared with the reference reader
    again = [T.with_relax(by_tr, set(by_tr["const"]["relax"]) | {"Plan"}, "~p") for by_tr in traces
             if verdicts[by_tr["id"]][0] != "ACCEPT" and verdicts[by_tr["id"]][2] == "Begin"]
    if again:
        v2, _ = tlc.validate_traces("Trace_TlvTag.tla", "Trace_TlvTag.cfg", "C08/tlv", again, shards=4, timeout=900)
        for tr in again:
            v = v2[tr["id"]]
            if v[0] != "ACCEPT":
                e = {k: (x if not isinstance(x, list) or len(x) < 20 else "[%d bytes]" % len(x)) for k, x in tr["ev"][v[1] - 1].items()}
                ck.violation("tlv:" + T.classify(tr, v), "case %s (parse as logged) rejected at event %d (%s): %s ; event=%s" % (
                    tr["id"], v[1], v[2], json.dumps(v[3])[:400], json.dumps(e)[:300]),
                    replay=dict(kind="tlv", case=by_id[tr["id"].split("~")[0]]))
    acc = 0
    for tr in traces:
        v = verdicts[tr["id"]]
        if v[0] == "ACCEPT":
            acc += 1
            continue
        line, act, why = v[1], v[2], v[3]
        key = "tlv:" + T.classify(tr, v)
        e = {k: (x if not isinstance(x, list) or len(x) < 20 else "[%d bytes]" % len(x)) for k, x in tr["ev"][line - 1].items()}
        ck.violation(key, "case %s rejected at event %d (%s): %s ; event=%s" % (tr["id"], line, act, json.dumps(why)[:400], json.dumps(e)[:300]),
                     replay=dict(kind="tlv", case=by_id[tr["id"]]))
    if st and acc and any(verdicts[t["id"]][0] == "ACCEPT" for t in st):
        raise tlc.TLCError("binding vacuous (C08 tlv stage): corrupted trace accepted")
    ck.cover(evaluations=len(traces), tlv_geometry=dict(cases=len(traces), accepted=acc, lock_bits=LOCK_BITS,
                                                        selftest="changed read-back byte / capacity rejected" if st else "none"))


def replay(rep, args):
    r = rep["replay"]
    if "case" not in r:
        print("layout not read as NDEF:", r.get("desc"))
        return 1
    relax = [n for n in T.ALL_INV if n != "CapSound"]
    tr = T.with_relax(T.run_case(r["case"]), relax)
    verdicts, _ = tlc.validate_traces("Trace_TlvTag.tla", "Trace_TlvTag.cfg", "C08/tlv_replay", [tr], shards=1)
    v = verdicts[tr["id"]]
    print("replay verdict:", json.dumps(v)[:1200])
    if v[0] != "ACCEPT":
        print("VIOLATION property=C08 replay=%s" % args.replay)
        return 1
    return 0
