"""C01 / C02 / C03 for the TLV based tag types (Type 1 static/dynamic, Type 2).

Spec: spec/TlvTag.tla (+ MC_TlvTag.tla scaled layouts, Trace_TlvTag.tla).  Binding: the real nfcpy tag
objects (nfc.tag.activate -> Type2Tag / Type1Tag / Topaz / Topaz512) run `tag.ndef.octets = msg` and
`tag.format(wipe=..)` against sim.tlvtags.SimT2T / SimT1T through a fake clf; every state-changing command
is one trace event; TLC (Trace_TlvTag) rebuilds the memory and evaluates the reference reader and all
invariants after every real command; a FRESH tag object's view of the final / cut memory is compared with
the reference reader.
"""
import os, sys, json, random, hashlib, time
from vlib import tlc, check
from sim.tlvtags import SimT2T, SimT1T, SimTimeout, SimXmitError

import nfc
import nfc.clf
import nfc.tag
import nfc.tag.tt1
import nfc.tag.tt2

LONG = 255


class HarnessError(RuntimeError):
    pass


# ------------------------------------------------------------------------------------------------
# fake contactless frontend around a simulated tag
class FakeClf(object):
    max_send_data_size = 290
    max_recv_data_size = 290

    def __init__(self, sim):
        self.sim = sim

    def exchange(self, data, timeout):
        try:
            return bytearray(self.sim.command(data))
        except SimTimeout:
            raise nfc.clf.TimeoutError("no response from simulated tag")
        except SimXmitError:
            raise nfc.clf.TransmissionError("garbled frame from simulated tag")

    def sense(self, target, **kw):
        return target if self.sim.powered else None


def activate(sim, rid=None):
    clf = FakeClf(sim)
    if isinstance(sim, SimT2T):
        tgt = nfc.clf.RemoteTarget("106A", sens_res=b"\x44\x00", sel_res=b"\x00",
                                   sdd_res=b"\x08" + bytes(sim.mem[1:7]))
    else:
        tgt = nfc.clf.RemoteTarget("106A", sens_res=b"\x00\x0C",
                                   rid_res=bytes([sim.hr0, sim.hr1]) + bytes(sim.mem[0:4]))
    tag = nfc.tag.activate(clf, tgt)
    if tag is None:
        raise HarnessError("activation failed")
    return tag


# ------------------------------------------------------------------------------------------------
# layouts (real constants).  A layout is a dict:
#   kind T2|T1S|T1D, unit, fmt, hr (T1), mem0 (bytearray), ro/ow (lists of [lo, hi]), desc (for keys / replay)
def ranges(addrs):
    out = []
    for a in sorted(set(addrs)):
        if out and out[-1][1] == a - 1:
            out[-1][1] = a
        else:
            out.append([a, a])
    return out


def len_field(n):
    return [0xFF, n >> 8, n & 0xFF] if n >= LONG else [n]


# A control TLV descriptor is a list [t, frm, size, k, hi]:
#   t = 1 lock control / 2 memory control, frm = first reserved byte address,
#   size = the raw size field (lock: number of lock BITS, memory: number of bytes; 0 encodes 256),
#   k = BytesPerPage exponent (None: the smallest that can express frm), hi = upper nibble of the third value byte
#       (BytesLockedPerLockBit for a lock control TLV, RFU for a memory control TLV).
#   An optional sixth element pa = the PageAddr nibble: frm = pa * 2**k + ByteOffset with ByteOffset 0..15, which
#   may be >= 2**k (a non-canonical but valid encoding of the same address; None: the canonical one, pa = frm >> k).
#   The short form [t, frm, nbytes] (whole bytes) is still accepted.
def norm_ctl(c):
    c = list(c)
    if len(c) == 3:
        t, frm, n = c
        return [t, frm, (n * 8 if t == 1 else n) & 0xFF, None, 3, None]
    if len(c) == 5:
        return c + [None]
    return c


def ctl_nbytes(c):
    """number of reserved bytes a control TLV announces (NFC Forum T1T/T2T: lock bits are rounded UP to bytes)"""
    t, frm, size, k, hi, pa = norm_ctl(c)
    n = size if size > 0 else 256
    return (n + 7) // 8 if t == 1 else n


def ctl_range(c):
    c = norm_ctl(c)
    return range(c[1], c[1] + ctl_nbytes(c))


def valid_exps(frm):
    """BytesPerPage exponents with which frm = PageAddr * 2**k + ByteOffset has both nibbles in range"""
    return [k for k in range(0, 16) if (frm >> k) <= 15 and frm - ((frm >> k) << k) <= 15]


def encodings(frm):
    """the WHOLE encoding space of an address: every (k, PageAddr, ByteOffset) with PageAddr * 2**k + ByteOffset = frm,
    both nibbles 0..15, k 0..15 - including ByteOffset >= 2**k"""
    return [(k, pa, frm - (pa << k)) for k in range(0, 16) for pa in range(0, 16) if 0 <= frm - (pa << k) <= 15]


def ctl_tlv(c):
    t, frm, size, k, hi, pa = norm_ctl(c)
    ks = valid_exps(frm)
    if k is None:
        if not ks:
            raise ValueError("range start not representable")
        k = ks[0]
    if pa is None:
        if k not in ks:
            raise ValueError("exponent cannot express the address")
        pa = frm >> k
    offs = frm - (pa << k)
    if not (0 <= pa <= 15 and 0 <= offs <= 15):
        raise ValueError("not an encoding of the address")
    return [t, 3, (pa << 4) | offs, size & 0xFF, ((hi & 0x0F) << 4) | k]


def representable(frm):
    while not valid_exps(frm):
        frm -= 1
    return frm


def place(mem, start, skip, stream):
    a = start
    for b in stream:
        while a in skip:
            a += 1
        if a >= len(mem):
            raise ValueError("stream does not fit")
        mem[a] = b
        a += 1
    return a


def old_message(rnd, n, style):
    if style == "zero-lead":          # 00 xx ..: a stale length field reads as a small bogus length
        m = [0, rnd.choice([1, 2, 7, 16, 40])] + [rnd.randrange(0x80, 0xFF) for _ in range(max(0, n - 2))]
        return m[:n]
    if style == "ff":
        return [0xFF] * n
    return [rnd.randrange(0x80, 0xFF) for _ in range(n)]      # disjoint from the new messages (0x20..0x7E)


def build_t2(rnd, cc2, extra, pad, ctls, oldn, style="rnd"):
    """ctls: list of (t, from, nbytes) absolute ranges."""
    end = 16 + cc2 * 8
    size = end + extra
    assert size % 4 == 0
    skip = set()
    for c in ctls:
        skip |= set(ctl_range(c))
    mem = bytearray(size)
    mem[0:10] = bytes([0x08, 1, 2, 0x8B, 3, 4, 5, 6, 4, 0x48])
    mem[12:16] = bytes([0xE1, 0x10, cc2, 0x00])
    for a in range(16, size):
        mem[a] = 0xEE if a in skip else (0x55 if a < end else 0x00)
    for c in ctls:
        if c[0] == 1:
            for a in ctl_range(c):
                if 16 <= a < size:
                    mem[a] = 0x00           # lock bytes: unlocked, any stray write is visible
    old = old_message(rnd, oldn, style)
    stream = [0] * pad
    for c in ctls:
        stream += ctl_tlv(c)
    stream += [3] + len_field(oldn) + old + [0xFE]
    nxt = place(mem, 16, skip, stream)
    if nxt > end + 1 or (nxt == end + 1 and False):
        raise ValueError("does not fit the data area")
    if nxt > end:       # the terminator fell outside: drop it (it is optional)
        raise ValueError("terminator outside")
    lock = set()
    for c in ctls:
        if c[0] == 1:
            lock |= set(ctl_range(c))
    ow = set(range(10, 16)) | {a for a in lock if a < size}
    if extra >= 2:
        ow |= {end, end + 1}
    return dict(kind="T2", unit=4, fmt="T2", mem0=mem, ro=ranges(range(0, 10)), ow=ranges(ow),
                desc=dict(b="t2", cc2=cc2, extra=extra, pad=pad, ctls=[list(c) for c in ctls], oldn=oldn, style=style),
                old=old)


def build_t1(rnd, dyn, size, hr1, pad, ctls, oldn, style="rnd", canonical512=False, phys=None):
    """size = the declared memory size ((CC byte 2 + 1) * 8), phys = the physical size (default: the same)"""
    cc2 = size // 8 - 1
    phys = phys or size
    fixed = set(range(104, 120 if size == 120 else 128))
    skip = set(fixed)
    for c in ctls:
        skip |= set(ctl_range(c))
    mem = bytearray(phys)
    mem[0:8] = bytes([0x11, 0x22, 0x33, 0x44, 0x55, 0x66, 0x77, 0x00])
    mem[8:12] = bytes([0xE1, 0x10, cc2, 0x00])
    for a in range(12, size):
        mem[a] = 0 if a in fixed else (0xEE if a in skip else 0x55)
    for c in ctls:
        if c[0] == 1:
            for a in ctl_range(c):
                if 12 <= a < size and a not in fixed:
                    mem[a] = 0x00
    old = old_message(rnd, oldn, style)
    stream = [0] * pad
    for c in ctls:
        stream += ctl_tlv(c)
    if canonical512:
        stream = list(bytearray.fromhex("0103F230330203F00203"))
    stream += [3] + len_field(oldn) + old + [0xFE]
    nxt = place(mem, 12, skip, stream)
    if nxt > size:
        raise ValueError("does not fit")
    lock = set()
    for c in ctls:
        if c[0] == 1:
            lock |= set(ctl_range(c))
    hr0 = 0x12 if dyn else 0x11
    fmt = "none"
    if hr1 == 0x48 and not dyn and pad == 0 and not ctls:
        fmt = "Topaz"
    if hr1 == 0x4C and dyn and canonical512 and size == 512:
        fmt = "Topaz512"
    return dict(kind="T1D" if dyn else "T1S", unit=8 if dyn else 1, fmt=fmt, hr=[hr0, hr1], mem0=mem,
                ro=ranges(list(range(0, 8)) + list(range(104, 112))),
                ow=ranges(set(range(112, 128 if dyn else 120)) | {a for a in lock if a < size}),
                desc=dict(b="t1", dyn=dyn, size=size, hr1=hr1, pad=pad, ctls=[list(c) for c in ctls], oldn=oldn,
                          style=style, canonical512=canonical512, phys=phys),
                old=old)


def build(rnd, d):
    if d["b"] == "t2":
        lay = build_t2(rnd, d["cc2"], d["extra"], d["pad"], [list(c) for c in d["ctls"]], d["oldn"], d["style"])
    else:
        lay = build_t1(rnd, d["dyn"], d["size"], d["hr1"], d["pad"], [list(c) for c in d["ctls"]], d["oldn"],
                       d["style"], d.get("canonical512", False), d.get("phys"))
    if d.get("rsvd_ro"):       # the tag ignores writes to the bytes a memory control TLV reserves (configuration bytes)
        ro = {a for lo, hi in lay["ro"] for a in range(lo, hi + 1)}
        for c in d["ctls"]:
            if c[0] == 2:
                ro |= {a for a in ctl_range(c) if a < len(lay["mem0"])}
        lay["ro"] = ranges(ro)
        lay["desc"]["rsvd_ro"] = True
    return lay


def make_sim(lay):
    def expand(rs):
        return [a for lo, hi in rs for a in range(lo, hi + 1)]
    if lay["kind"] == "T2":
        return SimT2T(lay["mem0"], oneway=expand(lay["ow"]), readonly=expand(lay["ro"]))
    return SimT1T(lay["mem0"], lay["hr"][0], lay["hr"][1], oneway=expand(lay["ow"]), readonly=expand(lay["ro"]))


# ------------------------------------------------------------------------------------------------
# one operation of the real code -> one trace
def new_message(seed, n):
    r = random.Random(seed * 7919 + n)
    return [r.randrange(0x20, 0x7F) for _ in range(n)]


def fresh_view(sim):
    sim.power_cycle()
    try:
        tag = activate(sim)
        nd = tag.ndef
        if nd is None:
            return dict(a="View", k="none", v=[], cap=0)
        return dict(a="View", k="ndef", v=list(bytearray(nd.octets)), cap=nd.capacity)
    except HarnessError:
        raise
    except Exception as e:        # a reader that raises: C08's subject; recorded, judged only via RefRead
        return dict(a="View", k="raise", v=[], cap=0, exc=type(e).__name__)


def reader_state(tag, sim, nd):
    rsec = getattr(tag, "_current_sector", 0)
    tsec = getattr(sim, "sector", 0)
    tm = getattr(nd, "_tag_memory", None) if nd is not None else None
    ext = len(tm) if (tm is not None and isinstance(sim, SimT2T)) else len(sim.mem)
    return tm, dict(ext=ext, rsec=rsec, tsec=tsec)


def run_case(case):
    """case: dict(id, lay=<desc>, lseed, op='write'|'format', n / wipe, mseed, cut=None|k,
                  fault=None|dict(at=<frame index since the call started>, kind='burst'|'nak'|'xerr'),
                  retry=0|1 (the call is repeated on the same tag object after a failed one; `cut` then applies to
                  the repeated call))"""
    rnd = random.Random(case["lseed"])
    lay = build(rnd, case["lay"])
    sim = make_sim(lay)
    ev = []
    tag = activate(sim)
    nd = tag.ndef
    if nd is None:
        raise HarnessError("layout not recognised as NDEF by nfcpy: %r" % case)
    sim.on_write = lambda u, d: ev.append(dict(a="Cmd", s=0, u=u, d=d))       # after the initial read of the tag
    sim.on_sel = lambda sec: ev.append(dict(a="Cmd", s=1, u=sec, d=[]))
    sim.on_fault = lambda kind, at: ev.append(dict(a="Fault", kind=kind, at=at))
    skipn = len([a for a in nd._skip_bytes if a < len(sim.mem)])
    base = dict(off=nd._ndef_tlv_offset, cap=nd.capacity, nskip=skipn)
    retries = case.get("retry", 0)
    fault = case.get("fault")
    msg = new_message(case["mseed"], case["n"]) if case["op"] == "write" else []
    wipe = case.get("wipe")
    kinds = []
    for attempt in range(1 + retries):
        tm, rs = reader_state(tag, sim, tag._ndef)
        if attempt == 0:
            sim.arm(fault)
            snap = dict(retry=False, cache=[], shadow=[])
        else:
            sim.arm(None)
            snap = dict(retry=True, cache=list(tm._data_in_cache) if tm is not None and case["op"] == "write" or
                        (tm is not None and lay["fmt"] == "T2") else [],
                        shadow=list(tm._data_from_tag) if tm is not None and (case["op"] == "write" or lay["fmt"] == "T2")
                        else [])
        if case.get("cut") is not None and attempt == retries:
            sim.cut_after = len(sim.log) + case["cut"]
        nfault = sum(1 for e in ev if e["a"] == "Fault")
        ncmd0 = sum(1 for e in ev if e["a"] == "Cmd")
        res, exc = "ok", ""
        if case["op"] == "write":
            ev.append(dict(a="Begin", op="write", msg=msg, wipe=256, **dict(base, **dict(snap, **rs))))
            try:
                tag.ndef.octets = bytes(bytearray(msg))
            except ValueError as e:
                res, exc = "reject", "ValueError"
            except nfc.tag.TagCommandError as e:
                res, exc = "tce", type(e).__name__
            except Exception as e:
                res, exc = "crash", type(e).__name__
        else:
            ev.append(dict(a="Begin", op="format", msg=[], wipe=256 if wipe is None else wipe,
                           **dict(base, **dict(snap, **rs))))
            try:
                r = tag.format(wipe=wipe)
                if r is not True:
                    res, exc = "crash", "returned %r" % (r,)
            except nfc.tag.TagCommandError as e:
                res, exc = "tce", type(e).__name__
            except Exception as e:
                res, exc = "crash", type(e).__name__
        if res == "tce":
            faulted = sum(1 for e in ev if e["a"] == "Fault") > nfault
            res = "cut" if not sim.powered else ("fail" if faulted else "crash")
        kinds = list(sim.kinds)
        tm2, rs2 = reader_state(tag, sim, tag._ndef)
        ev.append(dict(a="Ret", res=res, exc=exc, n=sum(1 for e in ev if e["a"] == "Cmd") - ncmd0, mem=list(sim.mem),
                       shadow=list(tm2._data_from_tag) if (res == "fail" and tm2 is not None) else [],
                       rsec=rs2["rsec"], tsec=rs2["tsec"]))
        if res != "fail":
            break
    # session: the next call on the SAME tag object after a completed one (read -> format(wipe) -> write)
    th = case.get("then")
    if th and res == "ok":
        nd2 = tag.ndef                       # what an application does; may read the tag anew (reads only)
        if nd2 is None:
            raise HarnessError("no NDEF after format: %r" % case)
        oldm = list(lay["old"])
        if th["msg"] == "same":              # the very message that was on the tag before the format
            msg2 = oldm
        elif th["msg"] == "prefix":          # same length, first half identical, second half new
            msg2 = oldm[:len(oldm) // 2] + new_message(case["mseed"], len(oldm))[len(oldm) // 2:]
        else:
            msg2 = new_message(case["mseed"], th["n"])
        tm, rs = reader_state(tag, sim, nd2)
        skipn2 = len([a for a in nd2._skip_bytes if a < len(sim.mem)])
        ncmd0 = sum(1 for e in ev if e["a"] == "Cmd")
        ev.append(dict(a="Begin", op="write", msg=msg2, wipe=256, off=nd2._ndef_tlv_offset, cap=nd2.capacity, nskip=skipn2,
                       retry=True, cache=list(tm._data_in_cache), shadow=list(tm._data_from_tag), **rs))
        res, exc = "ok", ""
        try:
            nd2.octets = bytes(bytearray(msg2))
        except ValueError:
            res, exc = "reject", "ValueError"
        except nfc.tag.TagCommandError as e:
            res, exc = "crash", type(e).__name__
        except Exception as e:
            res, exc = "crash", type(e).__name__
        tm2, rs2 = reader_state(tag, sim, tag._ndef)
        ev.append(dict(a="Ret", res=res, exc=exc, n=sum(1 for e in ev if e["a"] == "Cmd") - ncmd0, mem=list(sim.mem),
                       shadow=[], rsec=rs2["rsec"], tsec=rs2["tsec"]))
    sim.on_write = sim.on_sel = sim.on_fault = None
    ev.append(fresh_view(sim))
    const = dict(kind=lay["kind"], unit=lay["unit"], fmt=lay["fmt"], mem0=list(lay["mem0"]), ro=lay["ro"],
                 ow=lay["ow"], relax=[], old=list(lay["old"]))
    run_case.last_frames = kinds           # frame kinds of the last call (for choosing fault positions)
    return dict(id=case["id"], const=const, ev=ev)


# ------------------------------------------------------------------------------------------------
# case generators (deterministic for a seed)
def probe(desc, lseed):
    """nfcpy's own view of a layout, used only to CHOOSE lengths (never as an oracle)."""
    lay = build(random.Random(lseed), desc)
    sim = make_sim(lay)
    tag = activate(sim)
    nd = tag.ndef
    if nd is None:
        return None
    off = nd._ndef_tlv_offset
    hdr_rsvd = (off + 2 in nd._skip_bytes) or (off + 3 in nd._skip_bytes)
    return dict(cap=nd.capacity, off=off, hdr_rsvd=hdr_rsvd, lay=lay)


def lengths_for(cap, rnd, extra=()):
    c = {0, 1, 254, 255, 256, cap - 1, cap, cap + 1} | set(extra)
    if cap > 4:
        c.add(rnd.randrange(2, cap))
    return sorted(n for n in c if 0 <= n <= cap + 1)


def t2_desc(cc2, pad, ctls=(), oldn=0, style="rnd", extra=16):
    return dict(b="t2", cc2=cc2, extra=extra, pad=pad, ctls=[list(c) for c in ctls], oldn=oldn, style=style)


def t1_desc(dyn, size, hr1, pad, ctls=(), oldn=0, style="rnd", canonical512=False, phys=None):
    return dict(b="t1", dyn=dyn, size=size, hr1=hr1, pad=pad, ctls=[list(c) for c in ctls], oldn=oldn,
                style=style, canonical512=canonical512, phys=phys)


def threshold_layouts(quick):
    """usable TLV space (NDEF TLV tag byte .. end of the data area, minus reserved bytes) at every value around
    the point where the 3-byte length format starts to pay off: 253 .. 260 bytes, Type 2 and Type 1 dynamic"""
    out = []
    rooms = [256, 257, 258, 259] if quick else list(range(253, 261))
    for room in rooms:
        out.append(("t2-room%d" % room, t2_desc(33, 264 - room, (), 3 + room % 3)))                 # 8 * 33 - pad
        out.append(("t1d-room%d" % room, t1_desc(True, 296, 0x00, 260 - room, (), 3 + room % 3, phys=384)))  # 296 - 36 - pad
    # CC size byte 25h (304 byte area) with the Topaz-512 control TLVs, NDEF TLV at byte 22: 258 usable bytes
    out.append(("t1d-cc25-room258", t1_desc(True, 304, 0x4C, 0, (), 5, canonical512=True, phys=512)))
    return out


def layouts_c01(rnd, quick):
    out = []
    areas = [6, 12, 18, 0x3E] if quick else [6, 7, 12, 18, 32, 33, 0x3E, 0x6D, 0xFE]
    for i, cc2 in enumerate(areas):
        end = 16 + cc2 * 8
        for pad in ([i % 4, (i + 2) % 4] if quick else range(0, 5)):
            oldn = rnd.choice([0, 3, min(cc2 * 8 - 16, 260)])
            out.append(t2_desc(cc2, pad, (), oldn))
        # default dynamic lock bytes right after the data area, announced by a lock control TLV
        if cc2 > 6:
            nb = max(1, (cc2 * 8 - 48 + 63) // 64)
            try:
                frm = representable(end)
                if frm == end:
                    out.append(t2_desc(cc2, i % 4, [(1, end, nb)], 5))
            except ValueError:
                pass
            mid = representable(16 + cc2 * 4)
            out.append(t2_desc(cc2, (i + 1) % 4, [vary([2, mid, rnd.choice([1, 3, 8])], i)], 7))
            # lock bytes inside the area behind the NDEF TLV, bit counts that do not fill the last byte
            bits = [12, 9, 1, 15, 7, 17, 0, 255][i % 8]
            if bits not in (0, 255) or cc2 * 8 > 320:
                out.append(t2_desc(cc2, (i + 2) % 4, [vary([1, mid + 4, bits, None, 3], i + 1)], 5))
            if not quick:
                for j, b2 in enumerate((1, 7, 9, 12, 15, 17, 33)):
                    try:
                        out.append(t2_desc(cc2, j % 4, [vary([1, mid + j, b2, None, 3], j)], 5))
                    except ValueError:
                        pass
    out += [d for _, d in threshold_layouts(quick)]
    # large reserved blocks INSIDE a large data area: memory control size 00h (= 256 bytes) / 255 / 1 and lock control
    # bit count 00h (= 256 bits = 32 bytes); the tag ignores writes to the reserved bytes
    for j, (t, size) in enumerate(((2, 0), (2, 255), (2, 1), (1, 0), (1, 255))):
        for frm in ((200, 420) if not quick else (200 + 37 * j,)):
            for mk in ("t2", "t1d"):
                try:
                    frm = representable(frm)
                    c = vary([t, frm, size, None, 3], j + frm)
                    d = t2_desc(120, j % 4, [c], 40, "rnd") if mk == "t2" else t1_desc(True, 1024, 0x00, j % 8, [c], 40, "rnd")
                    d["rsvd_ro"] = True
                    out.append(d)
                except ValueError:
                    pass
    if quick:
        out.append(t2_desc(0x6D, 1, (), 300))
        out.append(t2_desc(0xFE, 3, (), 0, extra=32))
    # Type 1 static
    for pad in ([0, 1] if quick else range(0, 4)):
        out.append(t1_desc(False, 120, 0x48, pad, (), rnd.choice([0, 4, 60])))
        out.append(t1_desc(False, 120, 0x00, pad, (), rnd.choice([0, 9])))
    out.append(t1_desc(False, 120, 0x00, 2, [vary([2, 60, 4], 1)], 6))
    out.append(t1_desc(False, 120, 0x00, 1, [vary([1, 56, 12, None, 3], 2)], 6))
    out.append(t1_desc(False, 120, 0x00, 0, [[2, 52, 4, 3, 0, 5]], 6))                 # 02 03 5C 04 03: PageAddr 5, ByteOffset 12 >= 8
    out.append(t2_desc(12, 1, [[1, 60, 12] + list(noncanonical(60)[0][:1]) + [9, noncanonical(60)[0][1]]], 6))
    out.append(t1_desc(False, 120, 0x00, 0, [vary([2, 96, 0, None, 3], 0)], 6))       # 256 bytes: the tail and beyond
    # Type 1 dynamic
    out.append(t1_desc(True, 512, 0x4C, 0, (), 12, canonical512=True))
    for k, size in enumerate([256, 512] if quick else [256, 384, 512, 1024, 2048]):
        for pad in ([k, k + 5] if quick else range(0, 8)):
            out.append(t1_desc(True, size, 0x00, pad, (), rnd.choice([0, 10, 100])))
        out.append(t1_desc(True, size, 0x00, 3, [vary([2, 136, 5], k)], 20))
        out.append(t1_desc(True, size, 0x00, 2, [vary([1, 144, [9, 15, 1, 12, 7][k % 5], None, 3], k + 1)], 20))
    return out


def cases_c01(seed, quick):
    rnd = random.Random(seed * 1000003 + 1)
    cases = []
    for li, desc in enumerate(layouts_c01(rnd, quick)):
        lseed = seed * 1000 + li
        try:
            p = probe(desc, lseed)
        except ValueError:
            continue
        if p is None:
            raise HarnessError("generated layout not readable by nfcpy: %r" % desc)
        lens = lengths_for(p["cap"], rnd)
        if quick and p["cap"] > 600:
            lens = [n for n in lens if n in (0, 255, p["cap"], p["cap"] + 1)]
        for n in lens:
            if n >= LONG and p["hdr_rsvd"]:
                continue
            cases.append(dict(id="w%d.%d" % (li, n), lay=desc, lseed=lseed, op="write", n=n, mseed=seed + li, cut=None))
    # two-sector Type 2 Tag (CC size byte EAh): round trip of messages that reach into sector 1
    ms = t2_desc(0xEA, 2, (), 40, "rnd", extra=32)
    for n in ((1200,) if quick else (1000, 1200, 1400, 1866)):
        cases.append(dict(id="ms.%d" % n, lay=ms, lseed=seed * 1000 + 400, op="write", n=n, mseed=seed, cut=None))
    # ... and the old message already reaches into sector 1: reading it leaves the tag (and the object) in sector 1
    ms1 = t2_desc(0xEA, 1, (), 1100, "rnd", extra=32)
    for n in ((30, 1100) if quick else (0, 30, 1000, 1100, 1300, 1866)):
        cases.append(dict(id="ms1.%d" % n, lay=ms1, lseed=seed * 1000 + 401, op="write", n=n, mseed=seed, cut=None))
    # one session on one tag object: read (tag.ndef) -> format(wipe) -> write a message that shares bytes with the
    # old one -> fresh read
    sl = [("s-topaz", t1_desc(False, 120, 0x48, 0, (), 40, "rnd")), ("s-topaz512", t1_desc(True, 512, 0x4C, 0, (), 300, "rnd", canonical512=True)),
          ("s-t2", t2_desc(18, 0, (), 60, "rnd")), ("s-t2ms", ms)]
    if not quick:
        sl += [("s-topaz512s", t1_desc(True, 512, 0x4C, 0, (), 60, "rnd", canonical512=True)), ("s-t2b", t2_desc(0x3E, 3, (), 300, "rnd"))]
    for j, (name, desc) in enumerate(sl):
        for wipe in ((None, 0x5A) if quick else (None, 0x00, 0xFF, 0x5A)):
            for m in (("same", "prefix") if wipe is not None or not quick else ("same",)):
                cases.append(dict(id="%s.%s.%s" % (name, "n" if wipe is None else "%02x" % wipe, m), lay=desc,
                                  lseed=seed * 1000 + 430 + j, op="format", wipe=wipe, mseed=seed + j, cut=None,
                                  then=dict(msg=m)))
        if not quick:
            cases.append(dict(id="%s.5a.new" % name, lay=desc, lseed=seed * 1000 + 430 + j, op="format", wipe=0x5A,
                              mseed=seed + j, cut=None, then=dict(msg="new", n=17)))
    # one command fails with a tag error, the application repeats the assignment on the same tag object
    fl = [("f-t1s", t1_desc(False, 120, 0x48, 0, (), 23, "rnd"), 30), ("f-t1d", t1_desc(True, 512, 0x00, 3, (), 20, "rnd"), 300),
          ("f-t2", t2_desc(12, 1, (), 20, "rnd"), 40)]
    if not quick:
        fl += [("f-t2ms", ms, 1200), ("f-t1s0", t1_desc(False, 120, 0x00, 2, (), 10, "rnd"), 10)]
    for j, (name, desc, n) in enumerate(fl):
        base = dict(lay=desc, lseed=seed * 1000 + 410 + j, op="write", n=n, mseed=seed + j)
        cases += fault_cases(name, base, quick, rnd, retry=1, cuts="none", only=("read", "write", "ss1", "ss2"))
    return cases


# ---- the fault / retry dimension ------------------------------------------------------------------
FAULT_KINDS = {"T2": {"read": ["burst", "nak", "xerr"], "write": ["burst", "nak", "xerr"], "ss1": ["burst", "nak", "xerr"],
                      "ss2": ["xerr", "nak"]},       # silence after packet 2 IS the acknowledgement: never injected
               "T1": {"read": ["burst", "xerr"], "write": ["burst", "xerr"]}}


def frames_of(base):
    """frame kinds (read / write / ss1 / ss2) of the fault-free call, and its trace"""
    c = dict(base, id="probe", cut=None, fault=None, retry=0)
    tr = run_case(c)
    return list(run_case.last_frames), tr


def pick(idx, quick, rnd, every=False):
    """positions among idx: all (thorough / every) or first two, one in the middle, last two"""
    if every or len(idx) <= 5:
        return list(idx)
    if not quick:                         # thorough: every position up to 40, else 40 evenly spread ones
        return list(idx) if len(idx) <= 40 else sorted({idx[(j * (len(idx) - 1)) // 39] for j in range(40)})
    return sorted({idx[0], idx[1], idx[len(idx) // 2], idx[-2], idx[-1], idx[rnd.randrange(len(idx))]})


def fault_cases(idp, base, quick, rnd, retry, cuts, all_kinds=False, only=("read", "write", "ss1", "ss2"), every_write=False):
    """one transient fault at a frame of the call; retry = the application repeats the call on the same object;
    cuts = 'none' | 'some' | 'all': power cuts during the repeated call"""
    frames, _ = frames_of(base)
    fam = "T2" if base["lay"]["b"] == "t2" else "T1"
    out = []
    rot = 0
    for kind_of_frame in only:
        idx = [i for i, f in enumerate(frames) if f == kind_of_frame]
        if not idx or kind_of_frame not in FAULT_KINDS[fam]:
            continue
        sel = idx if kind_of_frame in ("ss1", "ss2") else pick(idx, quick, rnd, every=every_write and kind_of_frame == "write")
        for pos in sel:
            fks = FAULT_KINDS[fam][kind_of_frame]
            if not (all_kinds or kind_of_frame in ("ss1", "ss2")):
                rot += 1
                fks = [fks[rot % len(fks)]] if quick else fks
            for fk in fks:
                c0 = dict(base, id="%s.%s%d.%s" % (idp, kind_of_frame[0] + kind_of_frame[-1], pos, fk), cut=None,
                          fault=dict(at=pos, kind=fk), retry=0)
                out.append(c0)
                if retry and not (fk == "xerr" and kind_of_frame != "ss2"):      # a masked fault: nothing to repeat
                    c1 = dict(c0, id=c0["id"] + ".r", retry=1)
                    out.append(c1)
                    if cuts != "none":
                        tr = run_case(c1)
                        b = [i for i, e in enumerate(tr["ev"]) if e["a"] == "Begin"]
                        if len(b) < 2:
                            continue
                        total = sum(1 for e in tr["ev"][b[1]:] if e["a"] == "Cmd" and e["s"] == 0)
                        ks = range(0, total + 1) if cuts == "all" or total <= 6 else \
                            sorted({0, 1, 2, total // 2, total - 1, total, rnd.randrange(total + 1)})
                        for k in ks:
                            out.append(dict(c1, id=c1["id"] + ".k%d" % k, cut=k))
    return out


def count_cmds(case):
    c = dict(case)
    c["cut"] = None
    tr = run_case(c)
    return sum(1 for e in tr["ev"] if e["a"] == "Cmd" and e["s"] == 0), tr


def layouts_c02(rnd, quick):
    out = []
    # Type 2: every residue of the NDEF TLV offset mod 4, old message in both length formats
    for pad in range(4):
        out.append(t2_desc(0x3E, pad, (), 20 if pad % 2 else 300, "zero-lead"))
        if not quick:
            out.append(t2_desc(0x3E, pad + 4, (), 300 if pad % 2 else 20, "rnd"))
            out.append(t2_desc(0x6D, pad, (), 260, "zero-lead"))
            out.append(t2_desc(12, pad, (), 30, "zero-lead"))
    out.append(t2_desc(6, 1, (), 10, "zero-lead", extra=0))
    # Type 1 dynamic: every residue mod 8
    for pad in ([3, 4, 6, 7] if quick else range(8)):
        out.append(t1_desc(True, 512, 0x00, pad, (), 20 if pad % 2 else 280, "zero-lead"))
    out.append(t1_desc(True, 512, 0x4C, 0, (), 16, "zero-lead", canonical512=True))
    # Type 1 static (byte-wise writes; the 3-byte format cannot occur)
    out.append(t1_desc(False, 120, 0x48, 0, (), 30, "zero-lead"))
    if not quick:
        out.append(t1_desc(False, 120, 0x00, 3, (), 5, "rnd"))
    return out


def cases_c02(seed, quick):
    rnd = random.Random(seed * 1000003 + 2)
    cases = []
    for li, desc in enumerate(layouts_c02(rnd, quick)):
        lseed = seed * 1000 + 500 + li
        p = probe(desc, lseed)
        cap = p["cap"]
        oldn = desc["oldn"]
        # the new message has EXACTLY the old length (the length field does not change; the contents differ in
        # every page: old bytes are >= 80h, new bytes 20h..7Eh), or is 255 long over an old 3-byte length field
        same = {oldn} | ({255} if oldn >= LONG else set())
        lens = [n for n in sorted({1, 2, 40, 254, 255, 300, cap} | same) if n <= cap]
        if quick:
            lens = [n for n in lens if n in (1, 40, 300) or n in same or (n == cap and cap < 100)]
        for n in lens:
            base = dict(lay=desc, lseed=lseed, op="write", n=n, mseed=seed + li)
            total, _ = count_cmds(dict(id="x", cut=None, **base))
            if total <= (8 if quick else 40) or (n in same and (not quick or total <= 12)):
                cuts = set(range(0, total + 1))
            else:
                cuts = {0, 1, total - 2, total - 1, total} | {rnd.randrange(2, total - 2) for _ in range(1 if quick else 8)}
                if n in same:              # every few data pages
                    cuts |= set(range(2, total - 2, max(1, total // (6 if quick else 40))))
                if not quick:
                    cuts |= {2, total - 3}
            cases.append(dict(id="c%d.%d.full" % (li, n), cut=None, **base))
            for k in sorted(cuts):
                cases.append(dict(id="c%d.%d.k%d" % (li, n, k), cut=k, **base))
    # two-sector Type 2 Tag whose OLD message reaches into sector 1: the read leaves tag and tag object in sector 1,
    # the write starts with the "length = 0" page in sector 0
    ms1 = t2_desc(0xEA, 1, (), 1100, "rnd", extra=32)
    for n in ((30, 1100) if quick else (1, 30, 1000, 1100, 1200)):
        base = dict(lay=ms1, lseed=seed * 1000 + 590, op="write", n=n, mseed=seed)
        total, _ = count_cmds(dict(id="x", cut=None, **base))
        cuts = sorted({0, 1, 2, total // 2, total - 1, total} | ({rnd.randrange(total + 1) for _ in range(12)} if not quick else set()))
        cases.append(dict(id="ms1.%d.full" % n, cut=None, **base))
        for k in cuts:
            cases.append(dict(id="ms1.%d.k%d" % (n, k), cut=k, **base))
    # one write command is lost (tag error), the application repeats the assignment on the SAME tag object, and the
    # tag leaves the field at every position of the repeated write
    fl = [("f-t1s", t1_desc(False, 120, 0x48, 0, (), 23, "rnd"), 30, True),         # Topaz, byte-wise writes
          ("f-t1s=", t1_desc(False, 120, 0x48, 0, (), 23, "rnd"), 23, False),       # same length as the old message
          ("f-t1d", t1_desc(True, 512, 0x00, 2, (), 280, "zero-lead"), 300, False),
          ("f-t2", t2_desc(12, 2, (), 30, "zero-lead"), 40, False),
          ("f-t2l", t2_desc(0x3E, 1, (), 300, "rnd"), 300, False)]
    for j, (name, desc, n, every) in enumerate(fl):
        base = dict(lay=desc, lseed=seed * 1000 + 600 + j, op="write", n=n, mseed=seed + j)
        cases += fault_cases(name, base, quick, rnd, retry=1, cuts="some" if quick else "all", only=("write",),
                             every_write=every and not quick)
        if not quick:
            cases += fault_cases(name + "r", base, quick, rnd, retry=1, cuts="some", only=("read",))
    return cases


def vary(c, i):
    """give a control TLV descriptor one of the possible position encodings (BytesPerPage exponent) and an
    arbitrary upper nibble (BytesLockedPerLockBit / RFU); i selects deterministically"""
    t, frm, size, k, hi, pa = norm_ctl(c)
    es = encodings(frm)
    if not es:
        raise ValueError("not representable")
    k, pa, bo = es[(i * 7) % len(es)]
    return [t, frm, size, k, (3 + 5 * i) % 16, pa]


def noncanonical(frm):
    """encodings with ByteOffset >= 2**k, those where ByteOffset and the shifted PageAddr share a bit first"""
    es = [(k, pa, bo) for k, pa, bo in encodings(frm) if bo >= (1 << k) and pa > 0]
    return sorted(es, key=lambda e: (0 if ((e[1] << e[0]) & e[2]) else 1, e[0], e[1]))


def layouts_c03(rnd, quick):
    """control TLVs whose reserved ranges fall before / inside / directly after / beyond the message; lock bit
    counts that are not a multiple of 8, size 0 (= 256), every position encoding, page aligned starts / ends."""
    out = []
    combos = [(12, 0), (19, 1), (0x3E, 2)] if quick else [(12, 0), (12, 3), (19, 1), (32, 2), (33, 0), (0x3E, 2), (0x6D, 1)]
    vi = 0
    for ci, (cc2, pad) in enumerate(combos):
        end = 16 + cc2 * 8
        off1 = 16 + pad + 5          # NDEF TLV offset with one control TLV in front
        off2 = 16 + pad + 10
        spots = [("after-L", [2, off1 + 2, 2]), ("in-value", [2, off1 + 9, 3]), ("after-value", [2, off1 + 2 + 12, 4]),
                 ("area-end", [2, end - 3, 3]), ("cross-end", [2, end - 2, 4]), ("beyond", [2, end, 2]),
                 ("in-value-lock", [1, off1 + 9, 3]), ("beyond-lock", [1, end, 2])]
        if end > 16 * 8 + 16:
            spots += [("offs>=8", [2, 8 * 16 + 12, 3]), ("offs>=8-lock", [1, 8 * 16 + 12, 3])]
        # lock bit counts that do not fill the last lock byte, inside the area behind the NDEF TLV
        p4 = ((off1 + 12) // 4) * 4                       # a page start behind the TLV header
        more = [("lock-1bit", [1, off1 + 7, 1, None, 3]), ("lock-7bit@page", [1, p4, 7, None, 3]),
                ("lock-9bit", [1, p4 + 2, 9, None, 3]),          # two bytes ending exactly at a page end
                ("lock-12bit@page", [1, p4 + 4, 12, None, 3]), ("lock-15bit", [1, off1 + 5, 15, None, 3]),
                ("lock-17bit", [1, p4 + 1, 17, None, 3]),         # three bytes ending exactly at a page end
                ("lock-20bit-end", [1, end - 3, 20, None, 3]),    # the last three bytes of the area
                ("mem-1@page-end", [2, p4 + 3, 1, None, 3]), ("mem-4@page", [2, p4 + 8, 4, None, 3]),
                ("mem-256-beyond", [2, end, 0, None, 3]), ("lock-256bit-beyond", [1, end, 0, None, 3])]
        if cc2 * 8 > 320:
            more += [("mem-256-inside", [2, off1 + 20, 0, None, 3]), ("lock-256bit-inside", [1, off1 + 24, 0, None, 3]),
                     ("mem-255-inside", [2, off1 + 17, 255, None, 3]), ("lock-255bit-inside", [1, off1 + 11, 255, None, 3])]
        else:
            more += [("mem-256-tail", [2, end - 9, 0, None, 3])]      # 256 bytes: the area's tail and far beyond
        if quick:                      # thin out: every spot on one of the three combinations
            more = [m for j, m in enumerate(more) if j % len(combos) == ci or m[0] in ("lock-12bit@page", "lock-9bit")]
        for name, c in spots + more:
            vi += 1
            try:
                out.append((name, t2_desc(cc2, pad, [vary(c, vi)], 12, "rnd")))
                if not quick:          # the same range with every possible BytesPerPage exponent
                    cn = norm_ctl(c)
                    for k, pa, bo in encodings(cn[1]):
                        if k > 9 and pa == 0:
                            continue           # PageAddr 0: the exponent does not matter, a few suffice
                        out.append((name + "-k%d.%d" % (k, pa), t2_desc(cc2, pad, [[cn[0], cn[1], cn[2], k, (k * 7) % 16, pa]], 12, "rnd")))
            except ValueError:
                continue
        try:
            out.append(("two", t2_desc(cc2, pad, [vary([1, end, 2], vi), vary([2, off2 + 6, 3], vi + 1)], 12, "rnd")))
            out.append(("two-odd", t2_desc(cc2, pad, [vary([1, off2 + 9, 11, None, 3], vi + 2), vary([2, off2 + 14, 2], vi)], 12, "rnd")))
        except ValueError:
            pass
        # NDEF TLV in the last two bytes of the data area (NULL padded), with and without memory behind it
        out.append(("tlv-at-end", t2_desc(cc2, cc2 * 8 - 2, (), 0, "rnd", extra=16)))
    out.append(("tlv-at-end-static", t2_desc(6, 46, (), 0, "rnd", extra=0)))
    out.append(("plain", t2_desc(6, 0, (), 20, "rnd", extra=0)))
    out += threshold_layouts(quick)
    # Type 1 (tt1.py has its own get_lock_byte_range / get_rsvd_byte_range)
    out.append(("topaz", t1_desc(False, 120, 0x48, 0, (), 40)))
    out.append(("t1s-memctl", t1_desc(False, 120, 0x00, 1, [vary([2, 40, 6], 1)], 10)))
    out.append(("t1s-lock-12bit", t1_desc(False, 120, 0x00, 0, [vary([1, 48, 12, None, 3], 2)], 10)))
    out.append(("t1s-lock-9bit", t1_desc(False, 120, 0x00, 2, [vary([1, 62, 9, None, 3], 0)], 10)))
    out.append(("t1s-mem-256", t1_desc(False, 120, 0x00, 1, [vary([2, 90, 0, None, 3], 1)], 10)))
    # non-canonical position encodings: ByteOffset >= 2**BytesPerPage (PageAddr * 2**k + ByteOffset by the specifications),
    # those first where the offset shares a bit with the shifted page address
    def nc(t, frm, size, which=0):
        es = noncanonical(frm)
        k, pa, bo = es[which % len(es)]
        return [t, frm, size, k, (7 * which + 3) % 16, pa]
    out.append(("t1s-nc-5C", t1_desc(False, 120, 0x00, 0, [[2, 52, 4, 3, 0, 5]], 10)))           # 02 03 5C 04 03 = address 52
    out.append(("t1s-nc-lock", t1_desc(False, 120, 0x00, 1, [nc(1, 60, 12)], 10)))
    out.append(("t1d-nc-mem", t1_desc(True, 512, 0x00, 2, [nc(2, 130, 5)], 30)))
    out.append(("t1d-nc-lock", t1_desc(True, 256, 0x00, 0, [nc(1, 133, 9, 1)], 30)))
    out.append(("t2-nc-mem", t2_desc(12, 1, [nc(2, 52, 4)], 12, "rnd")))
    out.append(("t2-nc-lock", t2_desc(19, 2, [nc(1, 60, 12, 1)], 12, "rnd")))
    out.append(("t2-nc-mem-hi", t2_desc(0x3E, 0, [nc(2, 100, 3, 2)], 12, "rnd")))
    if not quick:
        for frm in (44, 52, 60, 75, 92):
            for w, (k, pa, bo) in enumerate(noncanonical(frm)):
                for t, size in ((2, 1), (2, 4), (1, 12), (1, 1)):
                    hi = (w * 3 + t) % 16
                    out.append(("t1s-nc%d.%d.%d.%d-k" % (frm, k, pa, t * 100 + size), t1_desc(False, 120, 0x00, w % 3, [[t, frm, size, k, hi, pa]], 8)))
                    out.append(("t2-nc%d.%d.%d.%d-k" % (frm, k, pa, t * 100 + size), t2_desc(12, w % 3, [[t, frm, size, k, hi, pa]], 8, "rnd")))
                    e2 = noncanonical(128 + frm % 8)
                    if e2:
                        k2, pa2, _ = e2[w % len(e2)]
                        out.append(("t1d-nc%d.%d.%d.%d.%d-k" % (128 + frm % 8, k2, pa2, t * 100 + size, w),
                                    t1_desc(True, 256, 0x00, w % 3, [[t, 128 + frm % 8, size, k2, hi, pa2]], 8)))
        for frm, size in ((100, 0), (130, 0), (135, 255)):          # size 0 (= 256) / max with non-canonical positions
            for w, (k, pa, bo) in enumerate(noncanonical(frm)[:4]):
                out.append(("t1d-ncmax%d.%d.%d-k" % (frm, k, pa), t1_desc(True, 512, 0x00, 1, [[2, frm, size, k, 3, pa]], 8)))
    out.append(("topaz512", t1_desc(True, 512, 0x4C, 0, (), 200, canonical512=True)))
    out.append(("t1d-near-rsvd", t1_desc(True, 256, 0x00, 80, (), 4)))
    out.append(("t1d-memctl", t1_desc(True, 512, 0x00, 2, [vary([2, 136, 16], 3)], 30)))
    out.append(("t1d-lock-15bit@block", t1_desc(True, 512, 0x00, 1, [vary([1, 136, 15, None, 3], 1)], 30)))
    out.append(("t1d-lock-1bit-blockend", t1_desc(True, 256, 0x00, 3, [vary([1, 143, 1, None, 3], 2)], 30)))
    out.append(("t1d-mem-256", t1_desc(True, 512, 0x00, 0, [vary([2, 200, 0, None, 3], 0)], 30)))
    if not quick:
        for bits in (1, 7, 9, 12, 15, 17, 33, 255, 0):
            for j, frm in enumerate((40, 47, 64)):
                try:
                    out.append(("t1s-lock-%dbit@%d" % (bits, frm), t1_desc(False, 120, 0x00, j, [vary([1, frm, bits, None, 3], bits + j)], 8)))
                    out.append(("t1d-lock-%dbit@%d" % (bits, frm + 96), t1_desc(True, 512, 0x00, j, [vary([1, frm + 96, bits, None, 3], bits + j)], 8)))
                except ValueError:
                    pass
    return out


def cases_c03(seed, quick):
    rnd = random.Random(seed * 1000003 + 3)
    cases = []
    for li, (name, desc) in enumerate(layouts_c03(rnd, quick)):
        lseed = seed * 1000 + 800 + li
        try:
            p = probe(desc, lseed)
        except ValueError:
            continue
        if p is None:
            raise HarnessError("generated layout not readable by nfcpy: %r" % desc)
        cap, off = p["cap"], p["off"]
        light = "-k" in name                      # encoding variants of a layout that is exercised in full elsewhere
        lens = set() if light else ({1, cap, cap + 1} | ({13, cap // 2, cap - 1, 254, 255, 256} if not quick else set()))
        if "room" in name:                        # around the 1-byte / 3-byte length format boundary
            lens = {n for n in (253, 254, 255, 256, cap - 1, cap, cap + 1) if quick or True}
            if quick:
                lens -= {253, cap - 1}
        # lengths whose last byte sits directly in front of a reserved range
        rs = set()
        for c in desc["ctls"]:
            rs |= set(ctl_range(c))
        if desc["b"] == "t1":
            rs |= set(range(104, 128))
        for c in desc["ctls"]:
            frm = c[1]
            if not light:
                lens.add(len([a for a in range(off + 2, frm) if a not in rs]))             # ends right before
            lens.add(len([a for a in range(off + 2, frm + ctl_nbytes(c) + 3) if a not in rs]))   # runs across it
        for n in sorted(lens):
            if n < 1 or n > cap + 1 or (n >= LONG and p["hdr_rsvd"]):
                continue
            cases.append(dict(id="w%d-%s.%d" % (li, name, n), lay=desc, lseed=lseed, op="write", n=n,
                              mseed=seed + li, cut=None))
        if p["lay"]["fmt"] != "none":
            for wipe in ((0xA5,) if light else (None, 0xA5) if quick else (None, 0x00, 0xA5)):
                cases.append(dict(id="f%d-%s.%s" % (li, name, "n" if wipe is None else "%02x" % wipe), lay=desc,
                                  lseed=lseed, op="format", wipe=wipe, cut=None))
    # two-sector Type 2 Tag (CC size byte EAh, > 1 KB): a message reaching into sector 1, format with wipe, and one
    # transient fault (lost command / NAK / garbled frame) at the sector selects and at reads / writes of the call
    ms = t2_desc(0xEA, 2, (), 40, "rnd", extra=32)
    mseed = seed * 1000 + 900
    for n in ((1200,) if quick else (1000, 1200, 1866, 1867)):
        cases.append(dict(id="ms.w%d" % n, lay=ms, lseed=mseed, op="write", n=n, mseed=seed, cut=None))
    cases.append(dict(id="ms.fa5", lay=ms, lseed=mseed, op="format", wipe=0xA5, cut=None))
    cases += fault_cases("ms.w1200", dict(lay=ms, lseed=mseed, op="write", n=1200, mseed=seed), quick, rnd, retry=0,
                         cuts="none", all_kinds=not quick)
    cases += fault_cases("ms.fa5", dict(lay=ms, lseed=mseed, op="format", wipe=0xA5), quick, rnd, retry=0,
                         cuts="none", only=("ss1", "ss2") if quick else ("read", "write", "ss1", "ss2"))
    big = t2_desc(0xFE, 1, (), 1100, "rnd", extra=32)          # three sectors, old message already in sector 1
    cases.append(dict(id="ms3.w1500", lay=big, lseed=mseed + 1, op="write", n=1500, mseed=seed, cut=None))
    if not quick:
        cases += fault_cases("ms3.w1500", dict(lay=big, lseed=mseed + 1, op="write", n=1500, mseed=seed), quick, rnd,
                             retry=0, cuts="none", only=("ss1", "ss2"))
    return cases


# ------------------------------------------------------------------------------------------------
# verdicts -> canonical keys
ALL_INV = ["CapSound", "RejectEarly", "NoCrash", "RoundTrip", "Atomic", "Confined", "UnitsInArea", "LockOneWay",
           "Coherent", "SectorSync"]
ENFORCED = {
    "C01": ["CapSound", "RejectEarly", "NoCrash", "RoundTrip", "Coherent", "SectorSync"],
    "C02": ["Atomic", "Coherent"],
    "C03": ["Confined", "UnitsInArea", "LockOneWay", "NoCrash", "RoundTrip", "SectorSync"],
}
K_EMPTY = "%s:ndef-write:len=0:UnboundLocalError"                      # % family
K_STRADDLE = "%s:ndef-write:3-byte-length-field-straddles-write-unit:FF-committed-first"
K_FORMAT = "tt2:_format:terminator-written-at-offset+2-without-skip-or-area-check"


def family(kind):
    return "tt2" if kind == "T2" else "tt1"


def classify(tr, verdict):
    line, act, why = verdict[1], verdict[2], verdict[3]
    kind_of_why = why[0] if why else "?"
    d = why[2] if len(why) > 2 and isinstance(why[2], dict) else {}
    fam = family(d.get("kind", tr["const"]["kind"]))
    ret = [e for e in tr["ev"] if e["a"] == "Ret"]
    exc = ret[0].get("exc", "") if ret else ""
    if kind_of_why == "inv":
        names = list(why[1])
        if names == ["NoCrash"] and d.get("op") == "write" and d.get("n") == 0 and exc == "UnboundLocalError":
            return K_EMPTY % fam
        if names == ["Atomic"] and d.get("op") == "write" and d.get("ph") == 3 and d.get("long") and d.get("straddle"):
            return K_STRADDLE % fam
        if d.get("op") == "format" and d.get("fmt") == "T2" and d.get("termbad") and \
                set(names) <= {"Confined", "UnitsInArea", "NoCrash", "LockOneWay"}:
            return K_FORMAT
        return "inv:%s:%s:%s:op=%s:ph=%s:long=%s:straddle=%s" % (
            "+".join(names), fam, act, d.get("op"), d.get("ph"), d.get("long"), d.get("straddle"))
    return "conformance:%s@%s:%s:%s:op=%s:pc=%s" % (kind_of_why, act, fam, d.get("kind"), d.get("op"), d.get("pc"))


def with_relax(tr, relax, suffix=""):
    t = dict(tr)
    t["const"] = dict(tr["const"], relax=sorted(relax))
    t["id"] = tr["id"] + suffix
    return t


def selftest_traces(tr):
    """binding self-test: one corrupted field, one corrupted address, one dropped event -> must be rejected"""
    out = []
    idx = [i for i, e in enumerate(tr["ev"]) if e["a"] == "Cmd" and e["s"] == 0]
    if len(idx) < 3:
        raise HarnessError("self-test trace too short")
    t1 = json.loads(json.dumps(tr))
    t1["ev"][idx[1]]["d"][0] ^= 0x01
    t1["id"] = tr["id"] + "-corrupt-byte"
    t2 = json.loads(json.dumps(tr))
    t2["ev"][idx[1]]["u"] += 1
    t2["id"] = tr["id"] + "-corrupt-unit"
    t3 = json.loads(json.dumps(tr))
    del t3["ev"][idx[1]]
    t3["id"] = tr["id"] + "-dropped"
    t4 = json.loads(json.dumps(tr))
    for e in t4["ev"]:
        if e["a"] == "View" and e["v"]:
            e["v"][-1] ^= 0x80
    t4["id"] = tr["id"] + "-corrupt-view"
    return [t1, t2, t3, t4]


def selftest_sector(tr):
    """a multi-sector trace with one sector select event dropped must be rejected"""
    t5 = json.loads(json.dumps(tr))
    for i, e in enumerate(t5["ev"]):
        if e["a"] == "Cmd" and e["s"] == 1:
            del t5["ev"][i]
            break
    else:
        return None
    t5["id"] = tr["id"] + "-dropped-sel"
    return t5


def validate(pid, ck, cases, tag, shards=6, timeout=1500):
    """run the cases on the real code, validate with TLC, classify.  Returns (accepted, events)."""
    enforced = ENFORCED[pid]
    relax0 = [n for n in ALL_INV if n not in enforced]
    traces, by_id = [], {}
    for c in cases:
        tr = with_relax(run_case(c), relax0)
        traces.append(tr)
        by_id[tr["id"]] = (tr, c)
    # binding self-test on complete writes with a non-empty read-back (a few candidates: a broken nfcpy may
    # make some of them unacceptable, which is then reported as a violation of those traces, not here)
    cands = []
    for tr in traces:
        ncmd = sum(1 for e in tr["ev"] if e["a"] == "Cmd")
        if ncmd >= 4 and tr["ev"][-2]["res"] == "ok" and tr["ev"][-1]["k"] == "ndef" and tr["ev"][-1]["v"] \
                and tr["ev"][0]["op"] == "write" and len(tr["ev"][0]["msg"]) < 200 \
                and tr["const"]["kind"] not in [c["const"]["kind"] for c in cands]:
            cands.append(with_relax(tr, ALL_INV, "-st"))      # conformance only: the mutation itself must be noticed
        if len(cands) >= 3:
            break
    if not cands:
        raise HarnessError("no trace suitable for the binding self-test")
    st = []
    for c in cands:
        st += [c] + selftest_traces(c)
    sel_base = sel_mut = None
    for tr in traces:
        if tr["ev"][-2]["res"] == "ok" and any(e["a"] == "Cmd" and e["s"] == 1 for e in tr["ev"]):
            sel_base = with_relax(tr, ALL_INV, "-st")
            sel_mut = selftest_sector(sel_base)
            st += [sel_base, sel_mut]
            break
    verdicts, stats = tlc.validate_traces("Trace_TlvTag.tla", "Trace_TlvTag.cfg", tag, traces + st,
                                          shards=shards, timeout=timeout)
    demonstrated = 0
    for c in cands:
        if verdicts[c["id"]][0] != "ACCEPT":
            continue
        demonstrated += 1
        for suffix in ("-corrupt-byte", "-corrupt-unit", "-dropped", "-corrupt-view"):
            if verdicts[c["id"] + suffix][0] == "ACCEPT":
                raise tlc.TLCError("binding vacuous: mutated trace %s accepted" % (c["id"] + suffix))
    selftest_ok = demonstrated > 0
    if sel_base is not None and verdicts[sel_base["id"]][0] == "ACCEPT" and verdicts[sel_mut["id"]][0] == "ACCEPT":
        raise tlc.TLCError("binding vacuous: trace with a dropped sector select accepted")
    accepted, nev = 0, 0
    pending = []
    for tr in traces:
        nev += len(tr["ev"])
        v = verdicts[tr["id"]]
        if v[0] == "ACCEPT":
            accepted += 1
        else:
            pending.append((tr, v, 0))
    # rejected traces: record the finding, then validate the REST of the trace with that invariant relaxed
    rounds = 0
    while pending and rounds < 3:
        rounds += 1
        again = []
        for tr, v, depth in pending:
            base_id = tr["id"].split("~")[0]
            orig, case = by_id[base_id]
            key = classify(tr, v)
            line, act, why = v[1], v[2], v[3]
            ev = tr["ev"][line - 1]
            evs = {kk: (vv if not isinstance(vv, list) or len(vv) < 24 else "[%d bytes]" % len(vv)) for kk, vv in ev.items()}
            ck.violation(key, "trace %s rejected at event %d (%s): %s ; event=%s ; case=%s" % (
                base_id, line, act, json.dumps(why)[:500], json.dumps(evs)[:300], json.dumps(case)[:400]),
                replay=dict(kind="tags12", pid=pid, case=case))
            if why and why[0] == "inv":
                again.append(with_relax(orig, set(tr["const"]["relax"]) | set(why[1]), "~%d" % rounds))
            elif why and why[0] in ("guard", "result") and act in ("Begin", "Cmd", "Ret") and "Plan" not in tr["const"]["relax"]:
                # the code's steps deviate from the model: let the property invariants judge the real commands
                again.append(with_relax(orig, set(tr["const"]["relax"]) | {"Plan"}, "~%d" % rounds))
        if not again:
            break
        v2, s2 = tlc.validate_traces("Trace_TlvTag.tla", "Trace_TlvTag.cfg", tag, again, shards=3, timeout=timeout)
        stats["states"] += s2["states"]
        stats["transitions"] += s2["transitions"]
        pending = []
        for tr in again:
            v = v2[tr["id"]]
            if v[0] == "ACCEPT":
                accepted += 1      # every step conforms; the only failed clauses are the recorded findings
            else:
                pending.append((tr, v, rounds))
    if not selftest_ok and not ck.found:
        raise tlc.TLCError("binding self-test: no base trace accepted and no violation reported")
    ck.cover(traces_validated_against_impl=accepted, trace_events=nev, trace_states=stats["states"])
    ck.cover(**{"traces_recorded_tags12": len(traces),
                "binding_selftest_tags12": "corrupted data byte / unit address / read-back byte and a dropped Cmd event all rejected"})
    s = traces[min(3, len(traces) - 1)]
    ck.sample(dict(trace=s["id"], kind=s["const"]["kind"], unit=s["const"]["unit"], mem_bytes=len(s["const"]["mem0"]),
                   events=[{kk: (vv if not isinstance(vv, list) or len(vv) < 12 else "[%d bytes]" % len(vv))
                            for kk, vv in e.items()} for e in s["ev"][:4]]))
    return accepted, nev


def mc_compute(pid, quick):
    """exhaustive run + reachability witnesses (TLC subprocesses; safe to run in a helper thread)"""
    c = pid.lower()
    cfg = "MC_TlvTag_%s%s.cfg" % (c, "q" if quick else "t")
    r = tlc.run("MC_TlvTag.tla", cfg, pid, workers=16, timeout=600 if quick else 1800)
    need = {"C01": ["W_DoneLong", "W_DoneCap", "W_Rejected", "W_Crash", "W_SkipInside", "W_OddLock", "W_RoomEdge", "W_SelDone", "W_RetryDone", "W_SessionDone"],
            "C02": ["W_CutNew", "W_CutOld", "W_CutEmpty", "W_Straddle", "W_Mixture", "W_RetryCut", "W_FaultLen0", "W_InSector1"],
            "C03": ["W_SkipInside", "W_SkipAfter", "W_SkipBeyond", "W_FormatWipe", "W_Escape", "W_OddLock", "W_Mem256",
                    "W_Exp2", "W_Exp3", "W_Exp4", "W_RoomEdge", "W_FaultSel", "W_SelDone", "W_NonCanon"]}[pid]
    hit, _ = tlc.witnesses("MC_TlvTag.tla", "MC_TlvTag_%sw.cfg" % c, pid, need, timeout=600, workers=2)
    return cfg, r, need, hit


def mc_book(ck, res):
    cfg, r, need, hit = res
    if not r.ok:
        ck.violation("spec:TlvTag:%s:%s" % (cfg, ",".join(r.violated or ["deadlock"])),
                     "TLC found a violation in the scaled model: %s" % (str(r.error_trace or r.out[-1500:]))[:2500])
    ck.cover(states=r.distinct, transitions=r.generated)
    ck.cover(**{"mc_depth_tags12": r.depth})
    missing = set(need) - hit
    if missing:
        raise tlc.TLCError("vacuous model: witnesses not reached: %s" % sorted(missing))
    ck.cover(**{"witnesses_tags12": sorted(need)})
    ck.sample(dict(mc=cfg, distinct=r.distinct, depth=r.depth, LongLen=5))


def run_part(pid, ck, tier, seed, cases_fn):
    import concurrent.futures as cf
    quick = tier == "quick"
    t0 = time.time()
    with cf.ThreadPoolExecutor(max_workers=1) as ex:
        fut = ex.submit(mc_compute, pid, quick)
        validate(pid, ck, cases_fn(seed, quick), pid, shards=6 if quick else 16)
        mc_book(ck, fut.result())
    ck.assume(*ASSUME)
    ck.cover(tags12_wall_s=round(time.time() - t0, 1))


ASSUME = [
    "TlvTag: exhaustive runs use scaled constants (LongLen=5, data areas 24..40 bytes for Type 2, 120/160/512 byte Type 1); "
    "real constants (LongLen=255, data areas 48..2032 bytes) are covered by trace validation of generated cases only",
    "TlvTag: well-formed layouts = control TLVs precede the NDEF TLV, reserved ranges do not cover a control TLV or the NDEF "
    "TLV's tag / current length field, and a write is in scope only if the length field the NEW message needs is not reserved",
    "TlvTag: simulated tags (sim/tlvtags.py) are trusted: page/block write granularity, OR-written lock/OTP bytes, NAK beyond memory",
    "TlvTag: 3-byte length fields with a value < 255 are accepted by the reference reader (as nfcpy does)",
]


def run_c01(ck, tier, seed):
    run_part("C01", ck, tier, seed, cases_c01)


def run_c02(ck, tier, seed):
    run_part("C02", ck, tier, seed, cases_c02)
    ck.assume("C02: cut = the simulated tag stops answering after the k-th state-changing command (that command is executed)")


def run_c03(ck, tier, seed):
    run_part("C03", ck, tier, seed, cases_c03)
    ck.assume("C03: format() is exercised on tags that already carry the product's NDEF management data (erase), not on blank tags")


def replay(rep, args):
    r = rep["replay"]
    pid = r["pid"]
    relax0 = [n for n in ALL_INV if n not in ENFORCED[pid]]
    tr = with_relax(run_case(r["case"]), relax0)
    verdicts, st = tlc.validate_traces("Trace_TlvTag.tla", "Trace_TlvTag.cfg", pid + "_replay", [tr], shards=1)
    v = verdicts[tr["id"]]
    print("replay verdict:", json.dumps(v)[:1500])
    if v[0] != "ACCEPT":
        ev = tr["ev"][v[1] - 1]
        print("event %d:" % v[1], json.dumps({k: (x if not isinstance(x, list) or len(x) < 40 else "[%d bytes]" % len(x))
                                               for k, x in ev.items()}))
        print("key:", classify(tr, v))
        print("VIOLATION property=%s replay=%s" % (pid, args.replay))
        return 1
    return 0
