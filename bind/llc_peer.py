"""A reactive LLCP peer behind a scripted MAC, and the scheduler installation for nfc.llcp.

`ScriptMac` stands where nfc.dep.Initiator/Target would be (llc.mac): every `exchange()` is one link
exchange; the peer model answers what a correct remote LLC would answer (CC to CONNECT for services it
offers, DM otherwise, RR for I, SDRES for SDREQ, DM for DISC, SYMM when idle) and can take initiatives
from a script (CONNECT to a DUT service, UI datagrams, I PDUs).  At exchange index `cut` the link ends by
one of the four causes of property C09.
"""
import collections
import nfc.clf
import nfc.llcp.pdu as pdu


class PeerModel(object):
    def __init__(self, services=None, names=None, script=None, miu=128, rw=1, echo=False, answer_snl=True):
        self.services = set(services or [20])             # remote SAPs that accept connections
        self.names = dict(names or {b"urn:nfc:sn:svc": 20})
        self.script = dict(script or {})                  # exchange index -> list of PDUs to send
        self.out = collections.deque()
        self.conn = {}                                    # (remote sap, dut sap) -> dict(vr, vs)
        self.miu, self.rw, self.echo = miu, rw, echo
        self.answer_snl = answer_snl                      # False: service name lookups are never answered
        self.seen = []

    def _one(self, p):
        n = p.name
        self.seen.append(n)
        if n == "CONNECT":
            dsap = p.dsap
            if dsap == 1 and p.sn is not None:
                dsap = self.names.get(bytes(p.sn), 0)
            if dsap in self.services:
                self.conn[(dsap, p.ssap)] = dict(vr=0, vs=0)
                self.out.append(pdu.ConnectionComplete(p.ssap, dsap, self.miu, self.rw))
            else:
                self.out.append(pdu.DisconnectedMode(p.ssap, p.dsap, 2))
        elif n == "I":
            c = self.conn.get((p.dsap, p.ssap))
            if c is None:
                self.out.append(pdu.DisconnectedMode(p.ssap, p.dsap, 1))
            else:
                c["vr"] = (p.ns + 1) % 16
                if self.echo:
                    self.out.append(pdu.Information(p.ssap, p.dsap, c["vs"], c["vr"], p.data))
                    c["vs"] = (c["vs"] + 1) % 16
                else:
                    self.out.append(pdu.ReceiveReady(p.ssap, p.dsap, c["vr"]))
        elif n == "DISC":
            self.conn.pop((p.dsap, p.ssap), None)
            self.out.append(pdu.DisconnectedMode(p.ssap, p.dsap, 0))
        elif n == "SNL" and self.answer_snl:
            res = [(tid, self.names.get(bytes(name), 0)) for tid, name in p.sdreq]
            if res:
                self.out.append(pdu.ServiceNameLookup(1, 1, sdres=res))
        elif n == "CC":
            self.conn[(p.dsap, p.ssap)] = dict(vr=0, vs=0)
        elif n == "UI" and self.echo:
            self.out.append(pdu.UnnumberedInformation(p.ssap, p.dsap, p.data))

    def on_frame(self, frame, k):
        if frame is not None:
            if frame.name == "AGF":
                for p in frame:
                    self._one(p)
            else:
                self._one(frame)
        for p in self.script.get(k, ()):
            self.out.append(p)
        return self.out.popleft() if self.out else pdu.Symmetry()


class ScriptMac(object):
    """link below the LLC; `cause` in {"disc","none","term","ioerr","broken","xmit","proto","garbage", None} fires at exchange `cut`"""
    role = "Initiator"
    rwt = None

    def __init__(self, sch, peer, cut=None, cause=None, max_exchanges=400):
        self.sch, self.peer, self.cut, self.cause = sch, peer, cut, cause
        self.n = 0
        self.max = max_exchanges
        self.ended = False

    def terminate_cb(self):
        return (self.cause == "term" and self.n >= self.cut) or self.n >= self.max

    def exchange(self, send_data, timeout):
        self.sch.yield_point()
        k = self.n
        self.n += 1
        if self.cut is not None and k >= self.cut:
            if self.cause == "disc":
                return pdu.encode(pdu.Disconnect(0, 0))
            if self.cause == "none":
                raise nfc.clf.TimeoutError("scripted link disruption")
            if self.cause == "ioerr":
                raise IOError(5, "scripted host link failure")
            if self.cause == "broken":         # what a target-side driver raises when the initiator's field goes off
                raise nfc.clf.BrokenLinkError("scripted link disruption")
            if self.cause == "xmit":
                raise nfc.clf.TransmissionError("scripted link disruption")
            if self.cause == "proto":
                raise nfc.clf.ProtocolError("scripted link disruption")
            if self.cause == "garbage":        # octets that are not an LLCP PDU
                return bytearray(b"\x00")
        frame = pdu.decode(send_data) if send_data else None
        return pdu.encode(self.peer.on_frame(frame, k))

    def deactivate(self, *a, **k):
        self.ended = True


def install(sch):
    """put the scheduler's threading/time shims into the nfcpy modules that use threads"""
    import nfc.llcp.llc, nfc.llcp.tco, nfc.snep.server, nfc.handover.server, nfc.handover.client
    shim, tshim = sch.threading_shim(), sch.time_shim()
    for m in (nfc.llcp.llc, nfc.llcp.tco, nfc.snep.server, nfc.handover.server):
        m.threading = shim
    for m in (nfc.llcp.llc, nfc.handover.client):
        m.time = tshim
    return shim, tshim


def uninstall():
    import threading, time
    import nfc.llcp.llc, nfc.llcp.tco, nfc.snep.server, nfc.handover.server, nfc.handover.client
    for m in (nfc.llcp.llc, nfc.llcp.tco, nfc.snep.server, nfc.handover.server):
        m.threading = threading
    for m in (nfc.llcp.llc, nfc.handover.client):
        m.time = time


def make_llc(mac, miu=128, agf=True):
    import nfc.llcp.llc as L
    llc = L.LogicalLinkController(miu=miu, agf=agf, sec=False)
    llc.cfg["send-miu"] = 128
    llc.cfg["recv-lto"] = 100
    llc.cfg["llcp-dpc"] = 0
    llc.mac = mac
    llc.link.CONNECTED = True
    llc.run = llc.run_as_initiator
    return llc
