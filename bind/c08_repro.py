"""Stand-alone reproduction of a C08 finding: runs one directed case (bind/c08.py directed_cases) on the real code
   cd /verif && /venv/bin/python -m bind.c08_repro <case id>     e.g. d-t1-lock-len2, d-t4-empty-read-binary
   (NFCPY_SRC selects the nfcpy tree, default /repo/src)"""
import sys
from vlib import use_repo
use_repo()
import bind.c08 as c08          # noqa: E402


def main(cid):
    case = {c["id"]: c for c in c08.directed_cases()}[cid]
    tr = c08.run_case(case)
    ncmd = 0
    for e in tr["ev"]:
        if e["a"] in ("Read", "ReadAt", "Select", "Cmd", "Retry"):
            ncmd += 1
        if e["a"] in ("Begin", "Finish", "Raise"):
            print({k: v for k, v in e.items() if k in ("a", "call", "none", "off", "len", "cap", "exc", "site")},
                  "commands so far:", ncmd)
    print("declared data area:", tr["const"]["area"])


if __name__ == "__main__":
    main(sys.argv[1])
