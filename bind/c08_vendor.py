"""C08, vendor stage -- activation (type identification by AUTHENTICATE / GET_VERSION probes, HR0/HR1, IC code),
tag.ndef, dump(), signature and presence check of every vendor class against arbitrary tag behaviour:

  tt2_nxp   MifareUltralight, MifareUltralightC, NTAG203, NTAG210/212/213/215/216, MF0UL11/H11/21/H21, NT3H1101/1201
  tt3_sony  FelicaStandard, FelicaMobile (system / area / service enumeration), FelicaLite, FelicaLiteS, FelicaPlug
  tt1_broadcom  Topaz, Topaz512

on the stateful simulators sim/vendor_nxp.py, sim/vendor_sony.py, sim/vendor_broadcom.py with generated memory
images and file systems (well formed and adversarial: service codes of no service type, areas that end before they
begin, lists longer than the card), every answer of the conversation replaced by well-framed variants (truncated,
extended, other payload, silence) and the tag going silent at the k-th command.  Every command is an event of the
C08 monitor (spec/TagRead.tla, Trace_TagRead): a unit is fetched once per call unless an answer was improper,
the command budget bounds every call, a call ends with a result inside the declared data area - or, for dump(),
with a TagCommandError, the documented error of every tag command - and never with anything else.
"""
import json, random, struct, time
from vlib import tlc
from bind import c08 as B
from sim.vendor_nxp import SimNxp, PRODUCTS
from sim import vendor_sony as S
from sim.vendor_broadcom import SimTopaz

import nfc
import nfc.clf
import nfc.tag

PID = "C08"
NXP_CLASS = {"UL": "MifareUltralight", "ULC": "MifareUltralightC", "NTAG203": "NTAG203"}
for _p in PRODUCTS:
    NXP_CLASS.setdefault(_p, _p)


class FakeClf(object):
    def __init__(self, sim, target, rec, budget):
        self.sim, self.target, self.rec = sim, target, rec
        self.max_send_data_size = self.max_recv_data_size = 290
        self.n = 0
        self.budget = budget
        self.last = None

    def sense(self, *targets, **kw):
        self.rec.append(dict(a="Sense"))
        return self.target if self.sim.activate() else None

    def exchange(self, data, timeout):
        self.n += 1
        if self.n > self.budget + 50:
            raise B.Watchdog()
        data = bytes(data)
        rsp = self.sim.process(data)
        name, unit, answered = self.sim.cmds[-1]
        if isinstance(unit, int):
            unit = ("page", unit)
        if name.startswith("W"):
            unit = None                           # a write fetches nothing
        answered = answered and not self.sim.applied
        retry = self.last is not None and self.last == (data, False)
        self.last = (data, answered)
        a = "Retry" if retry else ("Read" if unit is not None else "Cmd")
        self.rec.append(dict(a=a, u=B.unit_str(unit), n=name, ok=bool(answered), o=0))
        if rsp is None:
            if self.sim.applied == "xerr":
                raise nfc.clf.TransmissionError("sim: garbled frame")
            raise nfc.clf.TimeoutError("sim: no answer")
        return bytearray(rsp)


def t2_target(sim):
    t = nfc.clf.RemoteTarget("106A")
    t.sens_res = bytearray(b"\x44\x00")
    t.sel_res = bytearray(b"\x00")
    t.sdd_res = bytearray(sim.uid)
    return t


def decode_mut(m):
    out = {}
    for key, lst in (m or {}).items():
        out[key] = [v if v is None or isinstance(v, str) else (v[0], v[1] if isinstance(v[1], int) else bytes(v[1])) for v in lst]
    return out


def build(case):
    """-> (sim, target, class name nfcpy should pick or None, kind, [lo, hi] declared data area, budget)"""
    fam = case["fam"]
    mut = decode_mut(case.get("mut"))
    sf = case.get("silent_from")
    if fam == "nxp":
        sim = SimNxp(case["product"], uid=bytes(case["uid"]), formatted=False, nak=case.get("nak", "timeout"),
                     auth0=case.get("auth0"), prot=case.get("prot", False), mut=mut, silent_from=sf, gone_after=case.get("gone_after"),
                     rnd=random.Random(case["id"]))
        m = sim.sectors[0]
        img = bytes(case["image"])
        m[12:12 + len(img)] = img
        if sim.product == "NT3H1201" and case.get("image1"):
            sim.sectors[1][0:len(case["image1"])] = bytes(case["image1"])
        npages = sum(1 for s in sim.sectors for p in range(256) if sim._valid(s, p))
        area = [16, 16 + m[14] * 8]
        return sim, t2_target(sim), NXP_CLASS[case["product"]], "T2", area, 3 * (npages + 40)
    if fam == "fstd":
        systems = [S.System(c, [tuple(e[:2]) + ((e[2],) if e[0] == "area" else ([bytes(b) for b in e[2]],)) for e in ents])
                   for c, ents in case["systems"]]
        sim = S.SimFelicaStandard(systems, ic_code=case["ic"], commands=case.get("commands", (0, 2, 4, 6, 0x0A, 0x0C)),
                                  mut=mut, silent_from=sf)
        t = nfc.clf.RemoteTarget("212F")
        t.sensf_res = bytearray(sim.sensf_res(case.get("sensf_sys", True)))
        units = sum(len(s.entries) + 2 + sum(len(e[2]) + 1 for e in s.entries if e[0] == "service") for s in systems)
        blk0 = None
        for s in systems:
            if s.code == 0x12FC and s.service(0x000B):
                blk0 = s.service(0x000B)[2][0]
        area = [16, 16 * (1 + (blk0[3] << 8 | blk0[4]))] if blk0 else [16, 16]
        return sim, t, case["cls"], "T3", area, 3 * (units + 30)
    if fam == "lite":
        user = {int(k): bytes(v) for k, v in case.get("user", {}).items()}
        sim = S.SimLite(case["kind"], mut=mut, silent_from=sf, user=user, idm=bytes(case.get("idm", bytes.fromhex("0102030405060708"))))
        if case.get("mc"):
            sim.mem[0x88][0:len(case["mc"])] = bytes(case["mc"])
        t = nfc.clf.RemoteTarget("212F")
        t.sensf_res = bytearray(sim.sensf_res() if case.get("sensf_sys", True) else sim.sensf_res()[:-2])
        b0 = sim.mem[0]
        return sim, t, "FelicaLite" if case["kind"] == "lite" else "FelicaLiteS", "T3", [16, 16 * (1 + (b0[3] << 8 | b0[4]))], 3 * 60
    if fam == "plug":
        sim = B.T.Type3([bytes(b) for b in case["blocks"]], pmm=bytes([0, case["ic"]]) + b"\xff" * 6, mut=mut, silent_from=sf)
        sim.cmds = sim.log
        t = nfc.clf.RemoteTarget("212F")
        t.sensf_res = bytearray(sim.sensf_res(True))
        b0 = sim.blocks[0]
        return sim, t, "FelicaPlug", "T3", [16, 16 * (1 + (b0[3] << 8 | b0[4]))], 3 * (len(sim.blocks) + 20)
    if fam == "topaz":
        sim = SimTopaz(case["size"], image={int(k): bytes(v) for k, v in case["image"].items()}, mut=mut, silent_from=sf,
                       hr1=case.get("hr1"))
        t = nfc.clf.RemoteTarget("106A")
        t.sens_res = bytearray(b"\x00\x0c")
        t.rid_res = bytearray(sim.rid_res())
        return sim, t, "Topaz512" if case["size"] > 120 else "Topaz", "T1", [12, (sim.mem[10] + 1) * 8], 3 * (case["size"] // 8 + 30)
    raise ValueError(fam)


def run_case(case):
    rec = []
    sim, target, want, kind, area, budget = build(case)
    clf = FakeClf(sim, target, rec, budget)
    events = []
    info = dict(cls=None, lines=0)

    def call(name, fn, tce_ok=False):
        events.append(B.ev("Begin", call=name))
        start = len(rec)
        clf.n = 0
        clf.last = None
        exc, res, site = None, None, "-"
        try:
            res = fn()
        except Exception as e:                    # noqa -- this is the property
            exc = type(e).__name__
            if isinstance(e, nfc.tag.TagCommandError):
                exc = "TagCommandError"
            site = B.site_of(e)
        for r in rec[start:]:
            events.append(B.ev(r["a"], u=r.get("u", "-"), n=r.get("n", "-"), ok=r.get("ok", True), o=r.get("o", 0)))
        if exc == "TagCommandError" and tce_ok:
            events.append(B.ev("Finish", call=name, none=True))          # the documented error of a tag command
            return None, None
        if exc is not None:
            events.append(B.ev("Raise", exc=exc, call=name, site=site))
            return None, exc
        return res, None

    tag, exc = call("activate", lambda: nfc.tag.activate(clf, target))
    if exc is None:
        events.append(B.ev("Finish", call="activate", none=True))
    if tag is not None:
        info["cls"] = type(tag).__name__

        def read_ndef():
            nd = tag.ndef
            if nd is None:
                return None
            return dict(len=nd.length, cap=nd.capacity, olen=len(nd.octets), off=B.value_offset(tag, nd))
        r, exc = call("ndef", read_ndef)
        if exc is None:
            if r is None:
                events.append(B.ev("Finish", call="ndef", none=True))
            else:
                events.append(B.ev("Finish", call="ndef", none=False, off=r["off"], len=r["olen"], cap=r["cap"]))

        def dump():
            lines = tag.dump()
            if not isinstance(lines, list) or not all(isinstance(x, str) for x in lines):
                raise TypeError("dump() returned %r" % type(lines))
            info["lines"] = len(lines)
            return lines
        d, exc = call("dump", dump, tce_ok=True)
        if exc is None and d is not None:
            events.append(B.ev("Finish", call="dump", none=True))
        if hasattr(tag, "request_service"):
            # the enumeration interface of FeliCa Standard / Mobile on its own (each documents TagCommandError only)
            def enumerate_card():
                import nfc.tag.tt3 as tt3
                codes = [tt3.ServiceCode(0, 0x0B), tt3.ServiceCode(1, 0x09), tt3.ServiceCode(16, 0x17), tt3.ServiceCode(33, 0x0C)]
                out = []
                for fn in (tag.request_system_code, lambda: tag.request_service(codes), tag.request_response,
                           lambda: tag.search_service_code(0), lambda: tag.search_service_code(0xFFFF)):
                    try:
                        out.append(fn())
                    except nfc.tag.TagCommandError:
                        out.append(None)
                return out
            e, exc = call("enumerate", enumerate_card)
            if exc is None:
                events.append(B.ev("Finish", call="enumerate", none=True))
        if hasattr(type(tag), "signature"):
            s, exc = call("signature", lambda: tag.signature)
            if exc is None:
                if not isinstance(s, bytes):
                    events.append(B.ev("Raise", exc="Value:%s" % type(s).__name__, call="signature", site="tt2_nxp.signature"))
                else:
                    events.append(B.ev("Finish", call="signature", none=True))
        p, exc = call("present", lambda: bool(tag.is_present))
        if exc is None:
            events.append(B.ev("Finish", call="present", none=True))
    const = dict(kind=kind, phys=0, area=area, budget=budget,
                 silent=case.get("silent_from") is not None or bool(case.get("mut")), mem=[])
    return dict(id=case["id"], const=const, ev=events), info, want


# ------------------------------------------------------------------------------------------------------
# generators

def rb(rnd, n):
    return bytes(rnd.randrange(256) for _ in range(n))


def rl(rnd, n):
    return list(rb(rnd, n))


def nxp_variants(rnd, product):
    some = lambda menu, n: [rnd.choice(menu) for _ in range(n)]
    rd = [["trunc", 1], ["trunc", 4], ["trunc", 12], ["trunc", 15], ["trunc", 16], ["extend", [0]], ["extend", rl(rnd, 16)],
          ["raw", [0x0A]], ["raw", [0x00]], ["raw", [0x05]], ["raw", rl(rnd, 2)], "none", "xerr", None, None, None, None, None, None]
    ver = [["trunc", 1], ["trunc", 7], ["trunc", 8], ["extend", [3]], ["raw", [0]], ["raw", [0xAF]], ["raw", rl(rnd, 8)], "none", "xerr", None]
    au = [["trunc", 1], ["trunc", 8], ["trunc", 9], ["extend", [0]], ["raw", [0xAF]], ["raw", [0x00]], ["raw", rl(rnd, 9)], "xerr", None]
    sig = [["trunc", 1], ["trunc", 32], ["extend", [1, 2]], ["raw", [0x00]], "none", None]
    ss = [["raw", [0x0A, 0]], ["raw", []], ["raw", [0x00]], "none", None, None]
    return {"READ": some(rd, rnd.choice([2, 6, 20])), "VERSION": some(ver, 1), "AUTH1": some(au, 1), "SIG": some(sig, 1),
            "SECTOR1": some(ss, 2)}


def gen_nxp(rnd, i):
    product = rnd.choice(sorted(PRODUCTS))
    p = PRODUCTS[product]
    n = 4 * p["pages"] - 12 if p["fam"] != "i2c" else 1012
    r = rnd.random()
    cc = bytes([0xE1, 0x10, min(255, (n - 4) // 8) if rnd.random() < 0.7 else rnd.choice([0, 6, 0x12, 0x3E, 0x6D, 0xEA, 0xFF]),
                rnd.choice([0, 0, 0, 0x0F, 0x08, 0x88, 0xF0])])
    if r < 0.12:
        cc = rb(rnd, 4)
    elif r < 0.2:
        cc = bytes(4)
    body = B.valid_tlv_area(rnd, n - 4) if rnd.random() < 0.5 else B.tlv_soup(rnd, n - 4)
    if p["fam"] in ("ntag", "ev1") and rnd.random() < 0.8:
        body = body[:4 * p["cfg"] - 16]              # leave the configuration pages to the simulator
    if p["fam"] == "ulc":
        body = body[:4 * 40 - 16]
    case = dict(fam="nxp", product=product, uid=[0x04] + rl(rnd, 6), image=list(cc + body),
                nak="byte" if product == "NTAG203" else "timeout" if product == "UL" else rnd.choice(["timeout", "byte"]))
    if product == "NT3H1201":
        case["image1"] = list(B.tlv_soup(rnd, 896) if rnd.random() < 0.5 else bytes(896))
    if p["fam"] in ("ulc", "ntag", "ev1") and rnd.random() < 0.3:
        case["auth0"] = rnd.choice([0, 3, 4, 5, 16, 0x29, 0x30])
        case["prot"] = rnd.random() < 0.6
    return case


def attr_block(nbr=4, nbw=1, nmaxb=13, ln=0, rw=1, wf=0, good=True, ver=0x10):
    return bytes(B.attr_block(ver=ver, nbr=nbr, nbw=nbw, nmaxb=nmaxb, writef=wf, rw=rw, ln=ln, good=good))


STD_IC = [0x00, 0x01, 0x02, 0x08, 0x09, 0x0B, 0x0C, 0x0D, 0x20, 0x32, 0x35]
MOB_IC = [0x06, 0x07] + list(range(0x10, 0x20))


def gen_fs(rnd, adversarial):
    """one system's list of areas and services in search order"""
    ents = [["area", 0x0000, 0xFFFE]]
    num = 0
    depth_end = [0xFFFE]
    for _ in range(rnd.choice([0, 1, 3, 6, 12, 25])):
        r = rnd.random()
        num += rnd.randint(1, 3)
        if r < 0.2:
            end = min(0xFFFE, ((num + rnd.randint(1, 8)) << 6) | 0x3F)
            if adversarial and rnd.random() < 0.3:
                end = rnd.choice([0, (num << 6) - 1, 0xFFFF])
            ents.append(["area", (num << 6) | rnd.choice([0, 1]), end])
            continue
        kind = rnd.choice(["random", "cyclic", "purse"])
        attrs = {"random": [0x08, 0x09, 0x0A, 0x0B], "cyclic": [0x0C, 0x0D, 0x0E, 0x0F],
                 "purse": [0x10, 0x11, 0x12, 0x13, 0x14, 0x15, 0x16, 0x17]}[kind]
        pick = sorted(rnd.sample(attrs, rnd.randint(1, min(3, len(attrs)))))
        if adversarial and rnd.random() < 0.25:
            pick = [rnd.choice([0x02, 0x03, 0x04, 0x05, 0x06, 0x07, 0x18, 0x1B, 0x20, 0x3F])]      # no service type at all
        nblk = rnd.choice([0, 1, 2, 4, 9])
        blocks = [list(rb(rnd, 16)) if rnd.random() < 0.5 else [rnd.choice([0, 0xFF])] * 16 for _ in range(nblk)]
        for a in pick:
            ents.append(["service", (num << 6) | a, blocks])
    if adversarial and rnd.random() < 0.2:
        rnd.shuffle(ents)
    return ents


def gen_fstd(rnd, i):
    mobile = rnd.random() < 0.3
    ic = rnd.choice(MOB_IC if mobile else STD_IC)
    adversarial = rnd.random() < 0.4
    systems = []
    codes = rnd.sample([0x0003, 0xFE00, 0x811D, 0x8620, 0x0000, 0x12FC, 0x88B4], rnd.choice([1, 1, 2, 3]))
    for c in codes:
        ents = gen_fs(rnd, adversarial)
        if c == 0x12FC:
            nb = rnd.choice([1, 3, 8])
            ln = rnd.randint(0, 16 * (nb - 1)) if nb > 1 else 0
            blocks = [list(attr_block(nmaxb=nb - 1, ln=ln, good=rnd.random() < 0.9, nbr=rnd.choice([1, 4, 0])))] + \
                [rl(rnd, 16) for _ in range(nb - 1)]
            ents += [["service", 0x0009, blocks], ["service", 0x000B, blocks]]
        systems.append([c, ents])
    case = dict(fam="fstd", ic=ic, cls="FelicaMobile" if mobile else "FelicaStandard", systems=systems,
                sensf_sys=rnd.random() < 0.6)
    r = rnd.random()
    if r < 0.15:
        case["commands"] = [0, 2, 4, 6]                    # an older card: no Search Service Code / Request System Code
    elif r < 0.25:
        case["commands"] = [0, 6, 0x0C]
    elif r < 0.3:
        case["commands"] = [0, 6, 0x0A, 0x0C]              # no Request Response: the presence check falls back to polling
    return case


def fstd_variants(rnd):
    some = lambda menu, n: [rnd.choice(menu) for _ in range(n)]
    search = [["trunc", 1], ["trunc", 2], ["trunc", 3], ["extend", [0]], ["extend", rl(rnd, 2)], ["extend", rl(rnd, 3)],
              ["raw", []], ["raw", [0xFF]], ["raw", rl(rnd, 3)], ["raw", rl(rnd, 5)], ["idm", rl(rnd, 8)], "none",
              None, None, None, None, None, None]
    reqsys = [["trunc", 1], ["trunc", 2], ["extend", [0x12]], ["raw", []], ["raw", [0]], ["raw", [1]], ["raw", [2, 0x12, 0xFC]],
              ["raw", [255] + rl(rnd, 6)], ["idm", rl(rnd, 8)], "none", None, None]
    reqrsp = [["trunc", 1], ["extend", [0]], ["raw", [7]], ["raw", []], "none", None]
    reqsvc = [["trunc", 1], ["trunc", 2], ["extend", [0]], ["extend", rl(rnd, 2)], ["raw", []], ["raw", [4]], ["raw", [9] + rl(rnd, 8)], "none", None]
    poll = [["trunc", 1], ["trunc", 2], ["trunc", 8], ["extend", rl(rnd, 2)], ["idm", rl(rnd, 8)], ["raw", []], "none", None, None, None]
    read = [["trunc", 1], ["trunc", 16], ["trunc", 17], ["extend", rl(rnd, 16)], ["raw", [0, 0]], ["raw", [0, 0, 1]],
            ["raw", [1, 0xA8]], ["idm", rl(rnd, 8)], "none", None, None, None, None]
    return {"SEARCH": some(search, rnd.choice([1, 4, 12])), "REQSYS": some(reqsys, 2), "REQRSP": some(reqrsp, 2), "REQSVC": some(reqsvc, 1),
            "POLL": some(poll, 3), "READ": some(read, rnd.choice([1, 5]))}


def gen_lite(rnd, i):
    kind = rnd.choice(["lite", "lites"])
    nb = rnd.choice([1, 4, 13])
    ln = rnd.randint(0, 16 * nb)
    user = {"0": list(attr_block(nmaxb=nb, ln=ln, good=rnd.random() < 0.85, nbr=rnd.choice([1, 4, 4, 0]))) if rnd.random() < 0.8 else rl(rnd, 16)}
    for b in range(1, 15):
        if rnd.random() < 0.6:
            user[str(b)] = rl(rnd, 16) if rnd.random() < 0.5 else [rnd.choice([0, 0x20, 0xFF])] * 16
    idm = [rnd.choice([0x01, 0x02, 0x03]), rnd.randrange(0xFE)] + rl(rnd, 6)        # (01 FE .. would be an NFC-DEP target, not a tag)
    case = dict(fam="lite", kind=kind, user=user, idm=idm, sensf_sys=rnd.random() < 0.5)
    if rnd.random() < 0.4:
        case["mc"] = [rnd.choice([0xFF, 0x01, 0x00, 0xFE]), rnd.choice([0xFF, 0x7F, 0x00]), rnd.choice([0xFF, 0x00]), rnd.choice([0, 1])]
    return case


def lite_variants(rnd):
    some = lambda menu, n: [rnd.choice(menu) for _ in range(n)]
    read = [["trunc", 1], ["trunc", 8], ["trunc", 16], ["trunc", 17], ["extend", rl(rnd, 16)], ["raw", [0, 0]], ["raw", [0, 0, 1]],
            ["raw", [1, 0xA8]], ["idm", rl(rnd, 8)], "none", None, None, None, None, None]
    poll = [["trunc", 2], ["extend", rl(rnd, 2)], ["idm", rl(rnd, 8)], "none", None, None]
    return {"READ": some(read, rnd.choice([2, 8, 25])), "READ-err": some(read, 2), "POLL": some(poll, 2)}


def gen_plug(rnd, i):
    nb = rnd.choice([2, 5, 14])
    blocks = [list(attr_block(nmaxb=nb - 1, ln=rnd.randint(0, 16 * (nb - 1)), nbr=rnd.choice([1, 4])))] + [rl(rnd, 16) for _ in range(nb - 1)]
    return dict(fam="plug", ic=rnd.choice([0xE0, 0xE1]), blocks=blocks)


def gen_topaz(rnd, i):
    size = rnd.choice([120, 512])
    img = {}
    cc2 = 0x0E if size == 120 else 0x3F
    img["8"] = [0xE1, 0x10, cc2, 0x00] if rnd.random() < 0.8 else rl(rnd, 4)
    if size == 120:
        img["12"] = list(B.valid_tlv_area(rnd, 92) if rnd.random() < 0.5 else B.tlv_soup(rnd, 92))
    else:
        head = bytes.fromhex("0103f230330203f00203")
        img["12"] = list(head + (B.valid_tlv_area(rnd, 82) if rnd.random() < 0.5 else B.tlv_soup(rnd, 82)))
        img["128"] = list(B.tlv_soup(rnd, 384) if rnd.random() < 0.5 else bytes(384))
    if rnd.random() < 0.2:
        img["112"] = rl(rnd, 8)
    case = dict(fam="topaz", size=size, image=img)
    if rnd.random() < 0.1:
        case["hr1"] = rnd.randrange(256)            # (HR1 other than the product's: the generic Type1Tag is used)
    return case


def topaz_variants(rnd):
    some = lambda menu, n: [rnd.choice(menu) for _ in range(n)]
    rall = [["trunc", 1], ["trunc", 2], ["trunc", 60], ["trunc", 120], ["trunc", 121], ["trunc", 122], ["extend", rl(rnd, 6)],
            ["raw", rl(rnd, 1)], "none", None]
    blk = [["trunc", 1], ["trunc", 8], ["trunc", 9], ["extend", rl(rnd, 3)], ["raw", rl(rnd, 1)], "none", None, None, None]
    rd = [["trunc", 1], ["trunc", 2], ["extend", [0]], ["raw", rl(rnd, 2)], "none", None]
    return {"RALL": some(rall, 3), "READ8": some(blk, rnd.choice([2, 10])), "RSEG": some(blk + [["trunc", 100], ["trunc", 129]], 3),
            "READ": some(rd, 2)}


def directed():
    out = []
    ok_attr = list(attr_block(nmaxb=2, ln=20))
    ndef_sys = [0x12FC, [["area", 0, 0xFFFE], ["service", 0x0009, [ok_attr, [1] * 16, [2] * 16]], ["service", 0x000B, [ok_attr, [1] * 16, [2] * 16]]]]
    fs = [0x0003, [["area", 0, 0xFFFE], ["area", 0x0040, 0x07FF], ["service", 0x0048, [[5] * 16] * 2], ["service", 0x004A, [[5] * 16] * 2],
                   ["service", 0x004B, [[5] * 16] * 2], ["service", 0x008C, [[7] * 16]], ["service", 0x008F, [[7] * 16]],
                   ["area", 0x0800, 0x0FFF], ["service", 0x0810, [[9] * 16]], ["service", 0x0817, [[9] * 16]], ["service", 0x0851, [[3] * 16] * 3]]]
    std = dict(fam="fstd", ic=0x01, cls="FelicaStandard", systems=[fs, ndef_sys])
    out.append(dict(std, id="d-fstd-two-systems"))
    out.append(dict(std, id="d-fstd-mobile", ic=0x14, cls="FelicaMobile"))
    out.append(dict(std, id="d-fstd-no-enumeration", commands=[0, 2, 4, 6], systems=[ndef_sys]))
    out.append(dict(std, id="d-fstd-no-enumeration-not-ndef", commands=[0, 2, 4, 6], systems=[fs]))
    for name, v in (("search-1-byte", ["trunc", 1]), ("search-3-bytes", ["extend", [0]]), ("search-5-bytes", ["extend", [1, 2, 3]]),
                    ("search-empty", ["raw", []])):
        out.append(dict(std, id="d-fstd-" + name, mut={"SEARCH": [None, None, v]}))
    out.append(dict(std, id="d-fstd-reqsys-empty", mut={"REQSYS": [["raw", []]]}))
    out.append(dict(std, id="d-fstd-reqsys-count-only", mut={"REQSYS": [["raw", [3]]]}))
    bad = [0x0003, [["area", 0, 0xFFFE], ["service", 0x0044, [[1] * 16]]]]            # attribute 000100b: no service type
    out.append(dict(std, id="d-fstd-service-of-no-type", systems=[bad]))
    bad2 = [0x0003, [["area", 0, 0xFFFE], ["service", 0x005B, [[1] * 16]]]]           # attribute 011011b
    out.append(dict(std, id="d-fstd-service-attr-1b", systems=[bad2]))
    mixed = [0x0003, [["area", 0, 0xFFFE], ["service", 0x0048, [[1] * 16]], ["service", 0x004C, [[2] * 16]], ["service", 0x004F, [[2] * 16]],
                      ["service", 0x0050, [[3] * 16]], ["service", 0x0091, [[4] * 16]], ["service", 0x008B, [[5] * 16]]]]
    out.append(dict(std, id="d-fstd-one-number-several-types", systems=[mixed]))      # Random, Cyclic and Purse under one service number
    out.append(dict(std, id="d-fstd-area-ends-before-start", systems=[[0x0003, [["area", 0x1000, 0x0010], ["area", 0x0040, 0x0000],
                                                                                  ["service", 0x004B, [[1] * 16]]]]]))
    for prod in ("NT3H1101", "NT3H1201", "ULC", "NTAG213", "NTAG203", "MF0UL21", "UL"):
        img = bytes([0xE1, 0x10, 0x06, 0x00]) + bytes([3, 3, 0xD0, 0, 0, 0xFE]) + bytes(26)
        out.append(dict(id="d-nxp-%s" % prod, fam="nxp", product=prod, uid=[4, 1, 2, 3, 4, 5, 6], image=list(img),
                        nak="byte" if prod == "NTAG203" else "timeout"))
        out.append(dict(id="d-nxp-%s-silent-in-dump" % prod, fam="nxp", product=prod, uid=[4, 1, 2, 3, 4, 5, 6], image=list(img),
                        nak="byte" if prod == "NTAG203" else "timeout", silent_from=14))
    for prod, cls, v in (("ULC", "AUTH1", "xerr"), ("NTAG213", "VERSION", "xerr"), ("NTAG213", "VERSION", ["raw", [0]]),
                         ("NTAG213", "VERSION", ["raw", [1, 2, 3]])):
        out.append(dict(id="d-nxp-%s-probe-%s-%s" % (prod, cls, v if isinstance(v, str) else len(v[1])), fam="nxp", product=prod,
                        uid=[4, 1, 2, 3, 4, 5, 6], image=[0xE1, 0x10, 0x12, 0] + [3, 0, 0xFE, 0], mut={cls: [v]}))
    for sf in (1, 2, 3):
        out.append(dict(id="d-nxp-gone-at-%d" % sf, fam="nxp", product="NTAG203", uid=[4, 1, 2, 3, 4, 5, 6], nak="byte",
                        image=[0xE1, 0x10, 0x12, 0] + [3, 0, 0xFE, 0], silent_from=sf))
    for prod, k in (("NTAG203", 1), ("NTAG203", 2), ("ULC", 1), ("NTAG213", 2), ("UL", 1)):
        out.append(dict(id="d-nxp-%s-gone-after-%d" % (prod, k), fam="nxp", product=prod, uid=[4, 1, 2, 3, 4, 5, 6],
                        nak="byte" if prod == "NTAG203" else "timeout", image=[0xE1, 0x10, 0x12, 0] + [3, 0, 0xFE, 0], gone_after=k))
    out.append(dict(id="d-nxp-ulc-auth-probe-short", fam="nxp", product="ULC", uid=[4, 1, 2, 3, 4, 5, 6],
                    image=[0xE1, 0x10, 0x12, 0] + [3, 0, 0xFE, 0], mut={"AUTH1": [["raw", [0xAF]]]}))
    for size in (120, 512):
        img = {"8": [0xE1, 0x10, 0x0E if size == 120 else 0x3F, 0], "12": [3, 3, 0xD0, 0, 0, 0xFE]}
        out.append(dict(id="d-topaz%d" % size, fam="topaz", size=size, image=img))
        for name, v in (("rall-1-byte", ["trunc", 121]), ("rall-empty", ["trunc", 122]), ("rall-hr-only", ["trunc", 120])):
            out.append(dict(id="d-topaz%d-%s" % (size, name), fam="topaz", size=size, image=img, mut={"RALL": [None, v, v]}))
    for kind in ("lite", "lites"):
        out.append(dict(id="d-%s-dump" % kind, fam="lite", kind=kind, user={"0": list(attr_block(nmaxb=13, ln=5)), "1": [0x41] * 16}))
        out.append(dict(id="d-%s-dump-silent" % kind, fam="lite", kind=kind, user={"0": list(attr_block(nmaxb=13, ln=5))}, silent_from=18))
        out.append(dict(id="d-%s-dump-late-errors" % kind, fam="lite", kind=kind, user={"0": list(attr_block(nmaxb=13, ln=5))},
                        mut={"READ": [None] * 24 + [["raw", [1, 0xA8]]] * 8}))
        out.append(dict(id="d-%s-dump-reg-unreadable" % kind, fam="lite", kind=kind, user={"0": list(attr_block(nmaxb=13, ln=5))},
                        mut={"READ": [None] * 16 + [["raw", [1, 0xA8]]]}))
    out.append(dict(id="d-plug", fam="plug", ic=0xE0, blocks=[list(attr_block(nmaxb=2, ln=20))] + [[1] * 16, [2] * 16]))
    return out


GEN = dict(nxp=(gen_nxp, lambda rnd, c: nxp_variants(rnd, c["product"])), fstd=(gen_fstd, lambda rnd, c: fstd_variants(rnd)),
           lite=(gen_lite, lambda rnd, c: lite_variants(rnd)), plug=(gen_plug, lambda rnd, c: lite_variants(rnd)),
           topaz=(gen_topaz, lambda rnd, c: topaz_variants(rnd)))


def make_cases(tier, seed):
    rnd = random.Random("c08-vendor/%d" % seed)
    n = dict(quick=dict(nxp=330, fstd=260, lite=110, plug=20, topaz=110), thorough=dict(nxp=6000, fstd=5000, lite=2000, plug=200, topaz=2000))[tier]
    cases = directed()
    for fam in ("nxp", "fstd", "lite", "plug", "topaz"):
        gen, var = GEN[fam]
        for i in range(n[fam]):
            c = gen(rnd, i)
            c["id"] = "%s-%05d" % (fam, i)
            if rnd.random() < 0.2:
                c["silent_from"] = rnd.choice([1, 2, 3, 4, 5, 6, 8, 11, 15, 22, 40])
            if rnd.random() < 0.45:
                c["mut"] = var(rnd, c)
                if rnd.random() < 0.4:
                    c["mut"] = {k: v for k, v in c["mut"].items() if rnd.random() < 0.5}
            cases.append(c)
    return cases


# ------------------------------------------------------------------------------------------------------
def classify(tr, info, line, act, why):
    e = tr["ev"][line - 1]
    call = "?"
    for x in tr["ev"][:line][::-1]:
        if x["a"] == "Begin":
            call = x["call"]
            break
    cls = info.get("cls") or tr["const"]["kind"]
    # the family, not the product: one defect of NTAG21x._dump is one key, whichever NTAG shows it
    fam = {"NTAG210": "NTAG21x", "NTAG212": "NTAG21x", "NTAG213": "NTAG21x", "NTAG215": "NTAG21x", "NTAG216": "NTAG21x",
           "MF0UL11": "MifareUltralightEV1", "MF0ULH11": "MifareUltralightEV1", "MF0UL21": "MifareUltralightEV1",
           "MF0ULH21": "MifareUltralightEV1", "NT3H1101": "NTAGI2C", "NT3H1201": "NTAGI2C", "FelicaMobile": "FelicaStandard",
           "Topaz": "Type1Tag", "Topaz512": "Type1Tag"}.get(cls, cls)
    if call == "activate":
        fam = {"T1": "tt1_broadcom", "T2": "tt2_nxp", "T3": "tt3_sony"}[tr["const"]["kind"]]
    w = why[0] if why else "?"
    if call in ("ndef", "changed"):
        call = "read"
    if call == "enumerate" and e.get("site", "").split(".")[-1] in ("request_system_code", "search_service_code"):
        call = "dump"                              # the same function dump() goes through: one defect, one key
    if w == "exception":
        return "exception:%s:%s:%s@%s" % (fam, call, e["exc"], e["site"])
    if w == "result":
        return "result:%s:%s:%s" % (fam, call, "+".join(why[1]))
    if w == "repeat":
        return "loop:%s:%s:%s-requested-again" % (fam, call, e["u"].split(":")[0])
    if w == "budget":
        return "budget:%s:%s:more-commands-than-3x-memory-units" % (fam, call)
    return "%s:%s:%s:%s" % (w, fam, call, act)


def signature(tr, info):
    out = [info.get("cls")]
    for e in tr["ev"]:
        if e["a"] in ("Finish", "Raise"):
            out.append((e["call"], e["a"], e["exc"], e["none"], min(e["len"], 300) // 16))
        elif e["a"] in ("Read", "Cmd", "Retry"):
            out.append((e["a"], e["n"], e["ok"]))
    return hash(tuple(out))


def selftest_traces(traces):
    base = next(t for t in traces if t["id"] == "d-fstd-two-systems")
    t1 = json.loads(json.dumps(base))
    for e in t1["ev"]:
        if e["a"] == "Read" and e["u"].startswith("blk"):
            e2 = dict(e)
            t1["ev"].insert(t1["ev"].index(e) + 1, e2)           # the same block fetched twice in one call
            break
    t1["id"] = base["id"] + "#corrupt"
    t2 = json.loads(json.dumps(base))
    k = next(i for i, e in enumerate(t2["ev"]) if e["a"] == "Begin" and e["call"] == "dump")
    del t2["ev"][k]                                              # the commands of dump() outside any call
    t2["id"] = base["id"] + "#dropped"
    return [t1, t2]


def stage(ck, tier, seed):
    quick = tier == "quick"
    t0 = time.time()
    cases = make_cases(tier, seed)
    traces, infos, by_id = [], {}, {}
    wrong = []
    for c in cases:
        tr, info, want = run_case(c)
        traces.append(tr)
        infos[c["id"]] = info
        by_id[c["id"]] = c
        plain = not c.get("mut") and c.get("silent_from") is None and c.get("hr1") is None and c.get("gone_after") is None
        if plain and info["cls"] != want:
            wrong.append((c["id"], want, info["cls"]))
    for cid, want, got in wrong:
        ck.violation("identification:%s:activated-as-%s" % (want, got), "case %s: an answering %s was activated as %s" % (cid, want, got),
                     replay=dict(kind="vendor-case", case=by_id[cid]))
    t1 = time.time()
    self_t = selftest_traces(traces)
    verdicts, st = tlc.validate_traces("Trace_TagRead.tla", "Trace_TagRead.cfg", PID + "/vendor", traces + self_t,
                                       shards=6 if quick else 16, timeout=900 if quick else 3000)
    for t in self_t:
        if verdicts[t["id"]][0] == "ACCEPT":
            raise tlc.TLCError("binding vacuous: corrupted trace %s accepted" % t["id"])
    acc, sigs, per = 0, set(), {}
    for tr in traces:
        info = infos[tr["id"]]
        v = verdicts[tr["id"]]
        sigs.add(signature(tr, info))
        k = info.get("cls") or "None"
        per.setdefault(k, [0, 0])[0] += 1
        if v[0] == "ACCEPT":
            acc += 1
            per[k][1] += 1
            continue
        line, act, why = v[1], v[2], v[3]
        key = classify(tr, info, line, act, why)
        ck.violation(key, "case %s rejected at event %d (%s): %s" % (tr["id"], line, act, json.dumps(why)[:300]),
                     replay=dict(kind="vendor-case", case=by_id[tr["id"]]))
    ck.cover(evaluations=len(traces), distinct_nontrivial=len(sigs),
             vendor=dict(cases=len(traces), accepted=acc, classes={k: dict(cases=v[0], accepted=v[1]) for k, v in sorted(per.items())},
                         commands=sum(1 for t in traces for e in t["ev"] if e["a"] in ("Read", "Cmd", "Retry")),
                         dump_lines=sum(i["lines"] for i in infos.values()), trace_states=st["states"],
                         selftest="a block fetched twice in one dump() and a dropped Begin both rejected",
                         timing=dict(exec=round(t1 - t0, 1), validate=round(time.time() - t1, 1))))
    ck.assume("vendor stage: dump() may end with a TagCommandError (the documented error of every tag command); anything else "
              "that leaves activate / ndef / dump / signature / is_present is a violation",
              "vendor stage: a FeliCa card lists at most a few dozen areas and services (the 16 bit index space is not exhausted)")


def replay(rep, args):
    case = rep["replay"]["case"]
    tr, info, want = run_case(case)
    verdicts, st = tlc.validate_traces("Trace_TagRead.tla", "Trace_TagRead.cfg", PID + "_replay", [tr], shards=1)
    v = verdicts[tr["id"]]
    for e in tr["ev"]:
        if e["a"] in ("Begin", "Finish", "Raise"):
            print("  ", {k: x for k, x in e.items() if k in ("a", "call", "none", "off", "len", "cap", "exc", "site")})
    print("activated as", info["cls"], "(simulated:", want, ")  replay verdict:", v)
    if v[0] != "ACCEPT":
        print("key:", classify(tr, info, v[1], v[2], v[3]))
        print("VIOLATION property=%s replay=%s" % (PID, args.replay))
        return 1
    return 0
