"""C20, vendor stage -- authenticate() / protect(password) of the NXP vendor classes that the base check does not
reach: MifareUltralightC (3DES mutual authentication, key pages, AUTH0 / AUTH1), the whole NTAG21x family and
MifareUltralightEV1 (PWD_AUTH / PACK, CFG0 / CFG1 with AUTH0, PROT, CFGLCK), with tampered answers, power cuts
between any two commands, both ways a product may take a new configuration over, and the NDEF visibility that
read_protect promises.

Spec: spec/TagVendor.tla (symbolic 3DES; exhaustive with scaled constants and reachability witnesses; the model
of the code as it is must exhibit its Defects).  Binding: real tag objects built by nfc.tag.activate() on
sim/vendor_nxp.py (independent DES), every command / decoded WRITE value / modification / cut recorded and
validated by TLC against Trace_TagVendor with all invariants as step post-conditions.
"""
import time
import concurrent.futures as cf
from vlib import tlc
from bind import vendor_nxp as V

PID = "C20"
WITNESSES = ["W_UlcTrue", "W_UlcFalseWrongKey", "W_UlcFalseTamper", "W_UlcHalfKey", "W_PwdTrue", "W_ProtectUlc", "W_ProtectNtag",
             "W_ProtectEv1", "W_ProtectCC", "W_ProtectRefused", "W_ProtectImmPartial", "W_CutMixedKey", "W_CutFalse",
             "W_ProtectOther", "W_ProtectAuth", "W_NdefHidden", "W_NdefOverride", "W_NdefReadOnly", "W_ValueErrorShortPw"]
ASIS = ["W_AttributeError", "W_IndexError", "W_ValueErrorResp"]


def witnesses_in(res):
    from vlib import tlaval
    return {v[1] for v in tlaval.extract_tuples(res.out) if isinstance(v, list) and len(v) == 2 and v[0] == "WITNESS"}


def stage(ck, tier, seed):
    quick = tier == "quick"
    t0 = time.time()
    with cf.ThreadPoolExecutor(max_workers=2) as ex:
        f_mc = ex.submit(tlc.run, "MC_TagVendor.tla", "MC_TagVendor.cfg" if quick else "MC_TagVendor_thorough.cfg",
                         PID + "/vendor-fix", workers=8 if quick else 12, timeout=900 if quick else 3000)
        f_as = ex.submit(tlc.run, "MC_TagVendor.tla", "MC_TagVendor_asis.cfg", PID + "/vendor-asis", workers=4, timeout=600)
        scs = V.scenarios_c20(tier, seed)
        traces, by_id, results, harness = V.execute(scs, seed)
        r, ra = f_mc.result(), f_as.result()
    if not r.ok:
        ck.violation("spec:TagVendor:" + ",".join(r.violated or ["deadlock"]),
                     "TLC found a violation in the design-level model: %s" % str(r.error_trace or r.out[-1500:])[:3000])
    if not ra.ok:
        ck.violation("spec:TagVendor(as-is):" + ",".join(ra.violated or ["deadlock"]),
                     "TLC found a violation in the model of the code as it is: %s" % str(ra.error_trace or ra.out[-1500:])[:3000])
    hit, hit_a = witnesses_in(r), witnesses_in(ra)
    if set(WITNESSES) - hit:
        raise tlc.TLCError("vacuous model: witnesses not reached: %s" % sorted(set(WITNESSES) - hit))
    if hit & set(ASIS):
        raise tlc.TLCError("the design model exhibits a defect outcome: %s" % sorted(hit & set(ASIS)))
    if set(ASIS) - hit_a:
        raise tlc.TLCError("the as-is model (Defects) does not exhibit %s" % sorted(set(ASIS) - hit_a))
    t1 = time.time()
    for key, what, sc in harness:
        ck.violation(key, what, replay=dict(kind="vendor-nxp", scenario=sc))
    self_t = V.selftest_traces(traces)
    acc, st, found = V.validate(ck, PID + "/vendor", traces, by_id, self_t, timeout=900 if quick else 2400,
                                shards=6 if quick else 12)
    outcomes = {}
    for t in traces:
        for e in t["ev"]:
            if e["a"] == "Return":
                outcomes[e["res"]] = outcomes.get(e["res"], 0) + 1
    ck.cover(states=r.distinct + ra.distinct, transitions=r.generated + ra.generated,
             traces_validated_against_impl=acc,
             vendor=dict(mc_design=r.distinct, mc_as_is=ra.distinct, mc_depth=r.depth,
                         witnesses=sorted(hit) + ["asis:" + n for n in sorted(hit_a & set(ASIS))],
                         traces=len(traces), accepted=acc, with_findings=len(found), products=sorted({s["product"] for s in scs}),
                         events=sum(len(t["ev"]) for t in traces), operations=sum(len(s["ops"]) for s in scs),
                         modifications=sum(1 for t in traces for e in t["ev"] if e["a"].startswith("Adv")),
                         cuts=sum(1 for t in traces for e in t["ev"] if e["a"] == "Cut"),
                         trace_states=st["states"], outcomes=outcomes,
                         selftest="wrong AUTH0, dropped WRITE, wrong effective PROT and hidden modification all rejected",
                         timing=dict(mc_and_exec=round(t1 - t0, 1), validate=round(time.time() - t1, 1))))
    ck.sample(dict(vendor_trace=traces[0]["id"], init={k: v for k, v in traces[0]["init"].items() if k != "pg"},
                   first_events=[{k: v for k, v in e.items() if k in ("a", "op", "pw", "c", "ok", "out", "res")} for e in traces[0]["ev"][:8]]))
    ck.assume("vendor stage: Ultralight C 3DES is symbolic in the model; numeric agreement of nfcpy (pyDes) with the independent "
              "DES of sim/auth_des.py is what makes the untampered runs return True",
              "vendor stage: whether a product takes a changed key / AUTH0 / PROT over at once or at the next activation is not "
              "fixed by the data sheets at hand: both behaviours are simulated and modelled",
              "vendor stage: the adversary modifies (flips, truncates, replays) the answers of AUTHENTICATE part 1 / 2 and "
              "PWD_AUTH, never commands; NTAG21x PACK replay is the product's limit (C20 base part)")


def replay(rep, args):
    return V.replay(rep, args, PID)
