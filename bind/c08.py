"""C08 -- activating and reading arbitrary tags terminates safely.

Spec: spec/TagRead.tla (a *monitor*: which commands a reader may still send, how many, and which results
are acceptable; no action for an exception) + a reference TLV reader checked for totality over all small
images.  Binding: generated memory images / activation answers / silence points on sim/c08_tags.py,
nfc.tag.activate() + tag.ndef (+ length, capacity, octets, has_changed) on the real code, every command
recorded, validated by TLC against Trace_TagRead.  Level: exploration.
"""
import os, sys, json, random, struct, time
from vlib import tlc, check
from sim import c08_tags as T

import nfc
import nfc.clf
import nfc.tag

PID = "C08"
BUDGET = 700          # watchdog: commands per call of the code under test


class Watchdog(Exception):
    """raised inside clf.exchange when the command budget of one call is used up (a loop)"""


class FakeClf(object):
    def __init__(self, sim, target, rec, max_send=290, max_recv=290):
        self.sim, self.target, self.rec = sim, target, rec
        self.max_send_data_size, self.max_recv_data_size = max_send, max_recv
        self.n = 0
        self.last = None      # (command bytes, answered?)

    def sense(self, *targets, **kw):
        self.rec.append(dict(a="Sense"))
        return self.target if self.sim.activate() else None

    def exchange(self, data, timeout):
        self.n += 1
        if self.n > BUDGET:
            raise Watchdog()
        data = bytes(data)
        rsp = self.sim.process(data)
        name, unit, answered = self.sim.log[-1]
        # an answer the simulator replaced by a variant is no proper answer: asking again is a retry
        answered = answered and not self.sim.applied
        retry = self.last is not None and self.last == (data, False)
        self.last = (data, answered)
        a, o = "Cmd", 0
        if retry:
            a = "Retry"
        elif unit is not None:
            a = "Read"
            if unit[0] == "rb":
                a, o = "ReadAt", unit[2]
            elif unit[0] == "sel":
                a = "Select"
        self.rec.append(dict(a=a, u=unit_str(unit), n=name, ok=bool(answered), o=o))
        if rsp is None:
            raise nfc.clf.TimeoutError("sim: no answer")
        return bytearray(rsp)


def site_of(e):
    """innermost nfcpy function on the traceback (module.function): names the place, survives line shifts"""
    tb = e.__traceback__
    site = "-"
    while tb is not None:
        fn = tb.tb_frame.f_code.co_filename
        if os.sep + "nfc" + os.sep in fn:
            site = "%s.%s" % (os.path.basename(fn)[:-3], tb.tb_frame.f_code.co_name)
        tb = tb.tb_next
    return site


def unit_str(u):
    if u is None:
        return "-"
    return ":".join(str(x) if not isinstance(x, tuple) else ",".join(map(str, x)) for x in u)


def ev(a, **kw):
    rec = dict(a=a, u="-", n="-", ok=True, o=0, call="-", none=True, off=0, len=0, cap=0, tlv=-1, exc="-", site="-")
    rec.update(kw)
    return rec


def make_target(case, sim):
    k = case["kind"]
    if k == "T1":
        t = nfc.clf.RemoteTarget("106A")
        t.sens_res = bytearray(b"\x00\x0c")
        t.rid_res = bytearray(sim.rid_res())
    elif k == "T2":
        t = nfc.clf.RemoteTarget("106A")
        t.sens_res = bytearray(b"\x44\x00")
        t.sel_res = bytearray(b"\x00")
        t.sdd_res = bytearray(sim.uid)
    elif k == "T3":
        t = nfc.clf.RemoteTarget("212F")
        t.sensf_res = bytearray(sim.sensf_res(case.get("sensf_sys", True)))
    elif k == "T4":
        if case.get("type_b"):
            t = nfc.clf.RemoteTarget("106B")
            t.sensb_res = bytearray(case.get("sensb_res", bytes.fromhex("50e8253eec00000011008185")))
        else:
            t = nfc.clf.RemoteTarget("106A")
            t.sens_res = bytearray(b"\x44\x03")
            t.sel_res = bytearray(b"\x20")
            t.sdd_res = bytearray(bytes.fromhex("04832f9a272d80"))
    return t


def decode_mut(m):
    """case["mut"] (JSON friendly) -> the simulators' variant table"""
    out = {}
    for key, lst in (m or {}).items():
        key = int(key) if str(key).isdigit() else key
        vs = []
        for v in lst:
            if v is None or isinstance(v, str):
                vs.append(v)
            else:
                vs.append((v[0], v[1] if isinstance(v[1], int) else bytes(v[1])))
        out[key] = vs
    return out


def make_sim(case):
    k = case["kind"]
    sf = case.get("silent_from")
    mut = decode_mut(case.get("mut"))
    if k == "T1":
        return T.Type1(bytes(case["hr"]), bytes(case["mem"]), silent_from=sf, rseg=case.get("rseg"), mut=mut)
    if k == "T2":
        v = case.get("version")
        v = bytes(v) if isinstance(v, list) else v
        return T.Type2(bytes(case["mem"]), silent_from=sf, version=v, nak=case.get("nak", "timeout"),
                       uid=bytes(case["uid"]) if case.get("uid") else None, ulc=case.get("ulc", False), mut=mut)
    if k == "T3":
        return T.Type3([bytes(b) for b in case["blocks"]], silent_from=sf, nbr_max=case.get("nbr_max", 4),
                       sys=bytes(case.get("sys", b"\x12\xfc")), pmm=bytes(case.get("pmm", bytes.fromhex("0001ffffffffffff"))),
                       systems=[bytes(x) for x in case["systems"]] if case.get("systems") else None, mut=mut)
    if k == "T4":
        return T.Type4({bytes.fromhex(f): bytes(v) for f, v in case["files"].items()}, ats=bytes(case.get("ats", bytes.fromhex("067577810280"))),
                       silent_from=sf, aids=tuple(case.get("aids", ("v2", "v1"))), short_read=case.get("short_read"),
                       short_from=case.get("short_from", 0),
                       short_file=bytes.fromhex(case["short_file"]) if case.get("short_file") else None,
                       type_b=case.get("type_b", False), attrib_res=bytes(case.get("attrib_res", b"\x00")), mut=mut)
    raise ValueError(k)


def value_offset(tag, nd, case=None):
    """where the returned octets start in tag memory / file (bytes), as the code located them"""
    name = tag.type
    if name in ("Type1Tag", "Type2Tag"):
        off = nd._ndef_tlv_offset
        mem = (case or {}).get("mem")
        if mem is not None and off + 1 < len(mem):
            return off + (4 if mem[off + 1] == 0xFF else 2)        # the length format the image uses
        return off + (2 if nd.length < 255 else 4)
    if name == "Type3Tag":
        return 16
    if name == "Type4Tag":
        return getattr(nd, "_nlen_size", 2)
    return 0


def tlv_offset(tag, nd):
    """address of the NDEF message TLV's T byte for the TLV based types (-1 otherwise)"""
    return nd._ndef_tlv_offset if tag.type in ("Type1Tag", "Type2Tag") else -1


def run_case(case):
    """-> trace dict for Trace_TagRead.  Calls: activate, ndef, (attributes), changed."""
    rec = []
    sim = make_sim(case)
    target = make_target(case, sim)
    clf = FakeClf(sim, target, rec)
    events = []
    state = dict(tag=None)

    def call(name, fn):
        events.append(ev("Begin", call=name))
        start = len(rec)
        clf.n = 0
        clf.last = None
        exc = None
        res = None
        site = "-"
        try:
            res = fn()
        except Exception as e:                    # noqa -- this is the property
            exc = type(e).__name__
            if isinstance(e, nfc.tag.TagCommandError):
                exc = "TagCommandError"
            site = site_of(e)
        for r in rec[start:]:
            events.append(ev(r["a"], u=r.get("u", "-"), n=r.get("n", "-"), ok=r.get("ok", True), o=r.get("o", 0)))
        if exc is not None:
            events.append(ev("Raise", exc=exc, call=name, site=site))
            return None, exc
        return res, None

    tag, exc = call("activate", lambda: nfc.tag.activate(clf, target))
    if exc is None:
        events.append(ev("Finish", call="activate", none=True))     # a tag object or None: nothing to bound
    if exc is None and tag is not None:
        def read_ndef():
            nd = tag.ndef
            if nd is None:
                return None
            return dict(len=nd.length, cap=nd.capacity, olen=len(nd.octets), off=value_offset(tag, nd, case), tlv=tlv_offset(tag, nd),
                        rd=bool(nd.is_readable), wr=bool(nd.is_writeable))
        r, exc = call("ndef", read_ndef)
        if exc is None:
            if r is None:
                events.append(ev("Finish", call="ndef", none=True))
            else:
                events.append(ev("Finish", call="ndef", none=False, off=r["off"], len=r["olen"], cap=r["cap"], tlv=r["tlv"]))

                def changed():
                    nd = tag.ndef                      # the object obtained above (cached)
                    ch = nd.has_changed                # one more complete read
                    if tag._ndef is None:              # the re-read failed: tag.ndef is gone
                        return None
                    return dict(len=nd.length, cap=nd.capacity, olen=len(nd.octets), off=value_offset(tag, nd, case), tlv=tlv_offset(tag, nd), ch=ch)
                r2, exc2 = call("changed", changed)
                if exc2 is None:
                    if r2 is None:
                        events.append(ev("Finish", call="changed", none=True))
                    else:
                        events.append(ev("Finish", call="changed", none=False, off=r2["off"], len=r2["olen"], cap=r2["cap"], tlv=r2["tlv"]))
    if tag is not None:
        # the presence check re-runs the activation / identification commands of the tag type
        p, excp = call("present", lambda: bool(tag.is_present))
        if excp is None:
            events.append(ev("Finish", call="present", none=True))
    mem = list(case["mem"]) if case["kind"] == "T2" and len(case["mem"]) <= 256 else []
    const = dict(kind=case["kind"], phys=phys_size(case), area=declared_area(case), budget=budget_of(case),
                 silent=case.get("silent_from") is not None or bool(case.get("mut")), mem=mem)
    return dict(id=case["id"], const=const, ev=events)


def phys_size(case):
    k = case["kind"]
    if k in ("T1", "T2"):
        return len(case["mem"])
    if k == "T3":
        return 16 * len(case["blocks"])
    if k == "T4":
        return max(len(v) for v in case["files"].values())
    return 0


def declared_area(case):
    """[lo, hi) of the data area the tag *declares* in raw management bytes (no parsing beyond that):
    T1 (mem[10]+1)*8, T2 16+mem[14]*8, T3 16*(1+Nmaxb), T4 max file size from the CC's control TLV."""
    k = case["kind"]
    if k == "T1":
        return [12, (case["mem"][10] + 1) * 8]
    if k == "T2":
        return [16, 16 + case["mem"][14] * 8]
    if k == "T3":
        b0 = case["blocks"][0] if case["blocks"] else bytes(16)
        return [16, 16 * (1 + (b0[3] << 8 | b0[4]))]
    if k == "T4":
        cc = case["files"].get("e103", b"")
        if len(cc) >= 13 and cc[7] == 4:
            return [2, cc[11] << 8 | cc[12]]
        if len(cc) >= 15 and cc[7] == 6:
            return [4, int.from_bytes(cc[11:15], "big")]
        return [2, 2]
    return [0, 0]


def budget_of(case):
    """command budget per call: every unit of the physical memory once, times three transmissions, plus a
    fixed allowance for activation / selection / sector commands"""
    k = case["kind"]
    if k == "T1":
        units = 2 + len(case["mem"]) // 128
    elif k == "T2":
        units = len(case["mem"]) // 16 + 2 * (len(case["mem"]) // 1024 + 1)
    elif k == "T3":
        units = len(case["blocks"]) + 2
    else:
        units = sum(len(v) for v in case["files"].values()) // 1 + 8
        units = min(units, 300)
    return 3 * (units + 12)


# ------------------------------------------------------------------------------------------------
# generators: random images and mutations of valid layouts

ALPHA = [0x00, 0x01, 0x02, 0x03, 0xFD, 0xFE, 0xFF, 0x05, 0x0A, 0x10, 0x7F, 0x80]


def rbytes(rnd, n):
    return bytes(rnd.randrange(256) for _ in range(n))


def tlv_soup(rnd, n):
    """n bytes that look like a TLV area: mostly structural bytes, some random"""
    out = bytearray()
    while len(out) < n:
        r = rnd.random()
        if r < 0.25:
            out.append(rnd.choice(ALPHA))
        elif r < 0.35:
            out.append(rnd.randrange(256))
        elif r < 0.55:            # control TLV, length right or wrong, pointing anywhere
            out += bytes([rnd.choice([1, 2]), rnd.choice([3, 3, 3, 0, 1, 2, 4, 255])]) + rbytes(rnd, rnd.choice([3, 3, 0, 1, 2, 5]))
        elif r < 0.8:             # NDEF TLV with plausible or absurd length
            ln = min(254, rnd.choice([0, 1, 3, 10, n, n + 1, 200, 254]))
            out += bytes([3, ln]) + rbytes(rnd, min(ln, rnd.choice([ln, 2, 0])))
        elif r < 0.9:
            ln = rnd.choice([0, 254, 255, 256, 0x7FF, 0xFFFF, n])
            out += bytes([rnd.choice([3, 3, 0xFD, 1, 2]), 0xFF]) + struct.pack(">H", ln)
        else:
            out += bytes([0xFD, rnd.choice([0, 1, 5, 255])])
    return bytes(out[:n])


def valid_tlv_area(rnd, n):
    """a well-formed area: NULLs, an optional proprietary TLV, the NDEF TLV, terminator"""
    out = bytearray()
    out += bytes(rnd.choice([0, 0, 1, 3]))
    if rnd.random() < 0.3:
        k = rnd.randint(0, 4)
        out += bytes([0xFD, k]) + rbytes(rnd, k)
    room = n - len(out) - 3
    ln = rnd.randint(0, max(0, min(room, 40)))
    out += bytes([3, ln]) + rbytes(rnd, ln) + b"\xfe"
    out += bytes(max(0, n - len(out)))
    return bytes(out[:n])


def gen_t1(rnd, i):
    dyn = rnd.random() < 0.5
    size = rnd.choice([512, 512, 256, 1024, 2048]) if dyn else 120
    hr = [0x12, 0x4C] if dyn else [0x11, 0x48]
    r = rnd.random()
    if r < 0.25:
        hr = [rnd.choice([0x00, 0x10, 0x11, 0x12, 0x1F, 0x20, 0xFF, rnd.randrange(256)]), rnd.randrange(256)]
    mem = bytearray(size)
    mem[0:8] = rbytes(rnd, 7) + b"\x00"
    cc2 = size // 8 - 1
    mem[8:12] = bytes([0xE1, 0x10, cc2 & 0xFF, 0x00])
    m = rnd.random()
    if m < 0.3:
        mem[12:104] = valid_tlv_area(rnd, 92)
    else:
        mem[12:104] = tlv_soup(rnd, 92)
        if dyn:
            mem[128:size] = tlv_soup(rnd, size - 128)
    if rnd.random() < 0.3:
        mem[rnd.choice([8, 9, 10, 11])] = rnd.choice([0, 0x0E, 0x3F, 0xFF, 0x20, 0xE1, rnd.randrange(256)])
    if rnd.random() < 0.15:
        mem[8:12] = rbytes(rnd, 4)
    if rnd.random() < 0.15:
        mem[10] = 0xFF                              # declares 2 KiB whatever is there
    if rnd.random() < 0.1:                          # 0xFF length prefix at the very end of the declared area
        end = min(size, (mem[10] + 1) * 8)
        for a, v in zip(range(end - 2, end), (3, 0xFF)):
            if 12 <= a < size:
                mem[a] = v
    case = dict(kind="T1", hr=hr, mem=list(mem))
    if rnd.random() < 0.1:
        case["rseg"] = not dyn
    return case


NTAG_VERSIONS = [bytes.fromhex(x) for x in ("0004040101000b03", "0004040101000e03", "0004040201000f03",
                                            "0004040201001103", "0004040201001303", "0004030101000b03",
                                            "0004030101000e03", "0004040502011303", "0004040502011503")]


def gen_t2(rnd, i):
    size = rnd.choice([64, 64, 80, 144, 180, 540, 924, 1024, 2048])
    mem = bytearray(size)
    mem[0:10] = rbytes(rnd, 10)
    mem[0] = rnd.choice([0x04, 0x04, 0x05, 0x00, rnd.randrange(256)])
    mem[12:16] = bytes([0xE1, 0x10, min(255, (size - 16) // 8), 0x00])
    m = rnd.random()
    n = size - 16
    if m < 0.35:
        mem[16:] = valid_tlv_area(rnd, n)
    else:
        mem[16:] = tlv_soup(rnd, n)
    if rnd.random() < 0.3:
        mem[rnd.choice([12, 13, 14, 15])] = rnd.choice([0, 6, 0x12, 0x3E, 0xFF, 0x20, rnd.randrange(256)])
    if rnd.random() < 0.1:
        mem[12:16] = rbytes(rnd, 4)
    if rnd.random() < 0.1:
        end = min(size, 16 + mem[14] * 8)
        for a, v in zip(range(end - 2, end), (3, 0xFF)):
            if 16 <= a < size:
                mem[a] = v
    v = rnd.choice([None, None, "nak", list(rnd.choice(NTAG_VERSIONS)), list(rbytes(rnd, 8)), list(rbytes(rnd, rnd.choice([1, 7, 9])))])
    return dict(kind="T2", mem=list(mem), version=v, nak=rnd.choice(["timeout", "byte"]), ulc=rnd.random() < 0.1,
                uid=list(bytes([mem[0]]) + rbytes(rnd, 6)))


def attr_block(ver=0x10, nbr=4, nbw=1, nmaxb=13, writef=0, rw=1, ln=0, good=True, rsvd=b"\0\0\0\0"):
    a = bytearray(16)
    a[0:5] = bytes([ver, nbr, nbw, nmaxb >> 8 & 0xFF, nmaxb & 0xFF])
    a[5:9] = rsvd
    a[9], a[10] = writef, rw
    a[11:14] = ln.to_bytes(3, "big")
    cs = sum(a[0:14]) & 0xFFFF
    a[14:16] = (cs if good else cs ^ 0x0101).to_bytes(2, "big")
    return bytes(a)


def gen_t3(rnd, i):
    nblocks = rnd.choice([1, 2, 5, 14, 14, 30])
    nmaxb = rnd.choice([nblocks - 1, nblocks - 1, 0, 1, 13, 200, 0xFFFF])
    ln = rnd.choice([0, 1, 15, 16, 17, 16 * max(0, nblocks - 1), 16 * max(0, nblocks - 1) + 1, nmaxb * 16 + 1, 0xFFFFFF, 300])
    a = attr_block(ver=rnd.choice([0x10, 0x10, 0x11, 0x1F, 0x20, 0x00]), nbr=rnd.choice([0, 1, 1, 4, 4, 15, 255]),
                   nbw=rnd.choice([0, 1, 8]), nmaxb=nmaxb, writef=rnd.choice([0, 0, 0x0F, 1]), rw=rnd.choice([0, 1, 2]),
                   ln=ln, good=rnd.random() < 0.85, rsvd=rbytes(rnd, 4) if rnd.random() < 0.2 else bytes(4))
    if rnd.random() < 0.1:
        a = rbytes(rnd, 16)
    blocks = [a] + [rbytes(rnd, 16) for _ in range(nblocks - 1)]
    pmm = bytes([0x00, rnd.choice([0x01, 0xF0, 0xF1, 0x20, 0xE0, 0x0B, 0xFF, rnd.randrange(256)])]) + rbytes(rnd, 6)
    sysc = rnd.choice([b"\x12\xfc", b"\x12\xfc", b"\x88\xb4", b"\xfe\x00", b"\x00\x03"])
    systems = [sysc] + ([b"\x12\xfc"] if sysc != b"\x12\xfc" and rnd.random() < 0.7 else [])
    if rnd.random() < 0.5:                                  # a readable layout, so that the answers after it matter
        nb = rnd.choice([2, 5, 14])
        blocks = [attr_block(nbr=rnd.choice([1, 4]), nmaxb=nb - 1, ln=rnd.randint(0, 16 * (nb - 1)))]
        blocks += [rbytes(rnd, 16) for _ in range(nb - 1)]
    return dict(kind="T3", blocks=[list(b) for b in blocks], nbr_max=rnd.choice([1, 4, 4, 12, 15]),
                sensf_sys=rnd.random() < 0.5, sys=list(sysc), systems=[list(x) for x in systems], pmm=list(pmm))


def cc_file(cclen=15, ver=0x20, mle=0x3B, mlc=0x34, t=4, l=6, fid=b"\xe1\x04", maxsize=50, rf=0, wf=0, extra=b""):
    body = bytes([ver]) + struct.pack(">HH", mle, mlc) + bytes([t, l]) + fid
    body += struct.pack(">H", maxsize & 0xFFFF) if t != 6 else struct.pack(">I", maxsize)
    body += bytes([rf, wf]) + extra
    return struct.pack(">H", cclen) + body


def ats_variants():
    """every subset of TA/TB/TC x some historical byte counts x TL consistent / inconsistent"""
    out = []
    for mask in range(8):
        for nh in (0, 1, 5, 15):
            t0 = (mask << 4) | 0x05
            body = bytes([t0])
            if mask & 1:
                body += b"\x77"
            if mask & 2:
                body += b"\x81"
            if mask & 4:
                body += b"\x02"
            body += bytes(range(0x80, 0x80 + nh))
            out.append(bytes([len(body) + 1]) + body)
            out.append(bytes([len(body) + 3]) + body)          # TL larger than the frame
    out.append(b"\x01")                                        # TL only: T0 absent
    out.append(b"\x02\x0f")                                    # RFU FSCI
    out.append(bytes.fromhex("057800f002"))                    # FWI 15 (RFU)
    return out


ATS = ats_variants()


def gen_t4(rnd, i):
    nlen = rnd.choice([0, 3, 20, 46, 48, 49, 60, 200, 0xFFFF])
    fsize = rnd.choice([50, 50, 2, 1, 0, 300, 1000])
    ndef = (struct.pack(">H", nlen) + rbytes(rnd, max(0, fsize - 2)))[:fsize]
    r = rnd.random()
    kw = {}
    if r < 0.5:
        kw = dict(rnd.choice([dict(cclen=0), dict(cclen=1), dict(cclen=2), dict(cclen=14), dict(cclen=0xFFFF), dict(mle=0),
                              dict(mle=1), dict(mle=0xFFFF), dict(mlc=0), dict(t=5), dict(t=6, l=8), dict(t=6, l=8), dict(t=6, l=8),
                              dict(l=5), dict(l=7),
                              dict(t=6, l=6), dict(ver=0x00), dict(ver=0x40), dict(ver=0x30), dict(fid=b"\x00\x00"),
                              dict(fid=b"\xe1\x03"), dict(maxsize=0), dict(maxsize=1), dict(maxsize=4), dict(maxsize=0xFFFF),
                              dict(rf=0xFF), dict(extra=rbytes(rnd, 5))]))
    if kw.get("t") == 6 and kw.get("l") == 8 and rnd.random() < 0.8:
        kw.update(cclen=17, ver=0x30)                       # a complete mapping version 3 container (32 bit NLEN)
        if rnd.random() < 0.7:
            n = rnd.choice([0, 3, 20, 40])
            fsize = 60
            kw["maxsize"] = fsize
            ndef = (struct.pack(">I", n) + rbytes(rnd, fsize))[:fsize]
    cc = cc_file(**kw)
    if rnd.random() < 0.1:
        cc = cc[:rnd.randint(0, len(cc))]
    if rnd.random() < 0.05:
        cc = rbytes(rnd, rnd.randint(0, 20))
    files = {"e103": list(cc), "e104": list(ndef)}
    if rnd.random() < 0.05:
        files.pop("e104")
    case = dict(kind="T4", files=files)
    if rnd.random() < 0.5:
        case["ats"] = list(rnd.choice(ATS))
    if rnd.random() < 0.25:
        case["short_read"] = rnd.choice([0, 0, 1, 2, 5])
        case["short_from"] = rnd.choice([0, 2, 2, 3])
        case["short_file"] = rnd.choice(["e104", "e104", None])
    if rnd.random() < 0.15:
        case["aids"] = rnd.choice([["v1"], ["v2"], []])
    if rnd.random() < 0.2:
        case["type_b"] = True
        sb = bytearray(bytes.fromhex("50e8253eec00000011008185"))
        sb[10] = rnd.randrange(16) << 4 | 1
        sb[11] = rnd.randrange(16) << 4 | rnd.choice([0, 4, 5])
        case["sensb_res"] = list(sb)
        case["attrib_res"] = list(rnd.choice([b"\x00", b"", b"\x10\x01", rbytes(rnd, 3)]))
    return case


def rlist(rnd, n):
    return list(rbytes(rnd, n))


def variants_for(kind, rnd):
    """answer variants for the commands of the conversation after activation (see sim/c08_tags.py)"""
    some = lambda menu, n: [rnd.choice(menu) for _ in range(n)]
    if kind == "T3":
        poll = [["extend", [0x12, 0xFC]], ["extend", rlist(rnd, 2)], ["trunc", 2], ["trunc", 1], ["trunc", 8],
                ["extend", rlist(rnd, 5)], ["idm", rlist(rnd, 8)], "none", ["raw", [1]], ["raw", []], None, None]
        read = [["trunc", 1], ["trunc", 16], ["trunc", 17], ["extend", rlist(rnd, 16)], ["extend", [0]], ["idm", rlist(rnd, 8)],
                ["raw", [7] + rlist(rnd, 8) + [1, 0xA8]], ["raw", [7] + rlist(rnd, 8)], ["raw", [7]], "none", None, None, None]
        return {"POLL": some(poll, 4), "READ": some(read, 6)}
    if kind == "T1":
        rall = [["trunc", 1], ["trunc", 2], ["trunc", 60], ["trunc", 120], ["trunc", 122], ["extend", rlist(rnd, 6)], "none", None]
        blk = [["trunc", 1], ["trunc", 8], ["trunc", 9], ["extend", rlist(rnd, 3)], ["raw", rlist(rnd, 1)], "none", None, None]
        rd = [["trunc", 1], ["trunc", 2], ["extend", [0]], ["raw", rlist(rnd, 2)], "none", None]
        return {"RALL": some(rall, 3), "READ8": some(blk, 3), "RSEG": some(blk + [["trunc", 100], ["trunc", 129]], 4),
                "READ": some(rd, 2)}
    if kind == "T2":
        rd = [["trunc", 1], ["trunc", 4], ["trunc", 12], ["trunc", 15], ["trunc", 16], ["extend", [0]], ["extend", rlist(rnd, 16)],
              ["raw", [0x0A]], ["raw", [0x05]], ["raw", [0x01]], ["raw", rlist(rnd, 2)], "none", None, None, None, None]
        ver = [["trunc", 1], ["trunc", 7], ["extend", [3]], ["raw", [0]], ["raw", [0xAF]], "none", None]
        auth = [["trunc", 1], ["trunc", 8], ["extend", [0]], ["raw", [0xAF]], ["raw", [0x00]], None]
        return {"READ": some(rd, 8), "VERSION": some(ver, 1), "AUTH": some(auth, 1), "SECTOR1": some([["raw", [0x0A, 0]], ["raw", []], None], 1)}
    if kind == "T4":
        sel = [["sw", [0x62, 0x83]], ["sw", [0x6A, 0x82]], ["sw", [0x62, 0x00]], ["sw", [0x61, 0x10]], ["raw", rlist(rnd, 4) + [0x90, 0x00]],
               ["raw", [0x90]], ["raw", []], ["trunc", 1], "none", None, None, None]
        rb = [["sw", [0x62, 0x82]], ["sw", [0x63, 0x00]], ["sw", [0x6B, 0x00]], ["extend", rlist(rnd, 3) + [0x90, 0x00]], ["trunc", 1], ["trunc", 2],
              ["trunc", 3], ["raw", [0x90]], ["raw", []], ["raw", rlist(rnd, 300) + [0x90, 0x00]], "none", None, None, None, None]
        return {"SELECT-aid2": some(sel, 2), "SELECT-aid1": some(sel, 1), "SELECT-fid": some(sel, 4), "READ": some(rb, 8),
                "SELECT-aid-nf": some(sel, 1), "SELECT-nf": some(sel, 1)}
    return {}


def threshold_cases(rnd, tier):
    """Type 2 and dynamic Type 1 layouts whose usable space sits at the switch between the 1 byte and the 3 byte
    NDEF TLV length format: room (T byte .. end of the declared area) 253..262, shifted byte by byte by NULL
    TLVs (and a lock control TLV pointing behind the area) in front, the NDEF TLV in either length format with
    L around what fits; the physical memory goes on behind the declared area (lock / configuration bytes)."""
    out = []
    rooms = list(range(253, 263))
    for kind in ("T2", "T1"):
        for room in rooms:
            lens = sorted(set([room - 5, room - 4, room - 3, room - 2, room - 1, room, room + 1, 253, 254, 255, 256]))
            combos = [(fmt, L) for fmt in (1, 3) for L in lens if not (fmt == 1 and L > 254) and L >= 0]
            if tier == "quick":
                keep = [c for c in combos if c[1] in (254, 255, 256) or c[1] in (room - 4, room - 3, room - 2)]
                combos = keep if kind == "T2" else keep[::2]
            for fmt, L in combos:
                lock = rnd.random() < 0.5
                if kind == "T2":
                    size = rnd.choice([0x21, 0x24, 0x30, 0x3E])
                    end = 16 + 8 * size
                    mem = bytearray(end + 32)
                    mem[0:10] = bytes.fromhex("02112233445566778899")
                    mem[12:16] = bytes([0xE1, 0x10, size, 0x00])
                    lo = 16
                else:
                    nblk = rnd.choice([0x3F, 0x47])               # 512 / 576 byte declared
                    end = (nblk + 1) * 8
                    mem = bytearray(end + 128 + (-(end + 128)) % 128)
                    mem[0:8] = bytes.fromhex("0102030405060700")
                    mem[8:12] = bytes([0xE1, 0x10, nblk, 0x00])
                    lo = 128                                      # behind the reserved bytes 104..127
                tlv = end - room
                if lock and tlv - lo >= 5:
                    behind = ((end + 8) // 64 + 1) * 64           # 16 lock bits in the bytes behind the area
                    if behind // 64 <= 15:
                        mem[lo:lo + 5] = bytes([0x01, 0x03, (behind // 64) << 4, 0x10, 0x36])
                mem[tlv] = 0x03
                voff = tlv + (2 if fmt == 1 else 4)
                if fmt == 1:
                    mem[tlv + 1] = L
                else:
                    mem[tlv + 1:tlv + 4] = bytes([0xFF, L >> 8, L & 0xFF])
                for a in range(voff, end):
                    mem[a] = 0xA5
                for a in range(end, len(mem)):
                    mem[a] = 0xEE
                if voff + L < end:
                    mem[voff + L] = 0xFE
                c = dict(id="th-%s-r%d-f%d-l%d-%d" % (kind.lower(), room, fmt, L, int(lock)), kind=kind, mem=list(mem))
                if kind == "T2":
                    c.update(version=None, uid=list(bytes.fromhex("02112233445566")))
                else:
                    c.update(hr=[0x12, 0x4C])
                out.append(c)
    return out


GEN = dict(T1=gen_t1, T2=gen_t2, T3=gen_t3, T4=gen_t4)


def directed_cases():
    """the layouts the code reading singled out (one each)"""
    out = []
    m = bytearray(120)
    m[0:7] = bytes.fromhex("01020304050607")
    m[8:12] = bytes([0xE1, 0x10, 0x0E, 0])
    m[12:18] = bytes([3, 3, 0xd0, 0, 0, 0xFE])
    for name, edit in (("lock-len2", {12: [1, 2, 0xF0, 0x10, 3, 0, 0xFE]}), ("mem-len0", {12: [2, 0, 3, 0, 0xFE]}),
                       ("static-claims-2k", {10: [0xFF], 12: [3, 0xFF, 0xFF, 0xFF]})):
        mm = bytearray(m)
        for a, v in edit.items():
            mm[a:a + len(v)] = bytes(v)
        out.append(dict(id="d-t1-" + name, kind="T1", hr=[0x11, 0x48], mem=list(mm)))
    m4 = bytearray(2048)
    m4[0:120] = m
    m4[10] = 0xFF
    m4[12:16] = bytes([3, 0xFF, 0xFF, 0xFF])
    out.append(dict(id="d-t1-tlv-past-segment-15", kind="T1", hr=[0x12, 0x4C], mem=list(m4)))
    out.append(dict(id="d-t3-nbr0", kind="T3", blocks=[list(attr_block(nbr=0, nmaxb=3, ln=20))] + [[0] * 16] * 3))
    out.append(dict(id="d-t3-ln-beyond-nmaxb", kind="T3", blocks=[list(attr_block(nbr=4, nmaxb=1, ln=40))] + [[7] * 16] * 4))
    cc = cc_file()
    nd = bytes([0, 3, 0xd0, 0, 0]) + bytes(45)
    out.append(dict(id="d-t4-ats-no-interface-bytes", kind="T4", files={"e103": list(cc), "e104": list(nd)}, ats=[2, 0x05]))
    out.append(dict(id="d-t4-ats-tl-only", kind="T4", files={"e103": list(cc), "e104": list(nd)}, ats=[1]))
    out.append(dict(id="d-t4-empty-read-binary", kind="T4", files={"e103": list(cc), "e104": list(nd)}, short_read=0, short_from=2,
                    short_file="e104"))
    out.append(dict(id="d-t4-mle0", kind="T4", files={"e103": list(cc_file(mle=0)), "e104": list(nd)}))
    out.append(dict(id="d-t4-cclen1", kind="T4", files={"e103": list(cc_file(cclen=1)), "e104": list(nd)}))
    out.append(dict(id="d-t4-nlen-beyond-file", kind="T4", files={"e103": list(cc), "e104": list(b"\x00\x40" + bytes(48))}))
    out.append(dict(id="d-t3-nbr255", kind="T3", blocks=[list(attr_block(nbr=255, nmaxb=200, ln=16 * 200))] + [[9] * 16] * 29,
                    nbr_max=15))
    out.append(dict(id="d-t4-mle-ffff", kind="T4", files={"e103": list(cc_file(mle=0xFFFF, maxsize=302)),
                                                          "e104": list(b"\x01\x2c" + bytes(300))}))
    out.append(dict(id="d-t4-nlen-beyond-maxsize", kind="T4", files={"e103": list(cc_file(maxsize=50)),
                                                                      "e104": list(b"\x00\xc8" + bytes(298))}))
    m2 = bytearray(144)
    m2[0:10] = bytes.fromhex("05112233445566778899")
    m2[12:16] = bytes([0xE1, 0x10, 6, 0])
    m2[16:18] = bytes([3, 60])
    out.append(dict(id="d-t2-tlv-beyond-area", kind="T2", mem=list(m2), version=None, uid=list(bytes.fromhex("05112233445566"))))
    m5 = bytearray(512)
    m5[0:120] = m
    m5[12:14] = bytes([3, 200])
    out.append(dict(id="d-t1-tlv-beyond-area", kind="T1", hr=[0x12, 0x4C], mem=list(m5)))
    out.append(dict(id="d-t4-v3-mapping", kind="T4", files={"e103": list(cc_file(cclen=17, ver=0x30, t=6, l=8, maxsize=60)),
                                                            "e104": list((10).to_bytes(4, "big") + bytes(range(10)) + bytes(46))}))
    # NDEF TLV stored with three length bytes, two bytes too long for the declared area (253 byte room, L = 250)
    th = {c["id"]: c for c in threshold_cases(random.Random(0), "thorough")}
    for cid, name in (("th-t2-r253-f3-l250", "d-t2-tlv-3-byte-length-ends-behind-area"),
                      ("th-t1-r253-f3-l250", "d-t1-tlv-3-byte-length-ends-behind-area")):
        c = dict(next(v for k, v in sorted(th.items()) if k.startswith(cid)))
        c["id"] = name
        out.append(c)
    # answers after activation that are well framed but not what the command implies
    out.append(dict(id="d-t1-rall-empty", kind="T1", hr=[0x12, 0x4C], mem=list(m5), mut={"RALL": [["trunc", 122]]}))
    out.append(dict(id="d-t1-read-empty", kind="T1", hr=[0x11, 0x48], mem=list(m), mut={"READ": [["trunc", 2]]}))
    ok3 = [list(attr_block(nbr=4, nmaxb=3, ln=20))] + [[5] * 16] * 3
    out.append(dict(id="d-t3-read-without-status", kind="T3", blocks=ok3, mut={"READ": [["trunc", 50]]}))
    out.append(dict(id="d-t3-read-status-flag-1-only", kind="T3", blocks=ok3,
                    mut={"READ": [["raw", [7] + list(bytes.fromhex("02fe000102030405")) + [1]]]}))
    out.append(dict(id="d-t3-poll-length-byte-only", kind="T3", blocks=ok3, sensf_sys=False, mut={"POLL": [["raw", []]]}))
    out.append(dict(id="d-t3-poll-unsolicited-request-data", kind="T3", blocks=ok3, sensf_sys=False,
                    mut={"POLL": [["extend", [0x12, 0xFC]], ["extend", [0x12, 0xFC]]]}))
    out.append(dict(id="d-t3-poll-other-idm", kind="T3", blocks=ok3, sensf_sys=False, mut={"POLL": [["idm", [9] * 8]]}))
    out.append(dict(id="d-t4-cc-read-longer-than-le", kind="T4", files={"e103": list(cc), "e104": list(nd)},
                    mut={"READ": [None, ["extend", [1, 2, 3, 0x90, 0x00]]]}))
    return out


def make_cases(tier, seed):
    rnd = random.Random("c08/%d" % seed)
    n = dict(quick=dict(T1=700, T2=900, T3=500, T4=900), thorough=dict(T1=12000, T2=15000, T3=8000, T4=15000))[tier]
    cases = directed_cases() + threshold_cases(random.Random("c08th/%d" % seed), tier)
    for kind in ("T1", "T2", "T3", "T4"):
        for i in range(n[kind]):
            c = GEN[kind](rnd, i)
            c["id"] = "%s-%05d" % (kind.lower(), i)
            if rnd.random() < 0.2:
                c["silent_from"] = rnd.choice([1, 2, 3, 4, 5, 6, 8, 11, 15])
            if rnd.random() < 0.4:
                # every answer of the conversation may deviate, not only the activation ones; half of these
                # cases keep a valid image so that the conversation gets far enough
                c["mut"] = variants_for(kind, rnd)
                if rnd.random() < 0.3:
                    c["mut"] = {k: v for k, v in c["mut"].items() if rnd.random() < 0.5}
            cases.append(c)
    return cases


# ------------------------------------------------------------------------------------------------
def classify(tr, line, act, why):
    k = tr["const"]["kind"]
    e = tr["ev"][line - 1]
    call = "?"
    for x in tr["ev"][:line][::-1]:
        if x["a"] == "Begin":
            call = x["call"]
            break
    w = why[0] if why else "?"
    call = "activate" if call == "activate" else "read"      # tag.ndef and ndef.has_changed run the same reader
    if w == "exception":
        return "exception:%s:%s:%s@%s" % (k, call, e["exc"], e["site"])
    if w == "result":
        if "cap>fits" in why[1] and "len>cap" not in why[1]:
            return "result:%s:%s:capacity-beyond-what-the-area-can-store" % (k, call)
        if "len>cap" in why[1] and set(why[1]) <= {"len>cap", "off+len>hi"}:
            return "result:%s:%s:message-longer-than-declared-data-area" % (k, call)
        return "result:%s:%s:%s" % (k, call, "+".join(why[1]))
    if w == "repeat":
        return "loop:%s:%s:%s-requested-again" % (k, call, e["u"].split(":")[0])
    if w == "budget":
        return "budget:%s:%s:more-commands-than-3x-memory-units" % (k, call)
    if w == "reference":
        return "reference:%s:%s:result-differs-from-RefRead" % (k, call)
    return "%s:%s:%s:%s" % (w, k, call, act)


def signature(tr):
    """what makes a case non-trivially different: tag type, the calls' outcomes and the command profile"""
    out = [tr["const"]["kind"]]
    for e in tr["ev"]:
        if e["a"] in ("Finish", "Raise"):
            out.append((e["call"], e["a"], e["exc"], e["none"], min(e["len"], 300) // 16))
        elif e["a"] in ("Read", "ReadAt", "Select", "Cmd", "Retry"):
            out.append((e["a"], e["n"], e["ok"]))
    return hash(tuple(out))


def selftest_traces(traces):
    out = []
    base = next(t for t in traces if t["const"]["kind"] == "T2" and not t["const"]["silent"] and t["const"]["mem"]
                and any(e["a"] == "Finish" and e["call"] == "ndef" and not e["none"] and e["len"] > 0 for e in t["ev"])
                and t["id"].startswith("wf-"))
    t1 = json.loads(json.dumps(base))
    for e in t1["ev"]:
        if e["a"] == "Finish" and e["call"] == "ndef":
            e["len"] -= 1                      # inside the area, but not what the reference reader finds
            break
    t1["id"] = base["id"] + "#corrupt"
    out.append(t1)
    t2 = json.loads(json.dumps(base))
    del t2["ev"][0]                             # the Begin of activate: commands outside any call
    t2["id"] = base["id"] + "#dropped"
    out.append(t2)
    return out


def wellformed_cases(rnd, n):
    out = []
    for i in range(n):
        size = rnd.choice([64, 64, 80, 144, 180])
        mem = bytearray(size)
        mem[0:10] = b"\x05" + rbytes(rnd, 9)
        mem[12:16] = bytes([0xE1, 0x10, (size - 16) // 8, 0x00])
        mem[16:] = valid_tlv_area(rnd, size - 16)
        out.append(dict(id="wf-%04d" % i, kind="T2", mem=list(mem), version=None, uid=list(b"\x05" + rbytes(rnd, 6))))
    return out


def run(tier, seed):
    ck = check.Check(PID, tier, seed, "exploration")
    quick = tier == "quick"
    t0 = time.time()
    import concurrent.futures as cf
    with cf.ThreadPoolExecutor(max_workers=2) as ex:
        f_ref = ex.submit(tlc.run, "MC_TagReadRef.tla", "MC_TagRead_ref.cfg" if quick else "MC_TagRead_ref_thorough.cfg",
                          PID + "/ref", workers=6, timeout=900)
        f_mon = ex.submit(tlc.run, "MC_TagRead.tla", "MC_TagRead.cfg", PID + "/mon", workers=4, timeout=300)
        cases = make_cases(tier, seed)
        cases += wellformed_cases(random.Random("c08wf/%d" % seed), 150 if quick else 3000)
        traces = [run_case(c) for c in cases]
        rref, rmon = f_ref.result(), f_mon.result()
    for name, r in (("MC_TagReadRef", rref), ("MC_TagRead", rmon)):
        if not r.ok:
            ck.violation("spec:%s:%s" % (name, ",".join(r.violated or ["deadlock"])),
                         "TLC: %s" % str(r.error_trace or r.out[-1500:])[:2500])
    hit, _ = tlc.witnesses("MC_TagReadRef.tla", "MC_TagRead_ref_reach.cfg", PID, ["W_Found", "W_WfLong", "W_NotWf"], workers=2)
    hit2, _ = tlc.witnesses("MC_TagRead.tla", "MC_TagRead_reach.cfg", PID, ["W_FinishData", "W_Exhausted"], workers=2)
    miss = {"W_Found", "W_WfLong", "W_NotWf", "W_FinishData", "W_Exhausted"} - hit - hit2
    if miss:
        raise tlc.TLCError("vacuous: witnesses not reached: %s" % sorted(miss))
    by_id = {c["id"]: c for c in cases}
    self_t = selftest_traces(traces)
    verdicts, st = tlc.validate_traces("Trace_TagRead.tla", "Trace_TagRead.cfg", PID, traces + self_t,
                                       shards=8 if quick else 16, timeout=900 if quick else 3000)
    for t in self_t:
        if verdicts[t["id"]][0] == "ACCEPT":
            raise tlc.TLCError("binding vacuous: corrupted trace %s accepted" % t["id"])
    acc, per_kind, sigs = 0, {}, set()
    for tr in traces:
        v = verdicts[tr["id"]]
        k = tr["const"]["kind"]
        per_kind.setdefault(k, [0, 0])[0] += 1
        sigs.add(signature(tr))
        if v[0] == "ACCEPT":
            acc += 1
            per_kind[k][1] += 1
            continue
        line, act, why = v[1], v[2], v[3]
        key = classify(tr, line, act, why)
        ck.violation(key, "case %s rejected at event %d (%s): %s" % (tr["id"], line, act, json.dumps(why)[:300]),
                     replay=dict(kind="case", case=by_id[tr["id"]]))
    ck.cover(evaluations=len(traces), distinct_nontrivial=len(sigs),
             rule="distinct (tag type, outcome of each call with exception type / None / length bucket, sequence of "
                  "commands with their sim classification and answered flag)",
             accepted=acc, per_kind={k: dict(cases=v[0], accepted=v[1]) for k, v in per_kind.items()},
             commands_recorded=sum(1 for t in traces for e in t["ev"] if e["a"] in ("Read", "ReadAt", "Select", "Cmd", "Retry")),
             ref_reader_images=rref.distinct // 2, monitor_states=rmon.distinct, trace_states=st["states"],
             binding_selftest="Finish length off by one on a well-formed Type 2 image (reference reader) and a dropped Begin both rejected",
             wall_exec_and_mc=round(time.time() - t0, 1))
    ck.sample(dict(case=traces[0]["id"], const={k: v for k, v in traces[0]["const"].items() if k != "mem"},
                   events=[{k: v for k, v in e.items() if k in ("a", "u", "n", "call", "exc")} for e in traces[0]["ev"][:10]]))
    ck.sample(dict(reference_reader="MC_TagReadRef", images=rref.distinct // 2))
    ck.assume("simulated tags answer every command with a frame of the right shape (lengths, CRC are C07/C16's subject); "
              "contents are arbitrary", "the data area is the one the tag declares in its management bytes",
              "the reference reader covers the Type 2 TLV area only; other types are judged by the monitor alone",
              "Type 4 tags are driven at the I-block level without transmission errors (C12's subject)",
              "a muted/removed tag is modelled by silence from the k-th command on")
    from bind import c08_vendor                   # vendor classes: identification, ndef, dump(), signature, presence
    c08_vendor.stage(ck, tier, seed)
    from bind import c08_tlv                      # control TLV geometry (reserved bytes inside the data area) judged by TlvTag.tla
    c08_tlv.stage(ck, tier, seed)
    return ck.finish()


def replay(rep, args):
    if rep["replay"].get("kind") == "vendor-case":
        from bind import c08_vendor
        return c08_vendor.replay(rep, args)
    if rep["replay"].get("kind") == "tlv":
        from bind import c08_tlv
        return c08_tlv.replay(rep, args)
    case = rep["replay"]["case"]
    tr = run_case(case)
    verdicts, st = tlc.validate_traces("Trace_TagRead.tla", "Trace_TagRead.cfg", PID + "_replay", [tr], shards=1)
    v = verdicts[tr["id"]]
    for e in tr["ev"]:
        if e["a"] in ("Begin", "Finish", "Raise"):
            print("  ", {k: x for k, x in e.items() if k in ("a", "call", "none", "off", "len", "cap", "exc", "site")})
    print("replay verdict:", v)
    if v[0] != "ACCEPT":
        print("key:", classify(tr, v[1], v[2], v[3]))
        print("VIOLATION property=%s replay=%s" % (PID, args.replay))
        return 1
    return 0
