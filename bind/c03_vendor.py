"""C03, vendor stage -- what format() and protect() of the vendor classes write, where, and in which order:

  tt2_nxp        NTAG203 / NTAG21x format() (factory defaults for the TLV area), protect() with lock bits of
                 MifareUltralightC, NTAG203, NTAG21x, MifareUltralightEV1 (CC read-only, static and dynamic lock
                 bits, CFGLCK), protect(password): only the configuration / key pages and the CC access nibble
  tt3_sony       FelicaLite / FelicaLiteS format() (MC NDEF flag, attribute block, wipe of exactly the writable
                 blocks) and protect() (CK / CKV, attribute RW flag, MC access bits; MC last)
  tt1_broadcom   Topaz / Topaz512 protect() (CC byte 3, lock bytes, WRITE-NE only) and format(version)

Specs: spec/TagVendor.tla (NXP) and spec/VendorFmt.tla (FeliCa Lite, Topaz): exhaustive with scaled constants and
power cuts between any two commands, invariants Confined / OneWay / LockSound / FormatSound / ProtectSound /
LockedKey ..., reachability witnesses.  Binding: the real classes on sim/vendor_nxp.py, sim/vendor_sony.SimLite,
sim/vendor_broadcom.py (lock / OTP / access bits one-way, pages frozen by their lock bits); every state-changing
command with its decoded value and the projected card state validated by TLC (Trace_TagVendor, Trace_VendorFmt).
"""
import time
import concurrent.futures as cf
from vlib import tlc
from bind import vendor_nxp as V
from bind import vendor_fmt as F
from bind.c20_vendor import witnesses_in

PID = "C03"
W_NXP = ["W_LockTrue", "W_LockTrueUlc", "W_LockFalse", "W_LockTwice", "W_FormatDefaults", "W_FormatRefusedBlank", "W_ProtectCC",
         "W_ProtectUlc", "W_ProtectNtag", "W_ProtectEv1", "W_ProtectRefused", "W_ProtectImmPartial", "W_CutFalse",
         "W_NdefReadOnly", "W_NdefHidden"]
W_NXP_ASIS = ["W_AttributeErrorLock", "W_FormatFalseChanged"]
W_FMT = ["W_FormatTrue", "W_FormatGap", "W_FormatWipe", "W_FormatFlag", "W_FormatFalse", "W_FormatVersion", "W_ProtectLite",
         "W_ProtectLiteS", "W_ProtectNdefRO", "W_ProtectNoPw", "W_ProtectRefused", "W_ProtectRP", "W_CutKeyNotLocked",
         "W_Topaz", "W_TopazFalse", "W_TopazVersion"]


def stage(ck, tier, seed):
    quick = tier == "quick"
    t0 = time.time()
    with cf.ThreadPoolExecutor(max_workers=3) as ex:
        f_nxp = ex.submit(tlc.run, "MC_TagVendor.tla", "MC_TagVendor_c03.cfg", PID + "/vendor-nxp", workers=6, timeout=900)
        f_as = ex.submit(tlc.run, "MC_TagVendor.tla", "MC_TagVendor_asis.cfg", PID + "/vendor-asis", workers=4, timeout=600)
        f_fmt = ex.submit(tlc.run, "MC_VendorFmt.tla", "MC_VendorFmt.cfg" if quick else "MC_VendorFmt_thorough.cfg",
                          PID + "/vendor-fmt", workers=6, timeout=1800)
        scs = V.scenarios_c03(tier, seed)
        traces, by_id, results, harness = V.execute(scs, seed)
        fscs = F.scenarios(tier, seed)
        ftraces, fres = [], {}
        for sc in fscs:
            tr, res = F.run_scenario(sc, seed)
            ftraces.append(tr)
            fres[sc["id"]] = res
        r, ra, rf = f_nxp.result(), f_as.result(), f_fmt.result()
    for name, x in (("TagVendor", r), ("TagVendor(as-is)", ra), ("VendorFmt", rf)):
        if not x.ok:
            ck.violation("spec:%s:%s" % (name, ",".join(x.violated or ["deadlock"])),
                         "TLC found a violation in the model: %s" % str(x.error_trace or x.out[-1500:])[:3000])
    hit, hit_a, hit_f = witnesses_in(r), witnesses_in(ra), witnesses_in(rf)
    miss = (set(W_NXP) - hit) | (set(W_FMT) - hit_f)
    if miss:
        raise tlc.TLCError("vacuous model: witnesses not reached: %s" % sorted(miss))
    if hit & set(W_NXP_ASIS):
        raise tlc.TLCError("the design model exhibits a defect outcome: %s" % sorted(hit & set(W_NXP_ASIS)))
    if set(W_NXP_ASIS) - hit_a:
        raise tlc.TLCError("the as-is model (Defects) does not exhibit %s" % sorted(set(W_NXP_ASIS) - hit_a))
    t1 = time.time()
    for key, what, sc in harness:
        ck.violation(key, what, replay=dict(kind="vendor-nxp", scenario=sc))
    acc, st, found = V.validate(ck, PID + "/vendor", traces, by_id, V.selftest_traces_c03(traces), timeout=900 if quick else 2400,
                                shards=5 if quick else 10)
    fself = F.selftest_traces(ftraces)
    verdicts, fst = tlc.validate_traces("Trace_VendorFmt.tla", "Trace_VendorFmt.cfg", PID + "/vendor-fmt", ftraces + fself,
                                        shards=4 if quick else 8, timeout=900)
    for t in fself:
        if verdicts[t["id"]][0] == "ACCEPT":
            raise tlc.TLCError("binding vacuous: corrupted trace %s accepted" % t["id"])
    facc = 0
    fby = {s["id"]: s for s in fscs}
    for tr in ftraces:
        v = verdicts[tr["id"]]
        if v[0] == "ACCEPT":
            facc += 1
            continue
        ck.violation(F.classify(tr, v[1], v[2], v[3]),
                     "trace %s rejected at event %d (%s): %s" % (tr["id"], v[1], v[2], str(v[3])[:400]),
                     replay=dict(kind="vendor-fmt", scenario=fby[tr["id"]]))
    nwr = sum(1 for t in traces + ftraces for e in t["ev"] if e["a"] in ("Write", "Wipe"))
    ck.cover(states=r.distinct + ra.distinct + rf.distinct, transitions=r.generated + ra.generated + rf.generated,
             traces_validated_against_impl=acc + facc,
             vendor=dict(mc_nxp=r.distinct, mc_nxp_as_is=ra.distinct, mc_fmt=rf.distinct,
                         witnesses=sorted(hit & set(W_NXP)) + sorted(hit_f) + ["asis:" + n for n in sorted(hit_a & set(W_NXP_ASIS))],
                         nxp_traces=len(traces), nxp_accepted=acc, nxp_with_findings=len(found),
                         fmt_traces=len(ftraces), fmt_accepted=facc, write_commands=nwr,
                         cuts=sum(1 for t in traces + ftraces for e in t["ev"] if e["a"] == "Cut"),
                         products=sorted({s["product"] for s in scs}) + ["FelicaLite", "FelicaLiteS", "Topaz", "Topaz512"],
                         trace_states=st["states"] + fst["states"],
                         selftest="wrong lock value, dropped WRITE, changed byte outside the documented blocks, MC leaving a "
                                  "protected block writable: all rejected",
                         timing=dict(mc_and_exec=round(t1 - t0, 1), validate=round(time.time() - t1, 1))))
    ck.sample(dict(vendor_trace=ftraces[0]["id"], init=ftraces[0]["init"],
                   first_events=[{k: v for k, v in e.items() if k in ("a", "op", "c", "v", "ok", "res")} for e in ftraces[0]["ev"][:6]]))
    ck.assume("vendor stage: lock, OTP / CC and FeliCa Lite MC access bits are one-way on the simulated cards and a page whose lock "
              "bit is set refuses WRITE; the exact grouping of dynamic lock bits per product is approximated (nfcpy only ever "
              "writes all of them)",
              "vendor stage: Topaz-512 protect() writes FFh to bytes 120/121 which the tag's own format() declares reserved (the "
              "48 dynamic lock bits are at 122..127 and are never set); the docstring says the effort most likely has no "
              "effect - recorded as an observation, not judged")


def replay(rep, args):
    r = rep["replay"]
    if r.get("kind") == "vendor-fmt":
        sc = r["scenario"]
        tr, res = F.run_scenario(sc, rep.get("seed", 1))
        verdicts, st = tlc.validate_traces("Trace_VendorFmt.tla", "Trace_VendorFmt.cfg", PID + "_replay", [tr], shards=1)
        v = verdicts[tr["id"]]
        print("results:", list(zip([o["name"] for o in sc["ops"]], res)), "verdict:", v)
        if v[0] != "ACCEPT":
            print("key:", F.classify(tr, v[1], v[2], v[3]))
            print("VIOLATION property=%s replay=%s" % (PID, args.replay))
            return 1
        return 0
    return V.replay(rep, args, PID)
