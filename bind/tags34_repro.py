"""Tiny stand-alone reproductions of the Type 4 Tag findings of C01 (no TLC involved):
    /venv/bin/python -m bind.tags34_repro t4-nlen | t4-mlc | t4-mle        (NFCPY_SRC honoured)
Each writes with the real nfc.tag.tt4 code to a simulated tag and reads back with a fresh tag object."""
import sys
from vlib import use_repo
use_repo()
from bind.tags34 import t4_build, t4_activate          # noqa: E402

CASES = {
    # MLc = 1 < 2-byte NLEN: only the first NLEN byte is written, octets= returns normally
    "t4-nlen": (dict(ver=0x20, tlv=4, mle=15, mlc=1, mfs=40, oldlen=9), 10),
    # MLc = 4096: min(MLc, n) = 302 > 255 is passed to the short APDU encoder
    "t4-mlc": (dict(ver=0x20, tlv=4, mle=59, mlc=0x1000, mfs=700, oldlen=30), 300),
    # MLe = 4096: READ BINARY with Le = 300 > 256
    "t4-mle": (dict(ver=0x20, tlv=4, mle=0x1000, mlc=52, mfs=700, oldlen=30), 300),
}


def main(name):
    layout, n = CASES[name]
    t = t4_build(dict(layout=layout, seed=1))
    tag = t4_activate(t)
    msg = bytes((7 * i + 1) & 255 for i in range(n))
    print("layout", layout, "capacity", tag.ndef.capacity, "writing", n, "octets")
    try:
        tag.ndef.octets = msg
        print("write returned normally after %d UPDATE BINARY commands" % len(t.log))
    except Exception as e:
        print("write raised %s: %s (commands sent: %d)" % (type(e).__name__, e, len(t.log)))
    t.power_on()
    try:
        nd = t4_activate(t).ndef
        got = None if nd is None else nd.octets
        print("fresh reader:", "no ndef" if got is None else "%d octets, equal to written: %s" % (len(got), got == msg))
        return 0 if got == msg else 1
    except Exception as e:
        print("fresh reader raised %s: %s" % (type(e).__name__, e))
        return 1


if __name__ == "__main__":
    sys.exit(main(sys.argv[1]))
