"""C14, byte-stream layer: the REAL nfc.clf.transport.USB / TTY classes on fake usb1 / serial backends.

Spec: spec/Transport.tla (exhaustive: MC_Transport_usbout / _usbin / _tty .cfg with scaled constants; the seeded
regression C14-r4 (ZLP only for len == maxPacketSize) must violate FrameDelimited in MC_Transport_usbout_seeded.cfg,
the code as it is (extended frame assumed for LEN = FFh alone) must violate NoOverRead in MC_Transport_tty_asis.cfg).
Binding: spec/Trace_Transport.tla validates every recorded execution; sim/link_usb.py, sim/link_tty.py are the
backends BELOW the transport, the chip simulators of sim/chip_*.py are the firmware behind them, so that the real
drivers (pn533, rcs380, acr122 on USB; pn532, arygon on TTY) hold their conversations through the real transport.

stage(ck, tier, seed) is called from bind/c14.py.
"""
import errno
import itertools
import json
import logging
import random
import concurrent.futures as cf

from vlib import tlc, tlaval
from bind import c13_drivers as D
from sim import chip_pn53x as P
from sim import chip_rcs380 as R
from sim import link_usb as LU
from sim import link_tty as LT

import nfc.clf
import nfc.clf.transport as NT
import nfc.clf.pn531
import nfc.clf.pn532
import nfc.clf.pn533
import nfc.clf.rcs956
import nfc.clf.rcs380
import nfc.clf.acr122
import nfc.clf.arygon

PID = "C14"
ACK = bytes(P.ACK)
PORT = "/dev/ttySIM0"
READ_CAP = 300               # what every device of this family may send in one frame fits into 300 bytes

MC_RUNS = (  # cfg, must hold, invariant that must be violated otherwise, witnesses
    ("MC_Transport_usbout.cfg", True, None, ("W_ExactMultiple", "W_ZlpSent", "W_ThreePackets", "W_WriteFailed")),
    ("MC_Transport_usbout_seeded.cfg", False, "FrameDelimited", ()),
    ("MC_Transport_usbin.cfg", True, None, ("W_ReadFrame", "W_ReadTimeout", "W_Oversize", "W_ZeroLength", "W_TailAfterTimeout")),
    ("MC_Transport_tty.cfg", True, None, ("W_SplitAcross3Reads", "W_ExtendedFrame", "W_AckThenFrame", "W_NormalLenMark",
                                          "W_Truncated", "W_HeaderEio", "W_Timeout", "W_Misaligned", "W_Resynced")),
    ("MC_Transport_tty_asis.cfg", False, "NoOverRead", ()),
)


def pattern(n, salt=0):
    return bytes((i * 7 + 3 + salt) % 251 + 1 for i in range(1, n + 1))


def errname(e):
    if isinstance(e, P.SimHang):
        return "hang"
    if isinstance(e, IOError) and e.errno is not None and type(e) in (IOError, OSError, TimeoutError, PermissionError):
        return errno.errorcode.get(e.errno, "errno%s" % e.errno)
    return "other:" + type(e).__name__


# ---------------------------------------------------------------------------------------------------
# exhaustive runs
def model_check(tier):
    runs = list(MC_RUNS)
    if tier != "quick":
        runs[3] = ("MC_Transport_tty_thorough.cfg",) + runs[3][1:]

    def one(run):
        cfg, holds, must_violate, wit = run
        r = tlc.run("MC_Transport.tla", cfg, PID + "/" + cfg[:-4], workers=4 if "thorough" not in cfg else 12,
                    timeout=300 if tier == "quick" else 1500)
        hit = {v[1] for v in tlaval.extract_tuples(r.out) if isinstance(v, list) and len(v) == 2 and v[0] == "WITNESS"}
        return run, r, hit

    with cf.ThreadPoolExecutor(max_workers=len(runs)) as ex:
        res = list(ex.map(one, runs))
    out = dict(states=0, transitions=0, witnesses=[], runs={})
    viol = []
    for (cfg, holds, must_violate, wit), r, hit in res:
        out["runs"][cfg] = dict(distinct=r.distinct, generated=r.generated, depth=r.depth, violated=r.violated)
        if holds:
            if not r.ok:
                viol.append((cfg, r))
                continue
            missing = set(wit) - hit
            if missing:
                raise tlc.TLCError("vacuous model %s: witnesses not reached: %s" % (cfg, sorted(missing)))
            out["states"] += r.distinct
            out["transitions"] += r.generated
            out["witnesses"] += sorted(set(wit))
        elif must_violate not in r.violated:
            raise tlc.TLCError("%s: the deliberately wrong variant does not violate %s (violated: %s)" % (
                cfg, must_violate, r.violated))
        else:
            out["witnesses"].append("%s violates %s" % (cfg[13:-4], must_violate))
    return out, viol


# ---------------------------------------------------------------------------------------------------
# rigs: the real transport classes on the fake backends
class Env(object):
    """virtual clock in the driver modules, fake `usb1` / `serial` modules inside nfc.clf.transport"""

    def __init__(self):
        D.quiet()
        self.clock = P.VClock()
        for m in D._TIME_MODULES:
            m.time = self.clock
        nfc.clf.pn532.sys = D._Sys()
        self.saved = (NT.libusb, NT.serial)

    def restore(self):
        NT.libusb, NT.serial = self.saved


def record(tr, log, tty):
    """log every write()/read() call of the transport object next to what its backend logs"""
    ow, orr = tr.write, tr.read

    def write(frame, *a, **kw):
        tmo = a[0] if a else kw.get("timeout", 0)
        log.append(dict(e="wcall", n=len(frame), h=LU.crc(frame), tmo=int(tmo)))
        try:
            r = ow(frame, *a, **kw)
        except BaseException as e:
            log.append(dict(e="wret", r=errname(e)))
            raise
        log.append(dict(e="wret", r="ok" if r is None else "other:value"))
        return r

    def read(*a, **kw):
        tmo = a[0] if a else kw.get("timeout", 0)
        log.append(dict(e="rcall", tmo=int(tmo)))
        try:
            r = orr(*a, **kw)
        except BaseException as e:
            log.append(dict(e="rret", r=errname(e), n=0, h=0, b=[]))
            raise
        if not isinstance(r, bytearray):
            log.append(dict(e="rret", r="other:" + type(r).__name__, n=0, h=0, b=[]))
        else:
            log.append(dict(e="rret", r="ok", n=len(r), h=LU.crc(r), b=list(r) if tty else []))
        return r

    tr.write, tr.read = write, read
    return tr


def usb_rig(env, firmware, op=64, ip=64, **kw):
    dev = LU.Device(env.clock, firmware, out_maxp=op, in_maxp=ip, **kw)
    NT.libusb = LU.Usb1([LU.Device(env.clock, LU.RawFirmware(), bus=1, adr=1), dev])
    tr = NT.USB(dev.bus, dev.adr)
    record(tr, dev.log, False)
    const = dict(link="usb", op=op, ip=ip, cap=READ_CAP, x=255, oep=0x04, iep=0x84, ext="lenlcs", tol=False)
    return tr, dev, const


def tty_rig(env, firmware, chunker=LT.whole):
    mod = LT.SerialModule()
    port = mod.add(LT.Port(PORT, env.clock, firmware, chunker))
    NT.serial = mod
    tr = NT.TTY(PORT)
    record(tr, port.log, True)
    const = dict(link="tty", op=0, ip=0, cap=0, x=255, oep=0, iep=0, ext="lenlcs", tol=False)
    return tr, port, const


def attempt(fn, *a, **kw):
    try:
        return "ok", fn(*a, **kw)
    except (Exception, P.SimHang) as e:
        return errname(e), None


# ---------------------------------------------------------------------------------------------------
# USB: writes of every length, reads of every length, faults
USB_CONFIGS = ((64, 64), (32, 64), (8, 16), (512, 512))


def usb_write_lengths(op, tier):
    top = 3 * op + 1
    ns = set(range(1, min(top, 300) + 1)) | {k * op for k in range(1, 6)} | {k * op + d for k in (1, 2, 3, 4) for d in (-1, 1)}
    if op == 64:
        ns |= set(range(1, 301 if tier != "quick" else 262))
    if op == 512:
        ns = set(range(1, 12)) | {63, 64, 65, 255, 256, 300, 511, 512, 513, 1023, 1024, 1025}
    return sorted(n for n in ns if n > 0)


def gen_usb_write(env, op, ip, n, fault=None, second=True):
    """write(frame of n bytes), then (to show what a missing short packet does) write(ACK)"""
    fw = LU.RawFirmware()
    tr, dev, const = usb_rig(env, fw, op, ip)
    if fault is not None:
        dev.faults[("bw", fault[0])] = (fault[1], fault[2])
    frames = [pattern(n), ACK] if second else [pattern(n)]
    res = [attempt(tr.write, bytearray(f))[0] for f in frames]
    tr.close()
    return dict(const=const, ev=dev.log, sent=[f.hex() for f in frames], seen=[t.hex() for t in fw.transfers], res=res)


def gen_usb_read(env, ip, script, faults=None):
    """script: list of ("send", n) | ("read", tmo)"""
    fw = LU.RawFirmware()
    tr, dev, const = usb_rig(env, fw, 64, ip)
    dev.faults.update(faults or {})
    k = 0
    res = []
    for op, v in script:
        if op == "send":
            k += 1
            dev.queue_in(pattern(v, k))
        else:
            r, data = attempt(tr.read, v) if v is not None else attempt(tr.read)
            res.append((r, bytes(data).hex() if data is not None else None))
    tr.close()
    return dict(const=const, ev=dev.log, res=res)


def usb_traces(env, tier, rnd):
    out = []
    for op, ip in USB_CONFIGS:
        for n in usb_write_lengths(op, tier):
            t = gen_usb_write(env, op, ip, n)
            t.update(id="usb/w/op%d/n%d" % (op, n), gen=["usb_write", op, ip, n, None], n=n, cls="write")
            out.append(t)
    # failing bulkWrite: at the frame (nothing / one packet went out) and at the ZLP
    for n in (1, 64, 65, 130, 192):
        for at, kind, sent in ((1, "timeout", 0), (1, "timeout", 64), (1, "nodev", 0), (1, "io", 0), (1, "pipe", 0),
                               (2, "timeout", 0), (2, "nodev", 0)):
            if sent >= n or (at == 2 and n % 64):
                continue
            t = gen_usb_write(env, 64, 64, n, fault=(at, kind, sent))
            t.update(id="usb/wf/n%d/%d%s%d" % (n, at, kind, sent), gen=["usb_write", 64, 64, n, [at, kind, sent]], n=n, cls="write-fault")
            out.append(t)
    # reads
    lens = [1, 2, 5, 6, 10, 63, 64, 65, 127, 128, 129, 192, 255, 256, 257, 275, 299, 300]
    if tier != "quick":
        lens = sorted(set(lens) | set(range(1, 301, 7)))
    scripts = [("usb/r/n%d" % n, 64, [("send", n), ("read", 100), ("read", 100)], None) for n in lens]
    scripts += [("usb/r/over%d" % n, 64, [("send", n), ("read", 100), ("send", 9), ("read", 100)], None) for n in (301, 320, 364, 600)]
    scripts += [("usb/r/zero", 64, [("send", 0), ("read", 100), ("send", 7), ("read", 100)], None),
                ("usb/r/empty", 64, [("read", 100), ("read", 1), ("send", 6), ("read", 0)], None),
                ("usb/r/two", 64, [("send", 6), ("send", 130), ("read", 100), ("read", None), ("read", 50)], None),
                ("usb/r/nodev", 64, [("send", 6), ("read", 100), ("read", 100)], {("br", 1): ("nodev", 0)}),
                ("usb/r/io", 64, [("send", 6), ("read", 100), ("read", 100)], {("br", 1): ("io", 0)})]
    for ip, n, lost in ((64, 130, 64), (64, 130, 128), (64, 275, 192), (16, 40, 16), (16, 40, 32)):
        scripts.append(("usb/r/mid/ip%d/n%d/lost%d" % (ip, n, lost), ip,
                        [("send", n), ("read", 100), ("read", 100), ("send", 8), ("read", 100)], {("br", 1): ("timeout", lost)}))
    for name, ip, script, faults in scripts:
        t = gen_usb_read(env, ip, script, faults)
        t.update(id=name, gen=["usb_read", ip, script, sorted((list(k), list(v)) for k, v in (faults or {}).items())], cls="read")
        out.append(t)
    return out


# ---------------------------------------------------------------------------------------------------
# TTY: gaps at every position, back-to-back frames, every LEN, writes
def chunks_from_gaps(stream, gaps):
    """gaps: {position k (1..len-1): number of timeouts before stream[k:] continues}"""
    cuts = sorted(gaps)
    out, a = [], 0
    for c in cuts + [len(stream)]:
        out.append((stream[a:c], 0 if a == 0 else gaps[a]))
        a = c
    return out


def gen_tty_read(env, frames, gaps, reads, tail=True):
    """The device emits `frames` back to back, cut by `gaps`; the host calls read(100) `reads` times, then writes an
    ACK (flushInput), the device answers with a short frame and the host reads it."""
    fw = LT.RawFirmware()
    tr, port, const = tty_rig(env, fw)
    stream = b"".join(frames)
    ch = chunks_from_gaps(stream, gaps)
    # emit frame by frame with the chunks that belong to it
    pos = 0
    flat = []
    for c, g in ch:
        flat.append((pos, c, g))
        pos += len(c)
    a = 0
    for f in frames:
        mine = []
        for p, c, g in flat:
            lo, hi = max(p, a), min(p + len(c), a + len(f))
            if lo < hi:
                mine.append((c[lo - p:hi - p], g if lo == p else 0))
        port.emit(f, mine)
        a += len(f)
    res = []
    for _ in range(reads):
        r, data = attempt(tr.read, 100)
        res.append((r, bytes(data).hex() if data is not None else None))
    if tail:
        attempt(tr.write, bytearray(ACK))
        late = sum(len(c) for c, g in port.wire)
        port.emit(P.std_frame(b"\xd5\x03\x32"))
        r, data = attempt(tr.read, 100)
        res.append((r, bytes(data).hex() if data is not None else None, late))
    tr.close()
    return dict(const=const, ev=port.log, res=res)


def gen_tty_write(env, n, fault=False):
    fw = LT.RawFirmware()
    tr, port, const = tty_rig(env, fw)
    port.emit(pattern(5))                     # stale input that the write has to flush
    if fault:
        port.faults[("sw", 1)] = "timeout"
    res = [attempt(tr.write, bytearray(pattern(n)))[0], attempt(tr.write, bytearray(ACK))[0]]
    tr.close()
    return dict(const=const, ev=port.log, res=res, seen=[x.hex() for x in fw.received], sent=[pattern(n).hex(), ACK.hex()])


def rsp(n, ext=False):
    pd = bytes([0xD5, 0x41]) + pattern(n - 2) if n >= 2 else bytes([0x7F])[:n]
    return P.ext_frame(pd) if ext else P.std_frame(pd)


def tty_traces(env, tier, rnd):
    out = []
    shorts = [("ack", ACK), ("err", P.ERR), ("std2", rsp(2))]
    if tier != "quick":
        shorts += [("std3", rsp(3)), ("ext2", rsp(2, True))]
    for name, f in shorts:
        n = len(f)
        for bits in range(1 << (n - 1)):
            if tier == "quick" and n > 8 and bin(bits).count("1") > 2 and rnd.random() > 0.15:
                continue
            gaps = {k: 1 for k in range(1, n) if bits >> (k - 1) & 1}
            t = gen_tty_read(env, [f], gaps, len(gaps) + 1)
            t.update(id="tty/r/%s/g%x" % (name, bits), gen=["tty_read", [f.hex()], sorted(gaps.items()), len(gaps) + 1], cls="read-gaps")
            out.append(t)
    # ACK + response back to back: a pause (one, two timeouts) at every position, random multi-gap patterns
    for name, f in (("std2", rsp(2)), ("ext3", rsp(3, True)), ("std40", rsp(40))):
        stream = ACK + f
        pats = [{k: g} for k in range(1, len(stream)) for g in ((1, 2) if len(stream) < 30 else (1,))]
        for _ in range(20 if tier == "quick" else 200):
            pats.append({k: rnd.choice((1, 1, 2)) for k in rnd.sample(range(1, len(stream)), rnd.choice((2, 3, 4)))})
        for i, gaps in enumerate(pats):
            t = gen_tty_read(env, [ACK, f], gaps, len(gaps) + 3)
            t.update(id="tty/r/ack+%s/%d" % (name, i), gen=["tty_read", [ACK.hex(), f.hex()], sorted(gaps.items()), len(gaps) + 3], cls="read-gaps")
            out.append(t)
    # every LEN of a normal frame, extended frames on both sides of every length byte boundary; arrival in random chunks
    cases = [(n, False) for n in range(1, 256)] + [(n, True) for n in (2, 3, 254, 255, 256, 257, 263, 264, 265, 266, 290, 511, 512, 513, 600)]
    for n, ext in cases:
        f = rsp(n, ext)
        cuts = sorted(rnd.sample(range(1, len(f)), min(len(f) - 1, rnd.choice((0, 1, 2, 5)))))
        t = gen_tty_read(env, [f, ACK], {c: 0 for c in cuts}, 2, tail=False)
        t.update(id="tty/r/%s%d" % ("ext" if ext else "std", n), gen=["tty_read", [f.hex(), ACK.hex()], [(c, 0) for c in cuts], 2, False],
                 cls="read-len", n=n, ext=ext)
        out.append(t)
    # nothing at all, and nothing but a late frame
    t = gen_tty_read(env, [], {}, 2)
    t.update(id="tty/r/silence", gen=["tty_read", [], [], 2], cls="read-gaps")
    out.append(t)
    for n in list(range(1, 20)) + [64, 255, 265, 300]:
        t = gen_tty_write(env, n)
        t.update(id="tty/w/n%d" % n, gen=["tty_write", n, False], cls="write")
        out.append(t)
    t = gen_tty_write(env, 9, True)
    t.update(id="tty/w/timeout", gen=["tty_write", 9, True], cls="write-fault")
    out.append(t)
    return out


# ---------------------------------------------------------------------------------------------------
# conversations: real drivers, real transports, chip simulators as firmware
def random_chunker(rnd, pgap):
    def chunker(frame, index):
        k = rnd.choice((0, 0, 1, 2, 3))
        cuts = sorted(rnd.sample(range(1, len(frame)), min(k, len(frame) - 1))) if len(frame) > 1 else []
        out, a = [], 0
        for c in cuts + [len(frame)]:
            out.append((frame[a:c], 1 if (a and rnd.random() < pgap) else 0))
            a = c
        return out
    return chunker


CONV = (  # driver, link, command code, largest data
    ("pn533", "usb", 0x00, 263), ("rcs380", "usb", 0xF0, 290), ("acr122", "usb", 0x00, 252),
    ("pn532", "tty", 0x00, 263), ("arygon", "tty", 0x00, 263), ("pn531", "usb", 0x00, 252), ("rcs956", "usb", 0x00, 263),
)


def conv_rig(env, driver, link, rnd):
    """-> chip, transport, backend, trace constants, the driver's init function"""
    if driver == "rcs380":
        chip = R.SimRcs380()
        fw = LU.FrameFirmware(R.Rcs380Transport(chip, env.clock))
        tr, be, const = usb_rig(env, fw, 64, 64, vid=0x054C, pid=0x06C1, manufacturer="SONY", product="RC-S380/P")
        return chip, tr, be, const, nfc.clf.rcs380.init
    if driver == "acr122":
        chip = P.SimPn53x("pn532")
        fw = LU.FrameFirmware(P.Acr122Transport(chip, env.clock))
        tr, be, const = usb_rig(env, fw, 64, 64, vid=0x072F, pid=0x2200, manufacturer="ACS", product="ACR122U PICC Interface")
        return chip, tr, be, const, nfc.clf.acr122.init
    if link == "usb":
        chip = P.SimPn53x(driver)
        fw = LU.FrameFirmware(P.FrameTransport(chip, env.clock, "USB"))
        tr, be, const = usb_rig(env, fw, 64, 64, string_error=(driver == "pn533"))
        return chip, tr, be, const, getattr(nfc.clf, driver).init
    chip = P.SimPn53x("pn532")
    fw = (LT.ArygonFirmware if driver == "arygon" else LT.Pn53xFirmware)(chip, env.clock)
    tr, be, const = tty_rig(env, fw, random_chunker(rnd, 0.0))
    return chip, tr, be, const, getattr(nfc.clf, driver).init


def conversation(env, driver, link, code, lengths, rseed, pgap=0.0):
    """device init() and one host command per length through the real transport -> trace + what the chip saw"""
    rnd = random.Random(rseed)
    chip, tr, be, const, init = conv_rig(env, driver, link, rnd)
    r, device = attempt(init, tr)
    if device is None:                  # a verdict, not a machinery failure: the driver cannot even start on this transport
        return dict(const=const, ev=list(be.log), lost=[(-1, r, "the driver's init() failed")])
    if link == "tty":
        be.chunker = random_chunker(rnd, pgap)          # pauses longer than the read timeout only after init()
    cs = device.chipset
    lost = []
    for n in lengths:
        data = bytes([0]) + pattern(n - 1) if n else b""
        chip.arm(None)
        if driver == "rcs380":
            r, val = attempt(cs.send_command, code, data)
            want, echo = bytes([0xD6, code]) + data, b"\x00"
        else:
            r, val = attempt(cs.command, code, bytearray(data), 0.1)
            want = bytes([0xD4, code]) + data
            echo = (data[1:] if driver == "rcs956" else data) if n else b"\x00"
        seen = chip.frames[-1] if chip.frames else None
        if pgap == 0.0 and (seen != want or r != "ok" or val is None or bytes(val) != echo):
            lost.append((n, r, "chip saw the command" if seen == want else "the command never reached the chip"))
    # stop recording before the driver's close(): the Arygon driver resets its MCU around the transport
    ev = list(be.log)
    try:
        device.close()
    except (Exception, P.SimHang):
        pass
    return dict(const=const, ev=ev, lost=lost)


def conv_traces(env, tier, rnd, seed):
    out = []
    for driver, link, code, nmax in CONV:
        if tier == "quick" and driver in ("pn531", "rcs956"):
            continue
        ns = list(range(0, nmax + 1))
        if tier == "quick" and link == "tty":
            ns = sorted(set(list(range(0, 40)) + list(range(40, nmax + 1, 3)) + list(range(244, nmax + 1))))
        for k in range(0, len(ns), 48):
            rs = "%d/%s/%d" % (seed, driver, k)
            t = conversation(env, driver, link, code, ns[k:k + 48], rs)
            t.update(id="conv/%s/%d" % (driver, ns[k]), gen=["conv", driver, link, code, ns[k:k + 48], rs, 0.0], cls="conv", driver=driver)
            out.append(t)
        if link == "tty":
            ns2 = [rnd.randrange(0, nmax + 1) for _ in range(60 if tier == "quick" else 400)]
            for k in range(0, len(ns2), 20):
                rs = "%d/%s/gap%d" % (seed, driver, k)
                t = conversation(env, driver, link, code, ns2[k:k + 20], rs, pgap=0.25)
                t.update(id="convgap/%s/%d" % (driver, k), gen=["conv", driver, link, code, ns2[k:k + 20], rs, 0.25], cls="conv-gaps", driver=driver)
                out.append(t)
    return out


# ---------------------------------------------------------------------------------------------------
# opening and finding devices: the glue around the two byte streams (plain expectations, no TLC)
def open_cases(env):
    """-> [(case, expected, observed)] for USB.open() failures, USB.find() / TTY.find('com') on the fake modules"""
    out = []

    def usb_open(case, want, devices, bus=1, adr=2):
        NT.libusb = LU.Usb1(devices)
        r, tr = attempt(NT.USB, bus, adr)
        out.append(("usb:open:" + case, want, r))
        return tr

    def dev(**kw):
        return LU.Device(env.clock, LU.RawFirmware(), **kw)

    usb_open("no-such-device", "ENODEV", [dev(adr=5)])
    d = dev()
    d.settings = []
    usb_open("no-settings", "ENODEV", [d])
    d = dev()
    d.settings = [LU.Setting([LU.Endpoint(0x83, 0x03, 8), LU.Endpoint(0x04, 0x02, 64)])]
    usb_open("no-bulk-IN-endpoint", "ENODEV", [d])
    for exc, want in ((LU.USBErrorAccess, "EACCES"), (LU.USBErrorBusy, "EBUSY"), (LU.USBErrorNoDevice, "ENODEV")):
        d = dev()
        d.claim_error = exc
        usb_open("claimInterface-" + exc.__name__, want, [d])
    d = dev(string_error=True)
    tr = usb_open("string-descriptors-unreadable", "ok", [d])
    out.append(("usb:open:string-descriptors-unreadable:names", repr((None, None)), repr((tr.manufacturer_name, tr.product_name)) if tr else "-"))
    tr = usb_open("plain", "ok", [dev(manufacturer="V", product="P")])
    out.append(("usb:open:names", repr(("V", "P")), repr((tr.manufacturer_name, tr.product_name)) if tr else "-"))
    if tr:
        tr.close()
        out.append(("usb:close:write-after-close", repr(("ok", None)), repr(attempt(tr.write, b"12"))))
        out.append(("usb:close:read-after-close", repr(("ok", None)), repr(attempt(tr.read, 10))))
    NT.libusb = LU.Usb1([dev(vid=0x054C, pid=0x06C1, bus=1, adr=2), dev(vid=0x04CC, pid=0x2533, bus=1, adr=3),
                         dev(vid=0x054C, pid=0x02E1, bus=2, adr=3)])
    for path, want in (("usb", [(0x054C, 0x06C1, 1, 2), (0x04CC, 0x2533, 1, 3), (0x054C, 0x02E1, 2, 3)]),
                       ("usb:054c", [(0x054C, 0x06C1, 1, 2), (0x054C, 0x02E1, 2, 3)]),
                       ("usb:054c:06c1", [(0x054C, 0x06C1, 1, 2)]), ("usb:001", [(0x054C, 0x06C1, 1, 2), (0x04CC, 0x2533, 1, 3)]),
                       ("usb:002:003", [(0x054C, 0x02E1, 2, 3)]), ("usb:zzzz", None), ("tty", None)):
        out.append(("usb:find:" + path, repr(("ok", want)), repr(attempt(NT.USB.find, path))))
    mod = LT.SerialModule()
    mod.add(LT.Port("COM3", env.clock, LT.RawFirmware()))
    mod.add(LT.Port("COM7", env.clock, LT.RawFirmware()))
    NT.serial = mod
    for path, want in (("com", (["COM3", "COM7"], "", True)), ("com:3", (["COM3"], "", False)),
                       ("com:COM7:pn532", (["COM7"], "pn532", False)), ("usb", None)):
        out.append(("tty:find:" + path, repr(("ok", want)), repr(attempt(NT.TTY.find, path))))
    tr = NT.TTY("COM3")
    out.append(("tty:open:port-baudrate", repr(("COM3", 115200, 0.05)), repr((tr.port, tr.baudrate, mod.ports["COM3"].timeout))))
    tr.baudrate = 9600
    tr.close()
    out.append(("tty:close", repr(("", 0, ("ok", None), ("ok", None), 9600)),
                repr((tr.port, tr.baudrate, attempt(tr.write, b"12"), attempt(tr.read, 10), mod.ports["COM3"].baudrate))))
    return out


# ---------------------------------------------------------------------------------------------------
# verdicts -> canonical keys
def key_of(t, verdict):
    _, line, e, why = verdict
    link = t["const"]["link"]
    c = why[0]
    if c == "harness":
        # the conversation between the driver under test and the chip simulator left the model of the link (e.g. the
        # driver wrote a frame the firmware does not answer): a verdict about the code under test, not a crash
        return "%s:conversation-diverges-from-the-link-model:%s" % (link, why[1] if len(why) > 1 else "?")
    if link == "usb":
        if c == "wret:zlp-missing":
            return "usb:write:len%maxPacketSize==0:no-ZLP"
        if c == "bw:unexpected":
            return "usb:write:len%maxPacketSize!=0:spurious-ZLP" if (why[2] == 0 and why[1] == "ret") else "usb:write:unexpected-bulkWrite"
        if c == "bw:ep":
            return "usb:write:not-the-first-bulk-OUT-endpoint"
        if c == "bw:data":
            return "usb:write:bulkWrite-data-is-not-the-frame"
        if c == "bw:tmo":
            return "usb:write:timeout-not-passed-to-bulkWrite"
        if c == "wret:result":
            return "usb:write:error-mapping:%s->%s" % (why[2], why[1])
        if c == "wret:unexpected":
            return "usb:write:returned-in-state-%s" % why[1]
        if c == "br:ep":
            return "usb:read:not-the-first-bulk-IN-endpoint"
        if c == "br:cap":
            return "usb:read:bulkRead-length!=%d" % READ_CAP
        if c == "br:tmo":
            return "usb:read:timeout-not-passed-to-bulkRead"
        if c == "rret:result":
            return "usb:read:error-mapping:%s(%s)->%s" % (why[2], why[3], why[1])
        if c == "rret:data":
            return "usb:read:returned-data-is-not-the-transfer"
        return "usb:%s:%s" % (e, c)
    if c == "sr:n":
        pc, n, need, hdr = why[1], why[2], why[3], why[4]
        if pc == "body" and n == 3 and len(hdr) >= 5 and hdr[3] == 255 and hdr[4] != 255:
            return "tty:read:normal-frame-LEN=FFh:parsed-as-extended"
        return "tty:read:%s:requests-%s-than-the-header-says" % (pc, "more" if n > need else "fewer")
    if c == "sr:unexpected":
        return "tty:read:serial-read-after-%s" % why[1]
    if c == "sr:tv":
        return "tty:read:serial-timeout!=max(timeout,50ms)"
    if c in ("inv:NoOverRead", "inv:NoBleed"):
        return "tty:read:%s:bleed-into-next-frame" % why[1]
    if c == "rret:unexpected":
        return "tty:read:%s:returned-%s-early" % (why[1], why[2])
    if c == "rret:result":
        return "tty:read:error-mapping:%s->%s" % (why[2], why[1])
    if c == "rret:data":
        return "tty:read:returned-data-is-not-what-was-read"
    if c in ("flush:unexpected", "sw:unexpected"):
        return "tty:write:flushInput-not-before-serial-write"
    if c == "sw:data":
        return "tty:write:serial-write-data-is-not-the-frame"
    if c.startswith("wret:"):
        return "tty:write:%s:%s->%s" % (c[5:], why[2] if len(why) > 2 else "-", why[1])
    return "tty:%s:%s" % (e, c)


def describe(t, verdict):
    _, line, e, why = verdict
    ev = t["ev"]
    ctx = ev[max(0, line - 4):line]
    short = [{k: (v if not isinstance(v, list) or len(v) <= 12 else v[:12] + ["..."]) for k, v in x.items()} for x in ctx]
    return "%s: event %d (%s) rejected by Transport: %s ; last events %s" % (t["id"], line, e, why, json.dumps(short, separators=(",", ":")))[:900]


def strip(t):
    return dict(id=t["id"], const=t["const"], ev=t["ev"])


ASIS_KEY = "tty:read:normal-frame-LEN=FFh:parsed-as-extended"


def regenerate(env, gen, rnd):
    kind = gen[0]
    if kind == "usb_write":
        return gen_usb_write(env, gen[1], gen[2], gen[3], fault=tuple(gen[4]) if gen[4] else None)
    if kind == "usb_read":
        return gen_usb_read(env, gen[1], [tuple(x) for x in gen[2]], {tuple(k): tuple(v) for k, v in gen[3]})
    if kind == "tty_read":
        return gen_tty_read(env, [bytes.fromhex(x) for x in gen[1]], {int(k): int(g) for k, g in gen[2]}, gen[3],
                            *(gen[4:5]))
    if kind == "tty_write":
        return gen_tty_write(env, gen[1], gen[2])
    if kind == "conv":
        return conversation(env, gen[1], gen[2], gen[3], gen[4], gen[5], gen[6])
    raise ValueError(kind)


# ---------------------------------------------------------------------------------------------------
def selftest_traces(traces):
    """recorded traces with one corrupted field / one dropped event: all must be rejected.
    -> [(trace, id of the recorded trace it was made from, clause expected when that one is accepted)]"""
    by = {t["id"]: t for t in traces}

    def zlp_dropped(a):
        del a["ev"][[i for i, e in enumerate(a["ev"]) if e["e"] == "bw" and e["n"] == 0][0]]

    def bw_length(a):
        [e for e in a["ev"] if e["e"] == "bw"][0]["n"] -= 1

    def rret_hash(a):
        [e for e in a["ev"] if e["e"] == "rret"][0]["h"] ^= 1

    def tty_byte(a):
        [e for e in a["ev"] if e["e"] == "rret"][0]["b"][17] ^= 4

    def tty_overread(a):
        [e for e in a["ev"] if e["e"] == "sr"][1]["n"] += 1

    def tty_noflush(a):
        a["ev"] = [e for e in a["ev"] if e["e"] != "flush"]

    st = []
    for name, base, clause, fn in (("zlp-dropped", "usb/w/op64/n128", "wret:zlp-missing", zlp_dropped),
                                   ("bw-length", "usb/w/op64/n65", "bw:data", bw_length),
                                   ("rret-hash", "usb/r/n65", "rret:data", rret_hash),
                                   ("tty-byte", "tty/r/std200", "rret:data", tty_byte),
                                   ("tty-overread", "tty/r/std200", "sr:n", tty_overread),
                                   ("tty-noflush", "tty/w/n9", "sw:unexpected", tty_noflush)):
        a = json.loads(json.dumps(strip(by[base])))
        a["id"] = "selftest/" + name
        try:
            fn(a)
        except (IndexError, KeyError):
            continue                      # the recorded execution is already wrong in this very place: reported as such
        st.append((a, base, clause))
    return st


def stage(ck, tier, seed):
    """-> number of traces validated.  Violations are reported through ck."""
    rnd = random.Random(seed * 7919 + 14)
    quick = tier == "quick"
    env = Env()
    with cf.ThreadPoolExecutor(max_workers=1) as pool:
        mc_future = pool.submit(model_check, tier)               # TLC runs while the traces are recorded
        try:
            traces = usb_traces(env, tier, rnd) + tty_traces(env, tier, rnd) + conv_traces(env, tier, rnd, seed)
            glue = open_cases(env)
        finally:
            env.restore()
        mc, mc_viol = mc_future.result()
    for cfg, r in mc_viol:
        ck.violation("spec:Transport:%s:%s" % (cfg[13:-4], ",".join(r.violated or ["deadlock"])),
                     "the model of the transport violates its own property: %s" % (r.error_trace or "")[-2:])
    for case, want, got in glue:
        if want != got:
            ck.violation(case, "nfc.clf.transport: %s: expected %s, observed %s" % (case, want, got),
                         replay=dict(kind="transport", id=case, gen=["glue", case], seed=seed))
    st = selftest_traces(traces)
    verdicts, stats = tlc.validate_traces("Trace_Transport.tla", "Trace_Transport.cfg", PID + "/transport",
                                          [strip(t) for t in traces] + [t for t, _, _ in st], shards=4 if quick else 12,
                                          timeout=600 if quick else 2400)
    for t, base, clause in st:
        v = verdicts[t["id"]]
        if v[0] != "STUCK" or (verdicts[base][0] == "ACCEPT" and v[3][0] != clause):
            raise tlc.TLCError("binding vacuous: corrupted trace %s not rejected with %s: %s" % (t["id"], clause, v))
    # traces that stop at the known finding are walked to their end with the reader rule of the code as it is
    twins = []
    for t in traces:
        v = verdicts[t["id"]]
        if v[0] == "STUCK" and t["const"]["link"] == "tty" and key_of(t, v) == ASIS_KEY:
            twins.append(dict(id=t["id"] + "~asis", const=dict(t["const"], ext="len", tol=True), ev=t["ev"]))
    tv = {}
    if twins:
        tv, st2 = tlc.validate_traces("Trace_Transport.tla", "Trace_Transport.cfg", PID + "/transport2", twins,
                                      shards=2, timeout=600)
        stats["states"] += st2["states"]
    classes = set()
    nev = 0
    found = []
    for t in traces:
        v = verdicts[t["id"]]
        nev += len(t["ev"])
        classes.add((t["cls"], t["const"]["link"], t["const"]["op"], v[0]))
        rep = dict(kind="transport", id=t["id"], gen=t["gen"], seed=seed)
        if v[0] == "STUCK":
            aligned = not (v[3][0] == "sr:n" and not v[3][5])
            found.append((key_of(t, v), not aligned, t["id"], describe(t, v), rep))
            v2 = tv.get(t["id"] + "~asis")
            if v2 is not None and v2[0] == "STUCK":
                t2 = dict(t, id=t["id"] + "~asis")
                found.append((key_of(t2, v2), False, t2["id"], "with the reader of the code as it is: " + describe(t2, v2), rep))
            continue
        # the spec accepted the execution: what the device side recorded must agree with it (checks the checker)
        if t["cls"] == "write" and t.get("seen") != t.get("sent"):
            raise tlc.TLCError("Transport accepted %s but the device saw other frames than were written" % t["id"])
        for n, r, what in t.get("lost", ()):
            fam = "usb" if t["const"]["link"] == "usb" else "tty"
            found.append(("%s:conversation:%s:command-not-answered" % (fam, t["driver"]), False, t["id"],
                          "%s through the real %s transport: command with %d data bytes -> %s, %s (trace %s accepted by the spec)" % (
                              t["driver"], fam.upper(), n, r, what, t["id"]), rep))
    for key, _, _, what, rep in sorted(found, key=lambda x: x[:3]):
        ck.violation(key, what, replay=rep)
    ck.cover(evaluations=nev, distinct_nontrivial=len(classes))
    ck.cover(transport_mc_states=mc["states"], transport_mc_transitions=mc["transitions"],
             transport_traces_validated=len(traces), transport_trace_events=nev, transport_trace_states=stats["states"],
             transport_case_classes=len(classes), transport_glue_cases=len(glue), transport_witnesses=mc["witnesses"], transport_mc_runs=mc["runs"],
             transport_selftest="%d corrupted traces rejected (%s)" % (len(st), ", ".join(c for _, _, c in st)))
    ck.sample(dict(trace=traces[0]["id"], ev=traces[0]["ev"][:4]))
    return len(traces), nev, len(classes)


def replay(r, args):
    env = Env()
    try:
        if r["gen"][0] == "glue":
            bad = [c for c in open_cases(env) if c[0] == r["gen"][1] and c[1] != c[2]]
            print("replay:", bad or "as expected")
            if bad:
                print("VIOLATION property=%s replay=%s" % (PID, args.replay))
            return 1 if bad else 0
        t = regenerate(env, r["gen"], random.Random(r.get("seed", 1) * 7919 + 14))
    finally:
        env.restore()
    t["id"] = "replay"
    for e in t["ev"][-12:]:
        print("  ", json.dumps(e, separators=(",", ":"))[:200])
    verdicts, _ = tlc.validate_traces("Trace_Transport.tla", "Trace_Transport.cfg", PID + "_replay", [strip(t)], shards=1)
    v = verdicts["replay"]
    print("replay verdict:", v)
    if v[0] != "ACCEPT" or t.get("lost"):
        if t.get("lost"):
            print("commands not answered:", t["lost"][:5])
        print("VIOLATION property=%s replay=%s" % (PID, args.replay))
        return 1
    return 0
