"""C17 -- LLCP addressing: binding, discovery and delivery reach the right socket.

Spec: spec/LlcpAddr.tla (exhaustive on an 8-slot table in four scenario families, shipped and repaired form; the
"life" family is the socket life cycle: sockets shut down by the peer's DISC, by FRMR or by a UI PDU before the
application closes them) and spec/LlcpResolve.tla (concurrent resolvers, bind/c17_resolve.py).
Binding: seeded histories of the public socket API (nfc.llcp.Socket: bind / listen / connect / accept / sendto /
recvfrom / resolve / close, getsockname) on two real LogicalLinkController objects joined back to back at the real
64-slot table - including histories that exhaust the 16 named and 32 dynamic addresses, reuse addresses after close,
rebind names, and bind the well-known name urn:nfc:sn:snep over a raw socket at address 4.  Every call is one event
(op, args, abstract result, observations, projection of both controllers); Trace_LlcpAddr.tla performs the same
spec action and evaluates all C17 invariants after every call.
"""
import json, random, errno
from vlib import tlc, check
from bind.llcp_rig import (nfc, llc_mod, tco_mod, pdu_mod, err_mod, HarnessError, wait_for, Call, make_pair,
                           settle, DONTWAIT, RAW, LDL, DLC)

PID = "C17"
KEY_WKS = "_bind_by_name:well-known-name-bound-over-occupied-SAP:address-handed-out-twice"
KEY_SNL = "close:service-name-stays-in-snl-after-last-close:stale-resolve/connect-by-name/EADDRINUSE"
NAMESEQ = ["wk"] + ["n%d" % i for i in range(1, 21)]
REAL = {"wk": b"urn:nfc:sn:snep", "bad": b"not a service name"}
REAL.update({"n%d" % i: b"urn:nfc:sn:svc%d" % i for i in range(1, 21)})
ERR = {errno.EADDRINUSE: "InUse", errno.EACCES: "Access", errno.EFAULT: "Fault", errno.EAGAIN: "Exhausted",
       errno.EADDRNOTAVAIL: "Exhausted", errno.EINVAL: "Invalid", errno.EOPNOTSUPP: "OpNotSupp",
       errno.ENOTSUP: "NotSup", errno.ESHUTDOWN: "Shutdown", errno.EDESTADDRREQ: "DestReq", errno.EBADF: "BadF",
       errno.EISCONN: "IsConn", errno.EALREADY: "Already", errno.EPIPE: "Pipe", errno.ENOTCONN: "NotConn", errno.EMSGSIZE: "MsgSize"}
KIND = {"ldl": LDL, "dlc": DLC, "raw": RAW}
RECVBUF, BACKLOG = 2, 1
BLANK = dict(op="", c="A", s=0, n="", a=0, dst=0, m=0, kind="", res="OK", val=0, reach=0, got=0, cached=False, ln=0)


def abstract_error(e):
    if isinstance(e, err_mod.ConnectRefused):
        return "Busy" if e.reason == 0x20 else "Refused"
    if isinstance(e, err_mod.Error):
        return ERR.get(e.errno, "E%s" % e.errno)
    if isinstance(e, AttributeError):
        return "Crash"
    raise e


class World(object):
    def __init__(self, miu_a=128, miu_b=128):
        A, B = make_pair(miu_a, miu_b)         # each side's send-miu is the MIU the other side announces
        self.miu = {"A": miu_a, "B": miu_b}
        self.llc = {"A": A, "B": B}
        self.socks = {"A": [], "B": []}
        self.kinds = {"A": [], "B": []}
        self.pending = {}        # (side, id) -> Call of a blocked connect()
        self.closed = {"A": set(), "B": set()}      # sockets the application has closed
        self.ev = []
        self.cur = None

    # ---- projection ---------------------------------------------------------------------------
    def state(self, c, i):
        t = self.socks[c][i - 1]._tco
        k = self.kinds[c][i - 1]
        if t.state.SHUTDOWN:
            # "dead": the socket shut itself down (DISC seen by recv(), FRMR, UI PDU) but the application has not
            # closed it yet - it still owns its address
            return "shut" if i in self.closed[c] or k != "dlc" else "dead"
        if k != "dlc":
            return "open"
        return {"CLOSED": "open", "LISTEN": "listen", "CONNECT": "connecting", "ESTABLISHED": "conn",
                "CLOSE_WAIT": "cw", "DISCONNECT": "disc"}[str(t.state)]

    def tco(self, c, i):
        return self.socks[c][i - 1]._tco

    def rq(self, c, i):
        t, k = self.tco(c, i), self.kinds[c][i - 1]
        if k == "dlc":
            if t.state.ESTABLISHED:
                return [[(p.data[0] if p.data else 0), p.ssap, len(p.data)] for p in t.recv_queue if p.name == "I"]
            return [[0, p.ssap, 0] for p in t.recv_queue if p.name == "CONNECT"] if t.state.LISTEN else []
        return [[(p.data[0] if getattr(p, "data", b"") else 0), p.ssap, len(getattr(p, "data", b""))] for p in t.recv_queue]

    def find_id(self, c, t):
        for i, s in enumerate(self.socks[c]):
            if s._tco is t:
                return i + 1
        return 0

    def proj_side(self, c):
        L = self.llc[c]
        ids = {id(s._tco): i + 1 for i, s in enumerate(self.socks[c])}
        sk = []
        for i in range(1, len(self.socks[c]) + 1):
            t, st = self.tco(c, i), self.state(c, i)
            if st == "shut":
                sk.append(dict(kind=self.kinds[c][i - 1], addr=-1, st="shut", peer=-1, rq=[]))
            else:
                sk.append(dict(kind=self.kinds[c][i - 1], addr=-1 if t.addr is None else t.addr, st=st,
                               peer=-1 if t.peer is None else t.peer, rq=self.rq(c, i)))
        sap = []
        for a in range(64):
            x = L.sap[a]
            if isinstance(x, llc_mod.ServiceAccessPoint) and a != 0:
                # every existing access point, also one without sockets (the spec never has one)
                sap.append([a + 1, [ids[id(t)] for t in x.sock_list]])
        snl = [[j + 1, L.snl[REAL[n]]] for j, n in enumerate(NAMESEQ) if L.snl.get(REAL[n])]
        cache = L.sap[1].snl
        rsnl = [[j + 1, cache[REAL[n]]] for j, n in enumerate(NAMESEQ) if REAL[n] in cache]
        return dict(sk=sk, sap=sap, snl=snl, rsnl=rsnl)

    def log(self, **kw):
        A, B = self.llc["A"], self.llc["B"]
        settle(A, B)
        self.reap()
        rec = dict(BLANK)
        rec.update(kw)
        rec["post"] = dict(A=self.proj_side("A"), B=self.proj_side("B"))
        self.ev.append(rec)
        return rec

    def reap(self):
        """connect() calls that were answered have returned before the next call is made."""
        for key, call in list(self.pending.items()):
            c, i = key
            t = self.tco(c, i)

            def quiet():
                with t.lock:
                    return call.done or (t.state.CONNECT and len(t.recv_queue) == 0)
            wait_for(quiet, "connect thread")
            if call.done:
                call.join()
                del self.pending[key]

    # ---- guards (those of the spec's actions) ---------------------------------------------------
    def alive(self, c, i):
        return self.state(c, i) != "shut"

    def occupied(self, c, a):
        return self.llc[c].sap[a] is not None

    def peer(self, c):
        return "B" if c == "A" else "A"

    def qlens(self, c):
        return [len(s._tco.recv_queue) for s in self.socks[c]]

    # ---- operations -----------------------------------------------------------------------------
    def socket(self, c, kind):
        s = nfc.llcp.Socket(self.llc[c], KIND[kind])
        if kind != "dlc":
            s._tco.setsockopt(nfc.llcp.SO_RCVBUF, RECVBUF)
        self.socks[c].append(s)
        self.kinds[c].append(kind)
        self.log(op="Socket", c=c, kind=kind)
        return len(self.socks[c])

    def blocked(self, why):
        """A call did not come back where the spec says it does: logged as the last event of the history."""
        rec = dict(BLANK)
        rec.update(self.cur or {})
        rec["res"] = "Blocked"
        rec["post"] = dict(A=self.proj_side("A"), B=self.proj_side("B"))
        self.ev.append(rec)

    def _call(self, fn, *args):
        try:
            fn(*args)
            return "OK"
        except (err_mod.Error, AttributeError) as e:
            return abstract_error(e)

    def bind_none(self, c, i):
        self.cur = dict(op="BindNone", c=c, s=i)
        res = self._call(self.socks[c][i - 1].bind)
        return self.log(op="BindNone", c=c, s=i, kind=self.kinds[c][i - 1], res=res)

    def bind_addr(self, c, i, a):
        self.cur = dict(op="BindAddr", c=c, s=i, a=a)
        res = self._call(self.socks[c][i - 1].bind, a)
        return self.log(op="BindAddr", c=c, s=i, a=a, kind=self.kinds[c][i - 1], res=res)

    def bind_name(self, c, i, n):
        self.cur = dict(op="BindName", c=c, s=i, n=n)
        res = self._call(self.socks[c][i - 1].bind, REAL[n])
        return self.log(op="BindName", c=c, s=i, n=n, kind=self.kinds[c][i - 1], res=res)

    def listen(self, c, i):
        self.cur = dict(op="Listen", c=c, s=i)
        res = self._call(self.socks[c][i - 1].listen, BACKLOG)
        return self.log(op="Listen", c=c, s=i, kind="dlc", res=res)

    def connect(self, c, i, a=None, n=None):
        self.cur = dict(op="ConnectAddr" if n is None else "ConnectName", c=c, s=i, a=a or 0, n=n or "")
        s, kind, p = self.socks[c][i - 1], self.kinds[c][i - 1], self.peer(c)
        dest = a if n is None else REAL[n]
        op = "ConnectAddr" if n is None else "ConnectName"
        if kind == "ldl":
            res = self._call(s.connect, dest)
            return self.log(op=op, c=c, s=i, a=a or 0, n=n or "", kind=kind, res=res)
        before = self.qlens(p)
        call = Call(s.connect, dest)
        t = s._tco
        wait_for(lambda: call.done or len(t.send_queue) > 0 or t.state.CONNECT, "connect started")
        settle(self.llc["A"], self.llc["B"])

        def quiet():
            with t.lock:
                return call.done or (t.state.CONNECT and len(t.recv_queue) == 0)
        wait_for(quiet, "connect thread")
        reach = 0
        after = self.qlens(p)
        for j, (x, y) in enumerate(zip(before, after)):
            if y > x and self.state(p, j + 1) == "listen":
                reach = j + 1
        if call.done:
            call.join()
            res = "OK" if call.error is None else abstract_error(call.error)
        else:
            res = "Pending"
            self.pending[(c, i)] = call
        return self.log(op=op, c=c, s=i, a=a or 0, n=n or "", kind=kind, res=res, reach=reach)

    def accept(self, c, i):
        self.cur = dict(op="Accept", c=c, s=i)
        acc = self.socks[c][i - 1].accept()
        self.socks[c].append(acc)
        self.kinds[c].append("dlc")
        return self.log(op="Accept", c=c, s=i, kind="dlc", res="OK", got=len(self.socks[c]))

    def sendto(self, c, i, dst, m, n=4):
        """A datagram of n octets whose first octet is the payload id m (an empty one has no id)."""
        m = m if n > 0 else 0
        self.cur = dict(op="SendTo", c=c, s=i, dst=dst, m=m, ln=n)
        p = self.peer(c)
        before = self.qlens(p)
        try:
            self.socks[c][i - 1].sendto((bytes([m]) + bytes(max(0, n - 1)))[:n], dst, DONTWAIT)
            res = "OK"
        except err_mod.Error as e:
            res = abstract_error(e)
        settle(self.llc["A"], self.llc["B"])
        got = 0
        for j, (x, y) in enumerate(zip(before, self.qlens(p))):
            if y > x:
                got = j + 1
        return self.log(op="SendTo", c=c, s=i, dst=dst, m=m, ln=n, kind="ldl", res=res, got=got)

    def recvfrom(self, c, i):
        self.cur = dict(op="RecvFrom", c=c, s=i)
        m = a = ln = 0
        try:
            data, ssap = self.socks[c][i - 1].recvfrom()
            if ssap is None:                    # raw access point: the PDU itself
                data, ssap = data.data, data.ssap
            m, a, ln, res = (data[0] if data else 0), ssap, len(data or b""), "OK"
        except err_mod.Error as e:
            res = abstract_error(e)
        return self.log(op="RecvFrom", c=c, s=i, m=m, a=a, ln=ln, kind=self.kinds[c][i - 1], res=res)

    def recv(self, c, i):
        """recv() on a connection-mode socket that has nothing to wait for (CLOSE_WAIT with the DISC indication queued,
        or not connected at all)."""
        self.cur = dict(op="Recv", c=c, s=i)
        call = Call(self.socks[c][i - 1].recv)
        wait_for(lambda: call.done, "recv() to return")
        call.join()
        m = 0
        if call.error is None:
            res = "EOF" if call.value is None else "Data"
            m = call.value[0] if call.value else 0
        else:
            res = abstract_error(call.error)
        return self.log(op="Recv", c=c, s=i, kind="dlc", res=res, m=m)

    def recv_ok(self, c, i):
        st, t = self.state(c, i), self.tco(c, i)
        if self.kinds[c][i - 1] != "dlc" or st in ("shut", "connecting", "disc"):
            return False
        return st not in ("cw", "conn") or len(t.recv_queue) > 0

    def first_match(self, c, addr, ssap):
        """The socket ServiceAccessPoint.enqueue hands a PDU from `ssap` to (llc.py:126-129)."""
        x = self.llc[c].sap[addr] if 0 <= addr < 64 else None
        if isinstance(x, llc_mod.ServiceAccessPoint):
            for t in x.sock_list:
                if t.peer == ssap or t.peer is None:
                    return t
        return None

    def dsend_ok(self, c, i):
        """Guard of the spec's DSend: established, and the other end has read what was sent before (window 1)."""
        if self.state(c, i) != "conn":
            return False
        t = self.tco(c, i)
        other = self.first_match(self.peer(c), t.peer, t.addr)
        return t.send_window_slots > 0 and (other is None or len(other.recv_queue) == 0)

    def dsend(self, c, i, m):
        self.cur = dict(op="DSend", c=c, s=i, m=m)
        p = self.peer(c)
        before = self.qlens(p)
        res = self._call(self.socks[c][i - 1].send, bytes([m]), DONTWAIT)
        settle(self.llc["A"], self.llc["B"])
        got = 0
        for j, (x, y) in enumerate(zip(before, self.qlens(p))):
            if y > x:
                got = j + 1
        return self.log(op="DSend", c=c, s=i, m=m, kind="dlc", res=res, got=got)

    def frmr_ok(self, c, i):
        t = self.tco(c, i)
        return self.state(c, i) == "conn" and self.first_match(c, t.addr, t.peer) is t

    def peer_frmr(self, c, i):
        """The remote device reports a protocol error on connection i: an FRMR PDU arrives for it."""
        self.cur = dict(op="PeerFrmr", c=c, s=i)
        t = self.tco(c, i)
        frmr = pdu_mod.FrameReject(t.addr, t.peer, flags=1, ptype=0b1100, ns=1, nr=0, vs=0, vr=0, vsa=0, vra=0)
        self.llc[c].dispatch(pdu_mod.decode(pdu_mod.encode(frmr)))
        return self.log(op="PeerFrmr", c=c, s=i, kind="dlc", res="OK")

    def sendto_ok(self, c, i, dst):
        """Guard of the spec's SendTo: the UI PDU must not hit a connecting socket or a listener with pending requests."""
        t = self.tco(c, i)
        me = t.addr
        if me is None:
            free = [a for a in range(32, 64) if self.llc[c].sap[a] is None]
            if not free:
                return True
            me = free[0]
        if t.state.SHUTDOWN or (t.peer is not None and dst != t.peer) or dst in (0, 1):
            return True
        hit = self.first_match(self.peer(c), dst, me)
        if hit is None or not isinstance(hit, tco_mod.DataLinkConnection):
            return True
        return not hit.state.CONNECT and len(hit.recv_queue) == 0

    def close_ok(self, c, i):
        st = self.state(c, i)
        if st in ("shut", "connecting", "disc") or (st == "listen" and len(self.tco(c, i).recv_queue) > 0):
            return False
        if st == "conn":
            t = self.tco(c, i)
            other = self.first_match(self.peer(c), t.peer, t.addr)
            return other is not None and isinstance(other, tco_mod.DataLinkConnection) and bool(other.state.ESTABLISHED)
        return True

    def resolve(self, c, n):
        self.cur = dict(op="Resolve", c=c, n=n)
        L = self.llc[c]
        cached = REAL[n] in L.sap[1].snl
        call = Call(L.resolve, REAL[n])
        if not cached:
            wait_for(lambda: call.done or len(L.sap[1].sdreq) > 0, "SDREQ queued")
            settle(self.llc["A"], self.llc["B"])
        call.join()
        if call.error is not None:
            raise HarnessError("resolve failed: %r" % (call.error,))
        return self.log(op="Resolve", c=c, n=n, res="OK", val=call.value, cached=cached)

    def close(self, c, i):
        self.cur = dict(op="Close", c=c, s=i)
        s = self.socks[c][i - 1]
        if self.state(c, i) == "conn":
            call = Call(s.close)
            t = s._tco
            wait_for(lambda: call.done or t.state.DISCONNECT, "DISC queued")
            settle(self.llc["A"], self.llc["B"])
            call.join()
            res = "OK" if call.error is None else abstract_error(call.error)
        else:
            res = self._call(s.close)
        if res == "OK":
            self.closed[c].add(i)
        return self.log(op="Close", c=c, s=i, kind=self.kinds[c][i - 1], res=res)

    def finish(self):
        for c in "AB":
            L = self.llc[c]
            for i in range(63, -1, -1):
                if L.sap[i] is not None:
                    L.sap[i].shutdown()
        for call in self.pending.values():
            call.t.join(5)


# ------------------------------------------------------------------------------------------------
# history generators: only calls whose spec action is enabled (the guards of LlcpAddr's actions)
def random_ops(W, rnd, steps, sides="AB", names=None, weights=None):
    names = names or NAMESEQ[:6]
    for _ in range(steps):
        c = rnd.choice(sides)
        p = W.peer(c)
        n = len(W.socks[c])
        live = [i for i in range(1, n + 1) if W.alive(c, i)]
        r = rnd.random()
        if r < 0.14 or not live:
            if n < 14:
                W.socket(c, rnd.choice(["ldl", "dlc", "dlc", "raw"]))
            continue
        i = rnd.choice(live)
        kind, st = W.kinds[c][i - 1], W.state(c, i)
        if r < 0.20:
            W.bind_none(c, i)
        elif r < 0.30:
            W.bind_addr(c, i, rnd.choice([-1, 0, 1, 4, 4, 15, 16, 20, 31, 32, 33, 40, 63, 64, rnd.randint(0, 63)]))
        elif r < 0.46:
            W.bind_name(c, i, rnd.choice(names + ["wk", "bad"]))
        elif r < 0.54:
            if kind == "dlc":
                W.listen(c, i)
        elif r < 0.62:
            if kind in ("ldl", "dlc") and st != "connecting":
                occ = [a for a in range(2, 64) if W.occupied(p, a)]
                if kind == "ldl":
                    W.connect(c, i, a=rnd.choice(occ + [33, 40]))
                elif occ or rnd.random() < 0.3:
                    W.connect(c, i, a=rnd.choice(occ + [0]))
        elif r < 0.70:
            if kind == "dlc" and st != "connecting":
                W.connect(c, i, n=rnd.choice(names + ["wk"]))
        elif r < 0.76:
            ready = [j for j in live if W.state(c, j) == "listen" and len(W.tco(c, j).recv_queue) > 0]
            if ready:
                W.accept(c, rnd.choice(ready))
        elif r < 0.86:
            if kind == "ldl":
                dlc_at = [a for a in range(2, 64) if isinstance(W.llc[p].sap[a], llc_mod.ServiceAccessPoint) and
                          any(isinstance(t, tco_mod.DataLinkConnection) for t in W.llc[p].sap[a].sock_list)]
                cands = [a for a in range(0, 64) if a not in dlc_at]
                occ = [a for a in cands if a >= 2 and W.occupied(p, a)]
                dst = rnd.choice(occ * 3 + [rnd.choice(cands)] + (dlc_at[:2] if rnd.random() < 0.25 else []))
                if W.sendto_ok(c, i, dst):
                    lim = W.miu[p]
                    W.sendto(c, i, dst, rnd.choice([1, 2]), rnd.choice([0, 1, 4, 4, lim - 2, lim - 1, lim, lim, lim + 1]))
        elif r < 0.91:
            if kind != "dlc":
                t = W.tco(c, i)
                bound_ok = t.addr is not None and W.occupied(c, t.addr)
                if not bound_ok or len(t.recv_queue) > 0:
                    W.recvfrom(c, i)
        elif r < 0.94:
            W.resolve(c, rnd.choice(names + ["wk"]))
        elif r < 0.96:
            cand = [j for j in live if W.recv_ok(c, j)]
            cw = [j for j in cand if W.state(c, j) == "cw"]
            if cand:
                W.recv(c, rnd.choice(cw * 4 + cand))
        elif r < 0.965:
            cand = [j for j in live if W.dsend_ok(c, j)]
            if cand:
                W.dsend(c, rnd.choice(cand), rnd.choice([1, 2]))
        elif r < 0.97:
            cand = [j for j in live if W.frmr_ok(c, j)]
            if cand:
                W.peer_frmr(c, rnd.choice(cand))
        else:
            if W.close_ok(c, i):
                W.close(c, i)


def close_ok(W, c, i):
    return W.close_ok(c, i)


ENDINGS = ("reuse", "reuse", "peer-disc,recv,close", "peer-disc,close", "close,peer-recv,peer-close", "frmr,close", "frmr-at-client,close",
           "ui-at-listener,close", "refused,close")


def life(W, rnd):
    """Connections that are ended by the peer (DISC), by a protocol error (FRMR) or by a UI PDU before - or after - the
    application closes its socket, in every order of {peer shutdown, local close}; then the address and the service name
    are used again: bind by number, by name, anonymously, and looked up from the peer (SDREQ)."""
    names = NAMESEQ[1:]
    rnd.shuffle(names)
    endings = list(ENDINGS)
    rnd.shuffle(endings)
    for rd, ending in enumerate(endings[:rnd.randint(4, 7)]):
        c = rnd.choice("AB")                     # the serving side
        p = W.peer(c)
        how = rnd.choice(["addr", "name", "name", "none"])
        nm = names[rd]
        lst = W.socket(c, "dlc")
        if how == "addr":
            free = [a for a in range(32, 64) if not W.occupied(c, a)]
            W.bind_addr(c, lst, rnd.choice(free))
        elif how == "name":
            W.bind_name(c, lst, nm)
        W.listen(c, lst)
        addr = W.tco(c, lst).addr
        if ending == "refused,close":
            # DM to a connecting socket: connect() fails, the socket stays bound until it is closed
            cli = W.socket(p, "dlc")
            W.connect(p, cli, n=names[19 - rd])            # nobody is bound under that name
            caddr = W.tco(p, cli).addr
            W.close(p, cli)
            again = W.socket(p, "ldl")
            W.bind_addr(p, again, caddr)
            W.close(c, lst)
        else:
            cli = W.socket(p, "dlc")
            if how == "name" and rnd.random() < 0.7:
                W.connect(p, cli, n=nm)
            else:
                W.connect(p, cli, a=addr)
            acc = 0
            if W.state(c, lst) == "listen" and len(W.tco(c, lst).recv_queue) > 0:
                acc = W.accept(c, lst)["got"]
            caddr = W.tco(p, cli).addr
            if ending == "reuse" and acc:
                # the remote address disconnects and connects again to the same service while the first server-side
                # socket is still in CLOSE_WAIT / shut down by recv() / closed; then data both ways and a DISC
                W.close(p, cli)
                v = rnd.choice(["cw", "dead", "closed"])
                if v == "dead":
                    W.recv(c, acc)
                elif v == "closed":
                    W.close(c, acc)
                cli2 = W.socket(p, "dlc")
                W.bind_addr(p, cli2, caddr)
                W.connect(p, cli2, a=addr)
                acc2 = 0
                if W.state(c, lst) == "listen" and len(W.tco(c, lst).recv_queue) > 0:
                    acc2 = W.accept(c, lst)["got"]
                if acc2:
                    for k in range(2):
                        for (side, i, oside, o) in ((p, cli2, c, acc2), (c, acc2, p, cli2)):
                            if W.dsend_ok(side, i):
                                W.dsend(side, i, 1 + k)
                                for j in range(1, len(W.socks[oside]) + 1):      # whoever got it reads it
                                    if W.kinds[oside][j - 1] == "dlc" and W.state(oside, j) == "conn" and \
                                            len(W.tco(oside, j).recv_queue) > 0:
                                        W.recv(oside, j)
                    first, second = rnd.choice([((p, cli2), (c, acc2)), ((c, acc2), (p, cli2))])
                    if W.close_ok(*first):
                        W.close(*first)
                    if rnd.random() < 0.5 and W.recv_ok(*second):
                        W.recv(*second)
                    if W.close_ok(*second):
                        W.close(*second)
                cli = cli2
            elif ending == "peer-disc,recv,close" and acc:
                W.close(p, cli)
                W.recv(c, acc)
                if how == "name" and rnd.random() < 0.5:
                    W.resolve(p, nm)
                W.close(c, acc)
            elif ending == "peer-disc,close" and acc:
                W.close(p, cli)
                W.close(c, acc)
            elif ending == "close,peer-recv,peer-close" and acc:
                W.close(c, acc)
                W.recv(p, cli)
                W.close(p, cli)
            elif ending == "frmr,close" and acc:
                W.peer_frmr(c, acc)
                W.close(c, acc)
            elif ending == "frmr-at-client,close" and acc:
                W.peer_frmr(p, cli)
                W.close(p, cli)
            elif ending == "ui-at-listener,close":
                u = W.socket(p, "ldl")
                if W.sendto_ok(p, u, addr):
                    W.sendto(p, u, addr, 1)            # the listening socket answers FRMR and shuts down
                if acc and W.close_ok(c, acc) and rnd.random() < 0.5:
                    W.close(c, acc)
            # the listener goes last or first - the access point must disappear with its last socket only
            for i in rnd.sample([lst, acc], 2):
                if i and W.close_ok(c, i):
                    W.close(c, i)
            if W.close_ok(p, cli) and rnd.random() < 0.7:
                W.close(p, cli)
            # the client's dynamic address is free again only if its socket is closed
            again = W.socket(p, rnd.choice(["ldl", "dlc"]))
            W.bind_addr(p, again, caddr) if rnd.random() < 0.5 else W.bind_none(p, again)
        # use the address / the name again
        nxt = W.socket(c, rnd.choice(["dlc", "ldl"]))
        r = rnd.random()
        if how == "name" and r < 0.6:
            W.bind_name(c, nxt, nm)
        elif addr >= 32 and r < 0.8:
            W.bind_addr(c, nxt, addr)
        else:
            W.bind_none(c, nxt)
        if how == "name":
            W.resolve(p, nm)                               # SDREQ for the name, first time from this side or cached
        extra = W.socket(c, "ldl")
        W.bind_none(c, extra)
        if rnd.random() < 0.5 and W.close_ok(c, nxt):
            W.close(c, nxt)
    random_ops(W, rnd, 12, names=names[:3])


def dgram(W, rnd):
    """Datagram sizes: payloads of 0, 1, MIU-2, MIU-1, MIU octets (accepted by sendto(), must arrive at exactly the
    socket bound at the destination, with the sender's address) and MIU+1 (EMSGSIZE), MIU = what the receiver
    announced, in both directions, to sockets bound by number, by name and anonymously (datagram and raw sockets)."""
    for c in rnd.sample("AB", 2):                      # c receives, p sends
        p = W.peer(c)
        lim = W.miu[c]
        rx = []
        for how in rnd.sample(["addr", "name", "none", "raw"], 4):
            i = W.socket(c, "raw" if how == "raw" else "ldl")
            if how == "addr":
                W.bind_addr(c, i, rnd.choice([a for a in range(32, 64) if not W.occupied(c, a)]))
            elif how == "name":
                W.bind_name(c, i, rnd.choice(["n1", "n2", "wk"]) if not rx else "n3")
            elif how == "raw":
                W.bind_addr(c, i, rnd.choice([a for a in range(2, 32) if not W.occupied(c, a)]))
            else:
                W.bind_none(c, i)
            rx.append(i)
        tx = W.socket(p, "ldl")
        if rnd.random() < 0.5:
            W.bind_none(p, tx)
        sizes = [0, 1, lim - 2, lim - 1, lim, lim + 1]
        rnd.shuffle(sizes)
        for k, n in enumerate(sizes):
            i = rx[k % len(rx)] if k >= len(rx) else rx[k]
            dst = W.tco(c, i).addr
            if dst is None or not W.sendto_ok(p, tx, dst):
                continue
            W.sendto(p, tx, dst, 1 + k % 2, n)
            for j in rx:                                   # whoever holds a datagram reads it: only the addressed one does
                if len(W.tco(c, j).recv_queue) > 0:
                    W.recvfrom(c, j)
        # two in a row to one socket, read in order
        i = rnd.choice(rx)
        dst = W.tco(c, i).addr
        if dst is not None and W.sendto_ok(p, tx, dst):
            W.sendto(p, tx, dst, 1, lim)
            W.sendto(p, tx, dst, 2, lim - 1)
            while len(W.tco(c, i).recv_queue) > 0:
                W.recvfrom(c, i)
    random_ops(W, rnd, 8)


def cycle(W, rnd, seed):
    """An address range as a pool that is handed out and given back MORE often than it has entries: the 32 dynamic
    (bind()) or the 16 named (bind(name)) addresses of one controller are exhausted, given back and taken again -
    all at once, or one at a time with the range kept full (every close must make exactly its address available
    again, the next allocation must get it, and the one after that must fail)."""
    c = rnd.choice("AB")
    named = bool(seed % 2)
    size = 16 if named else 32
    names = NAMESEQ[1:]
    rnd.shuffle(names)
    spare = list(names)                     # the names not bound at the moment (20 names for 16 addresses)
    held = {}                               # socket id -> name

    def alloc():
        i = W.socket(c, rnd.choice(["ldl", "dlc"]) if named else rnd.choice(["ldl", "ldl", "dlc", "raw"]))
        if named:
            n = spare.pop(rnd.randrange(len(spare)))
            if W.bind_name(c, i, n)["res"] == "OK":
                held[i] = n
            else:
                spare.append(n)
        elif W.bind_none(c, i)["res"] == "OK":
            held[i] = ""
        return i

    def free(i):
        W.close(c, i)
        n = held.pop(i)
        if n:
            spare.append(n)

    for k in range(size):
        alloc()
    alloc()                                 # the range is exhausted
    if rnd.random() < 0.5:
        # one at a time, the range stays full: more allocate/close rounds than it has addresses
        for k in range(size + rnd.randint(2, 6)):
            free(rnd.choice(sorted(held)))
            alloc()
            if k % 8 == 0:
                alloc()                     # exhausted again
    else:
        order = sorted(held)
        rnd.shuffle(order)
        for i in order[:rnd.choice([size, size, size - 3])]:
            free(i)
        while len(held) < size:
            alloc()
        alloc()                             # exhausted again
        for k in range(4):
            free(rnd.choice(sorted(held)))
            alloc()
    if named:
        # what the peer finds under the names that moved
        for n in rnd.sample(sorted(held.values()), 2) + spare[:1]:
            W.resolve(W.peer(c), n)


def history(seed, klass):
    rnd = random.Random(seed)
    random.seed(seed)
    mius = [128, 129, 248, 2175]
    W = World(rnd.choice(mius), rnd.choice(mius))
    try:
        if klass == "named":
            # exhaust the 16 named addresses, free some, reuse them, try closed names again, look from the peer
            order = NAMESEQ[1:]
            rnd.shuffle(order)
            ids = []
            for n in order[:rnd.choice([16, 17, 18])]:
                i = W.socket("A", rnd.choice(["dlc", "dlc", "ldl"]))
                W.bind_name("A", i, n)
                if W.kinds["A"][i - 1] == "dlc" and rnd.random() < 0.5:
                    W.listen("A", i)
                ids.append((i, n))
            b = W.socket("B", "dlc")
            for (i, n) in rnd.sample(ids, 3):
                W.resolve("B", n)
            victims = rnd.sample(ids[:16], rnd.randint(1, 4))
            for (i, n) in victims:
                if W.close_ok("A", i):
                    W.close("A", i)
            for (i, n) in victims[:2]:
                W.resolve("B", n) if rnd.random() < 0.5 else W.connect("B", b, n=n)
            for k in range(rnd.randint(1, 4)):
                j = W.socket("A", "dlc")
                n = rnd.choice([v[1] for v in victims] + order[16:] + order[16:])
                W.bind_name("A", j, n)
                W.listen("A", j)
            for (i, n) in victims:
                if W.state("B", b) == "open":
                    W.connect("B", b, n=n)
                    ready = [j for j in range(1, len(W.socks["A"]) + 1)
                             if W.state("A", j) == "listen" and len(W.tco("A", j).recv_queue) > 0]
                    if ready:
                        W.accept("A", ready[0])
                    b = W.socket("B", "dlc")
            random_ops(W, rnd, 15, names=order[:4] + order[16:18])
        elif klass == "dyn":
            c = rnd.choice("AB")
            ids = []
            for k in range(rnd.choice([32, 33, 34])):
                i = W.socket(c, rnd.choice(["ldl", "ldl", "dlc", "raw"]))
                W.bind_none(c, i) if rnd.random() < 0.8 or k >= 31 else W.bind_addr(c, i, rnd.randint(32, 63))
                ids.append(i)
            for i in rnd.sample(ids, rnd.randint(1, 5)):
                if close_ok(W, c, i):
                    W.close(c, i)
            for k in range(rnd.randint(2, 7)):
                i = W.socket(c, rnd.choice(["ldl", "dlc"]))
                r = rnd.random()
                if r < 0.5:
                    W.bind_none(c, i)
                elif r < 0.8:
                    W.bind_addr(c, i, rnd.randint(30, 64))
                else:
                    W.listen(c, i) if W.kinds[c][i - 1] == "dlc" else W.sendto(c, i, 33, 1)
            random_ops(W, rnd, 12, sides=c + W.peer(c))
        elif klass == "wks":
            # the well-known name over an occupied / free address 4, then traffic to it and closes in any order
            c = rnd.choice("AB")
            p = W.peer(c)
            r = W.socket(c, "raw")
            first_raw = rnd.random() < 0.7
            if first_raw:
                W.bind_addr(c, r, 4)
            s = W.socket(c, rnd.choice(["ldl", "dlc"]))
            W.bind_name(c, s, "wk")
            if not first_raw:
                W.bind_addr(c, r, 4)
            u = W.socket(p, "ldl")
            if W.kinds[c][s - 1] == "ldl":
                W.sendto(p, u, 4, 1)
                for i in (r, s):
                    if len(W.tco(c, i).recv_queue) > 0:
                        W.recvfrom(c, i)
            else:
                W.listen(c, s)
                d = W.socket(p, "dlc")
                W.connect(p, d, n="wk")
                if len(W.tco(c, s).recv_queue) > 0:
                    W.accept(c, s)
            W.resolve(p, "wk")
            order = [r, s]
            rnd.shuffle(order)
            for i in order:
                if close_ok(W, c, i):
                    W.close(c, i)
            j = W.socket(c, "ldl")
            W.bind_name(c, j, "wk")
            random_ops(W, rnd, 10)
        elif klass == "cycle":
            cycle(W, rnd, seed)
        elif klass == "life":
            life(W, rnd)
        elif klass == "dgram":
            dgram(W, rnd)
        else:
            random_ops(W, rnd, rnd.randint(40, 110), names=NAMESEQ[1:rnd.choice([3, 5, 8])])
    except HarnessError as e:
        W.blocked(str(e))
    finally:
        W.finish()
    return dict(id="%s-%d" % (klass, seed), const=dict(miuA=W.miu["A"], miuB=W.miu["B"]), ev=W.ev)


KLASSES = ("named", "dyn", "wks", "life", "random", "dgram", "random", "life")


# ------------------------------------------------------------------------------------------------
def selftest_traces(traces):
    src = None
    for tr in traces:
        if sum(1 for e in tr["ev"] if e["op"] in ("BindName", "BindNone") and e["res"] == "OK") >= 2:
            src = tr
            break
    if src is None:
        raise tlc.TLCError("no trace with two successful binds for the binding self-test")
    t1 = json.loads(json.dumps(src))
    for e in t1["ev"]:
        if e["op"] in ("BindName", "BindNone") and e["res"] == "OK":
            sk = e["post"][e["c"]]["sk"][e["s"] - 1]
            sk["addr"] += 1                          # getsockname off by one
            break
    t1["id"] = src["id"] + "-corrupt"
    t2 = json.loads(json.dumps(src))
    for k, e in enumerate(t2["ev"]):
        if e["op"] in ("BindName", "BindNone") and e["res"] == "OK":
            del t2["ev"][k]
            break
    t2["id"] = src["id"] + "-dropped"
    return [t1, t2]


def classify(tr, line, act, why):
    ev = tr["ev"][line - 1]
    kind = why[0] if why else "?"
    if kind == "inv":
        names = set(why[1])
        if names & {"NoDoubleAlloc", "OneAddrPerSocket"} and ev["op"] == "BindName" and ev["n"] == "wk" and ev["res"] == "OK":
            return KEY_WKS
        if names <= {"ResolveRight", "InUseRight", "ConnectByName"} and names:
            return KEY_SNL
        return "inv:%s@%s" % (",".join(sorted(names)), act)
    if kind == "result" and ev["op"] == "Close" and ev["res"] == "Crash":
        return "result@Close:AttributeError"
    if kind == "result" and ev["op"] == "SendTo" and len(why) > 1 and "AcceptedDatagramNotDelivered" in json.dumps(why[1]):
        return "delivery:datagram-accepted-by-sendto-not-delivered-to-the-socket-bound-at-its-destination"
    if kind == "post" and len(why) > 1 and why[1]:
        # the allocation invariant on the real tables names what is wrong
        return "real-tables:%s@%s" % (",".join(why[1]), act)
    return "%s@%s:%s" % (kind, act, tr["id"].split("-")[0])


FAMILIES = ("alloc", "names", "dgram", "life", "reuse")
ASIS = {"alloc": ("NoDoubleAlloc", "INVARIANT"), "names": ("ResolveRight", "PROPERTY"), "dgram": ("NoDoubleAlloc", "INVARIANT")}
ASIS_EXTRA = (("names", "InUseRight", "PROPERTY"), ("names", "ConnectByName", "PROPERTY"),
              ("life:keep", "FreedOnLastClose", "INVARIANT"),
              ("dgram:hdr", "Delivered", "PROPERTY"),
              ("reuse:ins", "LiveFirst", "INVARIANT"))         # accept() inserts behind older sockets of the access point          # receiver counts the UI header against its MIU      # close() that leaves a dead socket in its access point
WITNESSES = {"alloc": ["W_NamedExhausted", "W_DynExhausted", "W_WksBound", "W_Access"],
             "names": ["W_Shared", "W_Resolved", "W_ByName"], "dgram": ["W_FullSize", "W_TooLong", "W_Delivered"],
             "reuse": ["W_Reconnected", "W_DataAfterReuse"],
             "life": ["W_DeadByRecv", "W_RebindAfterDead", "W_DeadByFrmr", "W_DeadByUi", "W_DeadNamed"]}


def single_property_cfg(family, name, kind, tag):
    """The shipped-code model of a family with exactly one property, written to the scratch directory."""
    import os
    from vlib import SPEC, OUT
    fam, _, variant = family.partition(":")
    base = open(os.path.join(SPEC, "MC_LlcpAddr_%s_%s.cfg" % (fam, variant or "asis"))).read()
    lines = [ln for ln in base.splitlines() if not ln.startswith(("INVARIANT", "PROPERTY"))]
    lines.append("%s %s" % (kind, name))
    d = os.path.join(OUT, PID)
    os.makedirs(d, exist_ok=True)
    path = os.path.join(d, "asis_%s_%s_%d.cfg" % (family.replace(":", "_"), name, os.getpid()))
    open(path, "w").write("\n".join(lines) + "\n")
    return path


def run(tier, seed):
    import os
    import concurrent.futures as cf
    import time
    ck = check.Check(PID, tier, seed, "model_checking")
    quick = tier == "quick"
    suffix = "" if quick else "_thorough"
    t_start, walls = time.time(), {}
    # 1. exhaustive, scaled table, the repaired design: all invariants and step properties hold
    with cf.ThreadPoolExecutor(max_workers=5) as ex:
        futs = {k: ex.submit(tlc.run, "MC_LlcpAddr.tla", "MC_LlcpAddr_%s%s.cfg" % (k, suffix), PID + "/" + k,
                             workers=4, timeout=400 if quick else 2400) for k in FAMILIES}
        res = {k: f.result() for k, f in futs.items()}
    for k, r in res.items():
        if not r.ok:
            ck.violation("spec:LlcpAddr(%s):%s" % (k, ",".join(r.violated or ["deadlock"])),
                         "TLC found a violation in the repaired design-level model: %s" % (r.error_trace or "")[:2000])
        ck.cover(states=r.distinct, transitions=r.generated)
    walls["mc"] = round(time.time() - t_start, 1)
    # the model of the shipped code must violate the properties the predictions name (non-vacuity of each)
    shipped = {}
    jobs = [(f, n, k) for f, (n, k) in ASIS.items()] + list(ASIS_EXTRA)

    def one(job):
        f, n, k = job
        path = single_property_cfg(f, n, k, PID)
        try:
            return job, tlc.run("MC_LlcpAddr.tla", path, PID + "/asis_%s_%s" % (f.replace(":", "_"), n), workers=2, timeout=400)
        finally:
            os.remove(path)
    with cf.ThreadPoolExecutor(max_workers=6) as ex:
        for (f, n, k), r in ex.map(one, jobs):
            if n not in r.violated:
                raise tlc.TLCError("model of the shipped code (%s) does not violate %s: property is vacuous" % (f, n))
            shipped["%s:%s" % (f, n)] = "violated (counterexample of %d states)" % len(r.error_trace or [])
    ck.cover(shipped_model=shipped)
    for k, names in WITNESSES.items():
        if quick:
            names = names[:2]              # the other witnesses are demanded by the thorough tier
        hit, _ = tlc.witnesses("MC_LlcpAddr.tla", "MC_LlcpAddr_%s_reach.cfg" % k, PID + "/w" + k, names, workers=2)
        missing = set(names) - hit
        if missing:
            raise tlc.TLCError("vacuous model: witnesses not reached: %s" % sorted(missing))
    # an address range is exhausted, given back and exhausted again (temporal witnesses: the properties must be violated)
    for cfg, prop in (("MC_LlcpAddr_alloc_refill.cfg", "NeverDynRefilled"), ("MC_LlcpAddr_alloc_refilln.cfg", "NeverNamedRefilled")):
        rr = tlc.run("MC_LlcpAddr.tla", cfg, PID + "/" + prop, workers=2, timeout=400)
        if rr.violated and rr.violated != ["<temporal>"]:
            ck.violation("spec:LlcpAddr(refill):%s" % ",".join(rr.violated), "TLC: %s" % (rr.error_trace or "")[:2000])
        elif "Temporal property %s was violated" % prop not in rr.out:
            raise tlc.TLCError("vacuous model: an address range is never exhausted, given back and exhausted again (%s holds)" % prop)
    ck.cover(witnesses_reached=sorted(sum(WITNESSES.values(), [])) + ["NeverDynRefilled violated", "NeverNamedRefilled violated"])

    walls["asis+witnesses"] = round(time.time() - t_start, 1)
    # 2. conformance: real histories -> Trace_LlcpAddr
    n = 88 if quick else 800
    traces, meta = [], {}
    for i in range(n):
        klass = KLASSES[i % len(KLASSES)]
        s = seed * 1000003 + i
        tr = history(s, klass)
        traces.append(tr)
        meta[tr["id"]] = dict(seed=s, klass=klass)
    # the address ranges beyond one full cycle of their pool (dynamic and named alternate with the seed)
    for j in range(4 if quick else 24):
        s = seed * 1000003 + n + j
        tr = history(s, "cycle")
        traces.append(tr)
        meta[tr["id"]] = dict(seed=s, klass="cycle")
    self_t = selftest_traces(traces)
    verdicts, st = tlc.validate_traces("Trace_LlcpAddr.tla", "Trace_LlcpAddr.cfg", PID, traces + self_t,
                                       shards=16, timeout=900 if quick else 3000)
    for t in self_t:
        if verdicts[t["id"]][0] == "ACCEPT":
            raise tlc.TLCError("binding vacuous: corrupted trace %s accepted" % t["id"])
    nev = sum(len(t["ev"]) for t in traces)
    ops = {}
    for t in traces:
        for e in t["ev"]:
            ops[e["op"] + ":" + e["res"]] = ops.get(e["op"] + ":" + e["res"], 0) + 1
    # a call that conforms to its spec action but breaks invariants is recorded by the trace module and the history
    # goes on; a call that does not conform (guard / result / projection) ends the history
    acc = 0
    for tr in traces:
        v = verdicts[tr["id"]]
        if v[0] == "ACCEPT":
            acc += 1
            continue
        line, act, why = v[1], v[2], v[3]
        fails = v[4] if len(v) > 4 else []
        items = [(f[0], f[1], ["inv", f[2]]) for f in fails]
        if why and why[0] != "inv":
            items.append((line, act, why))
        for (ln, op, wy) in items:
            ev = tr["ev"][ln - 1]
            key = classify(tr, ln, op, wy)
            brief = {k: ev[k] for k in ("op", "c", "s", "n", "a", "dst", "ln", "res", "val", "reach", "got")}
            ck.violation(key, "history %s rejected at call %d (%s): %s ; %s" % (
                tr["id"], ln, op, json.dumps(wy)[:400], json.dumps(brief)),
                replay=dict(kind="trace", **meta[tr["id"]]))
    ck.cover(traces_validated_against_impl=acc, trace_events=nev, trace_states=st["states"],
             calls_by_result=dict(sorted(ops.items())),
             binding_selftest="getsockname off by one and dropped bind both rejected")
    walls["histories"] = round(time.time() - t_start, 1)
    # 3. concurrent resolvers under the deterministic scheduler (spec/LlcpResolve.tla)
    import bind.c17_resolve as RS
    RS.stage(ck, tier, seed, tlc)
    walls["resolvers"] = round(time.time() - t_start, 1)
    print("stage walls (cumulative):", walls)
    t0 = traces[3]
    ck.sample(dict(trace=t0["id"], first_calls=[{k: e[k] for k in ("op", "c", "s", "n", "a", "res")} for e in t0["ev"][:8]]))
    ck.sample(dict(mc={k: dict(distinct=r.distinct, depth=r.depth) for k, r in res.items()}))
    ck.assume("non-threaded binding: the link settles after every call; connect()/accept()/close()/resolve() run in helper threads the harness waits for",
              "exhaustive runs use an 8-slot table (0-2 / 3-4 / 5-7) in three role-restricted families; the 64-slot table is covered by trace validation only",
              "EADDRNOTAVAIL and EAGAIN are one abstract error (Exhausted); connects to a free address, calls on closed sockets, UI PDUs at a connecting socket or a listener with pending requests, and close() of a connection whose other end is gone are not issued (they block by design)",
              "FRMR on an established connection is injected with dispatch() (two well-behaved controllers never send one)")
    return ck.finish()


def replay(rep, args):
    r = rep["replay"]
    if r.get("kind") == "resolve":
        import bind.c17_resolve as RS
        rc = RS.replay(rep, tlc)
        if rc:
            print("VIOLATION property=%s replay=%s" % (PID, args.replay))
        return rc
    tr = history(r["seed"], r["klass"])
    verdicts, st = tlc.validate_traces("Trace_LlcpAddr.tla", "Trace_LlcpAddr.cfg", PID + "_replay", [tr], shards=1)
    v = verdicts[tr["id"]]
    print("replay verdict:", v)
    if v[0] != "ACCEPT":
        ev = tr["ev"][v[1] - 1]
        print("call:", json.dumps({k: ev[k] for k in ev if k != "post"}))
        print("VIOLATION property=%s replay=%s" % (PID, args.replay))
        return 1
    return 0
