"""Shared by C13 and C14: real nfcpy driver objects, created by the drivers' own init() on the
simulated chipsets / transports of sim/chip_*.py, and the table of exchange kinds."""
import errno
import logging

import nfc.clf
import nfc.clf.pn53x
import nfc.clf.pn531
import nfc.clf.pn532
import nfc.clf.pn533
import nfc.clf.rcs956
import nfc.clf.rcs380
import nfc.clf.acr122
import nfc.clf.arygon
import nfc.clf.udp

from sim import chip_pn53x as P
from sim import chip_rcs380 as R
from sim import chip_udp as U
from sim import chip_crc as CRC
from sim import chip_ops as O

DRIVERS = ("pn531", "pn532", "pn533", "rcs956", "acr122", "arygon", "rcs380", "udp")
PN53X_LINK = ("pn531", "pn532", "pn533", "rcs956", "arygon")          # chip's own host link (ACK + frames)

_TIME_MODULES = (nfc.clf, nfc.clf.pn53x, nfc.clf.pn532, nfc.clf.pn533, nfc.clf.rcs956, nfc.clf.rcs380,
                 nfc.clf.arygon, nfc.clf.udp)


class _Sys(object):
    platform = "sim"


def quiet():
    lg = logging.getLogger("nfc")
    lg.setLevel(logging.CRITICAL + 10)
    lg.propagate = False
    if not lg.handlers:
        lg.addHandler(logging.NullHandler())


class Rig(object):
    """One driver on its simulator, under a real ContactlessFrontend."""

    def __init__(self, driver, ops=False):
        """ops=True: the scriptable chips / datagram world of sim/chip_ops.py (sense and listen operations)"""
        quiet()
        self.driver = driver
        self.ops = ops
        pn53x = O.SimPn53xOps if ops else P.SimPn53x
        self.clock = clock = P.VClock()
        for m in _TIME_MODULES:
            m.time = clock
        nfc.clf.pn532.sys = _Sys()
        self.net = None
        if driver in ("pn531", "pn532", "pn533", "rcs956"):
            self.chip = pn53x(driver)
            self.transport = P.FrameTransport(self.chip, clock, "TTY" if driver == "pn532" else "USB")
            mod = getattr(nfc.clf, driver)
            self.device = mod.init(self.transport)
        elif driver == "acr122":
            self.chip = pn53x("pn532")
            self.transport = P.Acr122Transport(self.chip, clock)
            self.device = nfc.clf.acr122.init(self.transport)
        elif driver == "arygon":
            self.chip = pn53x("pn532")
            self.transport = P.ArygonTransport(self.chip, clock)
            self.device = nfc.clf.arygon.init(self.transport)
        elif driver == "rcs380":
            self.chip = O.SimRcs380Ops() if ops else R.SimRcs380()
            self.transport = R.Rcs380Transport(self.chip, clock)
            self.device = nfc.clf.rcs380.init(self.transport)
        elif driver == "udp":
            if ops:
                self.net = self.chip = O.NetOps(clock)
                nfc.clf.udp.socket = O.FakeSocketModule2(self.net)
                nfc.clf.udp.select = O.FakeSelectModule2(self.net)
            else:
                self.net = self.chip = U.Net(clock)
                nfc.clf.udp.socket = U.FakeSocketModule(self.net)
                nfc.clf.udp.select = U.FakeSelectModule(self.net)
            self.transport = None
            self.device = nfc.clf.udp.init("localhost", 54321)
            self.device.rcvd_data = 0
        else:
            raise ValueError(driver)
        self.device._path = "sim:" + driver
        self.clf = nfc.clf.ContactlessFrontend()
        self.clf.device = self.device

    @property
    def chipset(self):
        return self.device.chipset


# ---------------------------------------------------------------------------------------------------
# exchange kinds: how clf.target looks after sense()/listen() returned it, what is sent, what the
# remote device answers on the simulated air
UID = bytes.fromhex("0416c6c2")
TT2_READ = bytes(range(16))
IDM = bytes.fromhex("0102030405060708")
PMM = bytes.fromhex("ffffffffffffffff")
ATR_RES = bytes.fromhex("d501") + bytes(range(10)) + bytes.fromhex("0000000832") + b"Ffm"
ATR_REQ = bytes.fromhex("d400") + bytes(range(10)) + bytes.fromhex("00000032") + b"Ffm"
DEP_RES = bytes.fromhex("06d5070033")


def _remote(brty, **kw):
    return nfc.clf.RemoteTarget(brty, **{k: bytearray(v) for k, v in kw.items()})


def _local(brty, **kw):
    return nfc.clf.LocalTarget(brty, **{k: bytearray(v) for k, v in kw.items()})


def tt1_packed(rsp):
    """FIFO content after a raw Type 1 Tag receive with the parity check disabled: every byte LSB first
    followed by its (odd) parity bit, CRC_B included."""
    data = bytes(rsp) + CRC.crc_b_bytes(rsp)
    bits = ""
    for b in data:
        s = "".join(str(b >> i & 1) for i in range(8))
        bits += s + str(1 - (s.count("1") & 1))
    bits += "0" * (-len(bits) % 8)
    if len(bits) // 8 * 8 - 8 < 9 * (len(data) - 1) + 1:   # the decoder drops the last partial group
        bits += "0" * 8
    return bytes(int(bits[i:i + 8][::-1], 2) for i in range(0, len(bits), 8))


KINDS = {
    # kind: (mode, target factory, send data, timeout, rf_rsp (In* / Tg*), rf_in (CIU FIFO))
    "TT1": ("initiator", lambda: _remote("106A", sens_res=b"\x00\x0c", rid_res=b"\x11\x48\xb2\x56\x54\x00"),
            b"\x00\x00\x00" + UID, 0.1, bytes(range(12)), b""),
    "TT1CIU": ("initiator", lambda: _remote("106A", sens_res=b"\x00\x0c", rid_res=b"\x12\x4c\xb2\x56\x54\x00"),
               b"\x02\x03" + bytes(8) + UID, 0.1, b"", tt1_packed(b"\x03" + bytes(range(8)))),
    "TT2": ("initiator", lambda: _remote("106A", sens_res=b"\x44\x00", sel_res=b"\x00", sdd_res=UID),
            b"\x30\x00", 0.1, TT2_READ + CRC.crc_a_bytes(TT2_READ), b""),
    "TT4A": ("initiator", lambda: _remote("106A", sens_res=b"\x44\x03", sel_res=b"\x20", sdd_res=UID),
             b"\x02\x00\xa4\x04\x00", 0.1, b"\x02\x90\x00", b""),
    "TT4B": ("initiator", lambda: _remote("106B", sensb_res=bytes.fromhex("50e8253eec00000011008185")),
             b"\x02\x00\xa4\x04\x00", 0.1, b"\x02\x90\x00", b""),
    "TT3": ("initiator", lambda: _remote("212F", sensf_res=b"\x01" + IDM + PMM),
            b"\x0a\x04" + IDM, 0.1, b"\x0c\x05" + IDM + b"\x00\x00", b""),
    "DEPA": ("initiator", lambda: _remote("106A", sens_res=b"\x44\x00", sel_res=b"\x40", sdd_res=UID,
                                           atr_res=ATR_RES, atr_req=ATR_REQ),
             b"\xf0\x06\xd4\x06\x00\x33", 0.1, b"\xf0" + DEP_RES, b""),
    "DEPF": ("initiator", lambda: _remote("424F", sensf_res=b"\x01" + IDM + PMM, atr_res=ATR_RES, atr_req=ATR_REQ),
             b"\x06\xd4\x06\x00\x33", 0.1, DEP_RES, b""),
    "DEPACT": ("initiator", lambda: _remote("424F", atr_res=ATR_RES, atr_req=ATR_REQ),
               b"\x06\xd4\x06\x00\x33", 0.1, DEP_RES, b""),
    "LTT2": ("target", lambda: _local("106A", sens_res=b"\x44\x00", sel_res=b"\x00", sdd_res=b"\x08" + UID[1:],
                                      tt2_cmd=b"\x30\x00"),
             TT2_READ, 0.1, b"\x30\x04", b""),
    "LTT4": ("target", lambda: _local("106A", sens_res=b"\x44\x03", sel_res=b"\x20", sdd_res=b"\x08" + UID[1:],
                                      tt4_cmd=b"\x02\x00\xa4\x04\x00"),
             b"\x02\x90\x00", 0.1, b"\x03\x00\xb0\x00\x00\x02", b""),
    "LTT3": ("target", lambda: _local("212F", sensf_res=b"\x01" + IDM + PMM + b"\x12\xfc",
                                      tt3_cmd=b"\x06" + IDM + b"\x01\x0b\x00\x01\x80\x00"),
             b"\x0c\x07" + IDM + b"\x00\x00", 0.1, b"\x10\x06" + IDM + b"\x01\x0b\x00\x01\x80\x00",
             b"\x10\x06" + IDM + b"\x01\x0b\x00\x01\x80\x00"),
    "LDEP": ("target", lambda: _local("106A", sens_res=b"\x44\x00", sel_res=b"\x40", sdd_res=b"\x08" + UID[1:],
                                      atr_res=ATR_RES, atr_req=ATR_REQ, dep_req=b"\xd4\x06\x00\x33"),
             DEP_RES, 0.1, b"\x06\xd4\x06\x01\x34", b""),
    "LDEPRX": ("target", lambda: _local("106A", sens_res=b"\x44\x00", sel_res=b"\x40", sdd_res=b"\x08" + UID[1:],
                                        atr_res=ATR_RES, atr_req=ATR_REQ, dep_req=b"\xd4\x06\x00\x33"),
               None, 0.1, b"\x06\xd4\x06\x01\x34", b""),
}

_PN532ISH = ("TT1", "TT1CIU", "TT2", "TT4A", "TT4B", "TT3", "DEPA", "DEPF", "DEPACT",
             "LTT2", "LTT4", "LTT3", "LDEP", "LDEPRX")
SUPPORT = {
    "pn531": ("TT2", "TT4A", "TT3", "DEPA", "DEPF", "DEPACT", "LTT2", "LTT4", "LTT3", "LDEP", "LDEPRX"),
    "pn532": _PN532ISH,
    "pn533": _PN532ISH,
    "arygon": _PN532ISH,
    "rcs956": ("TT1", "TT2", "TT4A", "TT4B", "TT3", "DEPA", "DEPF", "DEPACT", "LTT2", "LDEP", "LDEPRX"),
    "acr122": ("TT2", "TT4A", "TT4B", "TT3", "DEPA", "DEPF", "DEPACT"),
    "rcs380": ("TT1", "TT2", "TT4A", "TT4B", "TT3", "DEPA", "DEPF", "LTT2", "LTT4", "LTT3", "LDEP", "LDEPRX"),
    "udp": ("TT1", "TT2", "TT4A", "TT4B", "TT3", "DEPA", "DEPF", "LTT2", "LTT4", "LTT3", "LDEP"),
}


# payload length kinds (DriverErr!LenKinds): the TT4A / LDEP exchange with a payload of n bytes, n at the driver's
# host frame format boundaries and at its documented maximum (get_max_send_data_size)
def len_vals(driver):
    if driver in ("pn532", "pn533", "rcs956", "arygon"):
        return (252, 253, 254, 255, 262, 263)
    return (251, 252) if driver in ("pn531", "acr122") else (289, 290)


def len_kinds(driver):
    ks = ["LI%d" % n for n in len_vals(driver)]
    if "LDEP" in SUPPORT[driver]:
        ks += ["LT%d" % n for n in len_vals(driver)]
    return ks


def base_kind(kind):
    return "TT4A" if kind.startswith("LI") else ("LDEP" if kind.startswith("LT") and kind[2:].isdigit() else kind)


def _len_payload(n):
    return bytes((i * 11 + 5) & 255 for i in range(n))


for _n in (251, 252, 253, 254, 255, 262, 263, 289, 290):
    for _p, _b in (("LI", "TT4A"), ("LT", "LDEP")):
        _m, _mk, _s, _t, _r, _i = KINDS[_b]
        KINDS["%s%d" % (_p, _n)] = (_m, _mk, _len_payload(_n), _t, _r, _i)


def udp_reply(kind):
    mode, mk, send, tmo, rf_rsp, rf_in = KINDS[kind]
    brty = mk().brty
    return brty.encode() + b" " + bytes(rf_rsp).hex().encode()


def prepare(rig, kind):
    """Set clf.target as sense()/listen() would and the simulated air; returns (send_data, timeout)."""
    mode, mk, send, tmo, rf_rsp, rf_in = KINDS[kind]
    tgt = mk()
    if rig.driver == "udp":
        tgt._addr = ("127.0.0.1", 54321)
        rig.device._create_socket()
        rig.net.reply = udp_reply(kind)
    else:
        chip = rig.chip
        chip.rf_rsp = bytes(rf_rsp)
        chip.air = None                 # (C14 sets these for the CRC ownership cases)
        if rig.driver == "rcs380":
            chip.tg_head = b"\x0c\x00\x03" if tgt.brty == "212F" else b"\x0b\x00\x03"
        else:
            chip.rf_in = bytes(rf_in)
            chip.fifo = bytearray()
            chip.commirq = chip.divirq = 0
    rig.clf.target = tgt
    return send, tmo


def expected_data(rig, kind):
    """What a fault-free exchange must return (the simulated air's answer as the driver reports it)."""
    mode, mk, send, tmo, rf_rsp, rf_in = KINDS[kind]
    if kind == "TT2" and rig.driver != "udp":
        return TT2_READ
    if kind == "TT1CIU":
        return b"\x03" + bytes(range(8))
    return bytes(rf_rsp)


OUTCOME_OF = (
    (nfc.clf.TimeoutError, "Timeout"),
    (nfc.clf.BrokenLinkError, "BrokenLink"),
    (nfc.clf.TransmissionError, "Transmission"),
    (nfc.clf.ProtocolError, "Protocol"),
)


def classify(fn):
    """Run fn() -> (outcome class, exception type name, value)."""
    try:
        r = fn()
    except P.SimHang:
        return "Hang", "SimHang", None
    except nfc.clf.CommunicationError as e:
        for cls, name in OUTCOME_OF:
            if type(e) is cls:
                return name, type(e).__name__, e
        return "CommOther", type(e).__name__, e
    except IOError as e:
        return "IOErr", type(e).__name__, e
    except Exception as e:
        return "Internal", type(e).__module__.replace("builtins", "") .strip(".") + ("." if type(e).__module__ != "builtins" else "") + type(e).__qualname__, e
    if r is None:
        return "NoData", "None", None
    return "Data", type(r).__name__, r


ENODEV, EIO = errno.ENODEV, errno.EIO
