"""Shared by C13 and C14: real nfcpy driver objects, created by the drivers' own init() on the
simulated chipsets / transports of sim/chip_*.py, and the table of exchange kinds."""
import errno
import logging

import nfc.clf
import nfc.clf.pn53x
import nfc.clf.pn531
import nfc.clf.pn532
import nfc.clf.pn533
import nfc.clf.rcs956
import nfc.clf.rcs380
import nfc.clf.acr122
import nfc.clf.arygon
import nfc.clf.udp

from sim import chip_pn53x as P
from sim import chip_rcs380 as R
from sim import chip_udp as U
from sim import chip_crc as CRC
from sim import chip_ops as O

DRIVERS = ("pn531", "pn532", "pn533", "rcs956", "acr122", "arygon", "rcs380", "udp")
PN53X_LINK = ("pn531", "pn532", "pn533", "rcs956", "arygon")          # chip's own host link (ACK + frames)

_TIME_MODULES = (nfc.clf, nfc.clf.pn53x, nfc.clf.pn532, nfc.clf.pn533, nfc.clf.rcs956, nfc.clf.rcs380,
                 nfc.clf.arygon, nfc.clf.udp)


class _Sys(object):
    platform = "sim"


def quiet():
    lg = logging.getLogger("nfc")
    lg.setLevel(logging.CRITICAL + 10)
    lg.propagate = False
    if not lg.handlers:
        lg.addHandler(logging.NullHandler())


class Rig(object):
    """One driver on its simulator, under a real ContactlessFrontend."""

    def __init__(self, driver, ops=False):
        """ops=True: the scriptable chips / datagram world of sim/chip_ops.py (sense and listen operations)"""
        quiet()
        self.driver = driver
        self.ops = ops
        pn53x = O.SimPn53xOps if ops else P.SimPn53x
        self.clock = clock = P.VClock()
        for m in _TIME_MODULES:
            m.time = clock
        nfc.clf.pn532.sys = _Sys()
        self.net = None
        if driver in ("pn531", "pn532", "pn533", "rcs956"):
            self.chip = pn53x(driver)
            self.transport = P.FrameTransport(self.chip, clock, "TTY" if driver == "pn532" else "USB")
            mod = getattr(nfc.clf, driver)
            self.device = mod.init(self.transport)
        elif driver == "acr122":
            self.chip = pn53x("pn532")
            self.transport = P.Acr122Transport(self.chip, clock)
            self.device = nfc.clf.acr122.init(self.transport)
        elif driver == "arygon":
            self.chip = pn53x("pn532")
            self.transport = P.ArygonTransport(self.chip, clock)
            self.device = nfc.clf.arygon.init(self.transport)
        elif driver == "rcs380":
            self.chip = O.SimRcs380Ops() if ops else R.SimRcs380()
            self.transport = R.Rcs380Transport(self.chip, clock)
            self.device = nfc.clf.rcs380.init(self.transport)
        elif driver == "udp":
            if ops:
                self.net = self.chip = O.NetOps(clock)
                nfc.clf.udp.socket = O.FakeSocketModule2(self.net)
                nfc.clf.udp.select = O.FakeSelectModule2(self.net)
            else:
                self.net = self.chip = U.Net(clock)
                nfc.clf.udp.socket = U.FakeSocketModule(self.net)
                nfc.clf.udp.select = U.FakeSelectModule(self.net)
            self.transport = None
            self.device = nfc.clf.udp.init("localhost", 54321)
            self.device.rcvd_data = 0
        else:
            raise ValueError(driver)
        self.device._path = "sim:" + driver
        self.clf = nfc.clf.ContactlessFrontend()
        self.clf.device = self.device

    @property
    def chipset(self):
        return self.device.chipset


# ---------------------------------------------------------------------------------------------------
# exchange kinds: how clf.target looks after sense()/listen() returned it, what is sent, what the
# remote device answers on the simulated air
UID = bytes.fromhex("0416c6c2")
TT2_READ = bytes(range(16))
IDM = bytes.fromhex("0102030405060708")
PMM = bytes.fromhex("ffffffffffffffff")
ATR_RES = bytes.fromhex("d501") + bytes(range(10)) + bytes.fromhex("0000000832") + b"Ffm"
ATR_REQ = bytes.fromhex("d400") + bytes(range(10)) + bytes.fromhex("00000032") + b"Ffm"
DEP_RES = bytes.fromhex("06d5070033")


def _remote(brty, **kw):
    return nfc.clf.RemoteTarget(brty, **{k: bytearray(v) for k, v in kw.items()})


def _local(brty, **kw):
    return nfc.clf.LocalTarget(brty, **{k: bytearray(v) for k, v in kw.items()})


def tt1_packed(rsp):
    """FIFO content after a raw Type 1 Tag receive with the parity check disabled: every byte LSB first
    followed by its (odd) parity bit, CRC_B included."""
    data = bytes(rsp) + CRC.crc_b_bytes(rsp)
    bits = ""
    for b in data:
        s = "".join(str(b >> i & 1) for i in range(8))
        bits += s + str(1 - (s.count("1") & 1))
    bits += "0" * (-len(bits) % 8)
    if len(bits) // 8 * 8 - 8 < 9 * (len(data) - 1) + 1:   # the decoder drops the last partial group
        bits += "0" * 8
    return bytes(int(bits[i:i + 8][::-1], 2) for i in range(0, len(bits), 8))


KINDS = {
    # kind: (mode, target factory, send data, timeout, rf_rsp (In* / Tg*), rf_in (CIU FIFO))
    "TT1": ("initiator", lambda: _remote("106A", sens_res=b"\x00\x0c", rid_res=b"\x11\x48\xb2\x56\x54\x00"),
            b"\x00\x00\x00" + UID, 0.1, bytes(range(12)), b""),
    "TT1CIU": ("initiator", lambda: _remote("106A", sens_res=b"\x00\x0c", rid_res=b"\x12\x4c\xb2\x56\x54\x00"),
               b"\x02\x03" + bytes(8) + UID, 0.1, b"", tt1_packed(b"\x03" + bytes(range(8)))),
    "TT2": ("initiator", lambda: _remote("106A", sens_res=b"\x44\x00", sel_res=b"\x00", sdd_res=UID),
            b"\x30\x00", 0.1, TT2_READ + CRC.crc_a_bytes(TT2_READ), b""),
    "TT4A": ("initiator", lambda: _remote("106A", sens_res=b"\x44\x03", sel_res=b"\x20", sdd_res=UID),
             b"\x02\x00\xa4\x04\x00", 0.1, b"\x02\x90\x00", b""),
    "TT4B": ("initiator", lambda: _remote("106B", sensb_res=bytes.fromhex("50e8253eec00000011008185")),
             b"\x02\x00\xa4\x04\x00", 0.1, b"\x02\x90\x00", b""),
    "TT3": ("initiator", lambda: _remote("212F", sensf_res=b"\x01" + IDM + PMM),
            b"\x0a\x04" + IDM, 0.1, b"\x0c\x05" + IDM + b"\x00\x00", b""),
    "DEPA": ("initiator", lambda: _remote("106A", sens_res=b"\x44\x00", sel_res=b"\x40", sdd_res=UID,
                                           atr_res=ATR_RES, atr_req=ATR_REQ),
             b"\xf0\x06\xd4\x06\x00\x33", 0.1, b"\xf0" + DEP_RES, b""),
    "DEPF": ("initiator", lambda: _remote("424F", sensf_res=b"\x01" + IDM + PMM, atr_res=ATR_RES, atr_req=ATR_REQ),
             b"\x06\xd4\x06\x00\x33", 0.1, DEP_RES, b""),
    "DEPACT": ("initiator", lambda: _remote("424F", atr_res=ATR_RES, atr_req=ATR_REQ),
               b"\x06\xd4\x06\x00\x33", 0.1, DEP_RES, b""),
    "LTT2": ("target", lambda: _local("106A", sens_res=b"\x44\x00", sel_res=b"\x00", sdd_res=b"\x08" + UID[1:],
                                      tt2_cmd=b"\x30\x00"),
             TT2_READ, 0.1, b"\x30\x04", b""),
    "LTT4": ("target", lambda: _local("106A", sens_res=b"\x44\x03", sel_res=b"\x20", sdd_res=b"\x08" + UID[1:],
                                      tt4_cmd=b"\x02\x00\xa4\x04\x00"),
             b"\x02\x90\x00", 0.1, b"\x03\x00\xb0\x00\x00\x02", b""),
    "LTT3": ("target", lambda: _local("212F", sensf_res=b"\x01" + IDM + PMM + b"\x12\xfc",
                                      tt3_cmd=b"\x06" + IDM + b"\x01\x0b\x00\x01\x80\x00"),
             b"\x0c\x07" + IDM + b"\x00\x00", 0.1, b"\x10\x06" + IDM + b"\x01\x0b\x00\x01\x80\x00",
             b"\x10\x06" + IDM + b"\x01\x0b\x00\x01\x80\x00"),
    "LDEP": ("target", lambda: _local("106A", sens_res=b"\x44\x00", sel_res=b"\x40", sdd_res=b"\x08" + UID[1:],
                                      atr_res=ATR_RES, atr_req=ATR_REQ, dep_req=b"\xd4\x06\x00\x33"),
             DEP_RES, 0.1, b"\x06\xd4\x06\x01\x34", b""),
    "LDEPRX": ("target", lambda: _local("106A", sens_res=b"\x44\x00", sel_res=b"\x40", sdd_res=b"\x08" + UID[1:],
                                        atr_res=ATR_RES, atr_req=ATR_REQ, dep_req=b"\xd4\x06\x00\x33"),
               None, 0.1, b"\x06\xd4\x06\x01\x34", b""),
}

_PN532ISH = ("TT1", "TT1CIU", "TT2", "TT4A", "TT4B", "TT3", "DEPA", "DEPF", "DEPACT",
             "LTT2", "LTT4", "LTT3", "LDEP", "LDEPRX")
SUPPORT = {
    "pn531": ("TT2", "TT4A", "TT3", "DEPA", "DEPF", "DEPACT", "LTT2", "LTT4", "LTT3", "LDEP", "LDEPRX"),
    "pn532": _PN532ISH,
    "pn533": _PN532ISH,
    "arygon": _PN532ISH,
    "rcs956": ("TT1", "TT2", "TT4A", "TT4B", "TT3", "DEPA", "DEPF", "DEPACT", "LTT2", "LDEP", "LDEPRX"),
    "acr122": ("TT2", "TT4A", "TT4B", "TT3", "DEPA", "DEPF", "DEPACT"),
    "rcs380": ("TT1", "TT2", "TT4A", "TT4B", "TT3", "DEPA", "DEPF", "LTT2", "LTT4", "LTT3", "LDEP", "LDEPRX"),
    "udp": ("TT1", "TT2", "TT4A", "TT4B", "TT3", "DEPA", "DEPF", "LTT2", "LTT4", "LTT3", "LDEP"),
}


# payload length kinds (DriverErr!LenKinds): the TT4A / LDEP exchange with a payload of n bytes, n at the driver's
# host frame format boundaries and at its documented maximum (get_max_send_data_size)
def len_vals(driver):
    if driver in ("pn532", "pn533", "rcs956", "arygon"):
        return (252, 253, 254, 255, 262, 263)
    return (251, 252) if driver in ("pn531", "acr122") else (289, 290)


def len_kinds(driver):
    ks = ["LI%d" % n for n in len_vals(driver)]
    if "LDEP" in SUPPORT[driver]:
        ks += ["LT%d" % n for n in len_vals(driver)]
    return ks


def base_kind(kind):
    if "@" in kind:
        return kind.split("@")[0]
    return "TT4A" if kind.startswith("LI") else ("LDEP" if kind.startswith("LT") and kind[2:].isdigit() else kind)


def _len_payload(n):
    return bytes((i * 11 + 5) & 255 for i in range(n))


for _n in (251, 252, 253, 254, 255, 262, 263, 289, 290):
    for _p, _b in (("LI", "TT4A"), ("LT", "LDEP")):
        _m, _mk, _s, _t, _r, _i = KINDS[_b]
        KINDS["%s%d" % (_p, _n)] = (_m, _mk, _len_payload(_n), _t, _r, _i)


# ---------------------------------------------------------------------------------------------------
# target variants (DriverErr!Vars): the exchange of a base kind with an activated target of another bit rate /
# technology / class -- over everything the driver's sense_tta / sense_ttb / sense_ttf / sense_dep accept.
# A variant is (base, brty, attr); attr = SEL_RES value (hex) of a Type A target, "psl" = an NFC-DEP target discovered
# at 106A and switched to brty by PSL_REQ (nfc.dep.Initiator.activate then assigns target.brty), "" otherwise.
RATES_F = ("212F", "424F")
DEFAULT_VARIANT = {"TT1": ("106A", ""), "TT1CIU": ("106A", ""), "TT2": ("106A", "00"), "TT4A": ("106A", "20"),
                   "DEPA": ("106A", "40"), "TT4B": ("106B", ""), "TT3": ("212F", ""), "DEPF": ("424F", ""),
                   "DEPACT": ("424F", ""), "LTT2": ("106A", "00"), "LTT4": ("106A", "20"), "LTT3": ("212F", ""),
                   "LDEP": ("106A", "40"), "LDEPRX": ("106A", "40")}
PN53X_FAM = ("pn531", "pn532", "pn533", "rcs956", "acr122", "arygon")


def rates_a(driver):
    return ("106A", "212A", "424A") if driver in ("rcs380", "udp") else ("106A",)


def rates_b(driver):
    if driver == "pn531":
        return ()
    if driver == "pn533":
        return ("106B", "212B", "424B", "848B")
    return ("106B", "212B", "424B") if driver in ("rcs380", "udp") else ("106B",)


def variants(driver):
    """every (base, brty, attr) of the driver, the base kinds' own (DEFAULT_VARIANT) included"""
    sup = SUPPORT[driver]
    vs = []
    if "TT1" in sup:
        vs += [("TT1", r, "") for r in rates_a(driver)]
    if "TT1CIU" in sup:
        vs += [("TT1CIU", "106A", "")]
    vs += [("TT2", r, "00") for r in rates_a(driver)] + [("TT2", "106A", a) for a in ("08", "18")]
    vs += [("TT4A", r, "20") for r in rates_a(driver)] + [("TT4A", "106A", "60")]
    vs += [("DEPA", r, "40") for r in rates_a(driver)] + [("DEPA", "106A", "60")] + [("DEPA", r, "psl") for r in RATES_F]
    vs += [("TT4B", r, "") for r in rates_b(driver)]
    vs += [("TT3", r, "") for r in RATES_F] + [("DEPF", r, "") for r in RATES_F]
    if "DEPACT" in sup:
        vs += [("DEPACT", r, "") for r in ("106A", "212F", "424F")]
    if "LTT3" in sup:
        vs += [("LTT3", r, "") for r in RATES_F]
    if "LDEP" in sup:
        vs += [("LDEP", "106A", "40")] + [("LDEP", r, "") for r in RATES_F]
    return vs


def variant_name(v):
    return "%s@%s%s" % (v[0], v[1], "/" + v[2] if v[2] else "")


def var_kinds(driver):
    return [variant_name(v) for v in variants(driver) if DEFAULT_VARIANT[v[0]] != (v[1], v[2])]


def variant_of(kind):
    """(base, brty, attr) of any exchange kind"""
    if "@" in kind:
        b, r = kind.split("@")
        r, _, a = r.partition("/")
        return b, r, a
    b = base_kind(kind)
    return (b,) + DEFAULT_VARIANT[b]


SENS_OF_SEL = {"00": b"\x44\x00", "08": b"\x04\x00", "18": b"\x02\x00", "20": b"\x44\x03", "40": b"\x44\x00",
               "60": b"\x44\x03"}
SENSF = b"\x01" + IDM + PMM


def _variant_target(base, brty, attr):
    """clf.target as sense() / listen() (and the NFC-DEP activation) leave it for this variant"""
    dep = dict(atr_res=ATR_RES, atr_req=ATR_REQ)
    if base == "TT1":
        return _remote(brty, sens_res=b"\x00\x0c", rid_res=b"\x11\x48\xb2\x56\x54\x00")
    if base in ("TT2", "TT4A"):
        return _remote(brty, sens_res=SENS_OF_SEL[attr], sel_res=bytes.fromhex(attr), sdd_res=UID)
    if base == "DEPA" and attr == "psl":
        t = _remote("106A", sens_res=b"\x44\x00", sel_res=b"\x40", sdd_res=UID, **dep)
        t.brty = brty
        return t
    if base == "DEPA":
        return _remote(brty, sens_res=SENS_OF_SEL[attr], sel_res=bytes.fromhex(attr), sdd_res=UID, **dep)
    if base == "TT4B":
        return _remote(brty, sensb_res=bytes.fromhex("50e8253eec00000011008185"))
    if base == "TT3":
        return _remote(brty, sensf_res=SENSF)
    if base == "DEPF":
        return _remote(brty, sensf_res=SENSF, **dep)
    if base == "DEPACT":
        return _remote(brty, **dep)
    if base == "LTT3":
        return _local(brty, sensf_res=SENSF + b"\x12\xfc", tt3_cmd=b"\x06" + IDM + b"\x01\x0b\x00\x01\x80\x00")
    if base == "LDEP":
        return _local(brty, sensf_res=SENSF + b"\x12\xfc", dep_req=b"\xd4\x06\x00\x33", **dep)
    raise KeyError(base)


def _add_variant_kinds():
    for drv in DRIVERS:
        for v in variants(drv):
            name = variant_name(v)
            if DEFAULT_VARIANT[v[0]] == (v[1], v[2]) or name in KINDS:
                continue
            base, brty, attr = v
            # what is sent and answered: the base kind's; NFC-DEP frames carry the SB byte F0h at 106 kbps only
            src = base
            if base in ("DEPA", "DEPACT"):
                src = "DEPA" if brty == "106A" else ("DEPF" if brty in RATES_F else base)
            _m, _mk, _s, _t, _r, _i = KINDS[src]
            KINDS[name] = (KINDS[base][0], (lambda b=base, r=brty, a=attr: _variant_target(b, r, a)), _s, _t, _r, _i)


_add_variant_kinds()


def place_card(rig, kind):
    """C13: put the remote device of the kind into the simulated field, so that the chip's RF exchange command
    is only answered when the driver configured the bit rate / technology the activated target talks (a target that
    does not understand the frame stays silent: the chip reports its time-out).  Separate from prepare(): other
    checks share prepare() and run without a card."""
    base, brty, attr = variant_of(kind)
    mode = KINDS[kind][0]
    chip = rig.chip
    if mode != "initiator":
        chip.card = None
        return
    if rig.driver == "udp":
        chip.card = brty
        return
    active = base == "DEPACT"
    chip.card = dict(send=brty, recv=brty, active=active)
    if rig.driver == "rcs380":
        if base == "TT2" and kind != "TT2":
            # the tag's answer on the air carries CRC_A; who strips it depends on the check_crc setting
            chip.air = bytes(KINDS[kind][4])
    else:
        # CIU state as the firmware left it after discovery (InListPassiveTarget / InJumpForPSL); "psl": at 106A
        chip.discovered("106A" if attr == "psl" else brty, active)


def udp_reply(kind):
    mode, mk, send, tmo, rf_rsp, rf_in = KINDS[kind]
    brty = mk().brty
    return brty.encode() + b" " + bytes(rf_rsp).hex().encode()


def prepare(rig, kind):
    """Set clf.target as sense()/listen() would and the simulated air; returns (send_data, timeout)."""
    mode, mk, send, tmo, rf_rsp, rf_in = KINDS[kind]
    tgt = mk()
    if rig.driver == "udp":
        tgt._addr = ("127.0.0.1", 54321)
        rig.device._create_socket()
        rig.net.reply = udp_reply(kind)
    else:
        chip = rig.chip
        chip.rf_rsp = bytes(rf_rsp)
        chip.air = None                 # (C14 sets these for the CRC ownership cases)
        if rig.driver == "rcs380":
            chip.tg_head = bytes([{"212F": 0x0c, "424F": 0x0d}.get(tgt.brty, 0x0b), 0x00, 0x03])
        else:
            chip.rf_in = bytes(rf_in)
            chip.fifo = bytearray()
            chip.commirq = chip.divirq = 0
    rig.clf.target = tgt
    return send, tmo


def expected_data(rig, kind):
    """What a fault-free exchange must return (the simulated air's answer as the driver reports it)."""
    mode, mk, send, tmo, rf_rsp, rf_in = KINDS[kind]
    if base_kind(kind) == "TT2" and rig.driver != "udp":
        return TT2_READ
    if kind == "TT1CIU":
        return b"\x03" + bytes(range(8))
    return bytes(rf_rsp)


OUTCOME_OF = (
    (nfc.clf.TimeoutError, "Timeout"),
    (nfc.clf.BrokenLinkError, "BrokenLink"),
    (nfc.clf.TransmissionError, "Transmission"),
    (nfc.clf.ProtocolError, "Protocol"),
)


def classify(fn):
    """Run fn() -> (outcome class, exception type name, value)."""
    try:
        r = fn()
    except P.SimHang:
        return "Hang", "SimHang", None
    except nfc.clf.CommunicationError as e:
        for cls, name in OUTCOME_OF:
            if type(e) is cls:
                return name, type(e).__name__, e
        return "CommOther", type(e).__name__, e
    except IOError as e:
        return "IOErr", type(e).__name__, e
    except Exception as e:
        return "Internal", type(e).__module__.replace("builtins", "") .strip(".") + ("." if type(e).__module__ != "builtins" else "") + type(e).__qualname__, e
    if r is None:
        return "NoData", "None", None
    return "Data", type(r).__name__, r


ENODEV, EIO = errno.ENODEV, errno.EIO
