"""C05 stage `window`: the integer core of the sliding window, LlcpWindow.tla (modulus 16, every window, unbounded).

* Apalache discharges the two obligations of the inductive invariant (base: Init => IndInv, step: IndInv /\\ Next => IndInv')
  - started as sub-processes at the beginning of the C05 run and collected at its end, so it costs no wall time;
* TLC enumerates the complete reachable state space of the same module (finite: about 8.9*10^6 states) in the thorough tier
  and the reachability witnesses in both tiers;
* the invariant reaches the code through the refinement mapping `WinIndP` of LlcpDlc.tla, which is an INVARIANT of the
  implementation-shaped models and a step post-condition of every recorded execution (Trace_LlcpDlc, Trace_LlcpDlcT).

A counterexample of Apalache / TLC here is a defect of the specification (reported as spec:LlcpWindow:...).  Apalache not
finishing in its time limit is recorded in the evidence and is not a verdict; the TLC enumeration of the thorough tier then
carries the claim alone.
"""
import os, subprocess, shutil, time
from vlib import SPEC, OUT, tlc

APA = shutil.which("apalache-mc") or "/usr/local/bin/apalache-mc"


class Stage(object):
    def __init__(self, pid, quick):
        self.pid, self.quick = pid, quick
        self.dir = os.path.join(OUT, pid, "apalache")
        shutil.rmtree(self.dir, ignore_errors=True)
        os.makedirs(self.dir, exist_ok=True)
        self.t0 = time.time()
        self.procs = {}
        if os.path.exists(APA):
            for name, args in (("base", ["--init=Init", "--inv=IndInv", "--length=0"]),
                               ("step", ["--init=IndInit", "--inv=IndInv", "--length=1"])):
                d = os.path.join(self.dir, name)
                os.makedirs(d, exist_ok=True)
                log = open(os.path.join(d, "log"), "w")
                env = dict(os.environ, JVM_ARGS="-Xmx3g")
                self.procs[name] = (subprocess.Popen(
                    ["timeout", "600", APA, "check"] + args + ["--out-dir=" + d, "--run-dir=" + os.path.join(d, "run"),
                                                                 "LlcpWindow.tla"],
                    cwd=SPEC, stdout=log, stderr=subprocess.STDOUT, env=env), log)

    def finish(self, ck):
        # reachability witnesses (TLC, a few seconds): the window really fills at RW 15 and the counters really wrap
        need = {"W_Wrap", "W_Full"}
        hit, _ = tlc.witnesses("LlcpWindow.tla", "MC_LlcpWindow_reach.cfg", self.pid, sorted(need))
        if need - hit:
            raise tlc.TLCError("vacuous model LlcpWindow: witnesses not reached: %s" % sorted(need - hit))
        res = {}
        for name, (p, log) in self.procs.items():
            try:
                p.wait(timeout=700)
            except subprocess.TimeoutExpired:
                p.kill()
            log.close()
            text = open(log.name).read()
            if "EXITCODE: OK" in text and "The outcome is: NoError" in text:
                res[name] = "proved"
            elif "The outcome is: Error" in text or "invariant violation" in text.lower():
                res[name] = "counterexample"
                ck.violation("spec:LlcpWindow:IndInv-" + name,
                             "Apalache found a counterexample to the %s obligation of the inductive invariant of LlcpWindow.tla: %s"
                             % (name, text[-1500:]))
            else:
                res[name] = "not completed (rc=%s)" % p.returncode
        if not self.procs:
            res = dict(base="apalache-mc not found", step="apalache-mc not found")
        ck.cover(window_inductive_invariant=dict(
            module="LlcpWindow.tla", modulus=16, windows="0..15", engine="Apalache 0.58 (--length=0 from Init, --length=1 from IndInit)",
            base=res.get("base"), step=res.get("step"), seconds=int(time.time() - self.t0),
            binding="WinIndP (LlcpDlc.tla) is an INVARIANT of MC_LlcpDlc*.cfg and a step post-condition in Trace_LlcpDlc / Trace_LlcpDlcT"))
        if not self.quick or any(v != "proved" for v in res.values()):
            # complete enumeration of the abstraction with the real modulus (finite state): Init, every window
            r = tlc.run("LlcpWindow.tla", "MC_LlcpWindow.cfg", self.pid, workers=16, timeout=3600)
            if not r.ok:
                ck.violation("spec:LlcpWindow:" + ",".join(r.violated or ["incomplete"]),
                             "TLC found a violation in LlcpWindow.tla: %s" % (r.error_trace or "")[:1500])
            ck.cover(states=r.distinct, transitions=r.generated)
            ck.cover(window_model_enumerated=dict(distinct=r.distinct, depth=r.depth))
        shutil.rmtree(self.dir, ignore_errors=True)
