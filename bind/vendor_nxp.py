"""Binding of spec/TagVendor.tla to the real NXP vendor classes of nfc.tag.tt2_nxp (shared by the vendor stages of
C20 and C03).

A World holds one simulated product (sim/vendor_nxp.SimNxp), the tag object nfc.tag.activate() built for it and
the dictionary between the model's names (key halves "k0", "kA" ...; page classes "cfg0", "pwd", "k1" ...) and
bytes.  The fake clf records, per operation, every command of the procedure under test as an event of
Trace_TagVendor (page class + decoded value of a WRITE, whether the tag executed it, modifications applied to
authentication answers, power cuts, activations), the harness adds Start / Check / Return events with the
projection of the simulated tag and of the tag object.
"""
import json, random
from sim.vendor_nxp import SimNxp, PRODUCTS, FACTORY_TLV, ULC_FACTORY_KEY

import nfc
import nfc.clf
import nfc.tag
import nfc.tag.tt2
import nfc.tag.tt2_nxp as tt2_nxp

FAMILY = {"ULC": "ulc", "NTAG203": "n203"}
for _p, _d in PRODUCTS.items():
    if _d["fam"] in ("ntag", "ev1"):
        FAMILY[_p] = _d["fam"]
CLASSES = ["slock", "cc", "u4", "u5", "tend", "dlock", "cfg0", "cfg1", "pwd", "pack", "a0", "a1", "k1", "k2", "k3", "k4"]
WANT = {"ULC": "MifareUltralightC", "NTAG203": "NTAG203", "NTAG210": "NTAG210", "NTAG212": "NTAG212", "NTAG213": "NTAG213",
        "NTAG215": "NTAG215", "NTAG216": "NTAG216", "MF0UL11": "MF0UL11", "MF0ULH11": "MF0ULH11", "MF0UL21": "MF0UL21",
        "MF0ULH21": "MF0ULH21"}
NAMES = ["k0", "kA", "kB", "kC"]


class HarnessError(RuntimeError):
    pass


class Urandom(object):
    """stands in for the `os` module attribute of nfc.tag.tt2_nxp: reproducible RndA"""

    def __init__(self, rnd):
        self.rnd = rnd

    def urandom(self, n):
        return bytes(self.rnd.randrange(256) for _ in range(n))


def page_table(product):
    p = PRODUCTS[product]
    pg = dict((c, 0) for c in CLASSES)
    # tend: the last page of the TLV area that holds the (small) NDEF message of the simulated tags
    pg.update(slock=2, cc=3, u4=4, u5=5, tend=6 if FACTORY_TLV.get(product, b"\x03")[0] == 0x01 else 5, dlock=p["dlock"] or 0)
    if p["fam"] in ("ntag", "ev1"):
        pg.update(cfg0=p["cfg"], cfg1=p["cfg"] + 1, pwd=p["cfg"] + 2, pack=p["cfg"] + 3)
    if p["fam"] == "ulc":
        pg.update(a0=42, a1=43, k1=44, k2=45, k3=46, k4=47)
    return pg


class World(object):
    def __init__(self, sc, rnd):
        """sc: scenario dict(product, imm, init=dict(key=[p, q] | None, auth0, prot, fmt, ro, tlv), nak)"""
        self.rnd = rnd
        self.product = sc["product"]
        self.fam = FAMILY[self.product]
        ini = dict(key=None, auth0=None, prot=False, fmt=True, ro=False, tlv="ok", slock=False)
        ini.update(sc.get("init") or {})
        rb = lambda n: bytes(rnd.randrange(256) for _ in range(n))
        # name -> bytes of a key half, per position (Ultralight C: K1 / K2 of 8 bytes; NTAG: PWD 4 bytes / PACK 2 bytes)
        n1, n2 = (8, 8) if self.fam == "ulc" else (4, 2)
        self.half = [dict(), dict()]
        if self.fam == "ulc":
            self.half[0]["k0"], self.half[1]["k0"] = ULC_FACTORY_KEY[0:8], ULC_FACTORY_KEY[8:16]
        else:
            self.half[0]["k0"], self.half[1]["k0"] = b"\xff\xff\xff\xff", b"\x00\x00"
        for pos, n in ((0, n1), (1, n2)):
            for name in NAMES[1:]:
                while True:
                    v = rb(n)
                    if v not in self.half[pos].values():
                        break
                self.half[pos][name] = v
        self.suffix = {"a": b"" if rnd.random() < 0.5 else rb(rnd.randint(1, 6)), "b": rb(rnd.randint(1, 9))}
        if self.suffix["a"] == self.suffix["b"]:
            self.suffix["b"] += b"!"
        k = ini["key"] or ["k0", "k0"]
        kw = dict(formatted=ini["fmt"], latch="immediate" if sc.get("imm") else "activate", nak=sc.get("nak", "timeout"),
                  rnd=random.Random(rnd.random()), auth0=ini["auth0"], prot=ini["prot"])
        if self.fam == "ulc":
            kw["key"] = self.keybytes(k)
        elif self.fam in ("ntag", "ev1"):
            kw.update(pwd=self.half[0][k[0]], pack=self.half[1][k[1]],
                      cfg_misc=[rnd.choice([0x04, 0x00, 0xC4]), 0x00, rnd.choice([0, 4]), rnd.choice([0x00, 0x10, 0x18]),
                                rnd.choice([0x05, 0x00]), 0, 0])
        self.sim = SimNxp(self.product, **kw)
        m = self.sim.sectors[0]
        if ini["ro"]:
            m[15] |= 0x0F
        if ini["tlv"] == "broken":
            m[16:24] = bytes([0xFE, 0, 0, 0, 0, 0, 0, 0])
        elif ini["fmt"] or True:
            # a small NDEF message behind the product's control TLV (so that factory defaults written over it show)
            k = 16 + (5 if m[16] == 0x01 else 0)
            m[k:k + 6] = bytes([0x03, 0x03, 0xD0, 0x00, 0x00, 0xFE])
        if ini["slock"]:
            m[10], m[11] = 0xFF, 0xFF
        self.pg = page_table(self.product)
        self.cls_of = {v: c for c, v in self.pg.items() if v and c != "tend"}
        self.misc0 = self._misc()
        cc0 = self._ccbits(m[15])
        self.init = dict(prod=self.fam, pg=self.pg, key=self._stored_names(), auth0=self.sim.stored["auth0"],
                         prot=bool(self.sim.stored["prot"]), cfglck=False, slock=bool(ini["slock"]), dlock=False,
                         cc=cc0, fmt=bool(ini["fmt"]), tlv=ini["tlv"], imm=bool(sc.get("imm")),
                         nakb=sc.get("nak", "timeout") == "byte",
                         tlv1=FACTORY_TLV.get(self.product, b"\x01")[0] == 0x03)
        target = nfc.clf.RemoteTarget("106A")
        target.sens_res = bytearray(b"\x44\x00")
        target.sel_res = bytearray(b"\x00")
        target.sdd_res = bytearray(self.sim.uid)
        self.clf = FakeClf(self, target)
        self.tag = nfc.tag.activate(self.clf, target)
        if type(self.tag).__name__ != WANT[self.product]:
            raise HarnessError("activation of %s gave %r" % (self.product, self.tag))
        self.clf.tag = self.tag
        self.events = []
        self.base45 = self.sim.page(4) + self.sim.page(5)
        self.findings = []          # harness level observations: (key, what)
        self.clf.recording = True

    # -- names <-> bytes ---------------------------------------------------------------------------
    def keybytes(self, k):
        return self.half[0][k[0]] + self.half[1][k[1]]

    def password(self, pw):
        v = pw["v"]
        if v == "empty":
            raw = b""
        elif v == "short":
            full = self.keybytes(pw["k"])
            raw = full[:self.rnd.randint(1, len(full) - 1)]
        else:
            raw = self.keybytes(pw["k"]) + self.suffix[v]
        return raw if self.rnd.random() < 0.7 else bytearray(raw)

    def _page_name(self, pos, idx, data):
        """content of a key page -> [name, idx]"""
        data = bytes(data)
        for name, h in self.half[pos].items():
            if self.fam == "ulc":
                want = h[7:3:-1] if idx == 1 else h[3::-1]
            else:
                want = h
            if data == want:
                return [name, idx]
        return ["?", idx]

    def _stored_names(self):
        s = self.sim
        if self.fam == "ulc":
            return [self._page_name(0, 1, s.page(44)), self._page_name(0, 2, s.page(45)),
                    self._page_name(1, 1, s.page(46)), self._page_name(1, 2, s.page(47))]
        if self.fam in ("ntag", "ev1"):
            return [self._page_name(0, 1, s.page(s.cfg + 2)), self._page_name(1, 1, s.page(s.cfg + 3)[0:2])]
        return [["k0", 1], ["k0", 1]]

    def _eff_names(self):
        k = self.sim.eff["key"]
        if self.fam == "ulc":
            raw = k[7::-1] + k[15:7:-1]
            return [self._page_name(0, 1, raw[0:4]), self._page_name(0, 2, raw[4:8]),
                    self._page_name(1, 1, raw[8:12]), self._page_name(1, 2, raw[12:16])]
        if self.fam in ("ntag", "ev1"):
            return [self._page_name(0, 1, k[0:4]), self._page_name(1, 1, k[4:6])]
        return [["k0", 1], ["k0", 1]]

    def _misc(self):
        s = self.sim
        if self.fam in ("ntag", "ev1"):
            c0, c1, pk = s.page(s.cfg), s.page(s.cfg + 1), s.page(s.cfg + 3)
            return (c0[0:3], c1[0] & 0x3F, c1[1:4], pk[2:4])
        if self.fam == "ulc":
            return (s.page(42)[1:4], s.page(43)[0] & 0xFE, s.page(43)[1:4])
        return ()

    @staticmethod
    def _ccbits(b):
        return dict(b3=bool(b & 0x08), b7=bool(b & 0x80), lo=bool(b & 0x07))

    def decode_write(self, page, data, before):
        """-> (class, value) of a WRITE of a protect / lock / format-defaults procedure"""
        c = self.cls_of.get(page, "?")
        d, b = bytes(data), bytes(before)
        if c == "cfg0":
            return c, dict(auth0=d[3], keep=d[0:3] == b[0:3])
        if c == "cfg1":
            return c, dict(prot=bool(d[0] & 0x80), cfglck=bool(d[0] & 0x40), keep=(d[0] & 0x3F) == (b[0] & 0x3F) and d[1:4] == b[1:4])
        if c == "pwd":
            return c, dict(part=self._page_name(0, 1, d))
        if c == "pack":
            part = self._page_name(1, 1, d[0:2])
            return c, dict(part=part if d[2:4] == b[2:4] else ["?", 1])
        if c in ("k1", "k2", "k3", "k4"):
            i = int(c[1])
            return c, dict(part=self._page_name((i - 1) // 2, 1 + (i - 1) % 2, d))
        if c == "a0":
            return c, dict(auth0=d[0] if not any(d[1:4]) else -1)
        if c == "a1":
            return c, dict(prot=not (d[0] & 1)) if not (d[0] & 0xFE or any(d[1:4])) else dict(prot="?")
        if c == "cc":
            v = self._ccbits(d[3])
            if d[3] & 0x70 or d[0:3] != b[0:3]:
                v["bad"] = True
            return c, v
        if c == "slock":
            return c, dict(all=d[2:4] == b"\xff\xff")
        if c == "dlock":
            if self.fam == "ulc":
                return c, dict(all=d[0:2] == b"\xff\xff")
            if self.fam == "n203":
                # every user page (lock byte 2 = FFh, block-locking bit 0 of lock byte 3) but not the counter (bit 4)
                return c, dict(all=d[0] == 0xFF and bool(d[1] & 0x01) and not d[1] & 0x10)
            return c, dict(all=d[0:3] == b"\xff\xff\xff")
        if c in ("u4", "u5"):
            f = FACTORY_TLV.get(self.product, b"")
            return c, dict(dflt=d == (f[0:4] if c == "u4" else f[4:8]))
        return "p%d" % page, dict(raw=list(d))

    def ev(self, a, **kw):
        rec = dict(a=a, op="-", pw=dict(k=["k0", "k0"], v="none"), rp=False, pf=0, c="-", v=dict(), ok=False, out="-", hint="",
                   view="-", n=0, j=0, res="-", key=[], auth0=0, prot=False, cfglck=False, ekey=[], eauth0=0, eprot=False,
                   slock=False, dlock=False, cc=dict(b3=False, b7=False, lo=False), misc=True, user="orig", authd=False,
                   rauth=False)
        rec.update(kw)
        self.events.append(rec)
        return rec

    def projection(self):
        s = self.sim
        m = s.sectors[0]
        dl = False
        if s.dlock_page:
            d = s.page(s.dlock_page)
            dl = (d[0:2] == b"\xff\xff") if self.fam == "ulc" else \
                (d[0] == 0xFF and bool(d[1] & 1)) if self.fam == "n203" else (d[0:3] == b"\xff\xff\xff")
        st = s.stored
        user = self.user
        return dict(key=self._stored_names(), auth0=st["auth0"], prot=bool(st["prot"]), cfglck=bool(st["cfglck"]),
                    ekey=self._eff_names(), eauth0=s.eff["auth0"], eprot=bool(s.eff["prot"]),
                    slock=m[10] == 0xFF and m[11] == 0xFF, dlock=bool(dl), cc=self._ccbits(m[15]),
                    misc=self._misc() == self.misc0, user=user,
                    authd=bool(s.authenticated and s.powered and not s.mute), rauth=bool(self.tag.is_authenticated))

    user = "orig"

    def trace(self, tid):
        return dict(id=tid, init=self.init, tol=[], ev=self.events)


class FakeClf(object):
    def __init__(self, world, target):
        self.w, self.target = world, target
        self.tag = None
        self.recording = False
        self.op = None
        self.n = 0
        self.unanswered = None
        self.max_send_data_size = 290
        self.max_recv_data_size = 290

    def begin(self, name, script=(), cut_before=None):
        self.op = dict(name=name, script=list(script), point=0, pending=False, applied=0, ncmd=0, cut_before=cut_before,
                       last_read_failed=False)
        self.unanswered = None
        self.w.hl = getattr(self.w, "hl", [])

    def flush(self, out):
        if self.op and self.op["pending"]:
            self.w.ev("Check", out=out)
            self.op["pending"] = False

    def sense(self, *targets, **kw):
        w = self.w
        ok = w.sim.activate()
        if self.recording and self.op is not None:
            if self.op["last_read_failed"]:
                self.op["last_read_failed"] = False          # Type2Tag.read senses again after a NAK: part of the Read step
            elif self.op["name"] in ("ndef", "format"):
                pass                                         # ... or of the NDEF evaluation
            else:
                self.flush("cont")
                w.ev("Sense")
        return self.target if ok else None

    def exchange(self, data, timeout):
        self.n += 1
        if self.n > 4000:
            raise HarnessError("command budget exceeded")
        w, sim = self.w, self.w.sim
        data = bytes(data)
        if not self.recording or self.op is None:
            rsp = sim.process(data)
            if rsp is None:
                raise nfc.clf.TimeoutError("sim: no answer")
            return bytearray(rsp)
        op = self.op
        if self.unanswered == data:
            rsp = sim.process(data)                      # a retransmission of the same command: not a model step
            if rsp is None:
                raise nfc.clf.TimeoutError("sim: no answer (retry)")
            raise HarnessError("a retransmitted command was answered")
        op["ncmd"] += 1
        op["last_read_failed"] = False
        if op["cut_before"] is not None and op["ncmd"] == op["cut_before"] and sim.powered:
            sim.powered = False
            sim.authenticated = False
            self.flush_keep()
            w.ev("Cut")
        was_on = sim.powered
        nlog = len(sim.log)
        rsp = sim.process(data)
        rsp = self._record(data, rsp, nlog)
        if was_on and not sim.powered:
            sim.authenticated = False
            w.ev("Cut")
        self.unanswered = data if rsp is None else None
        if rsp is None:
            raise nfc.clf.TimeoutError("sim: no answer")
        return bytearray(rsp)

    def flush_keep(self):
        """a cut while an answer is in flight: the reader still evaluates that answer afterwards"""
        pass

    def _record(self, cmd, rsp, nlog):
        w, sim, op = self.w, self.w.sim, self.op
        c = cmd[0]
        name = op["name"]
        if c == 0x1B:
            self.flush("cont")
            ok = rsp is not None and len(rsp) == 2
            w.ev("Pwd", ok=ok)
            return self._in_flight(rsp, ok)
        if c == 0x1A:
            self.flush("cont")
            ok = rsp is not None and len(rsp) == 9 and rsp[0] == 0xAF
            w.ev("Auth1", ok=ok)
            if not ok:
                return rsp
            return self._in_flight(rsp, ok)
        if c == 0xAF:
            self.flush("cont")
            ok = rsp is not None and len(rsp) == 9 and rsp[0] == 0x00
            w.ev("Auth2", ok=ok)
            return self._in_flight(rsp, ok)
        if c == 0xA2:
            page = cmd[1]
            ok = rsp == b"\x0a"
            before = sim.log[-1][2] if len(sim.log) > nlog else sim.page(page)
            if name == "format" and self.tag._ndef is not None and self.tag._ndef.is_writeable:
                # Type2Tag._format on the NDEF it found: the writes of C03's base part; here only their confinement
                lo, hi = 4, 4 + 2 * sim.sectors[0][14]
                if not lo <= page < hi or page in (sim.dlock_page, sim.cfg, (sim.cfg or 0) + 1):
                    w.findings.append(("%s:format:base-write-outside-data-area:page-%d" % (type(self.tag).__name__, page),
                                       "Type2Tag._format wrote page %d" % page))
                return rsp
            cls, val = w.decode_write(page, cmd[2:6], before)
            if name == "format" and ok and cls in ("u4", "u5"):
                w.user = "dflt"
            self.flush("cont")
            w.ev("Write", c=cls, v=val, ok=ok)
            return rsp
        if c == 0x30 and name in ("protect", "lock"):
            page = cmd[1]
            cls = w.cls_of.get(page)
            if cls in ("cc", "cfg0"):
                ok = rsp is not None and len(rsp) == 16
                self.flush("cont")
                w.ev("Read", c=cls, ok=ok)
                op["last_read_failed"] = not ok and sim.powered
                return rsp
            w.findings.append(("%s:%s:unexpected-read-page-%d" % (type(self.tag).__name__, name, page), "READ %d" % page))
            return rsp
        return rsp                                   # READs of an NDEF evaluation and the like: not steps of the model

    def _in_flight(self, rsp, ok):
        """an authentication answer is in flight: let the adversary script act; returns what the reader sees"""
        w, op = self.w, self.op
        op["point"] += 1
        op["pending"] = True
        if rsp is None or not ok:
            return rsp
        genuine = bytes(rsp)
        w.hl.append(genuine)
        cur = bytearray(genuine)
        body = 1 if len(genuine) == 9 else 0          # Ultralight C answers carry a status byte in front of the cipher
        for (point, act, arg) in op["script"]:
            if point != op["point"]:
                continue
            op["applied"] += 1
            if act == "flip":
                for bit in arg:
                    cur[body + bit // 8] ^= 0x80 >> (bit % 8)
                w.ev("AdvFlip")
            elif act == "trunc":
                cur = cur[:body + arg]
                w.ev("AdvTrunc", n=arg)
            elif act == "replay":
                cur = bytearray(w.hl[arg - 1])
                w.ev("AdvReplay", j=arg)
            else:
                raise HarnessError("unknown adversary action %r" % (act,))
        return bytes(cur)


# ------------------------------------------------------------------------------------------------------
def result_name(r):
    if r is True:
        return "True"
    if r is False:
        return "False"
    return "Value:%s" % type(r).__name__


def view_of(tag):
    tag._ndef = None
    nd = tag.ndef
    if nd is None:
        return "none"
    r, wr = nd.is_readable, nd.is_writeable
    return "rw" if r and wr else "r" if r else "w" if wr else "-"


def run_op(w, o):
    """o = dict(name=auth|protect|lock|format|ndef, pw, rp, pf, script, cut_after, cut_before)"""
    tag, clf, sim = w.tag, w.clf, w.sim
    name = o["name"]
    if not sim.powered or sim.mute or not tag.target:
        sim.powered = True
        sim.cut_after = None
        tag._target = clf.sense(tag.target)
        w.ev("Reactivate")
    clf.begin(name, o.get("script", ()), cut_before=o.get("cut_before"))
    if o.get("cut_after") is not None:
        sim.cut_after = len(sim.log) + o["cut_after"]
    if name == "ndef":
        clf.op["name"] = "ndef"
        try:
            v = view_of(tag)
        except Exception as e:                       # noqa
            v = "exc:" + type(e).__name__
        clf.op = None
        w.ev("Ndef", view=v)
        return v
    start = len(w.events)
    if name == "auth":
        w.ev("Start", op="auth", pw=o["pw"])
        call = lambda: tag.authenticate(w.password(o["pw"]))
    elif name == "protect":
        w.ev("Start", op="protect", pw=o["pw"], rp=bool(o.get("rp")), pf=o.get("pf", 0))
        call = lambda: tag.protect(w.password(o["pw"]), read_protect=bool(o.get("rp")), protect_from=o.get("pf", 0))
    elif name == "lock":
        w.ev("Start", op="lock")
        call = lambda: tag.protect()
    elif name == "format":
        w.ev("Start", op="format")
        tag._ndef = None
        call = lambda: tag.format(wipe=o.get("wipe"))
    else:
        raise HarnessError("unknown op %r" % name)
    try:
        res = result_name(call())
    except nfc.tag.TagCommandError:
        res = "TagCommandError"
    except HarnessError:
        raise
    except Exception as e:                           # noqa -- what may leave these calls is the property
        res = type(e).__name__
    if name == "format" and res in ("True", "False"):
        clf.op["pending"] = True                     # the decision of Type2Tag._format / the refusal
    clf.flush(res)
    # where the model of the code as it is admits two ways, say which one the code took
    mine = w.events[start:]
    steps = [e for e in mine if e["a"] != "Cut"]
    if res == "AttributeError" and steps[-1]["a"] in ("Start", "Write"):
        steps[-1]["hint"] = "attr"
    if name == "format" and any(e["a"] == "Write" for e in mine):
        mine[0]["hint"] = "w4"
    if clf.op["applied"] != len(clf.op["script"]):
        w.unapplied = getattr(w, "unapplied", 0) + 1
    clf.op = None
    sim.cut_after = None
    if name == "format":
        # pages 4-5 after a format(): a change is the new baseline when it succeeded, damage when it did not
        now = sim.page(4) + sim.page(5)
        if res != "True" and now != w.base45:
            w.user = "dflt"
        w.base45 = now
    w.ev("Return", res=res, **w.projection())
    return res


def run_scenario(sc, seed):
    rnd = random.Random("%s/%s" % (seed, sc["id"]))
    saved = tt2_nxp.os
    tt2_nxp.os = Urandom(rnd)
    try:
        w = World(sc, rnd)
        res = [run_op(w, o) for o in sc["ops"]]
    finally:
        tt2_nxp.os = saved
    return w.trace(sc["id"]), res, w


def PW(p, q, v="a"):
    return dict(k=[p, q], v=v)


EMPTY = dict(k=["k0", "k0"], v="empty")
SHORT = dict(k=["kA", "kA"], v="short")


# ------------------------------------------------------------------------------------------------------
# scenarios (the model's constant space made concrete)

AC_PRODUCTS = ["ULC", "NTAG210", "NTAG212", "NTAG213", "NTAG215", "NTAG216", "MF0UL11", "MF0ULH11", "MF0UL21", "MF0ULH21"]
PF_VALUES = [0, 2, 3, 4, 5, 16, 40, 47, 48, 49, 254, 255, 256, 1000]


def bit_sample(nbytes, tier, rnd):
    if tier == "thorough":
        return list(range(8 * nbytes))
    s = {0, 7, 8 * nbytes - 8, 8 * nbytes - 1, rnd.randrange(8 * nbytes), rnd.randrange(8 * nbytes)}
    return sorted(s)


def nwrites_protect(product, pf, fmt=True):
    fam = FAMILY[product]
    n = 6 if fam == "ulc" else 4
    return n + (1 if pf <= 3 and fmt else 0)


def scenarios_c20(tier, seed):
    """authentication soundness / completeness, protect then authenticate, tampering, power cuts, NDEF visibility"""
    rnd = random.Random("vendor-c20/%d" % seed)
    quick = tier == "quick"
    out = []

    def add(product, ops, tag="", **kw):
        out.append(dict(id="v%04d-%s%s" % (len(out), product, tag), product=product, ops=ops, **kw))

    good = PW("kA", "kB")
    rel = [PW("kA", "kB"), PW("kA", "kB", "b"), PW("kC", "kB"), PW("kA", "kC"), PW("kC", "kC"), EMPTY, SHORT, PW("k0", "k0"),
           PW("k0", "kB"), PW("kA", "k0"), PW("kA", "kB")]
    prods = AC_PRODUCTS if not quick else ["ULC", "NTAG213", "NTAG210", "NTAG216", "MF0UL11", "MF0UL21", "NTAG212", "MF0ULH21"]
    for product in prods:
        fam = FAMILY[product]
        for nak in ("timeout", "byte"):
            # who holds which key
            add(product, [dict(name="auth", pw=p) for p in rel], "-keys-" + nak, init=dict(key=["kA", "kB"]), nak=nak)
            add(product, [dict(name="auth", pw=p) for p in rel], "-factory-" + nak, nak=nak)
        # protect then authenticate, the NDEF visibility before / after authentication, protecting again
        pfs = PF_VALUES if not quick else [0, 3, 4, 16, 48, 255, 1000]
        for pf in pfs:
            for rp in (False, True):
                if rp and pf in (5, 6):
                    continue          # a TLV area that is readable only in part: what a reader makes of the rolled-over
                                      # bytes is C08's subject (any result but an exception), not a visibility promise
                for imm in (False, True):
                    if quick and imm and pf not in (0, 4, 1000):
                        continue
                    pw = rnd.choice([good, PW("kB", "kA", "b"), EMPTY, PW("kA", "kA")])
                    others = [q for q in rel if q["k"] != pw["k"] and q["v"] != "short"][:3]
                    ops = [dict(name="protect", pw=pw, rp=rp, pf=pf), dict(name="ndef"), dict(name="auth", pw=pw), dict(name="ndef")]
                    ops += [dict(name="auth", pw=q) for q in others]
                    ops += [dict(name="ndef"), dict(name="auth", pw=pw), dict(name="protect", pw=PW("kC", "kC"), rp=not rp, pf=pf),
                            dict(name="auth", pw=pw), dict(name="auth", pw=PW("kC", "kC")), dict(name="ndef")]
                    add(product, ops, "-protect-pf%d-%s%s" % (pf, "rp" if rp else "wp", "-imm" if imm else ""), imm=imm,
                        nak=rnd.choice(["timeout", "byte"]), init=dict(fmt=rnd.random() < 0.8, ro=rnd.random() < 0.25))
        # the documented ValueError of a password that is too short, and nothing written
        add(product, [dict(name="protect", pw=SHORT, rp=False, pf=0), dict(name="auth", pw=SHORT), dict(name="auth", pw=EMPTY),
                      dict(name="ndef")], "-short-password")
        # a tag that is already protected: protect() by someone who is not authenticated / who is
        for rp in (False, True):
            for nak in ("timeout", "byte"):
                add(product, [dict(name="protect", pw=good, rp=False, pf=4), dict(name="auth", pw=PW("kC", "kC")),
                              dict(name="auth", pw=good), dict(name="protect", pw=good, rp=rp, pf=48), dict(name="auth", pw=good),
                              dict(name="ndef")],
                    "-protected-%s-%s" % ("rp" if rp else "wp", nak), init=dict(key=["kC", "kC"], auth0=3, prot=rp), nak=nak)
        # power cuts at every write of protect(), then recovery by whoever knows both keys
        for imm in (False, True):
            for pf in (0, 48):
                n = nwrites_protect(product, pf)
                for k in range(1, n + 1):
                    if quick and imm and k % 2:
                        continue
                    ops = [dict(name="protect", pw=good, rp=True, pf=pf, cut_after=k), dict(name="auth", pw=good), dict(name="auth", pw=EMPTY),
                           dict(name="protect", pw=good, rp=True, pf=pf), dict(name="auth", pw=good), dict(name="ndef")]
                    add(product, ops, "-cut%d-pf%d%s" % (k, pf, "-imm" if imm else ""), imm=imm, nak=rnd.choice(["timeout", "byte"]))
        # cuts between the commands of the (embedded) authentication
        for cb in range(1, 4 if fam == "ulc" else 3):
            add(product, [dict(name="auth", pw=EMPTY, cut_before=cb), dict(name="auth", pw=EMPTY)], "-authcut%d" % cb)
        add(product, [dict(name="protect", pw=good, rp=False, pf=48, cut_before=nwrites_protect(product, 48) + 1),
                      dict(name="auth", pw=good)], "-protect-cut-before-auth")
        # tampering with the answers of the authentication
        if fam == "ulc":
            mods = []
            for pt in (1, 2):
                for bit in bit_sample(8, tier, rnd):
                    mods.append([(pt, "flip", [bit])])
                for n in (0, 3) if quick else (0, 1, 3, 7):
                    mods.append([(pt, "trunc", n)])
            for _ in range(6 if quick else 80):
                pt = rnd.choice((1, 2))
                mods.append([(pt, "flip", rnd.sample(range(64), rnd.randint(2, 6)))])
            per = 10
            for i in range(0, len(mods), per):
                ops = []
                for m in mods[i:i + per]:
                    ops.append(dict(name="auth", pw=good, script=m))
                ops.append(dict(name="auth", pw=good))
                add(product, ops, "-tamper", init=dict(key=["kA", "kB"]), nak=rnd.choice(["timeout", "byte"]))
            # answers of an earlier session replayed
            ops = [dict(name="auth", pw=good), dict(name="auth", pw=good, script=[(1, "replay", 1)]),
                   dict(name="auth", pw=good, script=[(2, "replay", 2)]), dict(name="auth", pw=PW("kC", "kC"), script=[(1, "replay", 1)]),
                   dict(name="auth", pw=good)]
            add(product, ops, "-replay", init=dict(key=["kA", "kB"]))
            add(product, [dict(name="auth", pw=PW("kC", "kB"), script=[(1, "flip", [5])]), dict(name="auth", pw=good)], "-wrongkey-mod",
                init=dict(key=["kA", "kB"]))
        else:
            ops = [dict(name="auth", pw=good, script=[(1, "flip", [bit])]) for bit in range(16)] + [dict(name="auth", pw=good)]
            add(product, ops, "-tamper", init=dict(key=["kA", "kB"]), nak=rnd.choice(["timeout", "byte"]))
    return out


def scenarios_c03(tier, seed):
    """lock bits, factory-default formatting, confinement of protect(): what is written where, in which order"""
    rnd = random.Random("vendor-c03/%d" % seed)
    quick = tier == "quick"
    out = []

    def add(product, ops, tag="", **kw):
        out.append(dict(id="w%04d-%s%s" % (len(out), product, tag), product=product, ops=ops, **kw))

    good = PW("kA", "kB")
    for product in sorted(FAMILY):
        fam = FAMILY[product]
        for nak in ("timeout", "byte"):
            if fam == "n203" and nak == "timeout":
                continue                                   # nfcpy identifies an NTAG203 by the NAK byte to GET_VERSION
            for ini in (dict(), dict(fmt=False), dict(ro=True), dict(slock=True)):
                tagn = "-" + "".join("%s%s" % kv for kv in sorted(ini.items())) + "-" + nak
                add(product, [dict(name="lock"), dict(name="ndef"), dict(name="lock"), dict(name="ndef")], "-lock" + tagn, init=ini, nak=nak)
            # lock bits with a cut at every write
            for k in range(1, 5):
                add(product, [dict(name="lock", cut_after=k), dict(name="ndef"), dict(name="lock"), dict(name="ndef")],
                    "-lock-cut%d-%s" % (k, nak), nak=nak)
            if fam in ("ulc", "ntag"):            # (protect(password) of the EV1 classes is C20's vendor stage)
                # lock bits on a password protected tag (authenticated or not), and a password after the lock bits
                for rp in (False, True):
                    add(product, [dict(name="lock"), dict(name="auth", pw=good), dict(name="lock"), dict(name="ndef"),
                                  dict(name="protect", pw=PW("kC", "kC"), rp=False, pf=0)],
                        "-lock-protected-%s-%s" % ("rp" if rp else "wp", nak), init=dict(key=["kA", "kB"], auth0=3, prot=rp), nak=nak)
                add(product, [dict(name="lock"), dict(name="protect", pw=good, rp=False, pf=0), dict(name="auth", pw=good)],
                    "-lock-then-protect-" + nak, nak=nak, imm=rnd.random() < 0.5)
                for pf in (0, 3, 4, 255):
                    for rp in (False, True):
                        add(product, [dict(name="protect", pw=good, rp=rp, pf=pf), dict(name="ndef"), dict(name="lock"), dict(name="ndef")],
                            "-protect-then-lock-pf%d-%s-%s" % (pf, "rp" if rp else "wp", nak), nak=nak,
                            init=dict(fmt=rnd.random() < 0.7, ro=rnd.random() < 0.2))
            if fam in ("ntag", "n203"):
                for ini in (dict(tlv="broken"), dict(), dict(fmt=False), dict(fmt=False, tlv="broken"), dict(ro=True, tlv="broken"),
                            dict(ro=True), dict(slock=True, tlv="broken")):
                    tagn = "-" + "".join("%s%s" % kv for kv in sorted(ini.items())) + "-" + nak
                    for wipe in (None, 0x5A):
                        add(product, [dict(name="format", wipe=wipe), dict(name="ndef"), dict(name="format", wipe=wipe)],
                            "-format%s%s" % (tagn, "-wipe" if wipe is not None else ""), init=ini, nak=nak)
                for k in (1, 2):
                    add(product, [dict(name="format", cut_after=k), dict(name="ndef"), dict(name="format")],
                        "-format-cut%d-%s" % (k, nak), init=dict(tlv="broken"), nak=nak)
                if fam == "ntag":
                    # formatting a password protected tag: authenticated or not
                    for authd in (False, True):
                        ops = ([dict(name="auth", pw=good)] if authd else []) + [dict(name="format"), dict(name="ndef")]
                        for rp in (False, True):
                            add(product, ops, "-format-protected-%s-%s-%s" % ("auth" if authd else "anon", "rp" if rp else "wp", nak),
                                init=dict(key=["kA", "kB"], auth0=3, prot=rp, tlv="broken"), nak=nak)
    if quick:
        keep = []
        for sc in out:
            p = sc["product"]
            if p in ("ULC", "NTAG203", "NTAG213", "NTAG210", "MF0UL11", "MF0UL21") or rnd.random() < 0.35:
                keep.append(sc)
        out = keep
    return out


# ------------------------------------------------------------------------------------------------------
# validation against Trace_TagVendor, canonical keys, self-test

CLSNAME = {"ulc": "MifareUltralightC", "ntag": "NTAG21x", "ev1": "MifareUltralightEV1", "n203": "NTAG203"}
OPN = {"auth": "authenticate", "protect": "protect(password)", "lock": "protect(lockbits)", "format": "format", "ndef": "ndef"}


def op_at(tr, line):
    for e in tr["ev"][:line][::-1]:
        if e["a"] == "Start":
            return e["op"]
        if e["a"] == "Ndef":
            return "ndef"
    return "?"


def classify(tr, line, act, why):
    """canonical key: class : operation : what (never a seed, an id or a page number of one product)"""
    ev = tr["ev"][line - 1]
    cls = CLSNAME[tr["init"]["prod"]]
    opn = OPN.get(op_at(tr, line), "?")
    if why and why[0] == "inv":
        out = ev.get("out") if act == "Check" else None
        if out in (None, "-"):
            for e in tr["ev"][line - 1:]:
                if e["a"] == "Return":
                    out = e["res"]
                    break
        key = "%s:%s:%s:%s" % (cls, opn, "+".join(why[1]), out)
        if opn == "format":
            # on which kind of tag: the capability container and the TLV area as they were when format() began
            prev = [e for e in tr["ev"][:line] if e["a"] == "Return"]
            cc = prev[-1]["cc"] if prev else tr["init"]["cc"]
            tlv_ok = tr["init"]["tlv"] == "ok" or (prev and prev[-1]["user"] == "dflt")
            key += "@" + ("no-ndef-cc" if not tr["init"]["fmt"] else
                          ("read-only-cc" if cc["lo"] else "cc-%s" % "".join(sorted(k for k in cc if cc[k]))) +
                          (",tlv-ok" if tlv_ok else ",tlv-broken"))
        return key
    what = act + ("-" + ev["c"] if act in ("Write", "Read") else "")
    return "%s:%s:conformance:%s-not-as-specified@%s" % (cls, opn, what, why[1] if len(why) > 1 else "?")


def sig_of(tr, line, act, why):
    """the (invariant, operation, outcome) signatures to step over on the next pass"""
    op = op_at(tr, line)
    out = None
    for e in tr["ev"][line - 1:]:
        if e["a"] == "Check" and e is tr["ev"][line - 1] and e["out"] != "cont":
            out = e["out"]
            break
        if e["a"] == "Return":
            out = e["res"]
            break
    return [[n, op, out] for n in why[1]]


def validate(ck, module_tag, traces, by_id, self_t, timeout=900, shards=6):
    """-> (#conforming traces, TLC stats, {id: [keys]}).  A trace rejected by an invariant is reported under its
    canonical key and validated again with that (invariant, operation, outcome) stepped over, so that the rest of the
    execution is still checked; anything else (a command, value or state the model does not have) ends the trace."""
    from vlib import tlc
    total = dict(states=0, transitions=0)
    found, bad = {}, set()
    pending, extra = list(traces), list(self_t)
    for pass_no in range(6):
        if not pending:
            break
        verdicts, st = tlc.validate_traces("Trace_TagVendor.tla", "Trace_TagVendor.cfg", module_tag, pending + extra,
                                           shards=shards if pass_no == 0 else 3, timeout=timeout)
        total["states"] += st["states"]
        total["transitions"] += st["transitions"]
        for t in extra:
            if verdicts[t["id"]][0] == "ACCEPT":
                raise tlc.TLCError("binding vacuous: corrupted trace %s accepted" % t["id"])
        extra, nxt = [], []
        for tr in pending:
            v = verdicts[tr["id"]]
            if v[0] == "ACCEPT":
                continue
            line, act, why = v[1], v[2], v[3]
            key = classify(tr, line, act, why)
            found.setdefault(tr["id"], []).append(key)
            ck.violation(key, "trace %s rejected at event %d (%s): %s ; event=%s" % (
                tr["id"], line, act, json.dumps(why)[:400],
                json.dumps({k: x for k, x in tr["ev"][line - 1].items() if k in ("a", "op", "c", "v", "ok", "out", "res", "view")})),
                replay=dict(kind="vendor-nxp", scenario=by_id[tr["id"]]))
            if not (why and why[0] == "inv"):
                bad.add(tr["id"])
                continue
            sigs = sig_of(tr, line, act, why)
            if all(sg in tr["tol"] for sg in sigs):
                bad.add(tr["id"])
                continue
            nxt.append(dict(tr, tol=tr["tol"] + [sg for sg in sigs if sg not in tr["tol"]]))
        pending = nxt
    return len(traces) - len(bad), total, found


def selftest_traces(traces):
    """one recorded trace with a corrupted field, one with a dropped event, one with a hidden modification"""
    out = []
    base = next(t for t in traces if "-protect-pf" in t["id"] and t["init"]["prod"] in ("ntag", "ulc")
                and any(e["a"] == "Return" and e["res"] == "True" for e in t["ev"][:40]))
    t1 = json.loads(json.dumps(base))
    for e in t1["ev"]:
        if e["a"] == "Write" and "auth0" in e["v"]:
            e["v"]["auth0"] += 1                      # another AUTH0 than the one protect_from asks for
            break
    t1["id"] = base["id"] + "#corrupt"
    out.append(t1)
    t2 = json.loads(json.dumps(base))
    for i, e in enumerate(t2["ev"]):
        if e["a"] == "Write":
            del t2["ev"][i]                           # a WRITE the trace does not show
            break
    t2["id"] = base["id"] + "#dropped"
    out.append(t2)
    t3 = json.loads(json.dumps(base))
    for e in t3["ev"]:
        if e["a"] == "Return" and e["res"] == "True":
            e["eprot"] = not e["eprot"]               # the tag's effective PROT differs from what was asked for
            break
    t3["id"] = base["id"] + "#state"
    out.append(t3)
    tam = next((t for t in traces if t["id"].endswith("-tamper") and any(e["a"] == "AdvFlip" for e in t["ev"])), None)
    if tam is not None:
        t4 = json.loads(json.dumps(tam))
        for i, e in enumerate(t4["ev"]):
            if e["a"] == "AdvFlip":
                del t4["ev"][i]                       # a modification the trace hides: the False result is unexplained
                break
        t4["id"] = tam["id"] + "#hidden-tamper"
        out.append(t4)
    return out


def execute(scs, seed):
    traces, by_id, results, harness = [], {}, {}, []
    for sc in scs:
        tr, res, w = run_scenario(sc, seed)
        traces.append(tr)
        by_id[sc["id"]] = sc
        results[sc["id"]] = res
        for key, what in w.findings:
            harness.append((key, "%s: %s" % (sc["id"], what), sc))
        if getattr(w, "unapplied", 0):
            raise HarnessError("adversary script without effect in %s" % sc["id"])
    return traces, by_id, results, harness


def replay(rep, args, pid):
    from vlib import tlc
    sc = rep["replay"]["scenario"]
    for o in sc["ops"]:
        if "script" in o:
            o["script"] = [tuple(x) for x in o["script"]]
    tr, res, w = run_scenario(sc, rep.get("seed", 1))
    verdicts, st = tlc.validate_traces("Trace_TagVendor.tla", "Trace_TagVendor.cfg", pid + "_replay", [tr], shards=1)
    v = verdicts[tr["id"]]
    print("results:", list(zip([o["name"] for o in sc["ops"]], res)))
    print("replay verdict:", v)
    if v[0] != "ACCEPT":
        print("event:", json.dumps({k: x for k, x in tr["ev"][v[1] - 1].items() if x not in ("-", 0, [], {})}))
        print("key:", classify(tr, v[1], v[2], v[3]))
        print("VIOLATION property=%s replay=%s" % (pid, args.replay))
        return 1
    return 0


def selftest_traces_c03(traces):
    out = []
    base = next(t for t in traces if "-lock--" in t["id"] and t["init"]["prod"] in ("ntag", "ulc")
                and any(e["a"] == "Return" and e["res"] == "True" for e in t["ev"][:12]))
    t1 = json.loads(json.dumps(base))
    for e in t1["ev"]:
        if e["a"] == "Write" and e["c"] == "slock":
            e["v"]["all"] = False                     # not every static lock bit set
            break
    t1["id"] = base["id"] + "#corrupt"
    out.append(t1)
    t2 = json.loads(json.dumps(base))
    for i, e in enumerate(t2["ev"]):
        if e["a"] == "Write" and e["c"] == "cc":
            del t2["ev"][i]                           # the CC write the trace does not show
            break
    t2["id"] = base["id"] + "#dropped"
    out.append(t2)
    t3 = json.loads(json.dumps(base))
    for e in t3["ev"]:
        if e["a"] == "Write" and e["c"] == "dlock":
            e["c"] = "u5"                             # a write outside the documented lock pages
            break
    else:
        for e in t3["ev"]:
            if e["a"] == "Write" and e["c"] == "slock":
                e["c"] = "u5"
                break
    t3["id"] = base["id"] + "#elsewhere"
    out.append(t3)
    return out
