"""C15 -- the frontend never lets two threads drive the device at once.

Spec      spec/ClfLock.tla (threads x public operations x lock regions; Mutex, HolderOnly, NotAfterClose).
Static    bind/c15_extract.py derives the segment table (every syntactic `self.device.<m>()` call, its
          enclosing function, lock region and device test) from the CURRENT nfc/clf/__init__.py; the table is
          substituted for ClfLock's constants in a generated root module and model-checked by TLC.
Dynamic   pairs (thorough: also triples) of application threads run the public entry points of ONE real
          ContactlessFrontend over sim.clfdev.SimDevice under the baton scheduler sim.clfsched (switch at
          every lock operation, driver-call boundary and sleep); Begin/End/Acq/Rel/Enter/Exit events are
          validated by Trace_ClfLock with all invariants as step post-conditions.  Every dynamic driver call
          must map to an extracted call site (otherwise: machinery failure, extractor incomplete).
A site that violates an invariant is reported once under a canonical key naming the call site and is then
waived so that exploration continues behind it.
"""
import os, sys, json, shutil, random, traceback, errno, itertools
from vlib import tlc, check, SPEC, OUT, SRC
from bind import c15_extract
from sim import clfdev, clfsched

import nfc
import nfc.clf
import nfc.clf.device
import nfc.dep
import nfc.llcp.llc
import nfc.tag

import logging
logging.getLogger("nfc").addHandler(logging.NullHandler())
logging.getLogger("nfc").propagate = False    # the stack logs every lost frame as a warning

PID = "C15"
CLF_FILE = os.path.realpath(os.path.join(SRC, "nfc", "clf", "__init__.py"))
THREADS = ["A", "B", "C"]


class HarnessError(RuntimeError):
    pass


# ------------------------------------------------------------------------------------------------
# generated root modules

def gen_dir():
    d = os.path.join(OUT, PID, "gen_%d" % os.getpid())
    os.makedirs(d, exist_ok=True)
    for f in ("ClfLock.tla", "Trace_ClfLock.tla"):
        shutil.copy(os.path.join(SPEC, f), os.path.join(d, f))
    return d


def write_models(d, ex, waived, nthreads):
    defs = c15_extract.tla_defs(ex)
    wv = "{" + ", ".join('"%s"' % w for w in sorted(waived)) + "}"
    th = "{" + ", ".join('"%s"' % t for t in THREADS[:nthreads]) + "}"
    consts = ("CONSTANTS\n  Thread = %s\n  Ops <- d_Ops\n  OpSegs <- d_OpSegs\n  SiteM <- d_SiteM\n  CloseClears <- d_CloseClears\n"
              "  Waived <- d_Waived\n")
    with open(os.path.join(d, "MC_ClfLock.tla"), "w") as f:
        f.write("---- MODULE MC_ClfLock ----\nEXTENDS ClfLock\n%sd_Waived == %s\n====\n" % (defs, wv))
    with open(os.path.join(d, "TR_ClfLock.tla"), "w") as f:
        f.write("---- MODULE TR_ClfLock ----\nEXTENDS Trace_ClfLock\n%sd_Waived == %s\n====\n" % (defs, wv))
    inv = "INVARIANT TypeOK\nINVARIANT Consistent\nINVARIANT Mutex\nINVARIANT HolderOnly\nINVARIANT NotAfterClose\n"
    with open(os.path.join(d, "MC_ClfLock.cfg"), "w") as f:
        f.write("SPECIFICATION Spec\n" + consts % th + inv + "CHECK_DEADLOCK FALSE\n")
    with open(os.path.join(d, "MC_ClfLock_mutex.cfg"), "w") as f:
        f.write("SPECIFICATION Spec\n" + consts % ('{"A", "B"}') + "INVARIANT Mutex\nCHECK_DEADLOCK FALSE\n")
    with open(os.path.join(d, "MC_ClfLock_reach.cfg"), "w") as f:
        f.write("SPECIFICATION Spec\n" + consts % ('{"A", "B"}') + "CHECK_DEADLOCK FALSE\n")
    with open(os.path.join(d, "TR_ClfLock.cfg"), "w") as f:
        f.write("SPECIFICATION TSpec\n" + consts % ('{"A", "B", "C"}') + "CONSTRAINT Done\nCHECK_DEADLOCK FALSE\n")


def site_of_error_trace(res, inv, waived=()):
    """the call site to blame in a TLC counterexample (final state): HolderOnly/Mutex - a judged thread inside
    the driver that does not own the lock; NotAfterClose - the site that entered late or the close() that
    overtook a running call"""
    if not res.error_trace:
        return None, ""
    from vlib import tlaval
    act, state = res.error_trace[-1]
    st = {}
    for c in state.split("/\\ ")[1:]:
        name, _, val = c.strip().partition(" = ")
        try:
            st[name] = tlaval.parse(val)
        except Exception:
            st[name] = val
    pc, lock = st.get("pc", {}), st.get("lock")
    text = "\n".join("%s :: %s" % (a, " ".join(s_.split())) for a, s_ in res.error_trace)
    inside = [(t, p) for t, p in sorted(pc.items()) if isinstance(p, dict) and p.get("site")]
    if inv == "NotAfterClose":
        for t, p in inside:
            if p.get("late") and p["site"] not in waived:
                return p["site"], text
        for t, p in inside:
            if p.get("hit") and p["hit"] not in waived:
                return p["hit"], text
        return None, text
    judged = [(t, p) for t, p in inside if p["site"] not in waived]
    for t, p in judged:
        if lock != t:
            return p["site"], text
    for t, p in judged:
        return p["site"], text
    return None, text


def model_check(ck, d, ex, nthreads, timeout):
    """iterate: run TLC, blame + waive the offending site, until the table is clean.  Returns
    {site: (invariant, counterexample text)}."""
    waived, found = set(), {}
    for rnd in range(12):
        write_models(d, ex, waived, nthreads)
        # one worker: breadth-first order, hence the counterexample and the state counts, are reproducible
        r = tlc.run("MC_ClfLock.tla", "MC_ClfLock.cfg", PID + "/mc", workers=1, timeout=timeout, cwd=d)
        ck.cover(states=r.distinct, transitions=r.generated)
        if r.ok:
            ck.cover(mc_depth=r.depth, mc_threads=nthreads, mc_rounds=rnd + 1)
            return found, waived, r
        if r.deadlock or not r.violated:
            raise tlc.TLCError("ClfLock: unexpected TLC result\n" + r.out[-2000:])
        inv = r.violated[0]
        if inv in ("TypeOK", "Consistent"):
            raise tlc.TLCError("ClfLock model is broken: %s violated\n%s" % (inv, r.out[-3000:]))
        site, text = site_of_error_trace(r, inv, waived)
        if site is None or site in waived:
            raise tlc.TLCError("cannot attribute %s violation to a call site\n%s" % (inv, r.out[-3000:]))
        # the two-thread interleaving that makes the race visible (Mutex alone)
        write_models(d, ex, waived, 2)
        m = tlc.run("MC_ClfLock.tla", "MC_ClfLock_mutex.cfg", PID + "/mcm", workers=1, timeout=timeout, cwd=d)
        mtext = ""
        if m.violated:
            _, mtext = site_of_error_trace(m, "Mutex", waived)
        found[site] = (inv, text, mtext)
        waived.add(site)
    raise tlc.TLCError("too many defective call sites: %s" % sorted(waived))


# ------------------------------------------------------------------------------------------------
# dynamic part: recording harness

class Field(clfdev.Nothing):
    """several things in the field at once; requests are routed by what they are"""

    def __init__(self, parts):
        self.parts = parts

    def sense(self, dev, kind, target):
        for p in self.parts:
            r = p.sense(dev, kind, target)
            if r is not None:
                return r
        return None

    def listen(self, dev, kind, target, timeout):
        for p in self.parts:
            r = p.listen(dev, kind, target, timeout)
            if r is not None:
                return r
        return None

    def _route(self, data, dep_marker):
        b = bytes(data or b"")
        is_dep = dep_marker in (b[1:2], b[2:3])
        for p in self.parts:
            if isinstance(p, clfdev.Peer) == is_dep:
                yield p

    def command(self, dev, data, timeout):
        for p in self._route(data, b"\xD4"):
            try:
                return p.command(dev, data, timeout)
            except dev.ns.TimeoutError:
                continue
        raise dev.ns.TimeoutError("nobody answers")

    def response(self, dev, data, timeout):
        for p in self._route(data, b"\xD5"):
            try:
                return p.response(dev, data, timeout)
            except dev.ns.TimeoutError:
                continue
        raise dev.ns.TimeoutError("nobody asks")


class Counter(object):
    """terminate() callback: true from the n-th poll on"""

    def __init__(self, at):
        self.n, self.at = 0, at

    def __call__(self):
        self.n += 1
        return self.n > self.at


class Run(object):
    """one schedule: fresh frontend + device + field, programs in logical threads, events recorded"""

    def __init__(self, ex, progs, plan):
        self.ex, self.progs = ex, progs
        self.ev = []
        self.indrv = []
        self.devstate = "open"
        self.unknown_sites = []
        self.sch = clfsched.Baton(plan)
        self.clock = clfdev.Clock()
        self.clock.on_sleep = lambda d: self.sch.point()
        parts = []
        need = set()
        for p in progs:
            need |= set(PROGRAMS[p][1])
        if "tag" in need:
            parts.append(clfdev.T2Tag(4))
        if "peer-target" in need:
            parts.append(clfdev.Peer("target", 2))
        if "peer-initiator" in need:
            parts.append(clfdev.Peer("initiator", 2))
        if "reader" in need:
            parts.append(clfdev.Reader(2))
        self.field = Field(parts)
        self.clf = nfc.clf.ContactlessFrontend()
        self.lock = clfsched.OwnerLock(self.sch, self.on_lock)
        self.clf.lock = self.lock
        self.dev = self.new_device()
        self.clf.device = self.dev
        self.init = dict(dev="open")

    def new_device(self):
        dev = clfdev.SimDevice(nfc.clf, self.field, self.clock)
        dev.observer = self.on_driver
        return dev

    # -- event recording (runs in the logical thread that holds the baton) ------------------------
    def emit(self, a, t, op="", site="", m="", held=False, nodev=False, ok=True):
        owner = self.lock.owner.name if self.lock.owner is not None else "free"
        self.ev.append(dict(a=a, t=t, op=op, site=site, m=m, held=bool(held), nodev=bool(nodev), sites=[], ok=bool(ok),
                            devnone=self.clf.device is None,
                            lock=owner, indrv=sorted(self.indrv), dev=self.devstate))

    def on_lock(self, what, name):
        if what == "Acq":
            self.emit("Acq", name)
        else:
            # logged before the owner is cleared: fix the post-state by hand
            self.emit("Rel", name)
            self.ev[-1]["lock"] = "free"

    def caller_site(self, method):
        f = sys._getframe(2)
        while f is not None:
            if os.path.realpath(f.f_code.co_filename) == CLF_FILE:
                s = self.ex.lookup(f.f_code.co_name, f.f_lineno, method)
                if s is None:
                    self.unknown_sites.append((f.f_code.co_name, f.f_lineno, method))
                    return None
                return s
            f = f.f_back
        self.unknown_sites.append(("<not from clf>", 0, method))
        return None

    def on_driver(self, phase, method, info):
        me = self.sch.me()
        if phase == "enter":
            site = self.caller_site(method)
            self.sch.point()                      # preemption between fetching self.device and the call
            held = self.lock.owner is me
            self.indrv.append(me.name)
            if method == "close":
                self.devstate = "closed"
            self.emit("Enter", me.name, site=site["id"] if site else "?", m=method, held=held)
            self.sch.point()                      # preemption while the driver is talking to the device
        else:
            self.indrv.remove(me.name)
            # ok: the driver method returns normally (called from the driver's `finally`: an exception is in flight
            # exactly when it raised)
            self.emit("Exit", me.name, m=method, ok=sys.exc_info()[0] is None)
            self.sch.point()

    def device_connect(self, path):
        """stands in for nfc.clf.device.connect(path) (driver module function called by open())"""
        self.on_driver("enter", "connect", path)
        try:
            dev = self.new_device()
            self.dev = dev
            return dev
        finally:
            me = self.sch.me()
            self.indrv.remove(me.name)
            self.devstate = "open"
            self.emit("Exit", me.name, m="connect")
            self.sch.point()

    # -- programs ---------------------------------------------------------------------------------
    CLOSERS = ("close", "exit", "open")

    def op(self, name, opname, fn):
        """one public operation of the frontend in thread `name`"""
        self.emit("Begin", name, op=opname)
        # bookkeeping for api_outcomes(): was the frontend closed (by a finished close(), not re-opened) when this
        # call began, and did a close()/open() of ANOTHER thread run while this call was in progress
        st = self.__dict__.setdefault("_cl", dict(closed=False, epoch=0, active={}))
        closed_at_begin = st["closed"]
        epoch0 = st["epoch"]
        others_active = any(t != name for t in st["active"])
        if opname in self.CLOSERS:
            st["active"][name] = opname
            st["epoch"] += 1
        out = dict(api=opname, thread=name, outcome="ret", exc_type="", errno=0, msg="")
        try:
            return fn()
        except clfsched.Abort:
            raise
        except AttributeError as e:
            out.update(outcome="exc", exc_type="AttributeError", msg=str(e)[:80])
            # self.device was None at an unguarded call site: `None.turn_on_led_and_buzzer`
            tb = e.__traceback__
            hit = None
            while tb is not None:
                if os.path.realpath(tb.tb_frame.f_code.co_filename) == CLF_FILE:
                    hit = (tb.tb_frame.f_code.co_name, tb.tb_lineno)
                tb = tb.tb_next
            site = self.ex.lookup(hit[0], hit[1], None) if hit and "NoneType" in str(e) else None
            if site is None:
                self.note_exc(name, opname, e)
            else:
                self.indrv.append(name)
                self.emit("Enter", name, site=site["id"], m=site["method"],
                          held=self.lock.owner is self.sch.me(), nodev=True)
                self.indrv.remove(name)
                self.emit("Exit", name, m=site["method"])
        except IOError as e:
            out.update(outcome="exc", exc_type="IOError", errno=e.errno or 0, msg=str(e)[:80])
            if e.errno != errno.ENODEV:
                self.note_exc(name, opname, e)
        except BaseException as e:          # noqa: incl. SystemExit (llc.run turns an IOError into SystemExit)
            out.update(outcome="exc", exc_type=type(e).__name__, msg=str(e)[:80],
                       documented=isinstance(e, (nfc.clf.CommunicationError, nfc.clf.UnsupportedTargetError)))
            self.note_exc(name, opname, e)
        finally:
            if self.lock.owner is self.sch.cur:
                raise HarnessError("operation %s left the lock held" % opname)
            if opname in self.CLOSERS:
                st["active"].pop(name, None)
                st["epoch"] += 1
                st["closed"] = self.clf.device is None if opname == "open" else True
            out.update(closed_at_begin=closed_at_begin,
                       concurrent_close=bool(others_active or st["epoch"] != epoch0 + (2 if opname in self.CLOSERS else 0)))
            self.outcomes.append(out)
            self.emit("End", name)

    def note_exc(self, name, opname, e):
        self.excs.append((opname, type(e).__name__, str(e)[:80]))

    def execute(self):
        self.excs = []
        self.outcomes = []
        saved = (nfc.clf.time, nfc.dep.time, nfc.llcp.llc.time, nfc.clf.device.connect)
        ft = clfdev.FakeTimeModule(self.clock)
        nfc.clf.time = nfc.dep.time = nfc.llcp.llc.time = ft
        nfc.clf.device.connect = self.device_connect
        try:
            for name, p in zip(THREADS, self.progs):
                fn = PROGRAMS[p][0]
                self.sch.spawn(name, (lambda fn=fn, name=name: fn(self, name)))
            self.sch.run()
        finally:
            nfc.clf.time, nfc.dep.time, nfc.llcp.llc.time, nfc.clf.device.connect = saved
        for t in self.sch.threads:
            if t.exc is not None:
                raise HarnessError("program %s died: %r" % (t.name, t.exc)) from t.exc
        if self.unknown_sites:
            raise HarnessError("extractor incomplete: driver calls from unlisted call sites %s"
                               % sorted(set(self.unknown_sites)))
        # hint for the validator: the driver call sites a thread uses inside each lock region (Acq .. Rel);
        # it only selects the region of the table, every Enter is still checked against that region
        open_acq = {}
        for ev in self.ev:
            if ev["a"] == "Acq":
                open_acq[ev["t"]] = ev
            elif ev["a"] == "Rel":
                open_acq.pop(ev["t"], None)
            elif ev["a"] == "Enter" and ev["t"] in open_acq and ev["site"] not in open_acq[ev["t"]]["sites"]:
                open_acq[ev["t"]]["sites"].append(ev["site"])
        return self.ev


def p_rdwr(beep):
    def prog(run, name):
        def on_connect(tag):
            tag.clf.max_recv_data_size      # what an application / tag module may query from a callback
            return True
        opts = {"targets": ["106A"], "iterations": 1, "interval": 0.01, "on-connect": on_connect,
                "beep-on-connect": beep}
        run.op(name, "connect", lambda: run.clf.connect(rdwr=opts, terminate=Counter(4)))
    return prog


def p_llcp(role):
    def prog(run, name):
        opts = {"role": role, "brs": 1}
        run.op(name, "connect", lambda: run.clf.connect(llcp=opts, terminate=Counter(3)))
    return prog


def p_card(run, name):
    def on_startup(target):
        target.brty = "212F"
        target.sensf_res = bytearray.fromhex("01" "02FE010203040506" "FFFFFFFFFFFFFFFF" "12FC")
        return target
    run.op(name, "connect", lambda: run.clf.connect(card={"on-startup": on_startup}, terminate=Counter(3)))


def p_sense(run, name):
    ts = [nfc.clf.RemoteTarget("106A", atr_req=bytearray(16)), nfc.clf.RemoteTarget("106B"),
          nfc.clf.RemoteTarget("212F"), nfc.clf.RemoteTarget("106A", sel_req=bytearray(4)),
          nfc.clf.RemoteTarget("106A")]
    run.op(name, "sense", lambda: run.clf.sense(*ts, iterations=2, interval=0.01))


def p_listen(run, name):
    ta = nfc.clf.LocalTarget("106A", sens_res=bytearray(b"\x01\x01"), sdd_res=bytearray(b"\x08\x01\x02\x03"),
                             sel_res=bytearray(b"\x00"))
    run.op(name, "listen", lambda: run.clf.listen(ta, 0.05))
    tb = nfc.clf.LocalTarget("106B")
    run.op(name, "listen", lambda: run.clf.listen(tb, 0.05))
    tf = nfc.clf.LocalTarget("212F", sensf_res=bytearray(19))
    run.op(name, "listen", lambda: run.clf.listen(tf, 0.05))
    td = nfc.clf.LocalTarget("106A", atr_res=bytearray(20), sensf_res=bytearray(19))
    run.op(name, "listen", lambda: run.clf.listen(td, 0.05))


def p_xchg(run, name):
    run.op(name, "sense", lambda: run.clf.sense(nfc.clf.RemoteTarget("106A")))
    run.op(name, "exchange", lambda: run.clf.exchange(b"\x30\x00", 0.1))
    run.op(name, "max_send_data_size", lambda: run.clf.max_send_data_size)
    run.op(name, "max_recv_data_size", lambda: run.clf.max_recv_data_size)
    run.op(name, "exchange", lambda: run.clf.exchange(b"\x30\x04", 0.1))


def p_xchg_t(run, name):
    tf = nfc.clf.LocalTarget("212F", sensf_res=bytearray.fromhex("01" "02FE010203040506" "FFFFFFFFFFFFFFFF" "12FC"))
    run.op(name, "listen", lambda: run.clf.listen(tf, 0.05))
    run.op(name, "exchange", lambda: run.clf.exchange(bytearray(b"\x03\x05\x00"), 0.1))


def p_close(run, name):
    run.op(name, "close", lambda: run.clf.close())


def p_close_fail(run, name):
    """close() on a driver whose close() raises the IOError that ContactlessFrontend.close() swallows"""
    dev = run.clf.device
    if dev is not None:
        dev.fail_close = True
    run.op(name, "close", lambda: run.clf.close())


def p_use_after(run, name):
    """what an application thread does next, whatever another thread did to the frontend"""
    run.op(name, "max_send_data_size", lambda: run.clf.max_send_data_size)
    run.op(name, "exchange", lambda: run.clf.exchange(b"\x30\x00", 0.1))
    run.op(name, "close", lambda: run.clf.close())


def p_reopen(run, name):
    run.op(name, "open", lambda: run.clf.open("sim"))
    run.op(name, "sense", lambda: run.clf.sense(nfc.clf.RemoteTarget("106A")))


def p_with(run, name):
    run.op(name, "max_send_data_size", lambda: run.clf.max_send_data_size)
    run.op(name, "exit", lambda: run.clf.__exit__(None, None, None))


PROGRAMS = {
    "rdwr_beep": (p_rdwr(True), ["tag"]),
    "rdwr_nobeep": (p_rdwr(False), ["tag"]),
    "llcp_ini": (p_llcp("initiator"), ["peer-target"]),
    "llcp_tgt": (p_llcp("target"), ["peer-initiator"]),
    "card": (p_card, ["reader"]),
    "sense": (p_sense, ["tag"]),
    "listen": (p_listen, ["reader", "peer-initiator"]),
    "xchg": (p_xchg, ["tag"]),
    "xchg_t": (p_xchg_t, ["reader"]),
    "close": (p_close, []),
    "close_fail": (p_close_fail, []),
    "use_after": (p_use_after, []),
    "reopen": (p_reopen, ["tag"]),
    "with": (p_with, []),
}

def make_plan(spec):
    if spec[0] == "rl":
        return clfsched.RunLengthPlan(spec[1])
    return clfsched.RandomPlan(spec[1], stick=spec[2])


def run_schedule(ex, progs, plan_spec):
    r = Run(ex, progs, make_plan(plan_spec))
    ev = r.execute()
    return dict(id="%s|%s" % ("+".join(progs), json.dumps(plan_spec, separators=(",", ":"))),
                init=r.init, ev=ev), r


def api_outcomes(tier="quick", seed=1):
    """What every public API call of the frontend returned / raised while another thread closes the frontend
    (close() with a clean and with a failing driver close(), __exit__): all single-preemption cuts of
    (API program, closer) in both orders, under the deterministic scheduler.  No TLC involved; used by the
    frontend stage of C13 (bind/c13_frontend.py).  -> list of dicts
      {api, schedule, thread, outcome: "ret"|"exc", exc_type, errno, msg, closed_at_begin, concurrent_close}"""
    ex = c15_extract.extract(SRC)
    closers = ["close", "close_fail", "with"]
    apis = [p for p in sorted(PROGRAMS) if p not in closers]
    npts = {p: points_of(ex, p)[0] for p in apis + closers}
    step = 2 if tier == "quick" else 1
    jobs = []
    for a in apis:
        for c in closers:
            for i in range(0, npts[a] + 1, step):
                jobs.append(([a, c], ("rl", [["A", i], ["B", None], ["A", None]])))
            for i in range(0, npts[c] + 1):
                jobs.append(([c, a], ("rl", [["A", i], ["B", None], ["A", None]])))
    out = []
    for progs, plan in jobs:
        tr, r = run_schedule(ex, progs, json.loads(json.dumps(plan)))
        for o in r.outcomes:
            out.append(dict(o, schedule=tr["id"], progs=progs, plan=plan))
    return out


def points_of(ex, prog):
    """number of scheduling points of a program running alone"""
    tr, r = run_schedule(ex, [prog], ("rl", [["A", None]]))
    return r.sch.threads[0].points, tr


def enumerate_schedules(ex, tier, seed):
    rnd = random.Random(seed)
    names = sorted(PROGRAMS)
    npts = {}
    solo = []
    for p in names:
        npts[p], tr = points_of(ex, p)
        solo.append(([p], ("rl", [["A", None]])))
    jobs = list(solo)
    pairs = [(p, q) for p in names for q in names]
    per_pair = 4 if tier == "quick" else None
    for p, q in pairs:
        cuts = list(range(0, npts[p] + 1))
        if per_pair is not None and len(cuts) > per_pair:
            # always the first and the last cut, the rest drawn with the seed
            mid = cuts[1:-1]
            rnd.shuffle(mid)
            cuts = sorted([cuts[0], cuts[-1]] + mid[:per_pair - 2])
        for i in cuts:
            jobs.append(([p, q], ("rl", [["A", i], ["B", None], ["A", None]])))
    nrand = 100 if tier == "quick" else 1500
    for k in range(nrand):
        n = 2 if (tier == "quick" or k % 3) else 3
        progs = [rnd.choice(names) for _ in range(n)]
        jobs.append((progs, ("rnd", seed * 100003 + k, rnd.choice([0.3, 0.6, 0.85]))))
    # two preemptions: A i points, B j points, A to the end, then B (quick: only pairs with a rdwr connect,
    # whose LED phase is the known weak spot, so that overlapping driver calls are actually observed)
    for p, q in pairs:
        if tier == "quick" and not (p.startswith("rdwr") or q.startswith("rdwr")):
            continue
        for _ in range(4 if tier == "quick" else 6):
            i, j = rnd.randint(0, npts[p]), rnd.randint(1, max(1, npts[q]))
            jobs.append(([p, q], ("rl", [["A", i], ["B", j], ["A", None], ["B", None]])))
    return jobs, npts


# ------------------------------------------------------------------------------------------------
def classify(tr, line, act, why):
    ev = tr["ev"][line - 1]
    kind = why[0] if why else "?"
    site = ev.get("site") or ev.get("op") or "-"
    if kind == "inv":
        invs = list(why[1])
        if len(why) > 2 and why[2] and "HolderOnly" not in invs and "Mutex" not in invs:
            site = why[2]                         # NotAfterClose: the close() site that left a stale reference
        if "HolderOnly" in invs:
            return "unlocked-driver-call:" + site, invs
        if "Mutex" in invs:
            return "overlapping-driver-call:" + site, invs
        if "NotAfterClose" in invs:
            return "driver-call-after-close:" + site, invs
        return "inv:%s:%s" % (",".join(invs), site), invs
    return "%s@%s:%s" % (kind, act, site), []


def validate(ck, d, ex, traces, waived, tag):
    write_models(d, ex, waived, 3)
    return tlc.validate_traces("TR_ClfLock.tla", "TR_ClfLock.cfg", PID + "/" + tag, traces, shards=16,
                               timeout=1800, cwd=d)


def selftest_traces(tr):
    out = []
    t1 = json.loads(json.dumps(tr))
    for ev in t1["ev"]:
        if ev["a"] == "Enter" and ev["held"]:
            ev["held"] = False                       # the proxy claims the caller did not own the lock
            break
    t1["id"] = "selftest-corrupt"
    out.append(t1)
    t2 = json.loads(json.dumps(tr))
    for i, ev in enumerate(t2["ev"]):
        if ev["a"] == "Acq":
            del t2["ev"][i]                          # a lock acquisition is missing from the record
            break
    t2["id"] = "selftest-dropped"
    out.append(t2)
    return out


def run(tier, seed):
    ck = check.Check(PID, tier, seed, "model_checking")
    quick = tier == "quick"
    d = gen_dir()
    try:
        return _run(ck, d, tier, seed, quick)
    finally:
        shutil.rmtree(d, ignore_errors=True)


def _run(ck, d, tier, seed, quick):
    ex = c15_extract.extract(SRC)
    table = ex.table()
    with open(os.path.join(OUT, PID, "CallSites.json"), "w") as f:
        json.dump(table, f, indent=1)
    with open(os.path.join(OUT, PID, "CallSites.tla"), "w") as f:
        f.write("---- MODULE CallSites ----\nEXTENDS TLC\n" + c15_extract.tla_defs(ex) + "====\n")
    ck.cover(call_sites=len(table["sites"]), operations=sorted(table["ops"]),
             unlocked_sites_static=sorted(s["id"] for s in table["sites"] if not s["locked"]))

    # 1. exhaustive: threads x operations x segments on the extracted table
    found, waived_mc, rfinal = model_check(ck, d, ex, 2 if quick else 3, 300 if quick else 900)
    # witnesses on the final (waived) model: the interesting situations are reachable
    need = ["W_InDriverLocked", "W_Waiting", "W_Enodev", "W_Closed", "W_Reopen", "W_TwoOps", "W_CloseFailed"]
    write_models(d, ex, waived_mc, 2)
    hit, _ = tlc.witnesses("MC_ClfLock.tla", "MC_ClfLock_reach.cfg", PID + "/reach", need, cwd=d, timeout=900)
    if set(need) - hit:
        raise tlc.TLCError("vacuous model: witnesses not reached: %s" % sorted(set(need) - hit))
    ck.cover(witnesses_reached=need)

    # 2. dynamic: schedules of the real frontend
    jobs, npts = enumerate_schedules(ex, tier, seed)
    traces, meta, excs = [], {}, {}
    for progs, plan in jobs:
        tr, r = run_schedule(ex, progs, json.loads(json.dumps(plan)))
        if tr["id"] in meta:
            continue
        traces.append(tr)
        meta[tr["id"]] = dict(kind="sched", progs=progs, plan=plan)
        for e in r.excs:
            excs[e[0] + ":" + e[1]] = "%s raised %s: %s (e.g. in %s)" % (e[0], e[1], e[2], tr["id"])
    dyn_sites = {ev["site"] for tr in traces for ev in tr["ev"] if ev["a"] == "Enter"}
    all_sites = {s["id"] for s in table["sites"]}
    ck.cover(sites_exercised=len(dyn_sites & all_sites), sites_not_exercised=sorted(all_sites - dyn_sites),
             program_exceptions=sorted(excs.values())[:12])

    self_t = selftest_traces(next((t for t in traces if any(e["a"] == "Enter" and e["held"] for e in t["ev"])), traces[0]))
    for t in self_t:
        if not t["ev"] or all(t["ev"] != x["ev"] for x in traces):
            continue
        t["ev"][-1]["a"] = "Bogus"          # nothing to corrupt the intended way: make the trace unacceptable anyhow
    waived, reported = set(), {}
    pending = traces + self_t
    accepted, nev, tstates = 0, sum(len(t["ev"]) for t in traces), 0
    for rnd in range(8):
        verdicts, st = validate(ck, d, ex, pending, waived, "tr%d" % rnd)
        tstates += st["states"]
        if rnd == 0:
            for t in self_t:
                if verdicts[t["id"]][0] == "ACCEPT":
                    raise tlc.TLCError("binding vacuous: %s accepted" % t["id"])
            pending = traces
        again, new_waive = [], set()
        for tr in pending:
            v = verdicts.get(tr["id"])
            if v is None:
                continue
            if v[0] == "ACCEPT":
                accepted += 1
                continue
            line, act, why = v[1], v[2], v[3]
            key, invs = classify(tr, line, act, why)
            ev = tr["ev"][line - 1]
            rep = reported.setdefault(key, dict(invs=set(), n=0, best=None, score=-1))
            rep["n"] += 1
            rep["invs"] |= set(invs)
            # representative: prefer a schedule that shows the overlap / the closed device, with two threads
            score = 4 * ("Mutex" in invs) + 2 * ("NotAfterClose" in invs) + (len(meta[tr["id"]]["progs"]) > 1)
            if score > rep["score"]:
                rep["score"] = score
                rep["best"] = (tr, line, act, why, ev, sorted(waived))
            blamed = key.split(":", 1)[1] if invs else None
            if invs and blamed in all_sites:
                new_waive.add(blamed)
                again.append(tr)
        if not again:
            break
        waived |= new_waive
        pending = again
    else:
        raise tlc.TLCError("trace validation did not converge (waived %s)" % sorted(waived))

    for key, rep in sorted(reported.items()):
        tr, line, act, why, ev, wv = rep["best"]
        ck.violation(key, "%d schedules rejected (invariants %s); e.g. trace %s at event %d %s by %s: thread %s is inside "
                     "driver method %s called from %s; lock owner=%s, threads in driver=%s, device=%s%s" % (
                         rep["n"], sorted(rep["invs"]), tr["id"], line, act, json.dumps(why)[:200], ev["t"], ev["m"],
                         ev["site"], ev["lock"], ev["indrv"], ev["dev"],
                         " (self.device was None: AttributeError)" if ev.get("nodev") else ""),
                     replay=dict(meta[tr["id"]], waived=wv))

    # 3. static findings must be confirmed by the real executions (and vice versa they need not be)
    for site, (inv, text, mtext) in sorted(found.items()):
        dyn = [k for k in reported if k.endswith(":" + site)]
        if dyn:
            for k in dyn:
                ck.note("TLC on the extracted table: %s fails at %s; confirmed on the real frontend in %d schedules "
                        "(invariants %s)" % (inv, site, reported[k]["n"], sorted(reported[k]["invs"])))
        else:
            ck.violation("unlocked-driver-call:" + site if inv != "NotAfterClose" else "driver-call-after-close:" + site,
                         "TLC on the call-site table extracted from the current tree: %s violated at %s (site not "
                         "reproduced dynamically: %s)\n%s" % (
                             inv, site, "not exercised" if site not in dyn_sites else "no failing schedule", text),
                         replay=dict(kind="mc", site=site))
    ck.cover(traces_validated_against_impl=accepted, trace_events=nev, trace_states=tstates,
             schedules=len(traces), waived_after_report=sorted(waived | waived_mc),
             binding_selftest="flipped `held` flag and dropped Acq both rejected")
    for site, (inv, text, mtext) in sorted(found.items()):
        ck.sample(dict(tlc_counterexample_for=site, invariant=inv, two_thread_overlap=mtext[-900:]))
    ck.sample(dict(trace=traces[len(PROGRAMS)]["id"], first_events=traces[len(PROGRAMS)]["ev"][:8]))
    ck.sample(dict(table=[(s["id"], s["locked"], s["guarded"]) for s in table["sites"]]))
    ck.assume("scheduling points are lock operations, driver-call boundaries and sleeps (not every bytecode)",
              "schedules: all single-preemption cuts of ordered program pairs%s plus seeded random schedules" % (
                  " (sampled in the quick tier)" if quick else ", two-preemption samples, triples"),
              "a thread may run the segments of an operation in any order, any number of times (over-approximation)",
              "attribute reads of the driver object (__str__) are not driver calls")
    return ck.finish()


def replay(rep, args):
    r = rep["replay"]
    ex = c15_extract.extract(SRC)
    d = gen_dir()
    try:
        if r.get("kind") == "mc":
            write_models(d, ex, set(), 2)
            res = tlc.run("MC_ClfLock.tla", "MC_ClfLock.cfg", PID + "/replay", workers=8, timeout=300, cwd=d)
            print("TLC:", "ok" if res.ok else "violated %s" % res.violated)
            for a, s in (res.error_trace or []):
                print("  ", a, "::", " ".join(s.split()))
            if not res.ok:
                print("VIOLATION property=%s replay=%s" % (PID, args.replay))
                return 1
            return 0
        tr, run_ = run_schedule(ex, r["progs"], r["plan"])
        write_models(d, ex, set(r.get("waived", [])), 3)
        verdicts, _ = tlc.validate_traces("TR_ClfLock.tla", "TR_ClfLock.cfg", PID + "/replay", [tr], shards=1, cwd=d)
        v = verdicts[tr["id"]]
        print("schedule:", "".join(run_.sch.schedule))
        print("replay verdict:", v)
        if v[0] != "ACCEPT":
            for i, ev in enumerate(tr["ev"][max(0, v[1] - 6):v[1]], max(0, v[1] - 6) + 1):
                print("  %3d %s" % (i, json.dumps(ev)))
            print("failing clause:", json.dumps(v[3]))
            print("VIOLATION property=%s replay=%s" % (PID, args.replay))
            return 1
        return 0
    finally:
        shutil.rmtree(d, ignore_errors=True)
