"""C07 -- bytes from the remote peer cannot crash or hang the stack.

Part A: every entry point at which peer-controlled bytes enter the stack is fed exhaustive short strings and
grammar-aware mutations of valid frames; each outcome class is judged by TLC against Robust!Allowed.
Part B: two complete stacks (connect() vs connect(), SNEP traffic; card emulation vs raw reader) run over
the simulated air interface with a man in the middle that replaces one radio frame / one LLCP PDU / one
SNEP fragment by garbage; callbacks, connect() results, thread deaths and stalls are recorded and the life
cycle is validated by TLC against Robust (Trace_Robust).
"""
import subprocess
import os, sys, json, random, struct, threading, traceback, time, collections
import multiprocessing as mp
from vlib import tlc, check

import ndef
import nfc, nfc.clf, nfc.dep, nfc.llcp, nfc.llcp.llc, nfc.snep, nfc.handover, nfc.tag, nfc.tag.tt3
import nfc.llcp.pdu as pdu_mod
from sim import air as AIR

PID = "C07"


# ================================================================================================ part A
def outcome(fn):
    try:
        v = fn()
    except RecursionError:
        return ("raise", "RecursionError")
    except BaseException as e:          # noqa - the class of the escaping exception is the observation
        return ("raise", type(e).__name__)
    return ("none", "-") if v is None else ("value", "-")


def valid_llcp_frames():
    P = pdu_mod
    out = [P.Symmetry(), P.ParameterExchange(0, 0, 0x13, 100, 0x13, 50, 3),
           P.UnnumberedInformation(4, 33, b"hello"), P.Connect(4, 32, 1000, 3, b"urn:nfc:sn:snep"),
           P.Connect(16, 32), P.Disconnect(4, 32), P.ConnectionComplete(32, 4, 300, 2),
           P.DisconnectedMode(32, 4, 2), P.FrameReject(32, 4, 0xF, 12, 3, 4, 5, 6, 7, 8),
           P.ServiceNameLookup(1, 1, sdreq=[(1, b"urn:nfc:sn:x")], sdres=[(2, 16)]),
           P.Information(4, 32, 3, 5, b"data"), P.ReceiveReady(4, 32, 7), P.ReceiveNotReady(4, 32, 1),
           P.AggregatedFrame(0, 0, [P.Information(4, 32, 1, 1, b"ab"), P.ReceiveReady(5, 33, 2)])]
    return [bytes(P.encode(p)) for p in out]


def nested_agf(depth, inner=b"\x00\x00"):
    d = inner
    for _ in range(depth):
        d = b"\x00\x80" + struct.pack(">H", len(d)) + d
    return d


def mutations(valid, rnd, n_random):
    seen = set()
    for v in valid:
        yield v
        for k in range(len(v) + 1):
            yield v[:k]                               # every truncation
        for k in range(len(v)):
            for x in (0x00, 0xFF, v[k] ^ 0x01, v[k] ^ 0x80, (v[k] + 1) & 0xFF, (v[k] - 1) & 0xFF):
                yield v[:k] + bytes([x]) + v[k + 1:]   # boundary substitutions at every position
        yield v + b"\x00"
        yield v + b"\xff\xff\xff"
    for _ in range(n_random):
        base = rnd.choice(valid)
        b = bytearray(base)
        for _ in range(rnd.randint(1, 4)):
            if b:
                b[rnd.randrange(len(b))] = rnd.getrandbits(8)
        if rnd.random() < 0.3:
            b += bytes(rnd.getrandbits(8) for _ in range(rnd.randint(1, 8)))
        yield bytes(b)
        yield bytes(rnd.getrandbits(8) for _ in range(rnd.randint(0, 40)))


def relen(valid, start, rnd):
    """grammar-aware: truncate / extend the body behind the length byte at index `start` and FIX the length byte, so
    that the mutation passes the frame-length check and reaches the PDU decoders"""
    for v in valid:
        head, body = v[:start], v[start + 1:]
        for k in range(len(body) + 1):
            yield head + bytes([(k + 1) & 0xFF]) + body[:k]
        for extra in (1, 2, 5):
            b = body + bytes(rnd.getrandbits(8) for _ in range(extra))
            yield head + bytes([(len(b) + 1) & 0xFF]) + b
        for k in range(len(body)):
            for x in (0x00, 0xFF, body[k] ^ 0x01, body[k] ^ 0x80):
                b = body[:k] + bytes([x]) + body[k + 1:]
                yield head + bytes([(len(b) + 1) & 0xFF]) + b


def dep_obj(role, brty):
    class T(object):
        pass
    t = T()
    t.brty = brty
    o = (nfc.dep.Initiator if role == "I" else nfc.dep.Target)(clf=None)
    o.target = t
    return o


def valid_dep_frames(role, brty):
    """frames the given role RECEIVES (responses for the initiator, requests for the target), as raw bytes"""
    nfcid3 = bytes(range(10))
    gb = b"Ffm\x01\x01\x13\x02\x02\x00\x64"
    if role == "I":
        bodies = [b"\xD5\x01" + nfcid3 + bytes([0, 0, 0, 8, 0x32]) + gb, b"\xD5\x01" + nfcid3 + bytes([1, 0, 0, 14, 0x00]),
                  b"\xD5\x05\x00", b"\xD5\x07\x00\x00\x00", b"\xD5\x07\x13abc", b"\xD5\x07\x40", b"\xD5\x07\x80",
                  b"\xD5\x07\x90\x05", b"\xD5\x07\x04\x01x", b"\xD5\x07\x08\x07y", b"\xD5\x09", b"\xD5\x09\x01", b"\xD5\x0B"]
    else:
        bodies = [b"\xD4\x00" + nfcid3 + bytes([0, 0, 0, 0x32]) + gb, b"\xD4\x00" + nfcid3 + bytes([1, 0, 0, 0x00]),
                  b"\xD4\x04\x00\x12\x03", b"\xD4\x06\x00\x00\x00", b"\xD4\x06\x11abc", b"\xD4\x06\x40", b"\xD4\x06\x50",
                  b"\xD4\x06\x80", b"\xD4\x06\x90\x05", b"\xD4\x06\x04\x01x", b"\xD4\x08", b"\xD4\x08\x01", b"\xD4\x0A"]
    out = []
    for body in bodies:
        fr = bytes([len(body) + 1]) + body
        out.append((b"\xF0" if brty == "106A" else b"") + fr)
    return out


class _FakeTime(object):
    """clock for the exchange() entry points: a response timeout costs exactly the time waited for"""
    def __init__(self):
        self.t = 1000.0

    def time(self):
        return self.t

    def sleep(self, dt):
        self.t += max(0.0, dt)


class _ScriptClf(object):
    """contactless frontend that answers with the scripted frames and is silent afterwards"""
    def __init__(self, clock, frames):
        self.clock, self.frames, self.calls = clock, list(frames), 0

    def exchange(self, data, timeout):
        self.calls += 1
        if self.calls > 200:
            raise RuntimeError("exchange() does not terminate")
        if self.frames:
            self.clock.t += 0.0005
            return bytearray(self.frames.pop(0))
        self.clock.t += max(0.0005, timeout or 0)
        raise nfc.clf.TimeoutError("silence")


def dep_exchange(role, brty, did, frames, clock, chain=False):
    """one exchange() of an activated NFC-DEP endpoint against scripted peer frames"""
    o = dep_obj(role, brty)
    o.clf = _ScriptClf(clock, frames)
    o.did, o.nad, o.pni, o.miu, o.rwt = did, None, 0, 8 if chain else 60, 0.005
    if role == "I":
        o._acm = False
        return o.exchange(bytearray(b"\x00\x00" if not chain else bytes(20)), timeout=0.1)
    o.acm, o.cmd = False, None
    return o.exchange(bytearray(b"\x00\x00" if not chain else bytes(20)), timeout=0.1)


def make_emu():
    tgt = nfc.clf.LocalTarget("212F")
    tgt.sensf_res = bytearray(b"\x01" + bytes.fromhex("02FE010203040506") + bytes.fromhex("FFFFFFFFFFFFFFFF") + b"\x12\xFC")
    tgt.tt3_cmd = bytearray.fromhex("0602FE010203040506"[2:])
    tgt.tt3_cmd = bytearray(b"\x00\xff\xff\x00\x00")
    emu = nfc.tag.tt3.Type3TagEmulation(None, tgt)
    mem = bytearray(16 * 12)
    mem[0:16] = bytes.fromhex("10 04 01 00 0b 00 00 00 00 00 01 00 00 10 00 31".replace(" ", ""))

    def rd(block, rb, re):
        if block < len(mem) // 16:
            return mem[block * 16:(block + 1) * 16]

    def wr(block, data, wb, we):
        if block < len(mem) // 16:
            mem[block * 16:(block + 1) * 16] = data
            return True
        return False
    emu.add_service(0x0009, rd, wr)
    emu.add_service(0x000B, rd, lambda *a: False)
    return emu


def valid_tt3_cmds():
    idm = bytes.fromhex("02FE010203040506")
    cmds = [bytes([6, 0, 0xFF, 0xFF, 1, 0]), bytes([6, 0, 0x12, 0xFC, 0, 0]),
            bytes([0, 0x04]) + idm,
            bytes([0, 0x06]) + idm + bytes([1, 0x0B, 0x00, 2, 0x80, 0x00, 0x80, 0x01]),
            bytes([0, 0x06]) + idm + bytes([1, 0x0B, 0x00, 1, 0x00, 0x02, 0x00]),
            bytes([0, 0x08]) + idm + bytes([1, 0x09, 0x00, 1, 0x80, 0x01]) + bytes(16),
            bytes([0, 0x0C]) + idm, bytes([0, 0x02]) + idm + bytes([1, 0x0B, 0x00])]
    return [bytes([len(c)]) + c[1:] for c in cmds]


def grammar_tt3_cmds(quick):
    """well-formed Read/Write Without Encryption commands: 1..16 block list elements (2- and 3-byte form), one or two
    services, with one element that the tag must refuse (block number beyond the memory, service index beyond the
    list, non-zero access mode, read-only service) at every list position"""
    idm = bytes.fromhex("02FE010203040506")
    out = []
    for code in (0x06, 0x08):
        for svcs in ((0x0009,), (0x000B,), (0x0009, 0x000B)):
            sl = bytes([len(svcs)]) + b"".join(struct.pack("<H", x) for x in svcs)
            for n in range(1, 17):
                for bad in [None] + list(range(n)):
                    for kind in ("blk", "svc", "acc") if bad is not None else ("-",):
                        if quick and bad is not None and kind != "blk" and bad not in (0, 7, 8, n - 1):
                            continue
                        for three in (False, True):
                            els = b""
                            for i in range(n):
                                blk, sidx, acc = i % 12, 0, 0
                                if i == bad:
                                    blk, sidx, acc = (200, 0, 0) if kind == "blk" else (blk, 5, 0) if kind == "svc" else (blk, 0, 3)
                                b0 = (0 if three else 0x80) | acc << 4 | sidx
                                els += bytes([b0, blk]) + (b"\x00" if three else b"")
                            c = bytes([0, code]) + idm + sl + bytes([n]) + els + (bytes(range(16)) * n if code == 0x08 else b"")
                            if len(c) < 256:
                                out.append(bytes([len(c)]) + c[1:])
    return out


def part_a(tier, seed):
    """returns Counter[(entry, cls, exc)] and samples {key: hex}"""
    rnd = random.Random(seed)
    quick = tier == "quick"
    cnt, samples = collections.Counter(), {}
    n_rand = 3000 if quick else 60000

    def feed(entry, fn, data):
        k = (entry,) + outcome(lambda: fn(data))
        cnt[k] += 1
        if k not in samples or len(data) < len(samples[k]) // 2:
            samples[k] = bytes(data).hex()

    # LLCP PDUs: all strings of <= 2 bytes, mutations, nesting up to the largest frame
    short = [bytes([a]) for a in range(256)] + [bytes([a, b]) for a in range(256) for b in range(256)] + [b""]
    llcp = valid_llcp_frames()
    for d in short:
        feed("pdu.decode", pdu_mod.decode, d)
    for d in mutations(llcp, rnd, n_rand):
        feed("pdu.decode", pdu_mod.decode, d)
    for depth in (1, 2, 10, 100, 300, 450, 500, 520, 540):
        d = nested_agf(depth)
        if len(d) <= 2177:
            feed("pdu.decode", pdu_mod.decode, d)
    # dispatch() of everything that decodes
    llc = nfc.llcp.llc.LogicalLinkController(sec=False)
    llc.cfg["send-miu"], llc.cfg["llcp-dpc"] = 128, 0
    s1 = nfc.llcp.Socket(llc, nfc.llcp.DATA_LINK_CONNECTION)
    s1.bind(b"urn:nfc:sn:x")
    s1.listen(2)
    s2 = nfc.llcp.Socket(llc, nfc.llcp.LOGICAL_DATA_LINK)
    s2.bind(33)
    # grammar: parameter values that are legal on the wire but unusual for text handling (names are octet strings)
    P = pdu_mod
    odd_names = [b"", b"urn:nfc:sn:caf\xe9", b"\xff\xfe\x00", b"urn:nfc:sn:" + b"x" * 200, b"\x80" * 255, b"urn:nfc:sn:x\x00y",
                 b"n" * 253, b"n" * 254, b"n" * 255]          # the longest values the one-octet TLV length allows
    odd = []
    for nm in odd_names:
        odd.append(P.Connect(1, 33, 300, 2, nm))
        odd.append(P.Connect(16, 33, sn=nm))
        if len(nm) <= 254:
            odd.append(P.ServiceNameLookup(1, 1, sdreq=[(1, nm)]))
    odd_frames = []
    for q in odd:
        try:
            odd_frames.append(bytes(P.encode(q)))
        except Exception:
            pass
    # the same frames built by hand (the encoder of the code under test must not be what decides which inputs exist)
    for nm in odd_names:
        if len(nm) <= 254:
            odd_frames.append(struct.pack(">H", 1 << 10 | 0b1001 << 6 | 1) + bytes([0x08, 1 + len(nm), 7]) + nm)      # SNL SDREQ
        if len(nm) <= 255:
            odd_frames.append(struct.pack(">H", 1 << 10 | 0b0100 << 6 | 33) + bytes([0x06, len(nm)]) + nm)            # CONNECT SN
    dispatched = list(mutations(llcp, rnd, n_rand // 4)) + odd_frames
    for d in dispatched:
        try:
            p = pdu_mod.decode(d)
        except Exception:
            continue
        variants = [p]
        if p.name not in ("AGF", "SYMM") and len(d) < 120:
            try:                                   # the same PDU as a member of an aggregated frame
                variants.append(pdu_mod.decode(bytes(P.encode(P.AggregatedFrame(0, 0, [p, P.ReceiveReady(5, 33, 2)])))))
            except Exception:
                pass
        for q in variants:
            k = ("llc.dispatch",) + outcome(lambda: (llc.dispatch(q), True)[1])
            cnt[k] += 1
            samples.setdefault(k, d.hex())
            outcome(lambda: llc.collect())          # keep the queues drained
            # every PDU is rendered by the logging calls of the stack (dispatch() does so for aggregated PDUs at any level)
            k = ("pdu.str",) + outcome(lambda: str(q))
            cnt[k] += 1
            samples.setdefault(k, d.hex())
            # ... and compared with other PDUs by the run loops (rcvd_pdu == Disconnect(0, 0))
            k = ("pdu.eq",) + outcome(lambda: (q == P.Disconnect(0, 0), q != P.Symmetry(), True)[2])
            cnt[k] += 1
            samples.setdefault(k, d.hex())

    # NFC-DEP frames at both roles and both framings
    for role in ("I", "T"):
        for brty in ("106A", "212F"):
            o = dep_obj(role, brty)
            entry = "dep.%s.decode_frame" % role
            fn = lambda d, o=o: o.decode_frame(bytearray(d))
            for d in [b""] + [bytes([a]) for a in range(256)]:      # every frame of at most one octet, both framings
                feed(entry, fn, d)
            if not quick or brty == "212F":
                for a in (0xF0, 0x00, 2, 3, 4) if brty == "106A" else range(0, 8):
                    for b in range(256):
                        for c in (0x00, 0xD4, 0xD5, 0xFF):
                            feed(entry, fn, bytes([a, b, c]))
                            feed(entry, fn, bytes([a, c, b]))
            for d in mutations(valid_dep_frames(role, brty), rnd, n_rand // 2):
                feed(entry, fn, d)
            for d in relen(valid_dep_frames(role, brty), 1 if brty == "106A" else 0, rnd):
                feed(entry, fn, d)

    # exchange() of an activated endpoint: the peer's answer(s) to one information PDU are arbitrary frames - every
    # PFB value with and without DID/NAD/payload octets (grammar), mutations of valid frames, and two-frame scripts
    clock = _FakeTime()
    saved_time = nfc.dep.time
    nfc.dep.time = clock
    try:
        for role in ("I", "T"):
            code = b"\xD5\x07" if role == "I" else b"\xD4\x06"
            entry = "dep.%s.exchange" % role
            for brty in ("106A", "212F"):
                def fr(body, brty=brty):
                    f = bytes([len(body) + 1]) + body
                    return (b"\xF0" if brty == "106A" else b"") + f
                scripts = []
                for pfb in range(256) if (not quick or brty == "212F") else range(0, 256, 3):
                    for tail in (b"", b"\x00", b"\x01", b"\x00\x00", b"\x05\x01xyz"):
                        scripts.append([fr(code + bytes([pfb]) + tail)])
                valid = valid_dep_frames(role, brty)
                for v in valid:                                      # every valid answer cut to its first 1..4 octets
                    for k in range(1, 5):
                        scripts.append([v[:k]])
                for d in mutations(valid, rnd, n_rand // 6):
                    scripts.append([d])
                for _ in range(n_rand // 6):         # two answers: (ACK | RTOX | ATN | INF) then anything
                    a = fr(code + bytes([rnd.choice([0x40, 0x41, 0x90, 0x80, 0x10, 0x11, 0x00, 0x01])]) + rnd.choice([b"", b"\x01", b"\x3b", b"ab"]))
                    scripts.append([a, rnd.choice(valid + [fr(code + bytes([rnd.getrandbits(8)]) + bytes(rnd.getrandbits(8) for _ in range(rnd.randint(0, 3))))])])
                # a chained answer (MI set) first, then every PFB with and without payload octets: the receive-chaining
                # loop of exchange() sees the second frame
                first_mi = fr(code + b"\x10" + b"abc") if role == "I" else None
                if first_mi is not None:
                    for pfb in range(256) if not quick else list(range(0, 256, 5)) + [0x90, 0x91, 0x80, 0x40, 0x41, 0x11, 0x01]:
                        for tail in (b"", b"\x01", b"\x00\x00", b"xyz"):
                            scripts.append([first_mi, fr(code + bytes([pfb]) + tail)])
                            if pfb in (0x90, 0x91, 0x41, 0x11):
                                scripts.append([first_mi, fr(code + b"\x11" + b"de"), fr(code + bytes([pfb]) + tail)])
                for sc in scripts:
                    for did in (None, 1):
                        for chain in (False, True):
                            k = (entry,) + outcome(lambda: dep_exchange(role, brty, did, sc, clock, chain))
                            cnt[k] += 1
                            data = b"".join(sc)
                            if k not in samples or len(data) < len(samples[k]) // 2:
                                samples[k] = data.hex()
    finally:
        nfc.dep.time = saved_time

    # emulated Type 3 Tag commands
    emu = make_emu()
    cmds = valid_tt3_cmds()
    for d in [b""] + [bytes([a]) for a in range(256)] + [bytes([a, b]) for a in range(0, 20) for b in range(256)]:
        feed("tt3emu.process_command", lambda d: emu.process_command(bytearray(d)), d)
    for d in mutations(cmds, rnd, n_rand // 2):
        feed("tt3emu.process_command", lambda d: emu.process_command(bytearray(d)), d)
    for d in relen(cmds, 0, rnd):
        feed("tt3emu.process_command", lambda d: emu.process_command(bytearray(d)), d)
    for d in grammar_tt3_cmds(quick):
        feed("tt3emu.process_command", lambda d: emu.process_command(bytearray(d)), d)

    # SNEP / handover request data as handed over by the serve loops (SNEP: at least the 6 byte header)
    srv = nfc.snep.SnepServer.__new__(nfc.snep.SnepServer)
    srv.max_acceptable_length = 0x100000
    msg = b"".join(ndef.message_encoder([ndef.TextRecord("hi"), ndef.UriRecord("http://a.b")]))
    snep_valid = [struct.pack(">BBL", 0x10, 2, len(msg)) + msg, struct.pack(">BBLL", 0x10, 1, len(msg) + 4, 1000) + msg,
                  struct.pack(">BBL", 0x10, 2, 0), struct.pack(">BBLL", 0x10, 1, 4, 0)]
    for d in mutations(snep_valid, rnd, n_rand // 2):
        if len(d) >= 6:
            feed("snep.process_snep_request", lambda d: srv.process_snep_request(bytearray(d)), d)
    hsrv = nfc.handover.HandoverServer.__new__(nfc.handover.HandoverServer)
    hr = ndef.HandoverRequestRecord("1.3", 0x1234)
    hr.add_alternative_carrier("active", "c1")
    ho_valid = [b"".join(ndef.message_encoder([hr, ndef.Record("application/x-p", "c1", b"xyz")])), msg]
    for d in mutations(ho_valid, rnd, n_rand // 2):
        if d:
            feed("handover._process_request_data", lambda d: hsrv._process_request_data(bytearray(d)), d)
    return cnt, samples


# ================================================================================================ part B
class MitmAir(AIR.Air):
    """air interface with a man in the middle: frame number `at` sent by port `src` is replaced"""

    def __init__(self, *a, **k):
        AIR.Air.__init__(self, *a, **k)
        self.mitm = None            # (src, index among src's frames, function(bytes) -> bytes)
        self.sent = collections.Counter()
        self.injected = []

    def _emit(self, p, data, brty, kind):
        n = self.sent[p.name]
        self.sent[p.name] += 1
        m = self.mitm
        if m is not None and data is not None and p.name == m[0] and m[1] <= n < m[1] + (m[3] if len(m) > 3 else 1):
            new = bytes(m[2](bytes(data)))
            self.injected.append((p.name, n, bytes(data).hex()[:60], new.hex()[:60]))
            data = bytearray(new)
        return AIR.Air._emit(self, p, data, brty, kind)


def frame_mutator(cls, arg, rnd):
    def f(d):
        if cls == "trunc":
            return d[:min(arg, len(d))]
        if cls == "truncfix":
            k = 1 if d[:1] == b"\xF0" else 0
            body = d[k + 1:][:max(0, len(d) - k - 1 - arg)]
            return d[:k] + bytes([len(body) + 1]) + body
        if cls == "byte":
            k = arg % max(1, len(d))
            return d[:k] + bytes([rnd.choice([0, 0xFF, d[k] ^ 1, d[k] ^ 0x80, rnd.getrandbits(8)])]) + d[k + 1:]
        if cls == "len":
            k = 1 if d[:1] == b"\xF0" else 0
            return d[:k] + bytes([(d[k] + arg) & 0xFF]) + d[k + 1:] if len(d) > k else d
        if cls == "random":
            return bytes(rnd.getrandbits(8) for _ in range(len(d)))
        if cls == "short":
            return bytes(rnd.getrandbits(8) for _ in range(arg % 7))
        if cls == "zeros":
            return bytes(len(d))
        if cls == "max":
            return bytes([0xFF]) * 255
        if cls == "extend":
            return d + bytes(rnd.getrandbits(8) for _ in range(1 + arg % 5))
        return d
    return f


LLCP_GARBAGE = ["random", "trunc", "agf-badlen", "agf-deep", "i-wrong-ns", "frmr", "unknown-ptype", "to-free-sap",
                "connect-trunc-tlv", "snep-short", "snep-huge-len", "snep-bad-version", "dm", "disc", "snl-garbage",
                "agf-then-dm", "agf-then-disc", "agf-twice", "agf-then-cc"]


SNI_DATA = {"sni-one": b"\x10", "sni-empty": b"", "sni-two": b"\x10\x00", "sni-five": b"\x10\x00\x00\x00\x00",
            "sni-success": b"\x10\x81\x00\x00\x00\x00", "sni-continue": b"\x10\x80\x00\x00\x00\x00",
            "sni-reject": b"\x10\xff\x00\x00\x00\x00", "sni-v2-continue": b"\x20\x00\x00\x00\x00\x00",
            "sni-get-short": b"\x10\x01\x00\x00\x00\x03\x00\x00\x00"}


def llcp_mutator(cls, rnd):
    P = pdu_mod

    def f(d):
        try:
            p = P.decode(d)
        except Exception:
            p = None
        ds, ss = (p.dsap, p.ssap) if p is not None and p.name != "AGF" else (4, 32)
        if cls == "random":
            return bytes(rnd.getrandbits(8) for _ in range(rnd.randint(0, 30)))
        if cls == "trunc":
            return d[:rnd.randint(0, max(0, len(d) - 1))]
        if cls == "agf-badlen":
            return b"\x00\x80" + b"\x00\x09" + d[:4]
        if cls == "agf-deep":
            return nested_agf(rnd.choice([30, 60]))[:126]
        if cls == "i-wrong-ns":
            return bytes(P.encode(P.Information(ds, ss, 9, 3, b"bogus")))
        if cls == "frmr":
            return bytes(P.encode(P.FrameReject(ds, ss, 0xF, 12, 1, 2, 3, 4, 5, 6)))
        if cls == "unknown-ptype":
            return struct.pack(">H", ds << 10 | 0b1011 << 6 | ss) + b"xx"
        if cls == "to-free-sap":
            return bytes(P.encode(P.Information(60, 61, 0, 0, b"nobody")))
        if cls == "connect-trunc-tlv":
            return struct.pack(">H", 1 << 10 | 0b0100 << 6 | 35) + b"\x06\x0f" + b"urn:nfc"
        if cls == "dm":
            return bytes(P.encode(P.DisconnectedMode(ds, ss, 1)))
        if cls == "disc":
            return bytes(P.encode(P.Disconnect(ds, ss)))
        if cls == "snl-garbage":
            return struct.pack(">H", 1 << 10 | 0b1001 << 6 | 1) + b"\x08\x01\x05" + b"\x09\x05\x01\xff"
        if cls.startswith("agf-t") and p is not None and p.name not in ("AGF", "SYMM"):
            # the genuine PDU followed at once (same frame, same dispatch) by a second connection-mode PDU: the
            # application thread sees both queued before it runs
            second = {"agf-then-dm": P.DisconnectedMode(p.dsap, p.ssap, 0), "agf-then-disc": P.Disconnect(p.dsap, p.ssap),
                      "agf-twice": p, "agf-then-cc": P.ConnectionComplete(p.dsap, p.ssap)}[cls]
            return bytes(P.encode(P.AggregatedFrame(0, 0, [p, second])))
        if cls.startswith("sni-") and p is not None and p.name == "I":
            # what the SNEP peer says INSTEAD of the message the protocol expects at this point (counted over the
            # information PDUs only: first fragment, Continue, following fragments, response)
            data = SNI_DATA[cls]
            return bytes([d[0], d[1], d[2]]) + data          # header and sequence octet as received, payload by hand
        if cls.startswith("snep") and p is not None and p.name == "I":
            data = {"snep-short": b"\x10\x02\x00", "snep-huge-len": b"\x10\x02\xff\xff\xff\xff" + b"z" * 20,
                    "snep-bad-version": b"\xf0\x02\x00\x00\x00\x02ab"}[cls]
            return bytes(P.encode(P.Information(p.dsap, p.ssap, p.ns, p.nr, data)))
        return d
    return f


def run_mitm(cfg):
    """one man-in-the-middle execution -> life-cycle trace"""
    rnd = random.Random(cfg["seed"])
    air = MitmAir(stall_timeout=float(os.environ.get("C07_STALL", "60")))
    clf_i, clf_t = air.frontends()
    air.clock.install(nfc.dep, nfc.clf, nfc.llcp.llc)
    ev, lock = [], threading.Lock()
    done = threading.Event()
    deaths, where = [], []
    t_end = air.clock.now + 25.0

    def add(a, x="-", keep=False, v="-"):
        with lock:
            ev.append(dict(a=a, x=x, keep=bool(keep), v=str(v)[:60]))

    old_hook = threading.excepthook

    def hook(args):
        if args.exc_type is not SystemExit:
            if os.environ.get("C07_TRACEBACK"):
                traceback.print_exception(args.exc_type, args.exc_value, args.exc_traceback)
            deaths.append("%s:%s" % (args.thread.name if args.thread else "?", args.exc_type.__name__))
            fr = traceback.extract_tb(args.exc_traceback)
            where.append("%s: %s @ %s" % (args.exc_type.__name__, str(args.exc_value)[:80],
                                          " < ".join("%s:%d:%s" % (os.path.basename(f.filename), f.lineno, f.name) for f in fr[-4:][::-1])))
    threading.excepthook = hook
    try:
        if cfg["layer"] == "air":
            air.mitm = (cfg["src"], cfg["at"], frame_mutator(cfg["cls"], cfg["arg"], rnd), cfg.get("burst", 1))
        state = {}

        class SnepSrv(nfc.snep.SnepServer):
            def process_put_request(self, records):
                return 0x81

            def process_get_request(self, records):
                return records

        class HoSrv(nfc.handover.HandoverServer):
            def process_handover_request_message(self, records):
                hs = ndef.HandoverSelectRecord("1.3")
                hs.add_alternative_carrier("active", "c1")
                return [hs, ndef.Record("application/x-p", "c1", bytes(200))]
        Server = HoSrv if cfg.get("svc") == "handover" else SnepSrv

        def mk(side, is_server):
            def startup(llc):
                add("Startup", side)
                if is_server:
                    state["server"] = Server(llc)
                if cfg["layer"] == "llcp" and cfg["src"] != side:     # this side RECEIVES the garbage
                    orig = llc.exchange
                    cnt = [0]
                    mut = llcp_mutator(cfg["cls"], rnd)

                    def exchange(send_pdu, timeout):
                        mac = llc.mac
                        if mac is not None and not getattr(mac, "_mitm", False):
                            mex = mac.exchange

                            def wrapped(data, timeout):
                                r = mex(data, timeout)
                                # count only the PDUs that carry something (not SYMM), so that the position does
                                # not depend on how many idle exchanges the thread timing produced
                                is_i = r is not None and len(r) >= 3 and ((r[0] & 3) << 2 | r[1] >> 6) == 0b1100
                                if r is not None and (is_i if cfg["cls"].startswith("sni-") else
                                                      (bytes(r[:2]) != b"\x00\x00" or cfg.get("symm"))):
                                    k = cnt[0]
                                    cnt[0] += 1
                                    if cfg["at"] <= k < cfg["at"] + cfg.get("burst", 1):
                                        new = mut(bytes(r))
                                        air.injected.append((side, k, bytes(r).hex()[:60], new.hex()[:60]))
                                        return bytearray(new)
                                return r
                            mac.exchange = wrapped
                            mac._mitm = True
                        return orig(send_pdu, timeout)
                    llc.exchange = exchange
                return llc

            def on_connect(llc):
                add("OnConnect", side, keep=True)
                if is_server:
                    state["server"].start()
                else:
                    threading.Thread(target=client, args=(llc,), daemon=True, name="snep-client").start()
                return True

            def on_release(llc):
                add("OnRelease", side)
                return True
            return {"on-startup": startup, "on-connect": on_connect, "on-release": on_release}

        def ho_client(llc):
            try:
                hr = ndef.HandoverRequestRecord("1.3", 0x1234)
                hr.add_alternative_carrier("active", "c1")
                msg = [hr, ndef.Record("application/x-p", "c1", bytes(300))]
                try:
                    with nfc.handover.HandoverClient(llc) as cl:        # the records API of the client, twice
                        for _ in range(2):
                            if cl.send_records(msg):
                                cl.recv_records(timeout=0.4)
                except nfc.llcp.Error:
                    pass                 # documented error type
            finally:
                done.set()

        def client(llc):
            if cfg.get("svc") == "handover":
                return ho_client(llc)
            try:
                cl = nfc.snep.SnepClient(llc)
                msg = b"".join(ndef.message_encoder([ndef.Record("application/x-v", "", bytes(300))]))
                try:
                    cl.put_octets(msg, timeout=5.0)
                    cl.get_octets(msg[:60 + 3] if False else b"".join(ndef.message_encoder([ndef.TextRecord("x" * 150)])), timeout=5.0)
                except (nfc.llcp.Error, nfc.snep.SnepError):
                    pass                 # documented error types
            finally:
                done.set()

        term = lambda: done.is_set() or air.clock.now > t_end
        oi, ot = mk("I", cfg["server"] == "I"), mk("T", cfg["server"] == "T")
        oi["role"], ot["role"] = "initiator", "target"
        oi["miu"], ot["miu"] = cfg.get("miu", 248), cfg.get("miu", 248)

        def side(clf, opts, name):
            def f():
                try:
                    r = clf.connect(llcp=opts, terminate=term)
                    add("Ret", name, v=type(r).__name__ if not isinstance(r, bool) and r is not None else r)
                except BaseException as e:
                    add("Raise", name, v=type(e).__name__)
                    done.set()
            return f
        try:
            air.run(side(clf_i, oi, "I"), side(clf_t, ot, "T"), join_timeout=120.0)
        except AIR.AirStall as e:
            add("Stall", v=str(e))
        time.sleep(0.02)
        for x in ev:
            if x["a"] == "Raise" and x["v"].startswith("AirStall"):
                x["a"] = "Stall"
        for d in deaths:
            add("ThreadDeath", v=d)
        if air.injected:
            ev.insert(0, dict(a="Inject", x=cfg["src"], keep=False, v=cfg["cls"]))
        add("End")
    finally:
        threading.excepthook = old_hook
        air.clock.uninstall()
    return dict(id=cfg["id"], ev=ev, injected=air.injected, nframes=len(air.log), where=where)


def run_card(cfg):
    """emulated Type 3 Tag (clf.connect(card=...)) against a raw reader that sends garbage commands"""
    rnd = random.Random(cfg["seed"])
    air = MitmAir(stall_timeout=float(os.environ.get("C07_STALL", "60")))
    clf_i, clf_t = air.frontends()
    air.clock.install(nfc.dep, nfc.clf, nfc.llcp.llc)
    ev, lock = [], threading.Lock()
    stop = threading.Event()
    deaths = []

    def add(a, x="-", keep=False, v="-"):
        with lock:
            ev.append(dict(a=a, x=x, keep=bool(keep), v=str(v)[:60]))
    old_hook = threading.excepthook
    threading.excepthook = lambda args: deaths.append("%s:%s" % (args.thread.name, args.exc_type.__name__))
    try:
        idm = bytes.fromhex("02FE010203040506")
        mem = bytearray(16 * 12)
        mem[0:16] = bytes.fromhex("1004010000b0000000000100001000d6")

        def startup(target):
            add("Startup", "T")
            target.brty = "212F"
            target.sensf_res = bytearray(b"\x01" + idm + bytes(8) + b"\x12\xFC")
            return target

        def on_connect(tag):
            add("OnConnect", "T", keep=True)
            rd = lambda b, rb, re: mem[b * 16:(b + 1) * 16] if b < 12 else None
            tag.add_service(0x000B, rd, lambda *a: False)
            return True

        def on_release(tag):
            add("OnRelease", "T")
            return True
        t_end = air.clock.now + 20.0
        term = lambda: stop.is_set() or air.clock.now > t_end

        def victim():
            try:
                r = clf_t.connect(card={"on-startup": startup, "on-connect": on_connect, "on-release": on_release},
                                  terminate=term)
                add("Ret", "T", v=r)
            except BaseException as e:
                add("Raise", "T", v=type(e).__name__ + ":" + str(e)[:40])

        def reader():
            add("Startup", "I")
            try:
                tg = nfc.clf.RemoteTarget("212F", sensf_req=bytearray.fromhex("00FFFF0100"))
                found = None
                for _ in range(20):
                    found = clf_i.sense(tg)
                    if found is not None:
                        break
                if found is not None:
                    cmds = list(cfg["cmds"])
                    for c in cmds:
                        try:
                            clf_i.exchange(bytearray(bytes.fromhex(c)), 0.05)
                        except nfc.clf.CommunicationError:
                            pass
            finally:
                stop.set()
                add("Ret", "I", v="reader")
        try:
            air.run(reader, victim, join_timeout=120.0)
        except AIR.AirStall as e:
            add("Stall", v=str(e))
        for d in deaths:
            add("ThreadDeath", v=d)
        ev.insert(0, dict(a="Inject", x="I", keep=False, v="tt3-commands"))
        add("End")
    finally:
        threading.excepthook = old_hook
        air.clock.uninstall()
    return dict(id=cfg["id"], ev=ev, injected=[], nframes=len(air.log))


def gen_b(tier, seed):
    rnd = random.Random(seed + 99)
    quick = tier == "quick"
    out = []
    n = 0
    # radio frames: the first frames are the activation (ATR_REQ/RES, PSL), later ones DEP exchanges
    ats = list(range(0, 10)) + ([14, 20, 30] if quick else list(range(10, 60, 3)))
    for src in ("I", "T"):
        for at in ats:
            for cls, args in (("truncfix", (1, 2, 3, 5, 9, 17)), ("trunc", (0, 1, 2, 3, 4, 5, 17)), ("byte", (0, 1, 2, 3, 4, 16, 17, 18)), ("len", (1, 255, 3)),
                              ("random", (0,)), ("short", (1, 3, 6)), ("zeros", (0,)), ("max", (0,)), ("extend", (1,))):
                for arg in (args if not quick else args[:3]):
                    n += 1
                    out.append(dict(id="air%d" % n, kind="mitm", layer="air", src=src, at=at, cls=cls, arg=arg,
                                    seed=seed * 31 + n, server=rnd.choice("IT")))
    for src in ("I", "T"):
        for at in (range(0, 10) if quick else range(0, 24)):
            for cls in LLCP_GARBAGE:
                if quick and at in (3, 5, 7, 8) and not cls.startswith("agf-t"):
                    continue            # the follow-up classes are tried at every position of the set-up phase
                n += 1
                out.append(dict(id="llcp%d" % n, kind="mitm", layer="llcp", src=src, at=at, cls=cls, arg=0,
                                seed=seed * 37 + n, server=rnd.choice("IT"), miu=rnd.choice([128, 248, 2175])))
    # SNEP conversation level: the k-th information PDU the victim receives is replaced by a short / unexpected SNEP
    # message (victim = server and victim = client, link MIU 128 so that PUT, GET and the GET response are fragmented)
    for src in ("I", "T"):
        for server in ("I", "T"):
            for at in (range(0, 7) if quick else range(0, 12)):
                for cls in sorted(SNI_DATA):
                    for miu in ((128,) if quick else (128, 248)):
                        n += 1
                        out.append(dict(id="sni%d" % n, kind="mitm", layer="llcp", src=src, at=at, cls=cls, arg=0,
                                        seed=seed * 53 + n, server=server, miu=miu))
    # the same PDU-level garbage against a handover server / client pair (records API of the client)
    for src in ("I", "T"):
        for at in ((0, 1, 2, 3, 4, 6) if quick else range(0, 16)):
            for cls in (LLCP_GARBAGE if not quick else ("random", "trunc", "unknown-ptype", "i-wrong-ns", "dm", "disc", "frmr")):
                n += 1
                out.append(dict(id="ho%d" % n, kind="mitm", layer="llcp", src=src, at=at, cls=cls, arg=0, svc="handover",
                                seed=seed * 47 + n, server=rnd.choice("IT"), miu=rnd.choice([128, 248])))
    # bursts: several consecutive frames / PDUs replaced (histories, not single inputs); burst 1000 = "from here on only garbage"
    for src in ("I", "T"):
        for at in ((0, 2, 5) if quick else (0, 1, 2, 3, 4, 5, 6, 8, 11, 15)):
            for burst in ((2, 1000) if quick else (2, 3, 5, 1000)):
                for cls, arg in (("byte", 3), ("byte", 4), ("truncfix", 1), ("random", 0), ("len", 1), ("extend", 1), ("short", 3)):
                    n += 1
                    out.append(dict(id="airb%d" % n, kind="mitm", layer="air", src=src, at=at, cls=cls, arg=arg, burst=burst,
                                    seed=seed * 41 + n, server=rnd.choice("IT")))
                for cls in (LLCP_GARBAGE if not quick else LLCP_GARBAGE[:6]):
                    n += 1
                    out.append(dict(id="llcpb%d" % n, kind="mitm", layer="llcp", src=src, at=at, cls=cls, arg=0, burst=burst,
                                    seed=seed * 43 + n, server=rnd.choice("IT"), miu=rnd.choice([128, 248, 2175])))
    cmds = valid_tt3_cmds()
    muts = list(mutations(cmds, rnd, 200 if quick else 3000))
    rnd.shuffle(muts)
    for k in range(0, len(muts), 25):
        n += 1
        chunk = [m.hex() for m in muts[k:k + 25] if len(m) > 0] + [cmds[3].hex()]
        out.append(dict(id="card%d" % n, kind="card", seed=seed + n, cmds=chunk))
        if quick and k > 25 * 12:
            break
    if quick:
        sni = [c for c in out if c["kind"] == "mitm" and c["cls"].startswith("sni-")]
        out = [c for c in out if c not in sni]       # (the selection below is the one earlier versions made)
        rnd.shuffle(out)
        first = [c for c in out if c["kind"] == "mitm" and c["cls"].startswith("agf-t") and "burst" not in c and "svc" not in c]
        rest = [c for c in out if c["kind"] == "mitm" and c not in first]
        keep = [c for c in out if c["kind"] == "card"] + first + rest[:900 - len(first)] + sni
        out = keep
    return out


def _work(cfg):
    try:
        from vlib import use_repo
        use_repo()
        return ("ok", run_card(cfg) if cfg["kind"] == "card" else run_mitm(cfg), cfg)
    except BaseException:
        return ("error", traceback.format_exc(), cfg)


# ================================================================================================ check
def run(tier, seed):
    ck = check.Check(PID, tier, seed, "exploration")
    quick = tier == "quick"
    r = tlc.run("Robust.tla", "MC_Robust.cfg", PID, workers=4, timeout=300)
    if not r.ok:
        raise tlc.TLCError("Robust.tla life-cycle monitor is inconsistent: %s" % r.violated)
    hit, _ = tlc.witnesses("Robust.tla", "MC_Robust.cfg", PID, ["W_Open"])
    if not hit:
        raise tlc.TLCError("vacuous Robust model")
    # ---- part A
    cnt, samples = part_a(tier, seed)
    cases = [dict(a="Case", entry=k[0], cls=k[1], exc=k[2], x="-", keep=False, v="-") for k in sorted(cnt)]
    traces = [dict(id="caseA%d" % i, ev=[c]) for i, c in enumerate(cases)]
    selftest = [dict(id="selftest-indexerror", ev=[dict(a="Case", entry="pdu.decode", cls="raise", exc="IndexError", x="-", keep=False, v="-")])]
    # ---- part B
    cfgs = gen_b(tier, seed)
    if not quick:            # a second and third draw of the random choices (byte values, server side, MIU)
        for k in (1, 2):
            for c in gen_b(tier, seed + 1000 * k):
                if c["kind"] == "mitm" and c["cls"] not in ("zeros", "max", "trunc", "truncfix", "short"):
                    cfgs.append(dict(c, id="s%d-%s" % (k, c["id"])))
    runs = []
    with mp.Pool(12, maxtasksperchild=40) as pool:
        for st, payload, cfg in pool.imap_unordered(_work, cfgs, chunksize=4):
            if st == "error":
                raise RuntimeError("harness crashed on %s\n%s" % (cfg["id"], payload))
            payload["cfg"] = cfg
            runs.append(payload)
    life = [dict(id=p["id"], ev=p["ev"]) for p in runs]
    st2 = json.loads(json.dumps(life[0]))
    st2["id"] = "selftest-norelease"
    st2["ev"] = [e for e in st2["ev"] if e["a"] != "Ret"]
    verdicts, stt = tlc.validate_traces("Trace_Robust.tla", "Trace_Robust.cfg", PID, traces + selftest + life + [st2],
                                        shards=12, timeout=900)
    if verdicts["selftest-indexerror"][0] == "ACCEPT" or verdicts["selftest-norelease"][0] == "ACCEPT":
        raise tlc.TLCError("binding vacuous: self-test trace accepted")
    nontrivial = set()
    for t, c in zip(traces, cases):
        key = (c["entry"], c["cls"], c["exc"])
        nontrivial.add(key)
        if verdicts[t["id"]][0] != "ACCEPT":
            ck.violation("A:%s:%s:%s" % key, "%d inputs at %s end in %s %s, which the entry point's contract does not allow; e.g. bytes=%s" % (
                cnt[key], c["entry"], c["cls"], c["exc"], samples[key][:120]),
                replay=dict(part="A", entry=c["entry"], hex=samples[key]))
    ninj = 0
    for p in runs:
        v = verdicts[p["id"]]
        cfg = p["cfg"]
        if p["injected"] or cfg["kind"] == "card":
            ninj += 1
            nontrivial.add(("B", cfg["kind"], cfg.get("layer"), cfg.get("cls"), cfg.get("src"), min(cfg.get("at", 0), 12), cfg.get("burst", 1), cfg.get("svc", "snep")))
        if v[0] == "ACCEPT":
            continue
        line, act, why = v[1], v[2], v[3]
        e = p["ev"][line - 1]
        pos = "activation" if cfg.get("layer") == "air" and cfg.get("at", 0) < 4 else "exchange"
        if act in ("Raise", "ThreadDeath", "Stall"):
            what = e["v"].split(":")[-1] if act == "ThreadDeath" else e["v"].split(":")[0]
            key = "B:%s:%s:%s:%s" % (cfg["kind"], cfg.get("layer", "tt3"), act, what if act != "Stall" else pos)
        else:
            key = "B:%s:%s:lifecycle:%s" % (cfg["kind"], cfg.get("layer", "tt3"), act)
        ck.violation(key, "run %s: event %d %s not allowed (state %s); injected=%s cfg=%s%s" % (
            p["id"], line, json.dumps(e), json.dumps(why.get("st") if isinstance(why, dict) else why, default=str),
            p["injected"][:1], json.dumps({k: cfg[k] for k in cfg if k != "cmds"}),
            " where=%s" % p["where"] if p.get("where") else ""), replay=cfg)
    ck.cover(evaluations=sum(cnt.values()) + len(runs), distinct_nontrivial=len(nontrivial),
             rule="part A: every byte string is executed on the real entry point; a case is (entry point, outcome class, exception type) "
                  "and all inputs are counted in evaluations, distinct classes judged by TLC against Robust!Allowed; part B: one complete-stack "
                  "run per (layer, garbage class, sender, frame index), non-trivial if the garbage was really injected (frame index reached); "
                  "distinct = distinct (layer, class, sender, index bucket) + distinct part A classes",
             partA_inputs=sum(cnt.values()), partB_runs=len(runs), partB_injected=ninj,
             partA_classes={"%s|%s|%s" % k: v for k, v in sorted(cnt.items())})
    for k in list(samples)[:3]:
        ck.sample(dict(entry=k[0], outcome=k[1], exc=k[2], bytes=samples[k][:80]))
    ck.sample(dict(run=runs[0]["id"], cfg={k: v for k, v in runs[0]["cfg"].items() if k != "cmds"}, events=runs[0]["ev"]))
    ck.assume("the man in the middle replaces exactly one frame / PDU / fragment per run; the other side is a real nfcpy stack",
              "llcp-sec is off (no OpenSSL in this sandbox), so DPS PDUs and encrypted payloads are outside every run",
              "Robust!Allowed is written from the docstrings and the property statement")
    # ---- part C: peer behaviours that are well-formed PDU by PDU but break the protocol's bookkeeping
    # a service discovery answer that arrives twice (same transaction id): every later resolve() must still return
    hist = os.path.join(os.path.dirname(os.path.abspath(__file__)), "c07_repro_dupsdres.py")
    from vlib import SRC as _src
    pr = subprocess.run(["timeout", "60", sys.executable, hist, _src], stdout=subprocess.PIPE, stderr=subprocess.STDOUT, text=True)
    if pr.returncode == 1 and "DEFECT PRESENT" in pr.stdout:
        ck.violation("C:sdp:answer-repeated-by-the-peer:later-resolve-blocks-forever",
                     "after one SDRES was received twice two concurrent lookups shared a transaction id and the resolver of "
                     "the first never returned although the peer answered it: %s" % pr.stdout.strip()[-400:],
                     replay=dict(kind="history", name="dupsdres"))
    elif pr.returncode != 0:
        raise tlc.TLCError("history dupsdres could not be executed: rc=%s %s" % (pr.returncode, pr.stdout[-400:]))
    ck.cover(histories_executed=["dupsdres: SDRES repeated by the peer, then two concurrent lookups drawing the last pool entry"])
    return ck.finish()


def replay(rep, args):
    r = rep["replay"]
    if r.get("kind") == "history":
        from vlib import SRC as _src
        pr = subprocess.run(["timeout", "60", sys.executable, os.path.join(os.path.dirname(os.path.abspath(__file__)),
                                                                            "c07_repro_%s.py" % r["name"]), _src])
        if pr.returncode == 1:
            print("VIOLATION property=%s replay=%s" % (PID, args.replay))
        return 1 if pr.returncode == 1 else (0 if pr.returncode == 0 else 2)
    if r.get("part") == "A":
        data = bytes.fromhex(r["hex"])
        print("entry", r["entry"], "bytes", r["hex"][:80])
        cnt, samples = part_a("quick", 1)
        bad = [k for k in cnt if k[0] == r["entry"] and k[1] == "raise"]
        print(bad)
        return 1 if bad else 0
    st, payload, _ = _work(r)
    print(st, payload["ev"] if st == "ok" else payload)
    bad = st != "ok" or any(e["a"] in ("Raise", "ThreadDeath", "Stall") for e in payload["ev"])
    if bad:
        print("VIOLATION property=%s replay=%s" % (PID, args.replay))
    return 1 if bad else 0
