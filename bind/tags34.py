"""Type 3 Tag, Type 4 Tag and emulated Type 3 Tag part of C01 / C02 / C03.

Specs: spec/T3Tag.tla, spec/T4Tag.tla (exhaustive, scaled constants, witnesses) ; binding:
Trace_T3Tag.tla / Trace_T4Tag.tla validate executions of the real nfcpy reader/writer objects
(nfc.tag.tt3.Type3Tag, nfc.tag.tt4.Type4ATag incl. its ISO-DEP initiator, and
nfc.tag.tt3.Type3TagEmulation as the tag side of a loop-back) against simulated tags
(sim/simt3t.py, sim/simt4t.py).  Every write command that reaches the tag is one trace event; TLC
rebuilds the tag state from the events and evaluates every invariant after every real command; a
FRESH reader object reads the tag at the end (or after the power cut) and its view must equal the
reference reader RefRead(state).

Entry points used by the dispatchers bind/c01.py, c02.py, c03.py (owned by "tags12"):
    run_c01(ck, tier, seed), run_c02(ck, tier, seed), run_c03(ck, tier, seed), replay_tags34(rep, args)
"""
import os, io, json, random, contextlib

from vlib import tlc, SPEC, OUT
from sim.simt3t import SimT3T, attr_bytes, parse_attr, parse_lists
from sim.simt4t import SimT4T

import nfc
import nfc.clf
import nfc.tag
import nfc.tag.tt3
import nfc.tag.tt4

PART = "tags34"
TAG = "tags34"

# which invariants / rejection kinds belong to which property
PROP_INVS = {
    "C01": {"RoundTrip", "WriteOk", "CapSound", "RejectEarly", "CodeReadOk", "FreshOk"},
    "C02": {"Atomic", "FreshOk"},
    "C03": {"Confined"},
}
MC_INVS = {
    "C01": {"T3Tag": ["TypeOK", "RoundTrip", "WriteOk", "CapSound", "RejectEarly", "CodeReadOk"],
            "T4Tag": ["TypeOK", "RoundTrip", "WriteOk", "CapSound", "RejectEarly", "FreshOk"]},
    "C02": {"T3Tag": ["TypeOK", "Atomic"], "T4Tag": ["TypeOK", "Atomic", "FreshOk"]},
    "C03": {"T3Tag": ["TypeOK", "Confined"], "T4Tag": ["TypeOK", "Confined"]},
}
MC_FLAGS = {"C01": dict(WithCut="FALSE", WithFormat="FALSE", WithOutage="FALSE"),
            "C02": dict(WithCut="TRUE", WithFormat="FALSE", WithOutage="TRUE"),
            "C03": dict(WithCut="FALSE", WithFormat="TRUE", WithOutage="FALSE")}
WITNESSES = {
    "C01": {"T3Tag": ["W_Rejected", "W_Refused", "W_Batches", "W_Full", "W_Recover", "W_EmptyMsg", "W_OtherSystem"],
            "T4Tag": ["W_Single", "W_Multi", "W_Rejected", "W_Refused", "W_Full", "W_TwoDigit"]},
    "C02": {"T3Tag": ["W_CutOld", "W_CutNotReadable", "W_CutNew", "W_FailedMidway"],
            "T4Tag": ["W_CutOld", "W_CutEmpty", "W_CutNew", "W_FailedEmpty"]},
    "C03": {"T3Tag": ["W_FormatWipe", "W_Full"], "T4Tag": ["W_Wipe", "W_Full"]},
}
# thorough tier: larger scaled constants
THOROUGH = {
    "T3Tag": {"Nmaxbs": "{0, 1, 2, 3, 4, 5, 6}", "Nbrs": "{1, 2, 3, 4}", "Nbws": "{0, 1, 2, 3, 4}",
              "Cards": "{100, 211, 320}"},
    "T4Tag": {"Mfss": "{5, 6, 7, 8, 9, 10, 11, 12, 13, 14}", "OldLens": "{0, 1, 2, 3, 4, 5, 6, 7, 8, 9, 10}",
              "MLes": "{2, 3, 4, 5, 6, 7}", "MLcs": "{1, 2, 3, 4, 5, 6, 7}"},
}


class HarnessError(RuntimeError):
    pass


# ------------------------------------------------------------------------------------------------
# fake contactless frontends

class FakeClf(object):
    """What nfc.tag.activate() and the tag classes need from a ContactlessFrontend."""
    max_send_data_size = 256
    max_recv_data_size = 256

    def __init__(self, tag):
        self.tag = tag
        self.nexch = 0

    def exchange(self, data, timeout):
        self.nexch += 1
        if self.nexch > 200000:
            raise HarnessError("runaway exchange loop")
        rsp = self.tag.exchange(bytes(data))
        if rsp is None:
            raise nfc.clf.TimeoutError("simulated tag does not answer")
        return bytearray(rsp)

    def sense(self, *targets, **kw):
        return None


class EmuT3T(object):
    """nfcpy's own Type3TagEmulation serving a bytearray through per-block callbacks (the way
    examples/tagtool.py `emulate` does), behind a loop-back: exchange(cmd) = emu.process_command(cmd).
    Same interface as SimT3T.  The command log is taken with the simulator's independent parser."""

    def __init__(self, attr, data=b"", nblocks=None, other=b"\x5A" * 32, cut_after=None, fill=0, outage=None):
        attr = bytes(attr)
        nmaxb = int.from_bytes(attr[3:5], "big")
        nblocks = nmaxb if nblocks is None else nblocks
        self.mem = bytearray(attr) + bytearray(data) + bytearray([fill]) * max(0, nblocks * 16 - len(data))
        self.nblocks, self.gen = nblocks, None
        self.nsys, self.ndef_pos, self.read_sys = 1, 0, []
        self.oth = bytearray(other)
        self.idm = bytes.fromhex("02FE0A0B0C0D0E0F")
        self.pmm = bytes.fromhex("00FFFFFFFFFFFFFF")
        self.nbr_phys, self.nbw_phys = 15, 13
        lt = nfc.clf.LocalTarget("212F")
        lt.sensf_req = bytearray.fromhex("0012FC0103")
        lt.sensf_res = bytearray(self.sensf_res())
        lt.tt3_cmd = bytearray.fromhex("06") + bytearray(self.idm) + bytearray.fromhex("010b00018000")
        self.emu = nfc.tag.emulate(None, lt)
        if not isinstance(self.emu, nfc.tag.tt3.Type3TagEmulation):
            raise HarnessError("nfc.tag.emulate did not return a Type3TagEmulation")

        def reader(mem):
            def rd(bn, rb, re):
                if bn < len(mem) // 16:
                    return mem[bn * 16:bn * 16 + 16]
            return rd

        def writer(mem):
            def wr(bn, data, wb, we):
                if bn < len(mem) // 16:
                    mem[bn * 16:bn * 16 + 16] = data
                    return True
            return wr

        self.emu.add_service(0x0009, reader(self.mem), writer(self.mem))
        self.emu.add_service(0x000B, reader(self.mem), lambda *a: False)
        self.emu.add_service(0x1009, reader(self.oth), writer(self.oth))
        self.cut_after = cut_after
        self.outage, self.nwframes = outage, 0            # transient outage, see SimT3T
        self.nwrites = 0
        self.log, self.reads, self.breaches = [], [], []
        self.powered = True

    def power_on(self):
        self.powered = True
        self.cut_after = None
        self.outage = None
        self.reads = []
        self.read_sys = []

    def sensf_res(self, act="ndef"):
        return b"\x01" + self.idm + self.pmm + (b"" if act == "nocode" else b"\x12\xFC")

    def system_of(self, idm):
        return 0 if bytes(idm) == self.idm else -1

    def attr_block(self):
        return bytes(self.mem[:16])

    def image(self):
        return [[b, list(self.mem[b * 16:b * 16 + 16])] for b in range(1, self.nblocks + 1)]

    def other_memory(self):
        return bytes(self.oth)

    def exchange(self, frame):
        if not self.powered:
            return None
        rec = None
        if len(frame) >= 11 and frame[1] == 0x08:
            if self.cut_after is not None and self.nwrites >= self.cut_after:
                self.powered = False
                return None
            err, scs, lst, rest = parse_lists(frame[10:])
            self.nwframes += 1
            if self.outage is not None and self.outage[0] <= self.nwframes - 1 < sum(self.outage):
                if lst is not None:
                    self.log.append(dict(drop=True, sys=self.system_of(frame[2:10]), sc=[sc for sc, n in lst],
                                         blocks=[n for sc, n in lst], data=bytes(rest), ok=False))
                return None
            if lst is not None and len(rest) == 16 * len(lst):
                rec = dict(sys=self.system_of(frame[2:10]), sc=[sc for sc, n in lst], blocks=[n for sc, n in lst],
                           data=bytes(rest), ok=False)
                self.log.append(rec)
        elif len(frame) >= 11 and frame[1] == 0x06:
            err, scs, lst, rest = parse_lists(frame[10:])
            self.read_sys.append(self.system_of(frame[2:10]))
            if lst is not None:
                self.reads.append([n for sc, n in lst])
        rsp = self.emu.process_command(bytearray(frame))
        if rsp is None:
            return None
        rsp = bytes(rsp)
        if rec is not None and len(rsp) >= 12 and rsp[1] == 0x09 and rsp[10] == 0:
            rec["ok"] = True
            self.nwrites += 1
            if self.cut_after is not None and self.nwrites >= self.cut_after:
                self.powered = False
                return None
        if frame[1] == 0x06 and len(rsp) >= 12 and rsp[10] != 0 and self.reads:
            self.reads.pop()
        return rsp


# ------------------------------------------------------------------------------------------------
# helpers shared by the T3 / T4 runners

def rnd_bytes(seed, n, lo=1):
    r = random.Random(seed)
    return bytes(r.randint(lo, 255) for _ in range(n))


def classify_exc(e):
    if isinstance(e, ValueError) and str(e) == "data length exceeds tag capacity":
        return "rejected"
    if isinstance(e, AttributeError) and str(e) == "tag ndef area is not writeable":
        return "refused"
    if isinstance(e, nfc.tag.TagCommandError):
        return "tagerr"
    return "raised:%s" % type(e).__name__


def first_ndef(tagobj):
    """tag.ndef of the reader that is going to write; a reader that cannot read (None or an
    exception) writes nothing -- the fresh view at the end of the trace is what gets judged."""
    try:
        return tagobj.ndef
    except HarnessError:
        raise
    except Exception:
        return None


def fresh_view(tagobj):
    """(k, v) as a fresh reader presents the tag."""
    try:
        nd = tagobj.ndef
        if nd is None:
            return "none", []
        if not nd.is_readable:
            return "notreadable", []
        return "ndef", list(nd.octets)
    except HarnessError:
        raise
    except Exception as e:      # the reader must not raise: reported through the view
        return type(e).__name__, []


# ------------------------------------------------------------------------------------------------
# Type 3 Tag (simulated tag or nfcpy's emulation)

def t3_build(case):
    L = case["layout"]
    oldlen = L.get("oldlen", 0)
    attr = bytearray(attr_bytes(L.get("ver", 0x10), L["nbr"], L["nbw"], L["nmaxb"], L.get("writef", 0),
                                L.get("rwflag", 1), L.get("ln", oldlen), rfu=L.get("rfu", 0)))
    ck = L.get("ck", "ok")          # checksum variants of the attribute block
    if ck == "plus1":
        attr[14:16] = ((int.from_bytes(attr[14:16], "big") + 1) & 0xFFFF).to_bytes(2, "big")
    elif ck == "swapped":
        attr[14], attr[15] = attr[15], attr[14]
    elif ck == "low-only":
        attr[14] = 0
    nblocks = L.get("nblocks", L["nmaxb"] + L.get("extra", 0))
    other = rnd_bytes(case["seed"] * 7 + 3, 32)
    multi = dict(nsys=L.get("nsys", 1), ndef_pos=L.get("pos", 0)) if case["kind"] != "emu" else {}
    if L.get("lazy"):               # data blocks generated on demand (tags with up to 65535 blocks)
        nbw_phys = min(L["nbw"], 12 if nblocks > 255 else 13)
        return SimT3T(attr, nblocks=nblocks, other=other, cut_after=case.get("cut"), gen=L.get("gen", 5),
                      outage=case.get("outage"),
                      nbr_phys=max(1, min(L["nbr"], 15)), nbw_phys=nbw_phys, **multi)
    old = rnd_bytes(case["seed"] * 7 + 1, oldlen)
    fill = rnd_bytes(case["seed"] * 7 + 2, nblocks * 16 - len(old)) if L.get("dirty", True) else bytes(nblocks * 16 - len(old))
    cls = EmuT3T if case["kind"] == "emu" else SimT3T
    t = cls(attr, data=old + fill, nblocks=nblocks, other=other, cut_after=case.get("cut"),
            outage=case.get("outage"), **multi)
    return t


def t3_activate(t, act="ndef"):
    """act: how the reader found the card -- poll for 12FCh ("ndef"), wildcard poll FFFFh with ("wild") or
    without ("nocode") the system code in the answer (then system 0 answered)"""
    target = nfc.clf.RemoteTarget("212F", sensf_res=bytearray(t.sensf_res(act)))
    tagobj = nfc.tag.activate(FakeClf(t), target)
    if type(tagobj) is not nfc.tag.tt3.Type3Tag:
        raise HarnessError("activation gave %r" % (tagobj,))
    return tagobj


def t3_image(t):
    """attribute block as raw bytes (parsed by Trace_T3Tag!ParseAttr), explicit data blocks, other service"""
    return dict(attr=list(t.attr_block()), blocks=t.image(), oth=list(t.other_memory()))


def run_t3(case):
    """Execute one case against the real code, return the trace record."""
    t = t3_build(case)
    img0 = t3_image(t)
    init = dict(attr=img0["attr"], nb=t.nblocks, gen=-1 if t.gen is None else t.gen,
                blocks=[d for b, d in img0["blocks"]], oth=img0["oth"],
                phys=dict(nbr=t.nbr_phys, nbw=t.nbw_phys))
    act = case["layout"].get("act", "ndef")
    init.update(card=dict(n=t.nsys, pos=t.ndef_pos), ract=t.ndef_pos if act == "ndef" else 0)
    ev = []
    op = case["op"]
    if op != "read":
        tagobj = t3_activate(t, act)
        nd = first_ndef(tagobj)
        # the system whose IDm the reader uses from now on, and the system code it believes to talk to
        ev.append(dict(a="Disc", ridm=t.system_of(tagobj.idm), sys=int(tagobj.sys)))
        if nd is None and op == "write":
            op = "read"            # nothing to write to: the fresh view below is judged
    if op == "write":
        msg = rnd_bytes(case["seed"] * 7 + 4, case["mlen"], lo=0)
        cap = nd.capacity
        ev.append(dict(a="Begin", m=list(msg)))
        try:
            nd.octets = msg
            res = "ok"
        except HarnessError:
            raise
        except Exception as e:
            res = classify_exc(e)
    elif op == "format":
        ev.append(dict(a="FBegin", ver=case["ver"], wipe=-1 if case["wipe"] is None else case["wipe"]))
        cap = 0
        try:
            with contextlib.redirect_stdout(io.StringIO()):      # tt3.py:_format print()s its search
                r = tagobj.format(version=case["ver"], wipe=case["wipe"])
            res = {True: "true", False: "false"}.get(r, "raised:%r" % (r,))
        except HarnessError:
            raise
        except Exception as e:
            res = classify_exc(e)
    if op != "read":
        for w in t.log:
            ev.append(dict(a="Drop" if w.get("drop") else "W", sysn=w["sys"], sc=w["sc"], bl=w["blocks"],
                           data=list(w["data"]), ok=w["ok"]))
        if not t.powered:
            ev.append(dict(a="Cut"))
        ev.append(dict(a="Ret", res=res, cap=cap))
    ncmds = len(t.log)
    t.power_on()
    fresh = t3_activate(t, act)
    k, v = fresh_view(fresh)
    cap, wr = (fresh.ndef.capacity, bool(fresh.ndef.is_writeable)) if k in ("ndef", "notreadable") else (-1, False)
    img = t3_image(t)
    ev.append(dict(a="View", k=k, v=v, cap=cap, wr=wr, reads=[list(r) for r in t.reads],
                   rsys=sorted(set(t.read_sys)), attr=img["attr"], blocks=img["blocks"], oth=img["oth"]))
    return dict(id=case["id"], init=init, ev=ev), dict(ncmds=ncmds, breaches=list(t.breaches))


# ------------------------------------------------------------------------------------------------
# Type 4 Tag

def t4_build(case):
    L = case["layout"]
    ns = L["tlv"] - 2
    old = rnd_bytes(case["seed"] * 7 + 1, L["oldlen"])
    flen = L["mfs"] + L.get("extra", 0)
    img = len(old).to_bytes(ns, "big") + old
    img += rnd_bytes(case["seed"] * 7 + 2, flen - len(img))
    return SimT4T(ver=L["ver"], tlv_tag=L["tlv"], mle=L["mle"], mlc=L["mlc"], mfs=L["mfs"], flen=flen,
                  wf=L.get("wf", 0), ndef=img, other=rnd_bytes(case["seed"] * 7 + 3, 8),
                  fsci=L.get("fsci", 8), cut_after=case.get("cut"), tech=L.get("tech", "A"),
                  outage=case.get("outage"))


def t4_activate(t):
    rt = t.remote_target()
    target = nfc.clf.RemoteTarget(rt.pop("brty"), **{k: bytearray(v) for k, v in rt.items()})
    tagobj = nfc.tag.activate(FakeClf(t), target)
    if not isinstance(tagobj, nfc.tag.tt4.Type4Tag):
        raise HarnessError("activation gave %r" % (tagobj,))
    return tagobj


def t4_fid(t, fid):
    return "ndef" if fid == t.ndef_fid.hex() else "cc" if fid == "e103" else "oth"


def run_t4(case):
    t = t4_build(case)
    init = dict(cc=dict(ns=t.nlen_size, mfs=t.mfs, mle=t.mle, mlc=t.mlc, wf=t.wf),
                ndef=list(t.ndef_file()), oth=list(t.files[t.other_fid]))
    ev = []
    op = case["op"]
    if op != "read":
        tagobj = t4_activate(t)
        nd = first_ndef(tagobj)
        if nd is None and op == "write":
            op = "read"            # nothing to write to: the fresh view below is judged
    if op == "write":
        msg = rnd_bytes(case["seed"] * 7 + 4, case["mlen"], lo=0)
        cap = nd.capacity
        ev.append(dict(a="Begin", m=list(msg)))
        try:
            nd.octets = msg
            res = "ok"
        except HarnessError:
            raise
        except Exception as e:
            res = classify_exc(e)
    elif op == "format":
        ev.append(dict(a="FBegin", wipe=-1 if case["wipe"] is None else case["wipe"]))
        cap = 0
        try:
            r = tagobj.format(wipe=case["wipe"])
            res = {True: "true", False: "false"}.get(r, "raised:%r" % (r,))
        except HarnessError:
            raise
        except Exception as e:
            res = classify_exc(e)
    if op != "read":
        for w in t.log:
            if w.get("drop") or w.get("okmark"):
                ev.append(dict(a="Drop" if w.get("drop") else "Ok"))
                continue
            ev.append(dict(a="W", fid=t4_fid(t, w["fid"]), off=w["off"], data=list(w["data"]), ok=w["ok"]))
        if not t.powered:
            ev.append(dict(a="Cut"))
        ev.append(dict(a="Ret", res=res, cap=cap))
    ncmds = len(t.log)
    nframes = t.fidx or 0           # PCD frames from the first UPDATE BINARY block on (fault-free numbering)
    breaches = list(t.breaches)
    t.power_on()
    k, v = fresh_view(t4_activate(t))
    reads = [[off, le] for (fid, off, le, got) in t.reads if fid == t.ndef_fid.hex()]
    ev.append(dict(a="View", k=k, v=v, reads=reads, ndef=list(t.ndef_file()),
                   oth=list(t.files[t.other_fid])))
    return dict(id=case["id"], init=init, ev=ev), dict(ncmds=ncmds, nframes=nframes, breaches=breaches + list(t.breaches))


RUNNERS = {"t3": run_t3, "emu": run_t3, "t4": run_t4}
MODULES = {"t3": "T3Tag", "emu": "T3Tag", "t4": "T4Tag"}


def run_case(case):
    return RUNNERS[case["kind"]](case)


# ------------------------------------------------------------------------------------------------
# case generation (real constants)

def uniq(xs, lo, hi):
    out = []
    for x in xs:
        if lo <= x <= hi and x not in out:
            out.append(x)
    return out


def t3_lengths(L, rnd, full):
    cap = L["nmaxb"] * 16
    nbw = max(1, L["nbw"])
    c = [0, 1, 16, 17, nbw * 16, nbw * 16 + 1, 2 * nbw * 16 + 1, cap - 16, cap - 15, cap - 1, cap, cap + 1]
    if full:
        c += [15, 31, 32, 33, nbw * 16 - 1, 2 * nbw * 16, cap - 17] + [rnd.randint(0, cap + 1) for _ in range(6)]
        c += [254, 255, 256, 257, 4095, 4096, 4097]
    return uniq(c, 0, cap + 1)


def t4_lengths(L, rnd, full):
    ns = L["tlv"] - 2
    cap = L["mfs"] - ns
    mlc = L["mlc"]
    c = [0, 1, mlc - ns, mlc - ns + 1, 2 * mlc - ns, 2 * mlc - ns + 1, 253, 254, 256, 257, cap - 1, cap, cap + 1]
    if full:
        c += [mlc - ns - 1, 2 * mlc - ns - 1, 3 * mlc - ns, 255, 258, cap - mlc]
        c += [rnd.randint(0, cap + 1) for _ in range(6)] + [k * mlc - ns + d for k in (4, 5) for d in (-1, 0, 1)]
    maxcmds = 1600 if full else 120          # one command per MLc bytes: keep the traces short
    c = [x for x in c if x > cap or (x + ns) // max(1, min(mlc, 255)) <= maxcmds]
    return uniq(c, 0, cap + 1)


T3_LAYOUTS = [
    dict(nbr=4, nbw=1, nmaxb=4, oldlen=11),
    dict(nbr=1, nbw=1, nmaxb=1, oldlen=16),
    dict(nbr=3, nbw=2, nmaxb=5, extra=2, oldlen=70, rfu=0xA5),
    dict(nbr=12, nbw=8, nmaxb=20, extra=1, oldlen=0),
    dict(nbr=15, nbw=13, nmaxb=40, oldlen=333),
    dict(nbr=4, nbw=4, nmaxb=13, oldlen=100, writef=0x0F, extra=1),
    dict(nbr=2, nbw=3, nmaxb=0, oldlen=0, extra=1),
    dict(nbr=4, nbw=3, nmaxb=6, oldlen=20, rwflag=0),
    dict(nbr=4, nbw=0, nmaxb=6, oldlen=20),
    dict(nbr=5, nbw=5, nmaxb=9, oldlen=144, ver=0x11, dirty=False),
]
T3_BIG = dict(nbr=12, nbw=12, nmaxb=300, extra=1, oldlen=4100)       # 3-byte block list elements
EMU_LAYOUTS = [
    dict(nbr=4, nbw=3, nmaxb=6, oldlen=11),
    dict(nbr=15, nbw=13, nmaxb=30, extra=2, oldlen=200),
    dict(nbr=1, nbw=1, nmaxb=2, oldlen=32, rfu=7),
]
T4_LAYOUTS = [
    dict(ver=0x20, tlv=4, mle=59, mlc=52, mfs=64, oldlen=11),
    dict(ver=0x20, tlv=4, mle=15, mlc=13, mfs=64, extra=2, fsci=2, oldlen=0),
    dict(ver=0x10, tlv=4, mle=15, mlc=13, mfs=80, fsci=5, oldlen=30, tech="B"),
    dict(ver=0x30, tlv=6, mle=255, mlc=255, mfs=600, oldlen=300),
    dict(ver=0x30, tlv=4, mle=0xF6, mlc=0xF6, mfs=300, extra=4, fsci=7, oldlen=260),
    dict(ver=0x20, tlv=4, mle=255, mlc=255, mfs=2048, oldlen=1000),
    dict(ver=0x20, tlv=4, mle=256, mlc=200, mfs=800, oldlen=700),
    dict(ver=0x20, tlv=4, mle=15, mlc=2, mfs=40, oldlen=9),
    dict(ver=0x30, tlv=6, mle=64, mlc=4, mfs=60, fsci=2, oldlen=5),
    dict(ver=0x20, tlv=4, mle=15, mlc=13, mfs=5, oldlen=3),
    dict(ver=0x20, tlv=4, mle=59, mlc=52, mfs=64, oldlen=11, wf=0xFF),
]
# layouts that trigger the C01 findings of the unchanged tree (kept out of the C02 / C03 runs)
T4_C01_ONLY = [
    dict(ver=0x20, tlv=4, mle=15, mlc=1, mfs=40, oldlen=9),
    dict(ver=0x30, tlv=6, mle=64, mlc=3, mfs=320, fsci=5, oldlen=5),
    dict(ver=0x20, tlv=4, mle=59, mlc=0x1000, mfs=700, oldlen=30),
    dict(ver=0x20, tlv=4, mle=59, mlc=256, mfs=700, oldlen=30),
    dict(ver=0x20, tlv=4, mle=0x1000, mlc=52, mfs=700, oldlen=30),
    dict(ver=0x20, tlv=4, mle=0x1000, mlc=52, mfs=700, oldlen=300),
]


def t3_multi_layouts(full):
    """Multi-system FeliCa cards: the NDEF system 12FCh at position 0, 1 or 2, the reader activated through
    a wildcard poll (system 0 answers, with or without its system code) or a poll for 12FCh."""
    out = []
    combos = [(2, 0), (2, 1), (3, 1), (3, 2)] + ([(3, 0), (1, 0)] if full else [])
    for nsys, pos in combos:
        for act in ("wild", "ndef", "nocode"):
            if act == "nocode" and not full and (nsys, pos) not in ((2, 1), (3, 2)):
                continue
            out.append(dict(nbr=4, nbw=2, nmaxb=5, extra=1, oldlen=21, nsys=nsys, pos=pos, act=act))
    return out


T3_HUGE = dict(nbr=15, nbw=12, nmaxb=4200, lazy=True, gen=9, ln=100)      # data area > 64 KiB


def t3_attr_layouts(full):
    """Attribute information blocks with every field at its extremes (READ path, tags whose blocks are
    generated lazily): Ver, Nbr, Nbw, Nmaxb (16 bit), RFU, WriteF, RWFlag, Ln (24 bit), checksum."""
    out = []
    big = dict(nbr=15, nbw=12, nmaxb=0xFFFF, lazy=True, gen=3)
    lns = [0x010000, 0x010001,                                          # readable: Ln with a non-zero high byte
           0x0FFFF1, 0x100000, 0x7FFFFF, 0x800000, 0xFF0000, 0xFFFFFF]  # beyond Nmaxb*16: no NDEF
    if full:
        lns += [0x00FFFF, 0x0100FF, 0x01FFFF, 0x020000, 0x0FFFF0]
    for ln in lns:
        out.append(dict(big, ln=ln))
    edge = [(4097, 0x10010), (4097, 0x10011), (4096, 0x10000), (4096, 0x10001)]
    if full:
        edge += [(4097, 0x10000), (0x1001, 0xFFFF)]
    for nmaxb, ln in edge:
        out.append(dict(nbr=12, nbw=8, nmaxb=nmaxb, lazy=True, gen=4, ln=ln))
    small = dict(nbr=4, nbw=3, nmaxb=6, lazy=True, gen=7, ln=40)
    for nmaxb in (0xFFFF, 0x8000, 0x7FFF, 0x0100, 0x00FF, 0x1000, 3, 2):
        out.append(dict(small, nmaxb=nmaxb))
    for f, vals in (("ver", (0x10, 0x1F, 0x20, 0x0F, 0xFF, 0x00)), ("nbr", (0, 1, 2, 15, 16, 255)),
                    ("nbw", (0, 1, 13, 255)), ("rwflag", (0, 1, 2, 0xFF)), ("writef", (0, 0x0F, 1, 0xF0, 0xFF)),
                    ("rfu", (0xFF,)), ("ck", ("plus1", "swapped", "low-only")), ("ln", (0, 1, 95, 96, 97, 0x10028))):
        for v in vals:
            out.append(dict(small, **{f: v}))
    return out


def rand_t3_layout(rnd, big=False):
    """A well-formed Type 3 Tag layout (real constants)."""
    nmaxb = rnd.choice([0, 1, 2, 3, 7, 16, 17, 33, 64]) if not big else rnd.randint(1, 64)
    L = dict(nbr=rnd.randint(1, 15), nbw=rnd.randint(1, 13), nmaxb=nmaxb, extra=rnd.choice([0, 0, 1, 3]),
             rfu=rnd.choice([0, 0, 0xFF, 0x3C]), ver=rnd.choice([0x10, 0x10, 0x11, 0x1F]),
             dirty=rnd.random() < 0.8)
    L["oldlen"] = rnd.choice([0, rnd.randint(0, nmaxb * 16), nmaxb * 16])
    if rnd.random() < 0.15:
        L["writef"] = 0x0F
    return L


def rand_t4_layout(rnd, safe):
    """A well-formed Type 4 Tag layout; safe: inside nlen_size <= MLc <= 255, MLe <= 256."""
    tlv = rnd.choice([4, 4, 6])
    ns = tlv - 2
    mfs = rnd.choice([ns + 1, ns + 3, 32, 64, 255, 256, 257, 258, 259, 260, 300, 600, 1500]) + rnd.choice([0, 0, 1])
    L = dict(ver=rnd.choice([0x20, 0x20, 0x30, 0x10] if tlv == 4 else [0x30, 0x20]), tlv=tlv, mfs=mfs,
             mle=rnd.choice([15, 16, 59, 128, 253, 254, 255, 256]),
             mlc=rnd.choice([ns, ns + 1, 5, 13, 52, 128, 253, 254, 255]),
             extra=rnd.choice([0, 0, 2, 5]), fsci=rnd.choice([2, 3, 5, 7, 8]), tech=rnd.choice("AAB"))
    if not safe and rnd.random() < 0.5:
        L["mlc"] = rnd.choice([1, 1, ns - 1, 256, 300, 0xFFFF])
    if not safe and rnd.random() < 0.3:
        L["mle"] = rnd.choice([257, 300, 0xFFFF])
    L["oldlen"] = rnd.choice([0, rnd.randint(0, mfs - ns), mfs - ns])
    return L


# capability containers with the file-size field at its extremes (16 bit / 32 bit); only the first
# 32 KiB of such a file are addressed (READ/UPDATE BINARY offsets are 15 bit, nfcpy has no ODO commands)
T4_WIDE = [
    dict(ver=0x30, tlv=6, mle=255, mlc=255, mfs=0x10040, oldlen=30),
    dict(ver=0x20, tlv=4, mle=255, mlc=255, mfs=0xFFFE, oldlen=10),
]


def mk(kind, L, op, n, seed, **kw):
    c = dict(kind=kind, layout=L, op=op, seed=seed, part=PART)
    c.update(kw)
    tagk = "t%d" % n if isinstance(n, int) else n
    c["id"] = "%s-%s-%s" % (kind, op, tagk)
    return c


def gen_cases(pid, tier, seed):
    """Deterministic list of cases for one property."""
    rnd = random.Random(seed * 1000003 + int(pid[1:]))
    full = tier != "quick"
    cases = []
    n = [0]

    def add(kind, L, op, **kw):
        n[0] += 1
        cases.append(mk(kind, L, op, n[0], seed * 100000 + n[0], **kw))

    nrand = 60 if full else 2
    r3 = [rand_t3_layout(rnd, big=(i % 2 == 1)) for i in range(nrand)]
    re = [rand_t3_layout(rnd) for i in range(nrand // 2)]
    r4 = [rand_t4_layout(rnd, safe=(pid != "C01")) for i in range(nrand)]
    if pid == "C01":
        for L in T3_LAYOUTS + r3:
            add("t3", L, "read")
            for m in t3_lengths(L, rnd, full):
                add("t3", L, "write", mlen=m)
        for m in ([4095, 4097, 4800, 4801] if not full else t3_lengths(T3_BIG, rnd, False)):
            add("t3", T3_BIG, "write", mlen=m)
        for L in t3_attr_layouts(full):
            add("t3", L, "read")
        for L in t3_multi_layouts(full):
            add("t3", L, "read")
            for m in ([0, 17, 80, 81] if not full else t3_lengths(L, rnd, False)):
                add("t3", L, "write", mlen=m)
        for m in ([66000] if not full else [65535, 65536, 65537, 67199, 67200, 67201]):
            add("t3", T3_HUGE, "write", mlen=m)          # round trip above 64 KiB (Ln needs its third byte)
        for L in EMU_LAYOUTS + re:
            add("emu", L, "read")
            for m in t3_lengths(L, rnd, full):
                add("emu", L, "write", mlen=m)
        for m in ([4097, 4800] if not full else [4095, 4096, 4097, 4799, 4800, 4801]):
            add("emu", T3_BIG, "write", mlen=m)          # block numbers >= 256 through the emulation
        for L in T4_LAYOUTS + T4_C01_ONLY + r4:
            add("t4", L, "read")
            for m in t4_lengths(L, rnd, full):
                add("t4", L, "write", mlen=m)
        for L in T4_WIDE:
            cap = L["mfs"] - (L["tlv"] - 2)
            add("t4", L, "read")
            for m in [20, cap + 1] + ([0, 300] if full else []):
                add("t4", L, "write", mlen=m)
    elif pid == "C02":
        def cuts(ncmds):
            ks = list(range(ncmds + 1))
            if len(ks) > (40 if full else 9):
                keep = {0, 1, 2, 3, ncmds - 2, ncmds - 1, ncmds}
                keep |= set(rnd.sample(ks, 12 if full else 3))
                ks = sorted(k for k in ks if k in keep)
            return ks
        plan = []
        for kind, Ls in (("t3", [T3_LAYOUTS[i] for i in (0, 2, 3, 5)] + r3),
                         ("emu", (EMU_LAYOUTS[:2] if not full else EMU_LAYOUTS) + re)):
            for L in Ls:
                cap = L["nmaxb"] * 16
                ms = uniq([0, 1, 16, 17, L["nbw"] * 16 + 1, cap - 1, cap], 0, cap)
                if full:
                    ms = t3_lengths(L, rnd, False)[:-1]
                plan += [(kind, L, m) for m in ms]
        multi = t3_multi_layouts(full)
        for L in (multi if full else [multi[3], multi[-2]]):      # NDEF system not system 0, wildcard activation
            plan += [("t3", L, m) for m in ((17, 80) if full else (33,))]
        if full:
            plan.append(("t3", T3_HUGE, 66000))          # Ln with three significant bytes, sampled cuts
        for L in [T4_LAYOUTS[i] for i in ((0, 1, 2, 4, 7, 8) if not full else range(0, 10))] + r4:
            cap = L["mfs"] - (L["tlv"] - 2)
            ms = uniq([0, 1, L["mlc"] - L["tlv"] + 2, L["mlc"] - L["tlv"] + 3, 2 * L["mlc"], 256, cap], 0, cap)
            if full:
                ms = t4_lengths(L, rnd, False)[:-1]
            ms = [m for m in ms if (m + 4) // min(L["mlc"], 255) <= (600 if full else 120)]
            plan += [("t4", L, m) for m in ms]
        for kind, L, m in plan:
            n[0] += 1
            base = mk(kind, L, "write", n[0], seed * 100000 + n[0], mlen=m)
            _, info = run_case(base)                       # uncut run: number of commands
            for k in cuts(info["ncmds"]):
                c = dict(base)
                c["cut"] = k
                c["id"] = "%s-cut%d" % (base["id"], k)
                cases.append(c)
            if kind == "t4":
                # transient outage on the ISO-DEP link: frames k..k+r-1 lost (k counted from the first block of
                # the first UPDATE BINARY); 6 = attempts per block of IsoDepInitiator (fails), 7, and 5 (recovers)
                nf = info["nframes"]
                ks = sorted({0, 1, nf // 2, nf - 2, nf - 1} & set(range(nf)))
                if full:
                    ks = list(range(nf)) if nf <= 12 else sorted(set(ks) | set(rnd.sample(range(nf), 8)))
                for k in ks:
                    for r in ((5, 6, 7) if not full else (1, 3, 5, 6, 7, 12)):
                        c = dict(base)
                        c["outage"] = [k, r]
                        c["id"] = "%s-out%d.%d" % (base["id"], k, r)
                        cases.append(c)
            if kind in ("t3", "emu"):
                # transient outage: the write frames k..k+r-1 are lost, later ones reach the tag again; r = the
                # retry budget of send_cmd_recv_rsp (3: one command lost for good) and r + 1, smaller r recover
                nf = info["ncmds"]
                ks = sorted({0, 1, nf // 2, nf - 2, nf - 1} & set(range(nf)))
                if full:
                    ks = list(range(nf)) if nf <= 12 else sorted(set(ks) | set(rnd.sample(range(nf), 8)))
                for k in ks:
                    for r in ((3, 4) if not full else (1, 2, 3, 4, 6)):
                        c = dict(base)
                        c["outage"] = [k, r]
                        c["id"] = "%s-out%d.%d" % (base["id"], k, r)
                        cases.append(c)
    elif pid == "C03":
        t3l = [T3_LAYOUTS[i] for i in (0, 2, 3, 5, 9)]
        for kind, Ls in (("t3", t3l + r3), ("emu", EMU_LAYOUTS + re)):
            for L in Ls:
                cap = L["nmaxb"] * 16
                for m in (uniq([0, 1, 17, cap - 16, cap], 0, cap) if not full else t3_lengths(L, rnd, True)):
                    add(kind, L, "write", mlen=m)
                for wipe in (None, 0xA5, 0):
                    add(kind, L, "format", ver=0x10, wipe=wipe)
                add(kind, L, "format", ver=0x20, wipe=0x11)
        multi = t3_multi_layouts(full)
        for L in (multi if full else [multi[3], multi[-2], multi[1]]):
            for m in (0, 40, 80):
                add("t3", L, "write", mlen=m)
            add("t3", L, "format", ver=0x10, wipe=0x5A)
        if full:
            add("t3", T3_BIG, "format", ver=0x10, wipe=0x3C)
            add("t3", T3_BIG, "write", mlen=4800)
            add("t3", T3_HUGE, "write", mlen=67200)
        for L in [T4_LAYOUTS[i] for i in (0, 1, 2, 4, 7, 8, 10)] + (T4_LAYOUTS[3:4] + T4_LAYOUTS[5:7] if full else []) + r4:
            L = dict(L)
            L.setdefault("extra", 3)
            cap = L["mfs"] - (L["tlv"] - 2)
            for m in (uniq([0, 1, L["mlc"], cap - 1, cap, cap + 1, cap + 2], 0, cap + 2) if not full
                      else t4_lengths(L, rnd, True) + [cap + 2]):
                if m > cap or (m + 4) // min(L["mlc"], 255) <= (1600 if full else 120):
                    add("t4", L, "write", mlen=m)
            for wipe in (None, 0xA9, 0, 0x1FF):
                if cap // min(L["mlc"], 255) <= (1600 if full else 200):
                    add("t4", L, "format", wipe=wipe)
    return cases


# ------------------------------------------------------------------------------------------------
# exhaustive stage

def _cfg_variant(module, base, name, invs=None, consts=None, drop_inv=True):
    """Derive a config from spec/<base> (constants overridden, INVARIANT lines replaced)."""
    txt = open(os.path.join(SPEC, base)).read().splitlines()
    out = []
    for ln in txt:
        s = ln.strip()
        if drop_inv and s.startswith("INVARIANT"):
            continue
        m = s.split("=")[0].strip() if "=" in s else None
        if consts and m in consts:
            ln = "  %s = %s" % (m, consts[m])
        out.append(ln)
    out += ["INVARIANT %s" % i for i in (invs or [])]
    d = os.path.join(OUT, TAG, "cfg")
    os.makedirs(d, exist_ok=True)
    path = os.path.join(d, "%d_%s" % (os.getpid(), name))
    with open(path, "w") as f:
        f.write("\n".join(out) + "\n")
    return path


def mc_jobs(pid, tier):
    """The TLC runs of the exhaustive stage as independent jobs (run concurrently with the
    conformance stage); each returns a function that books its result into the Check."""
    quick = tier == "quick"
    jobs = []

    def mc_job(module):
        consts = dict(MC_FLAGS[pid])
        if not quick:
            consts.update(THOROUGH[module])
        cfg = _cfg_variant(module, "MC_%s.cfg" % module, "%s_%s_mc.cfg" % (pid, module),
                           invs=MC_INVS[pid][module], consts=consts)
        try:
            r = tlc.run(module + ".tla", cfg, TAG + "/" + pid + "/" + module, workers=8,
                        timeout=300 if quick else 1500)
        finally:
            os.remove(cfg)

        def book(ck):
            if not r.ok:
                ck.violation("spec:%s:%s" % (module, ",".join(r.violated or ["deadlock"])),
                             "TLC found a violation in the design-level model %s: %s" % (
                                 module, str(r.error_trace)[-1500:]),
                             replay=dict(part=PART, kind="mc", module=module, pid=pid))
            ck.cover(states=r.distinct, transitions=r.generated)
            ck.cover(**{"mc_%s" % module: dict(distinct=r.distinct, generated=r.generated, depth=r.depth,
                                               invariants=MC_INVS[pid][module])})
        return book

    def wit_job(module, cfg, need, label, errfmt):
        hit, _ = tlc.witnesses(module + ".tla", cfg, TAG + "/" + pid + "/" + label, need, workers=1, timeout=300)
        missing = sorted(set(need) - hit)

        def book(ck):
            if missing:
                raise tlc.TLCError(errfmt % (module, missing))
            ck.cover(**{label: need})
        return book

    def asis_job():
        a = tlc.run("T4Tag.tla", "MC_T4Tag_asis_safe.cfg", TAG + "/" + pid + "/asis", workers=4, timeout=300)

        def book(ck):
            if not a.ok:
                ck.violation("spec:T4Tag(as-is,safe range):%s" % ",".join(a.violated or ["deadlock"]),
                             "TLC violation in the as-is model within MLc in nlen_size..LcMax, MLe <= LeMax",
                             replay=dict(part=PART, kind="mc", module="T4Tag", pid=pid))
            ck.cover(states=a.distinct, transitions=a.generated)
        return book

    for module in ("T3Tag", "T4Tag"):
        jobs.append(lambda m=module: mc_job(m))
        jobs.append(lambda m=module: wit_job(m, "MC_%s_reach.cfg" % m, WITNESSES[pid][m], "witnesses_%s" % m,
                                             "vacuous model %s: witnesses not reached: %s"))
    if pid == "C01":
        # the model of the code as it is reproduces the known C01 defects (else the model is too kind)
        # and is correct inside the range where the current code is right
        jobs.append(lambda: wit_job("T4Tag", "MC_T4Tag_defects.cfg",
                                    ["D_NlenTruncated", "D_WriteRaises", "D_ReadRaises"],
                                    "defects_reproduced_by_asis_model", "%s(as-is) does not reproduce: %s"))
        jobs.append(asis_job)
    return jobs


def mc_stage(ck, pid, tier):
    for j in mc_jobs(pid, tier):
        j()(ck)


# ------------------------------------------------------------------------------------------------
# conformance stage

def layout_class(case):
    """Input class of a case, part of the canonical violation key."""
    L = case["layout"]
    if case["kind"] != "t4":
        c = []
        if L["nmaxb"] > 255:
            c.append("nmaxb>255")
        if L.get("writef"):
            c.append("writef0")
        return ",".join(c) or "std"
    ns = L["tlv"] - 2
    c = []
    if L["mlc"] < ns:
        c.append("mlc<nlen_size")
    if L["mlc"] > 255:
        c.append("mlc>255")
    if L["mle"] > 256:
        c.append("mle>256")
    return ",".join(c) or "std"


def classify(case, tr, verdict):
    line, act, why = verdict[1], verdict[2], verdict[3]
    kind = why[0] if why else "?"
    what = case["kind"] + ("/format" if case["op"] == "format" else "")
    if kind == "inv":
        cls = layout_class(case)
        # the input class that matters for the failing clause (layouts may combine several)
        relevant = {"RoundTrip": "mlc<nlen_size", "WriteOk": "mlc>255", "FreshOk": "mle>256"}
        if len(why[1]) == 1 and why[1][0] in relevant and case["kind"] == "t4":
            cls = relevant[why[1][0]] if relevant[why[1][0]] in cls.split(",") else "std"
        return "%s:inv:%s@%s:%s" % (what, "+".join(why[1]), act, cls), set(why[1])
    if kind == "view":
        return "%s:view-differs-from-RefRead@%s:%s" % (what, act, layout_class(case)), {"FreshOk"}
    pc = why[1] if len(why) > 1 else "?"
    return "%s:%s@%s:pc=%s:%s" % (what, kind, act, pc, layout_class(case)), set()


def selftest_traces(traces):
    """Binding self-test: a corrupted field and a dropped event must both be rejected.
    -> [(kind, source id, variant trace)] for up to three source traces per spec."""
    out = []
    for kind in ("t3", "t4"):
        n = 0
        for tr, case in traces:
            ws = [i for i, e in enumerate(tr["ev"]) if e["a"] == "W"]
            if case["kind"] != kind or len(ws) < 3:
                continue
            a = json.loads(json.dumps(tr))
            a["ev"][ws[1]]["data"][0] ^= 0x40
            a["id"] = tr["id"] + "~corrupt"
            b = json.loads(json.dumps(tr))
            del b["ev"][ws[1]]
            b["id"] = tr["id"] + "~dropped"
            out += [(kind, tr["id"], a), (kind, tr["id"], b)]
            n += 1
            if n == 6:
                break
        if n == 0:
            raise tlc.TLCError("binding self-test: no %s trace with >= 3 commands" % kind)
    return out


def sim_selfcheck():
    """The simulators must answer the repository's own transcripts byte for byte
    (tests/test_tag_tt4.py::test_write_ndef_data_long, tests/test_tag_tt3.py::test_ndef_write)."""
    H = lambda x: bytes.fromhex(x.replace(" ", ""))       # noqa: E731
    t = SimT4T(ver=0x20, tlv_tag=4, mle=0x3b, mlc=0x34, mfs=0x40, ndef=H("000e d1010a55036e666370792e6f7267"))
    t.exchange(H("E080"))
    cr = [("02 00a4040007 d276000085010100", "02 9000"), ("03 00a4000c02 e103", "03 9000"),
          ("02 00b0000002", "02 000f 9000"), ("03 00b000020d", "03 20 003b 0034 04 06 e104 0040 00 00 9000"),
          ("02 00a4000c02 e104", "02 9000"), ("03 00b0000002", "03 000e 9000"),
          ("02 00b000020e", "02 d1010a55 036e6663 70792e6f 7267 9000"),
          ("03 00d6000034 0000d5003b30" + "30" * 46, "03 9000"), ("02 00d600340c" + "30" * 12, "02 9000"),
          ("03 00d6000002 003e", "03 9000")]
    if not all(t.exchange(H(c)) == H(r) for c, r in cr):
        raise tlc.TLCError("SimT4T does not reproduce tests/test_tag_tt4.py::test_write_ndef_data_long")
    s = SimT3T(H("10 02 02 00 03 00 00 00 00 00 01 00 00 00 00 18"), idm=H("0102030405060708"), pmm=H("FF" * 8))
    a = "0102030405060708"
    cr = [("10 06" + a + "010b00 018000", "1d 07" + a + "0000 01 10 02 02 00 03 00 00 00 00 00 01 00 00 00 00 18"),
          ("20 08" + a + "010900 018000 1002020003000000000f010000000027", "0c 09" + a + "0000"),
          ("32 08" + a + "010900 0280018002 d10222537091010e55036e66632d666f 72756d2e6f726751010c5402656e4e46",
           "0c 09" + a + "0000"),
          ("20 08" + a + "010900 018003 4320466f72756d000000000000000000", "0c 09" + a + "0000"),
          ("20 08" + a + "010900 018000 1002020003000000000001000027003f", "0c 09" + a + "0000")]
    if not all(s.exchange(H(c)) == H(r) for c, r in cr):
        raise tlc.TLCError("SimT3T does not reproduce tests/test_tag_tt3.py::test_ndef_write")


def conformance_stage(ck, pid, tier, seed):
    sim_selfcheck()
    cases = gen_cases(pid, tier, seed)
    traces = []
    info = {}
    for c in cases:
        tr, inf = run_case(c)
        traces.append((tr, c))
        info[tr["id"]] = inf
    st_all = dict(states=0, transitions=0)
    self_t = selftest_traces(traces)
    selftested = []
    acc = nev = 0
    for kinds, module in ((("t3", "emu"), "T3Tag"), (("t4",), "T4Tag")):
        batch = [(tr, c) for tr, c in traces if c["kind"] in kinds]
        extra = [t for k, src, t in self_t if k in kinds]
        verdicts, st = tlc.validate_traces("Trace_%s.tla" % module, "Trace_%s.cfg" % module, TAG + "/" + pid,
                                           [tr for tr, c in batch] + extra, shards=10,
                                           timeout=600 if tier == "quick" else 2400)
        st_all["states"] += st["states"]
        st_all["transitions"] += st["transitions"]
        tested = 0
        for k, src, t in self_t:
            if k in kinds and verdicts[src][0] == "ACCEPT":
                tested += 1
                if verdicts[t["id"]][0] == "ACCEPT":
                    raise tlc.TLCError("binding vacuous: corrupted trace %s accepted" % t["id"])
        selftested.append((module, tested))
        if tested == 0:      # every candidate source trace was itself rejected (reported below)
            ck.note("tags34: binding self-test for %s had no accepted source trace" % module)
        for tr, c in batch:
            v = verdicts[tr["id"]]
            nev += len(tr["ev"])
            if v[0] == "ACCEPT":
                acc += 1
                continue
            key, invs = classify(c, tr, v)
            ev = dict(tr["ev"][v[1] - 1])
            for f in ("data", "m", "v", "blocks", "reads", "attr", "ndef", "oth"):
                if f in ev and isinstance(ev[f], list) and len(ev[f]) > 24:
                    ev[f] = ev[f][:24] + ["...%d" % len(ev[f])]
            ck.violation(key, "trace %s rejected at event %d (%s): %s ; layout=%s mlen=%s cut=%s ; event=%s" % (
                tr["id"], v[1], v[2], json.dumps(v[3])[:500], json.dumps(c["layout"]), c.get("mlen"), c.get("cut"),
                json.dumps(ev)[:400]), replay=c)
    ncut = sum(1 for tr, c in traces if c.get("cut") is not None)
    ck.cover(traces_validated_against_impl=acc, trace_events=nev, trace_states=st_all["states"],
             tags34=dict(traces=len(traces), accepted=acc, cut_traces=ncut,
                         t3=sum(1 for _, c in traces if c["kind"] == "t3"),
                         emu=sum(1 for _, c in traces if c["kind"] == "emu"),
                         t4=sum(1 for _, c in traces if c["kind"] == "t4"),
                         binding_selftest="corrupted data byte / dropped W event variants rejected: %s" % selftested))
    rich = [x for x in traces if x[1].get("mlen", 0) > 16 and len(x[0]["ev"]) >= 5]
    for tr, c in [x for x in rich if x[1]["kind"] != "t4"][:1] + [x for x in rich if x[1]["kind"] == "t4"][:1]:
        evs = []
        for e in tr["ev"][:4]:
            e = dict(e)
            for f in ("data", "m", "v", "blocks", "reads", "attr", "ndef", "oth"):
                if f in e and len(e[f]) > 8:
                    e[f] = e[f][:8] + ["...%d" % len(e[f])]
            evs.append(e)
        ck.sample(dict(trace=tr["id"], layout=c["layout"], first_events=evs))
    ck.assume(
        "T3/T4 part: exhaustive runs use scaled constants (block size 2, Nmaxb <= 4; byte base 4, file <= 12 bytes, "
        "short-APDU limits 4); real constants (16-byte blocks, write round trips with Nmaxb <= 4200 incl. one above "
        "64 KiB, files <= 2 KB, MLc/MLe 1..65535) are exercised by trace validation of sampled layouts x boundary "
        "lengths x cut points only; the READ path is exercised with every attribute field at its extremes (Nmaxb up "
        "to 65535, Ln up to 2^24-1, Nbr/Nbw 0..255, all flag values, wrong checksums) on lazily served tags, the "
        "16 raw attribute bytes being parsed by the TLA+ module",
        "T4: only offsets <= 0x7FFF of the NDEF file are addressed (file sizes up to 0x10040 are announced), read "
        "access granted; C02 is not demanded when MLc < NLEN size (no writer can update NLEN with one command); T3 "
        "writes: 1 <= Nbw <= 13 (12 above 255 blocks), announced Nbr/Nbw = what the tag accepts",
        "a Write Without Encryption / UPDATE BINARY command is executed completely or not at all by the tag; a power "
        "cut falls between two commands (the answer to the last executed command is lost)")


def _run(ck, pid, tier, seed):
    import concurrent.futures as cf
    with cf.ThreadPoolExecutor(max_workers=6) as ex:
        futs = [ex.submit(j) for j in mc_jobs(pid, tier)]      # TLC subprocesses
        conformance_stage(ck, pid, tier, seed)                  # real nfcpy runs + trace validation
        books = [f.result() for f in futs]
    for b in books:
        b(ck)


def run_c01(ck, tier, seed):
    _run(ck, "C01", tier, seed)


def run_c02(ck, tier, seed):
    _run(ck, "C02", tier, seed)


def run_c03(ck, tier, seed):
    _run(ck, "C03", tier, seed)


def replay_tags34(rep, args):
    """Re-execute one stored violation (rep = the replay file content)."""
    c = rep["replay"]
    if c.get("kind") == "mc":
        module = c["module"]
        r = tlc.run(module + ".tla", "MC_%s.cfg" % module, TAG + "/replay", workers=8, timeout=600)
        print("replay: TLC %s: ok=%s violated=%s" % (module, r.ok, r.violated))
        if not r.ok:
            print(str(r.error_trace)[-3000:])
            print("VIOLATION property=%s replay=%s" % (rep.get("property"), args.replay))
            return 1
        return 0
    tr, inf = run_case(c)
    module = MODULES[c["kind"]]
    verdicts, st = tlc.validate_traces("Trace_%s.tla" % module, "Trace_%s.cfg" % module, TAG + "/replay", [tr], shards=1)
    v = verdicts[tr["id"]]
    print("replay: case %s layout=%s mlen=%s cut=%s commands=%d" % (
        c["id"], json.dumps(c["layout"]), c.get("mlen"), c.get("cut"), inf["ncmds"]))
    print("replay verdict:", json.dumps(v)[:1500])
    if v[0] != "ACCEPT":
        ev = dict(tr["ev"][v[1] - 1])
        for f in ("data", "m", "v", "blocks", "reads", "attr", "ndef", "oth"):
            if f in ev and isinstance(ev[f], list) and len(ev[f]) > 32:
                ev[f] = ev[f][:32] + ["...%d" % len(ev[f])]
        print("first diverging event %d: %s" % (v[1], json.dumps(ev)[:1200]))
        print("VIOLATION property=%s replay=%s" % (rep.get("property"), args.replay))
        return 1
    return 0
