"""TLC side of C09: judging the LlcpLife model-checking run and validating recorded executions."""
import json
from vlib import tlc

THREADS = ["ldl_recv", "ldl_poll", "dlc_client", "dlc_client_name", "dlc_server", "resolve", "poll_send",
           "late_connect", "late_resolve", "late_accept", "late_recvfrom", "late_bound_recvfrom",
           "late_sendto", "early_then_late", "dlc_poll_recv", "dlc_poll_acks", "dlc_poll_send",
           "dlc_frmr_peer", "dlc_frmr_local", "dlc_frmr_ui", "dlc_server2", "wks_clash", "resolve_a", "resolve_b", "resolve_c"]
SOCKS = ["ldl1", "ldl2", "ldl3", "ldl4", "dlc1", "dlc2", "dlc2c", "dlc2cc", "dlc3", "dlc4", "dlc5", "dlc6", "dlc7", "dlc8", "dlc9", "sd", "fresh", "raw4", "wks"]


def judge_mc(ck, r):
    if not r.ok:
        ck.violation("spec:LlcpLife:" + ",".join(r.violated or ["deadlock"]),
                     "TLC: the model of the current code violates %s: %s" % (r.violated, str(r.error_trace)[:1500]))
    # the pre-fix model must violate NoStuckLive (the lost wake-up) - keeps the model honest
    p = tlc.run("LlcpLife.tla", "MC_LlcpLife_prefix.cfg", "C09", workers=4, timeout=300)
    if "NoStuckLive" not in p.violated:
        raise tlc.TLCError("vacuous: the non-atomic check model does not exhibit the lost wake-up")
    # the model of the code before the fix "sockets can not be bound to a terminated controller" (DeadBind = TRUE) must
    # violate NoStuck: documents that defect at specification level and keeps the model honest
    q = tlc.run("LlcpLife.tla", "MC_LlcpLife_strict.cfg", "C09", workers=4, timeout=300)
    if "NoStuck" not in q.violated:
        raise tlc.TLCError("vacuous: the DeadBind model does not exhibit the hang on a dead controller")
    # the model of the code before the fix "accept() could register a connection at an access point removed by
    # terminate()" (DeadAdopt = TRUE) must violate NoOrphan
    o = tlc.run("LlcpLife.tla", "MC_LlcpLife_orphan.cfg", "C09", workers=4, timeout=300)
    if "NoOrphan" not in o.violated:
        raise tlc.TLCError("vacuous: the DeadAdopt model does not exhibit the orphaned connection")
    ck.cover(deadbind_model_violated=q.violated, prefix_model_violated=p.violated, deadadopt_model_violated=o.violated)
    hit, _ = tlc.witnesses("LlcpLife.tla", "MC_LlcpLife.cfg", "C09", ["W_WaitAtTerm", "W_Notified", "W_Data", "W_AdoptTerm", "W_Closed"])
    if len(hit) != 5:
        raise tlc.TLCError("vacuous: witnesses reached only %s" % sorted(hit))
    ck.cover(witnesses_reached=sorted(hit))


def validate(ck, traces):
    if not traces:
        ck.cover(traces_validated_against_impl=0)
        return
    # binding self-test: drop the Shutdown events of one trace / corrupt one result class
    st = []
    for tr in traces:
        if any(e["a"] == "Shutdown" for e in tr["ev"]) and any(e["a"] == "Wake" for e in tr["ev"]):
            t1 = json.loads(json.dumps(tr))
            t1["ev"] = [e for e in t1["ev"] if e["a"] != "Shutdown"]
            t1["id"] = tr["id"] + "-noshutdown"
            st.append(t1)
            break
    for tr in traces:
        idx = [i for i, e in enumerate(tr["ev"]) if e["a"] == "Ret" and e["x"] == "error" and e["op"] in ("recvfrom", "recv", "accept")]
        if idx:
            t2 = json.loads(json.dumps(tr))
            t2["ev"][idx[0]]["x"] = "exc:AttributeError"
            t2["id"] = tr["id"] + "-exc"
            st.append(t2)
            break
    slim = [dict(id=t["id"], ev=t["ev"]) for t in traces + st]        # schedules (picks) stay on the Python side
    verdicts, stats = tlc.validate_traces("Trace_LlcpLife.tla", "Trace_LlcpLife.cfg", "C09", slim, shards=16,
                                          timeout=900)
    for t in st:
        if verdicts[t["id"]][0] == "ACCEPT":
            raise tlc.TLCError("binding vacuous: mutated trace %s accepted" % t["id"])
    if len(st) < 2:
        raise tlc.TLCError("binding self-test could not find suitable traces")
    acc = 0
    for tr in traces:
        v = verdicts[tr["id"]]
        if v[0] == "ACCEPT":
            acc += 1
            continue
        line, act, why = v[1], v[2], v[3]
        ev = tr["ev"][line - 1]
        if act == "End":
            stuck = why.get("stuck") if isinstance(why, dict) else None
            key = "trace:stuck-at-end:%s" % (sorted(stuck[1]) if isinstance(stuck, tuple) else stuck)
        elif act == "Ret" and str(ev.get("x", "")).startswith("exc:"):
            key = "trace:exc:%s:%s" % (ev["op"], ev["x"][4:])
        else:
            key = "trace:%s:%s:%s" % (act, ev.get("op"), ev.get("x"))
        ck.violation(key, "execution %s (%s, cause=%s) rejected by Trace_LlcpLife at event %d %s: %s" % (
            tr["id"], tr["progs"], tr["cause"], line, json.dumps(ev), json.dumps(why, default=str)[:500]),
            replay=dict(kind="trace", progs=tr["progs"], cause=tr["cause"], cut=tr.get("cut"), picks=tr.get("picks"),
                        events=tr["ev"][:line + 2]))
    ck.cover(traces_validated_against_impl=acc, trace_states=stats["states"])
    ck.sample(dict(trace=traces[0]["id"], progs=traces[0]["progs"], cause=traces[0]["cause"], events=traces[0]["ev"][:12]))
