"""Stand-alone reproductions of the C16 findings against the real nfcpy code (no TLC involved).

    cd /verif && /venv/bin/python -m bind.c16_repro <name>      (NFCPY_SRC honoured)

  t2-sector-select   transmission error on SECTOR SELECT packet 2 -> AssertionError (tt2.py:553)
  t3-ndef-write      attribute block unreadable (3 time-outs) -> TypeError in _write_ndef_data (tt3.py:229-230)
  t3-format          3 time-outs on one probing read -> format() returns True with a wrong attribute block
  lites-protect      FeliCa Lite-S protect(): NDEF detection fails 3 times -> True, attribute block not made read-only
  lites-ndef-raises  FeliCa Lite-S authenticated: tag.ndef raises Type3TagCommandError instead of giving None
Exit code 1 = defect reproduced, 0 = not reproduced.
"""
import sys
import vlib
vlib.use_repo()
import nfc, nfc.clf, nfc.tag   # noqa


class ScriptedClf(object):
    max_send_data_size = 256
    max_recv_data_size = 256

    def __init__(self, answers):
        self.answers = list(answers)
        self.sent = []

    def sense(self, target, **kw):
        return target

    def exchange(self, data, timeout):
        self.sent.append(bytes(data).hex())
        a = self.answers.pop(0)
        if isinstance(a, type) and issubclass(a, Exception):
            raise a("scripted")
        return bytearray(a)


def attempt(fn):
    try:
        r = fn()
        print("returned:", r)
        return ("ret", r)
    except nfc.tag.TagCommandError as e:
        print("raised %s errno=%d (%s)" % (type(e).__name__, e.errno, e))
        return ("tagerr", e.errno)
    except Exception as e:
        print("raised %s.%s: %r" % (type(e).__module__, type(e).__name__, e))
        return ("other", type(e).__name__)


def t2_sector_select():
    clf = ScriptedClf([b"\x0A", nfc.clf.TransmissionError])
    target = nfc.clf.RemoteTarget("106A", sens_res=bytearray(b"\x44\x00"), sel_res=bytearray(b"\x00"),
                                  sdd_res=bytearray(b"\x08\x01\x02\x03\x04\x05\x06"))
    tag = nfc.tag.activate(clf, target)
    r = attempt(lambda: tag.sector_select(1))
    print("commands sent:", clf.sent)
    return r[0] == "other"


def t3_ndef_write():
    attr = bytearray.fromhex("10 04 01 000d 00000000 00 01 000007 0000")
    attr[14:16] = sum(attr[0:14]).to_bytes(2, "big")
    idm = bytes.fromhex("02FE112233445566")
    rd = lambda blocks: bytes([13 + 16 * len(blocks), 0x07]) + idm + b"\x00\x00" + bytes([len(blocks)]) + b"".join(blocks)  # noqa
    clf = ScriptedClf([rd([attr]), rd([bytes.fromhex("D1010354026565") + bytes(9)]),
                       nfc.clf.TimeoutError, nfc.clf.TimeoutError, nfc.clf.TimeoutError])
    target = nfc.clf.RemoteTarget("212F", sensf_res=bytearray(b"\x01" + idm + bytes.fromhex("03774B024F4993FF") + b"\x12\xFC"))
    tag = nfc.tag.activate(clf, target)
    print("ndef before:", tag.ndef.octets.hex())
    r = attempt(lambda: setattr(tag.ndef, "octets", b"\xD1\x01\x01\x54\x00"))
    return r[0] == "other"


def t3_format():
    from bind import c16
    sc = dict(p=14, k="timeout", b=3, m="before")
    proto, nretry, clf, sim, tag = c16.run_one(c16.make_t3, c16.nop, lambda t: t.format(version=0x10), sc)
    print("fault script:", sc, "(14th command of format(): the probing read of block 8, which exists; three time-outs)")
    print("format() ended with:", clf.ev[-1])
    a = sim.blocks[0]
    print("attribute block now: Nbr=%d Nbw=%d NmaxB=%d (the tag has 13 blocks, Nbr=4)" % (a[1], a[2], a[3] << 8 | a[4]))
    return clf.ev[-1]["kind"] == "ok" and clf.ev[-1]["val"] == "True"


def lites_protect():
    from bind import c16
    sc = dict(p=2, k="timeout", b=3, m="before")
    fac = lambda: c16.make_lite("lites")                                                    # noqa: E731
    proto, nretry, clf, sim, tag = c16.run_one(fac, c16.authenticated, lambda t: t.protect(), sc)
    print("FeliCa Lite-S, authenticated; protect(): the 2nd command (attribute block read of tag.ndef) times out 3 times")
    print("protect() ended with:", clf.ev[-1])
    print("attribute block RW flag on the tag is still %d although the memory is now write protected (MC %s)" % (
        sim.mem[0][10], bytes(sim.mem[0x88][0:6]).hex()))
    return clf.ev[-1]["kind"] == "ok" and clf.ev[-1]["val"] == "True"


def lites_ndef_raises():
    from bind import c16
    sc = dict(p=3, k="timeout", b=3, m="before")
    fac = lambda: c16.make_lite("lites")                                                    # noqa: E731
    proto, nretry, clf, sim, tag = c16.run_one(fac, c16.authenticated, lambda t: t.ndef, sc)
    print("FeliCa Lite-S, authenticated; tag.ndef: the 3rd command (MC block read in _read_attribute_data) times out 3 times")
    print("tag.ndef ended with:", clf.ev[-1])
    return clf.ev[-1]["kind"] != "ok"


if __name__ == "__main__":
    name = sys.argv[1] if len(sys.argv) > 1 else ""
    fn = {"t2-sector-select": t2_sector_select, "t3-ndef-write": t3_ndef_write, "t3-format": t3_format,
          "lites-protect": lites_protect, "lites-ndef-raises": lites_ndef_raises}.get(name)
    if fn is None:
        raise SystemExit(__doc__)
    bad = fn()
    print("DEFECT REPRODUCED" if bad else "not reproduced")
    sys.exit(1 if bad else 0)
