"""stand-alone reproduction of the C19 findings: the LLC run loop pauses ignore the announced RWT / LTO.
   /venv/bin/python /verif/bind/c19_repro.py"""
import sys; sys.path.insert(0, '/verif')
from vlib import use_repo; use_repo()
import logging
import nfc, nfc.clf, nfc.dep, nfc.llcp.llc
from sim.air import Air

logging.basicConfig(level=logging.WARNING, format="      %(name)s: %(message)s")
for _n in ("nfc", "nfc.dep", "nfc.llcp.llc", "nfc.clf"):
    logging.getLogger(_n).setLevel(logging.WARNING)


def link(rounds, **opts):
    air = Air(); clf_i, clf_t = air.frontends()
    air.clock.install(nfc.dep, nfc.clf, nfc.llcp.llc)
    n = {"i": 0, "t": 0}; up = {}

    def hook(side, limit):
        def terminate():
            n[side] += 1
            return n[side] > limit
        return terminate

    def oc(side):
        def on_connect(llc):
            up[side] = True; n[side] = 0
            return True
        return on_connect
    try:
        air.run(lambda: clf_i.connect(llcp={"role": "initiator", "lto": opts.get("lto_i", 500), "on-connect": oc("i")},
                                      terminate=hook("i", rounds)),
                lambda: clf_t.connect(llcp={"role": "target", "rwt": opts.get("rwt", 8), "lto": opts.get("lto_t", 500),
                                            "on-connect": oc("t")}, terminate=hook("t", 10 ** 6)))
    finally:
        air.clock.uninstall()
    return n["i"]


print("1. target announces rwt=0 (0.3 ms) but pauses 1 ms before it answers: the link dies in the first exchange")
print("   run loop iterations of the initiator before the link ended: %d of 5" % link(5, rwt=0))
print("2. rwt=6 (19 ms), idle link: after 10 SYMM PDUs the target pauses 50 ms")
print("   iterations: %d of 30" % link(30, rwt=6))
print("3. initiator announces lto=10 ms, idle link: its 50 ms idle pause exceeds the target's timeout (lto+10 ms)")
print("   iterations: %d of 30" % link(30, lto_i=10))
print("4. defaults (rwt=8, lto=500): %d of 30" % link(30))
