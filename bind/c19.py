"""C19 -- peer-to-peer activation negotiates limits both sides then obey.

Spec: spec/P2pNeg.tla: the parameters both sides must hold after activation as a pure function of the two
option records (written from the protocol rules); TLC enumerates the structured grid (sub-grids "dep",
"ml", "opt"; thorough adds "depx", "llcp") as initial states and checks Symmetric / WithinRanges.
Binding: the same grid is re-enumerated on two real stacks -- LogicalLinkController.activate(mac=
nfc.dep.Initiator(clf_i), **dep_opts) versus ...activate(mac=nfc.dep.Target(clf_t), ...) over the simulated
air (sim/air.py), with the options going where ContactlessFrontend._llcp_connect puts them -- and
Trace_P2pNeg requires proj = Proj(Expected(cfg)); then LLCP PDUs of the maximum negotiated size cross the
link with the frame monitor on (size <= LR of the receiver, bit rate = the selected one).
Full traffic phase (bind/c19_traffic.py): the real run loops; both sides open a data link connection to the other's
service, addressed by SAP / by service name / by SAP after resolve() (rotating), CONNECT and CC announcing MIU and RW;
every connection end reports what it holds (End: SO_SNDMIU, messages taken before EWOULDBLOCK) and is offered one
message of exactly the receiver's limit and one of one octet more (Over); Trace_P2pNeg follows the PDUs on the air
with the connection actions of P2pNeg and requires ConnEqual / Admitted / Refused / WinObey / Obey.
"""
import json, math, concurrent.futures as cf
from vlib import tlc, check, tlaval

import nfc
import nfc.clf
import nfc.dep
import nfc.llcp
import nfc.llcp.llc
import nfc.llcp.pdu
from sim.air import Air
from bind.c04 import _SeededOs

PID = "C19"
LR = (64, 128, 192, 254)
MIUS = (128, 129, 248, 1024, 2174, 2175)
LTOS = (10, 100, 105, 500, 2550)
LTOSX = (0, 5, 9, 10, 19, 100, 500, 2550, 2559, 2560)      # the edges of the LTO TLV encoding, see P2pNeg.tla
SIZE = dict(dep=3 * 2 * 2 * 4 * 4 * 15, ml=6 * 6 * 5 * 5, opt=4 * 4 * 2 * 2 * 2 * 2, depx=2880 * 16, llcp=900 * 256, lto=10 * 10)


# ------------------------------------------------------------------ the grid (same arithmetic as P2pNeg.tla)
def mix(k):
    return dict(brs=(k * 7 + 1) % 3, acm=(k * 5 + 1) % 2 == 0, disc="F" if (k * 3) % 5 == 0 else "A",
                lri=(k * 3 + 1) % 4, lrt=(k * 5 + 2) % 4, rwt=(k * 11 + 4) % 15,
                miuI=MIUS[(k * 5 + 2) % 6], miuT=MIUS[(k * 7 + 3) % 6],
                ltoI=LTOS[(k * 3 + 1) % 5], ltoT=LTOS[(k * 7 + 2) % 5],
                lscI=(k * 3 + 3) % 4, lscT=(k * 5 + 1) % 4,
                agfI=(k * 3) % 2 == 0, agfT=(k * 7 + 1) % 2 == 0,
                snepI=(k * 5) % 3 == 0, snepT=(k * 7) % 3 == 1,
                xrwtI=(k * 7 + 3) % 15, xlrtI=(k * 3 + 2) % 4, xbrsT=(k * 5 + 2) % 3,
                xlriT=(k * 7 + 1) % 4, xacmT=(k * 3 + 1) % 2 == 0)


def dep_part(m, k):
    m.update(brs=k % 3, acm=(k // 3) % 2 == 1, disc="F" if (k // 6) % 2 == 1 else "A",
             lri=(k // 12) % 4, lrt=(k // 48) % 4, rwt=(k // 192) % 15)
    return m


def ml_part(m, k):
    m.update(miuI=MIUS[k % 6], miuT=MIUS[(k // 6) % 6], ltoI=LTOS[(k // 36) % 5], ltoT=LTOS[(k // 180) % 5])
    return m


def opt_part(m, k):
    m.update(lscI=k % 4, lscT=(k // 4) % 4, agfI=(k // 16) % 2 == 1, agfT=(k // 32) % 2 == 1,
             snepI=(k // 64) % 2 == 1, snepT=(k // 128) % 2 == 1)
    return m


def grid_cfg(kind, k):
    if kind == "dep":
        return dep_part(mix(k), k)
    if kind == "ml":
        return ml_part(mix(k + 1), k)
    if kind == "opt":
        return opt_part(mix(k + 2), k)
    if kind == "depx":
        return dep_part(mix((k // 2880) * 131 + k + 3), k % 2880)
    if kind == "llcp":
        return opt_part(ml_part(mix(k + 4), k % 900), k // 900)
    if kind == "lto":
        m = mix(k + 5)
        m.update(ltoI=LTOSX[k % 10], ltoT=LTOSX[(k // 10) % 10])
        return m
    raise ValueError(kind)


# ------------------------------------------------------------------ one real activation
def wt_index(rwt):
    return int(round(math.log(rwt * 13.56E6 / 4096, 2)))


def dep_size(fr):
    """transport bytes (LEN - 1) of a DEP frame on the air, None if malformed"""
    d = bytearray(fr.data)
    if fr.brty == "106A":
        if not d or d.pop(0) != 0xF0:
            return None
    if not d or d[0] != len(d):
        return None
    return len(d) - 1


def activate_pair(kind, k, traffic=True):
    x = grid_cfg(kind, k)
    air = Air()
    clf_i, clf_t = air.frontends()
    if x["disc"] == "F":
        air.devices["T"].listen_tech = ("212F", "424F")
    # the options exactly as an application gives them to ContactlessFrontend.connect(llcp={...}); connect()
    # builds the LogicalLinkController from them and _llcp_connect (clf/__init__.py:622-635) passes
    # brs/acm/rwt/lrt/lri on to nfc.dep.Initiator / nfc.dep.Target
    box = {}

    def startup(side, snep):
        def f(llc):
            if snep:
                s = nfc.llcp.Socket(llc, nfc.llcp.DATA_LINK_CONNECTION)
                s.bind("urn:nfc:sn:snep")
            box[side] = llc
            return llc
        return f

    def once():
        st = dict(n=0)

        def terminate():
            st["n"] += 1
            return st["n"] > 1
        return terminate

    opts_i = {"role": "initiator", "brs": x["brs"], "acm": x["acm"], "rwt": x["xrwtI"], "lrt": x["xlrtI"],
              "lri": x["lri"], "miu": x["miuI"], "lto": x["ltoI"], "lsc": x["lscI"], "agf": x["agfI"],
              "on-startup": startup("i", x["snepI"]), "on-connect": lambda llc: False}
    opts_t = {"role": "target", "brs": x["xbrsT"], "acm": x["xacmT"], "rwt": x["rwt"], "lrt": x["lrt"],
              "lri": x["xlriT"], "miu": x["miuT"], "lto": x["ltoT"], "lsc": x["lscT"], "agf": x["agfT"],
              "on-startup": startup("t", x["snepT"]), "on-connect": lambda llc: False}
    ev, mark, xf = [], {}, []

    def fi():
        llc_i = clf_i.connect(llcp=opts_i, terminate=once())
        mark["i"] = len(air.log)
        ok = bool(llc_i)
        if not ok:
            return ok
        llc_t = box["t"]
        # (the target's activation completes with the first DEP_REQ, so there is always one small exchange)
        for n in ((llc_i.cfg["send-miu"], 1) if traffic else (1,)):
            data = bytes((7 * j + n) & 0xFF for j in range(n))
            mark["isent"] = data
            rcvd = llc_i.exchange(nfc.llcp.pdu.UnnumberedInformation(32, 33, data=data), 10.0)
            want = mark.get("tsent")
            xf.append(dict(a="Xfer", dir="TI", n=len(rcvd.data) if rcvd is not None and rcvd.name == "UI" else -1,
                           ok=rcvd is not None and rcvd.name == "UI" and bytes(rcvd.data) == want,
                           full=want is not None and len(want) == llc_t.cfg["send-miu"]))
        return ok

    def ft():
        llc_t = clf_t.connect(llcp=opts_t, terminate=once())
        ok = bool(llc_t)
        if not ok:
            return ok
        llc_i = box["i"]
        rcvd = llc_t.exchange(None, 10.0)
        for n in ((llc_t.cfg["send-miu"], 1) if traffic else (1,)):
            if rcvd is None:
                break
            want = mark.get("isent")
            xf.append(dict(a="Xfer", dir="IT", n=len(rcvd.data) if rcvd.name == "UI" else -1,
                           ok=rcvd.name == "UI" and bytes(rcvd.data) == want,
                           full=len(want) == llc_i.cfg["send-miu"]))
            data = bytes((11 * j + n) & 0xFF for j in range(n))
            mark["tsent"] = data
            rcvd = llc_t.exchange(nfc.llcp.pdu.UnnumberedInformation(33, 32, data=data), 10.0)
        return ok

    old_os = nfc.dep.os
    nfc.dep.os = _SeededOs(k & 0xFFFF)
    air.clock.install(nfc.dep, nfc.clf, nfc.llcp.llc)
    try:
        res = air.run(fi, ft)
    finally:
        air.clock.uninstall()
        nfc.dep.os = old_os
    for r in res:
        if r[0] == "exc":
            raise r[1]
    ok_i, ok_t = bool(res[0][1]), bool(res[1][1])
    rec = dict(a="Activate", ok=ok_i and ok_t, ok_i=ok_i, ok_t=ok_t, proj={})
    if ok_i and ok_t:
        atr_req = [f for f in air.log if f.src == "I" and b"\xD4\x00" in f.data[:4]][-1]
        atr_res = [f for f in air.log if f.src == "T" and b"\xD5\x01" in f.data[:4]][-1]
        psl = [f for f in air.log if f.src == "I" and b"\xD4\x04" in f.data[:4]]
        a, b = atr_req.data, atr_res.data
        llc_i, llc_t = box["i"], box["t"]
        ini, tgt = llc_i.mac, llc_t.mac
        ci, ct = llc_i.cfg, llc_t.cfg
        rec["proj"] = dict(
            acm=bool(ini.acm), psl=bool(psl), brty0=atr_req.brty,
            airLrI=LR[(a[a.index(b"\xD4\x00") + 15] >> 4) & 3], airLrT=LR[(b[b.index(b"\xD5\x01") + 16] >> 4) & 3],
            iBrty=ini.target.brty, tBrty=tgt.target.brty, iAcm=bool(ini.acm), tAcm=bool(tgt.acm),
            iWt=wt_index(ini.rwt), tWt=wt_index(tgt.rwt),
            iDepMiu=ini.miu, iSendMiu=ci["send-miu"], iRecvMiu=ci["recv-miu"], iSendLto=ci["send-lto"],
            iRecvLto=ci["recv-lto"], iSendWks=ci["send-wks"], iSendLsc=ci["send-lsc"], iAgf=bool(ci["send-agf"]),
            tDepMiu=tgt.miu, tSendMiu=ct["send-miu"], tRecvMiu=ct["recv-miu"], tSendLto=ct["send-lto"],
            tRecvLto=ct["recv-lto"], tSendWks=ct["send-wks"], tSendLsc=ct["send-lsc"], tAgf=bool(ct["send-agf"]))
        rec["act_frames"] = [dict(kind=f.kind, dir=f.dir, brty=f.brty, len=len(f.data)) for f in air.log[:mark["i"]]]
    ev.append(rec)
    if ok_i and ok_t:
        for f in air.log[mark["i"]:]:
            sz = dep_size(f)
            ev.append(dict(a="Frame", dir="IT" if f.src == "I" else "TI", size=-1 if sz is None else sz, brty=f.brty))
        ev.extend(xf)
    return dict(id="%s.%d" % (kind, k), const=dict(kind=kind, k=k, cfg=x), ev=ev)


def projection(air, llc_i, llc_t):
    ini, tgt = llc_i.mac, llc_t.mac
    atr_req = [f for f in air.log if f.src == "I" and b"\xD4\x00" in f.data[:4]][-1]
    atr_res = [f for f in air.log if f.src == "T" and b"\xD5\x01" in f.data[:4]][-1]
    psl = [f for f in air.log if f.src == "I" and b"\xD4\x04" in f.data[:4]]
    a, b = atr_req.data, atr_res.data
    ci, ct = llc_i.cfg, llc_t.cfg
    return dict(
        acm=bool(ini.acm), psl=bool(psl), brty0=atr_req.brty,
        airLrI=LR[(a[a.index(b"\xD4\x00") + 15] >> 4) & 3], airLrT=LR[(b[b.index(b"\xD5\x01") + 16] >> 4) & 3],
        iBrty=ini.target.brty, tBrty=tgt.target.brty, iAcm=bool(ini.acm), tAcm=bool(tgt.acm),
        iWt=wt_index(ini.rwt), tWt=wt_index(tgt.rwt),
        iDepMiu=ini.miu, iSendMiu=ci["send-miu"], iRecvMiu=ci["recv-miu"], iSendLto=ci["send-lto"],
        iRecvLto=ci["recv-lto"], iSendWks=ci["send-wks"], iSendLsc=ci["send-lsc"], iAgf=bool(ci["send-agf"]),
        tDepMiu=tgt.miu, tSendMiu=ct["send-miu"], tRecvMiu=ct["recv-miu"], tSendLto=ct["send-lto"],
        tRecvLto=ct["recv-lto"], tSendWks=ct["send-wks"], tSendLsc=ct["send-lsc"], tAgf=bool(ct["send-agf"]))


def traffic_pair(kind, k):
    """activation through connect() *with* the run loops, applications filling the frames to the limits"""
    from bind import c19_traffic as tf
    x = grid_cfg(kind, k)
    air = Air()
    clf_i, clf_t = air.frontends()
    if x["disc"] == "F":
        air.devices["T"].listen_tech = ("212F", "424F")
    shared = {}
    app = {"i": tf.App("i", x, k, air, shared), "t": tf.App("t", x, k, air, shared)}
    opts = {}
    for s, role in (("i", "initiator"), ("t", "target")):
        a = app[s]
        opts[s] = {"role": role, "on-startup": a.on_startup, "on-connect": a.on_connect, "on-release": a.on_release}
    opts["i"].update(brs=x["brs"], acm=x["acm"], rwt=x["xrwtI"], lrt=x["xlrtI"], lri=x["lri"], miu=x["miuI"],
                     lto=x["ltoI"], lsc=x["lscI"], agf=x["agfI"])
    opts["t"].update(brs=x["xbrsT"], acm=x["xacmT"], rwt=x["rwt"], lrt=x["lrt"], lri=x["xlriT"], miu=x["miuT"],
                     lto=x["ltoT"], lsc=x["lscT"], agf=x["agfT"])
    waits = {"I": set(), "T": set()}

    def on_wait(name, timeout, activated):
        # the timeouts the run loops ask for (between activation and the decision to close)
        if "mark_i" in shared and "mark_t" in shared and "closing" not in shared and timeout is not None:
            waits[name].add(int(round(timeout * 13.56E6)))
    air.on_wait = on_wait
    old_os, old_rnd = nfc.dep.os, nfc.llcp.llc.random
    nfc.dep.os = _SeededOs(k & 0xFFFF)
    import random as _random
    nfc.llcp.llc.random = _random.Random(k)
    air.clock.install(nfc.dep, nfc.clf, nfc.llcp.llc)
    try:
        res = air.run(lambda: clf_i.connect(llcp=opts["i"], terminate=app["i"].hook),
                      lambda: clf_t.connect(llcp=opts["t"], terminate=app["t"].hook))
    finally:
        air.clock.uninstall()
        nfc.dep.os, nfc.llcp.llc.random = old_os, old_rnd
    for r in res:
        if r[0] == "exc":
            raise r[1]
    ok_i, ok_t = app["i"].active, app["t"].active
    ev = [dict(a="Activate", ok=ok_i and ok_t, ok_i=ok_i, ok_t=ok_t, proj={})]
    tr = dict(id="%s.%d" % (kind, k), const=dict(kind=kind, k=k, cfg=x), ev=ev, slow=shared.get("slow", 0))
    if not (ok_i and ok_t):
        return tr
    ev[0]["proj"] = projection(air, shared["i"], shared["t"])
    start = max(shared["mark_i"], shared["mark_t"])
    start = min(shared["mark_i"], shared["mark_t"])
    stop = shared.get("closing", len(air.log))
    # LLC PDUs reassembled from the air, up to the decision to close
    last_rx = {"I": None, "T": None}
    turn = {"I": 0, "T": 0}
    descs = []
    for d, data, t in tf.llc_frames(air.log, start, stop):
        desc = tf.llc_desc(data)
        descs.append((d, desc))
    flights = tf.max_in_flight(descs)
    for d, desc in descs:
        for p in [desc] + desc["inner"]:
            del p["ns"], p["nr"]
            for f in () if p["t"] in ("CONNECT", "CC") else ("mtlv", "rw", "sn"):
                del p[f]
            if p["t"] != "SNL":
                del p["svc"]
        desc.update(a="Llc", dir=d)
        ev.append(desc)
    # turn-around: virtual time between the end of a received LLC PDU and the first frame of the answer
    # (the first frame after the decision to close still counts: the pause before it is a run loop pause)
    for n, fr in enumerate(air.log[start:], start):
        kd, more, _, _ = tf.dep_parse(fr)
        if kd != "INF":
            continue
        if last_rx[fr.src] is not None:
            turn[fr.src] = max(turn[fr.src], int(round((fr.time - last_rx[fr.src]) * 13.56E6)))
            last_rx[fr.src] = None
        if n >= stop:
            break
        if not more:
            last_rx[fr.dst] = fr.time
    # every DEP frame after activation (also the closing phase): distinct (dir, size, bit rate)
    dep = {}
    for fr in air.log[start:]:
        kd, _, _, size = tf.dep_parse(fr)
        key = ("IT" if fr.src == "I" else "TI", -1 if size is None else size, fr.brty)
        dep[key] = dep.get(key, 0) + 1
    ev.append(dict(a="Dep", frames=[dict(dir=d, size=s, brty=b, n=n) for (d, s, b), n in sorted(dep.items())]))
    ev.append(dict(a="Turn", side="I", cyc=turn["I"]))
    ev.append(dict(a="Turn", side="T", cyc=turn["T"]))
    tr["errors"] = app["i"].errors + app["t"].errors
    if "closing" not in shared:
        # the link broke before the application decided to close it: nothing after that is judged
        ev.append(dict(a="Broken", llc=sum(1 for e in ev if e["a"] == "Llc")))
        tr["errors"] = []
        return tr
    ev.append(dict(a="Waits", side="I", cyc=sorted(waits["I"])))
    ev.append(dict(a="Waits", side="T", cyc=sorted(waits["T"])))
    # what the applications received
    for src, dst, d in (("i", "t", "IT"), ("t", "i", "TI")):
        sent = [tf.pattern(tag, n) for tag, n in app[src].ui_sent]
        got = app[dst].ui_rcvd
        ev.append(dict(a="Data", dir=d, kind="UI", sent=len(sent), rcvd=len(got), ok=all(g in sent for g in got),
                       problems=len(app[src].errors)))
        for mine, theirs in (("out", "in"), ("in", "out")):
            sent = [tf.pattern(tag, n) for tag, n in app[src].i_sent[mine]]
            got = app[dst].i_rcvd[theirs]
            ev.append(dict(a="Data", dir=d, kind="I", sent=len(sent), rcvd=len(got), ok=got == sent[:len(got)],
                           problems=len(app[src].errors)))
            for probe in (app[src].at, app[src].over):
                if mine in probe:
                    n, accepted, sap = probe[mine]
                    ev.append(dict(a="Over", dir=d, sap=sap, n=n, accepted=accepted))
            if "burst" in app[src].end.get(mine, ()):
                # what this end of the connection holds (role: it opened / accepted the connection; mode: the way the
                # opener was told to address it)
                e = app[src].end[mine]
                ev.append(dict(a="End", side=src.upper(), role="opn" if mine == "out" else "acc",
                               mode=app[src if mine == "out" else dst].mode, sap=e["sap"], sndmiu=e["sndmiu"],
                               burst=e["burst"], blocked=e["blocked"]))
    for (d, dsap, ssap), n in sorted(flights.items()):
        ev.append(dict(a="Flight", dir=d, sap=dsap, n=n))
    return tr


def run_item(item):
    kind, k, traffic = item
    if traffic:
        return traffic_pair(kind, k)
    tr = activate_pair(kind, k, False)
    tr["ev"][0].pop("act_frames", None)
    return tr


def record(items, procs=12):
    if len(items) < 64:
        return [run_item(i) for i in items]
    with cf.ProcessPoolExecutor(max_workers=procs) as ex:
        return list(ex.map(run_item, items, chunksize=max(1, len(items) // (procs * 16))))


# ------------------------------------------------------------------ verdicts
def classify(tr, v):
    line, act, why = v[1], v[2], v[3]
    kind = why[0] if why else "?"
    if act == "Activate" and kind == "proj":
        diff = why[1][1] if isinstance(why[1], tuple) and why[1][0] == "set" else why[1]
        fields = sorted(str(d[0]) for d in diff)
        return "proj:" + ",".join(fields)
    if act == "Activate" and kind == "ok":
        e = tr["ev"][0]
        return "activation:%s:initiator=%s:target=%s" % ("failed" if why[1] else "unexpected", e["ok_i"], e["ok_t"])
    if act == "Frame":
        e = tr["ev"][line - 1]
        lim = why[2] if e["dir"] == "TI" else why[3]
        return "FrameFits:%s:%s" % (e["dir"], "bitrate" if e["brty"] != why[4] else "size>LR" if e["size"] > lim else "?")
    if act == "Xfer":
        e = tr["ev"][line - 1]
        return "traffic:%s:%s" % (e["dir"], "not-intact" if not e["ok"] else "size")
    if kind == "inv" and len(why) > 1:
        name, e = why[1], tr["ev"][line - 1]
        if name == "Obey":
            bad = why[2][1] if isinstance(why[2], tuple) and why[2][0] == "set" else why[2]
            f = sorted(bad, key=lambda u: (u["layer"], u["dir"]))[0]
            what = ""
            if act == "Llc":
                what = ":" + (e["t"] + ("(%s)" % "+".join(sorted({p["t"] for p in e["inner"]})) if e["inner"] else e["t"]))
            return "Obey:%s:%s%s:exceeds-receiver-limit-by-%d" % (f["layer"], f["dir"], what, f["size"] - f["limit"])
        if name == "Refused":
            return "Refused:%s:send()-accepts-a-message-beyond-the-receiver's-connection-and-link-MIU" % e.get("dir")
        if name == "Admitted":
            return "Admitted:%s:%s:send()-refuses-a-message-within-the-receiver's-connection-and-link-MIU" % (
                e.get("dir"), end_of(tr, e))
        if name == "WinObey":
            return "WinObey:%s:more-I-PDUs-in-flight-than-the-receiver's-window" % e.get("dir")
        if name == "ConnEqual":
            recs = why[2][0] if len(why) > 2 and why[2] else []
            recs = recs[1] if isinstance(recs, tuple) and recs[0] == "set" else recs
            recs = sorted(recs)
            who = "%s:connection-addressed-by-%s:%s-end" % (e.get("side"), HOW.get(e.get("mode"), e.get("mode")),
                                                          "opening" if e.get("role") == "opn" else "accepting")
            if not recs:
                return "ConnEqual:%s:no-open-connection-on-the-air" % who
            mode, sap, miu, win = recs[0]
            if mode != e.get("mode"):
                return "ConnEqual:%s:addressed-by-%s-on-the-air" % (who, HOW.get(mode, mode))
            if e["sndmiu"] != miu:
                return "ConnEqual:%s:send-MIU-%s-than-the-peer-announced" % (who, "smaller" if e["sndmiu"] < miu else "larger")
            if e["burst"] > win or (e["blocked"] and e["burst"] != win):
                return "ConnEqual:%s:send-window-%s-than-the-peer-announced" % (who, "smaller" if e["burst"] < win else "larger")
            return "ConnEqual:%s:peer-SAP" % who
        if name == "RwtKept":
            return K_RWT
        if name == "LtoKept":
            return K_LTO % e.get("side")
        if name == "Timeouts":
            return "%s:%s" % (name, e.get("side"))
        if name == "Delivered":
            return "Delivered:%s:%s" % (e.get("kind"), e.get("dir"))
        return "%s@%s" % (name, act)
    return "%s@%s" % (kind, act)


HOW = {"sap": "SAP", "name": "name", "resolved": "SAP-after-resolve"}


def end_of(tr, over):
    """which connection end offered the message of an Over event: '<way of addressing>:<opening|accepting>-end'"""
    for e in tr["ev"]:
        if e["a"] == "End" and e["sap"] == over["sap"] and e["side"] == over["dir"][0]:
            return "connection-addressed-by-%s:%s-end" % (HOW[e["mode"]], "opening" if e["role"] == "opn" else "accepting")
    return "?"


def mutate_for_selftest(tr):
    out = []
    t1 = json.loads(json.dumps(tr))
    t1["ev"][0]["proj"]["tSendMiu"] += 1
    t1["id"] += "-corrupt"
    out.append(t1)
    t2 = json.loads(json.dumps(tr))
    del t2["ev"][0]
    t2["id"] += "-dropped"
    out.append(t2)
    t3 = json.loads(json.dumps(tr))
    for e in t3["ev"]:
        if e["a"] == "Frame":
            e["size"] = 255
            break
    t3["id"] += "-bigframe"
    out.append(t3)
    return out


def mutate_traffic_selftest(tr):
    """a recorded full-traffic trace with one LLC information field enlarged beyond the receiver's MIU / with the
    CC announcement dropped must be flagged by Obey / change the limit"""
    t1 = json.loads(json.dumps(tr))
    miu = {"IT": tr["const"]["cfg"]["miuT"], "TI": tr["const"]["cfg"]["miuI"]}
    for e in t1["ev"]:
        if e["a"] == "Llc" and e["t"] == "AGF":
            e["info"] = miu[e["dir"]] + 1
            break
    t1["id"] += "-agf+1"
    t2 = json.loads(json.dumps(tr))
    for e in t2["ev"]:
        if e["a"] == "Waits" and e["cyc"]:
            e["cyc"][0] += 13560
            break
    t2["id"] += "-wait+1ms"
    # the accepting end of a connection reports a send MIU one octet below / a send window one below what the
    # opener announced; the opening end takes a message less at once; the message of exactly the limit is refused
    out = [t1, t2]
    for suffix, role, field in (("-accmiu-1", "acc", "sndmiu"), ("-accwin-1", "acc", "burst"), ("-opnwin-1", "opn", "burst")):
        t = json.loads(json.dumps(tr))
        for e in t["ev"]:
            if e["a"] == "End" and e["role"] == role:
                e[field] -= 1
                break
        t["id"] += suffix
        out.append(t)
    t = json.loads(json.dumps(tr))
    for e in t["ev"]:
        if e["a"] == "Over" and e["accepted"]:
            e["accepted"] = False
            break
    t["id"] += "-atlimit-refused"
    out.append(t)
    return out


SELF_F = (("-agf+1", "Obey"), ("-wait+1ms", "Timeouts"), ("-accmiu-1", "ConnEqual"), ("-accwin-1", "ConnEqual"),
          ("-opnwin-1", "ConnEqual"), ("-atlimit-refused", "Admitted"))


WITNESSES = ["W_Psl", "W_NoPsl", "W_Down", "W_Acm", "W_MaxMiu", "W_ConnLim", "W_Full"]
CONN_WITNESSES = ["W_BySap", "W_ByName", "W_Resolved", "W_NoTlv", "W_Clamped", "W_Win"]
INVS = ["ConnEqual", "Admitted", "WinObey", "Refused", "Obey", "BitRate", "Timeouts", "LtoKept", "RwtKept", "Delivered", "LinkUp"]
K_RWT = "RwtKept:T:target-run-loop-pause-exceeds-the-RWT-it-announced"
K_LTO = "LtoKept:%s:run-loop-idle-pause-exceeds-the-LTO-it-announced"


def full_traffic(kind, k, seed, quick):
    """which configurations get the full traffic phase (run loops + applications): the whole (miu, lto) and
    (lsc, agf, snep) products, a quarter (thorough: all) of the NFC-DEP product, a sample of the big sub-grids"""
    if kind == "lto":
        # lto 2560 is not encodable (announced as 0 by the code as it is): its activation is projected, its
        # traffic is not judged
        x = grid_cfg(kind, k)
        return max(x["ltoI"], x["ltoT"]) <= 2559
    if kind in ("ml", "opt"):
        return True
    if kind == "dep":
        return (k + seed) % 4 == 0 if quick else True
    return (k + seed) % 64 == 0


def run(tier, seed):
    ck = check.Check(PID, tier, seed, "model_checking")
    quick = tier == "quick"
    kinds = ["dep", "ml", "opt", "lto"] + ([] if quick else ["depx", "llcp"])
    # 1. TLC enumerates the grid
    #    quick grid: activation, then connection announcements and obeying senders at the limits (Obey, LimitsSane);
    #    thorough: additionally the big grid (activation step only)
    #    connections: every way of addressing x opener x announcement classes of CONNECT and CC on the 36 link MIU
    #    pairs (ConnEqual, ConnLimitAgree), and both sides opening in one behaviour
    rq = tlc.run("MC_P2pNeg.tla", "MC_P2pNeg.cfg", PID, workers=16, timeout=600)
    with cf.ThreadPoolExecutor(max_workers=3) as ex:
        futs = [ex.submit(tlc.run, "MC_P2pNeg.tla", "MC_P2pNeg_grid.cfg" if quick else "MC_P2pNeg_thorough.cfg",
                          PID + "/grid", workers=8 if quick else 16, timeout=1800),
                ex.submit(tlc.run, "MC_P2pNeg.tla", "MC_P2pNeg_conn.cfg", PID + "/conn", workers=4, timeout=900),
                ex.submit(tlc.run, "MC_P2pNeg.tla", "MC_P2pNeg_conn2.cfg", PID + "/conn2", workers=4, timeout=900)]
        rg, rc1, rc2 = [f.result() for f in futs]
    runs = [rq, rc1, rc2, rg]
    for r in runs:
        if not r.ok:
            ck.violation("spec:P2pNeg:" + ",".join(r.violated or ["deadlock"]),
                         "TLC: the reference violates its own symmetry/range/obey invariants: %s" % str(r.error_trace)[:1500])
        ck.cover(states=r.distinct, transitions=r.generated)
    r = runs[-1]
    init_states = r.distinct // 2       # (the grid run has one successor per configuration)
    hit, _ = tlc.witnesses("MC_P2pNeg.tla", "MC_P2pNeg_reach.cfg", PID, WITNESSES)
    # (the connection witnesses are reported by the checking run itself: MC_ConnWitLog)
    hit |= {v[1] for v in tlaval.extract_tuples(rc1.out) if isinstance(v, list) and len(v) == 2 and v[0] == "REACHED"}
    if set(WITNESSES + CONN_WITNESSES) - hit:
        raise tlc.TLCError("vacuous model: witnesses not reached: %s" % sorted(set(WITNESSES + CONN_WITNESSES) - hit))
    ck.cover(witnesses_reached=sorted(hit))
    # 2. the same grid on two real stacks; traffic on a part of it (every configuration of the small
    #    sub-grids, every 16th of the big ones)
    items = []
    for kind in kinds:
        big = kind in ("depx", "llcp")
        for k in range(SIZE[kind]):
            items.append((kind, k, full_traffic(kind, k, seed, quick)))
    traces = record(items)
    grid = sum(SIZE[kd] for kd in kinds)
    distinct = len({json.dumps(t["const"]["cfg"], sort_keys=True) for t in traces})
    # the number of initial states TLC enumerated is distinct/2 (each configuration has one successor)
    exhaustive = len(traces) == grid and init_states == distinct
    self_t = mutate_for_selftest(next(t for t in traces if any(e["a"] == "Frame" for e in t["ev"])))
    cands = [t for t in traces if any(e["a"] == "Llc" and e["t"] == "AGF" for e in t["ev"])
             and any(e["a"] == "Waits" and e["cyc"] for e in t["ev"])
             and sum(1 for e in t["ev"] if e["a"] == "End" and e["blocked"] and e["burst"] > 0) == 4]
    cands = cands[::max(1, len(cands) // 6)][:6]
    self_f = [m for t in cands for m in mutate_traffic_selftest(t)]
    verdicts, st = tlc.validate_traces("Trace_P2pNeg.tla", "Trace_P2pNeg.cfg", PID, traces + self_t + self_f,
                                       shards=16, timeout=900 if quick else 3000)
    for t in self_t:
        if verdicts[t["id"]][0] == "ACCEPT":
            raise tlc.TLCError("binding vacuous: corrupted trace %s accepted" % t["id"])
    # demonstrated binding of the traffic phase: on recorded runs that conform, an information field one octet
    # over the receiver's MIU must be flagged by Obey and a timeout 1 ms off by Timeouts
    usable = [t for t in cands if verdicts[t["id"]][0] == "ACCEPT"
              and not any((t["id"] + "#" + inv) in verdicts for _, inv in SELF_F)]
    for t in usable:
        for suffix, inv in SELF_F:
            if (t["id"] + suffix + "#" + inv) not in verdicts:
                raise tlc.TLCError("binding vacuous: %s%s not flagged by %s" % (t["id"], suffix, inv))
    if not usable and all(verdicts[t["id"]][0] == "ACCEPT" for t in traces) \
            and not any("#" in vid and not vid.split("#")[0].endswith(tuple(sfx for sfx, _ in SELF_F)) for vid in verdicts):
        raise tlc.TLCError("binding vacuous: no full-traffic run usable for the self-test")
    # the connection dimension was really exercised: every way of addressing x either opener x both ends, with the
    # CONNECT announcing no MIUX TLV / an MIU below / at / above the opener's link MIU and every receive window,
    # on connections that filled their window (unless the runs themselves are what is wrong: then that is reported)
    seen = set()
    for tr in traces:
        ann = {}                     # (sender, PDU type) -> the CONNECT / CC on the air
        for e in tr["ev"]:
            if e["a"] == "Llc":
                for p in (e["inner"] if e["t"] == "AGF" else [e]):
                    if p["t"] in ("CONNECT", "CC"):
                        ann[(e["dir"][0], p["t"])] = p
        for e in tr["ev"]:
            if e["a"] == "End" and e["blocked"]:
                # the limits of an accepting end come from the opener's CONNECT, those of the opening end from the CC
                peer = "T" if e["side"] == "I" else "I"
                p = ann.get((peer, "CONNECT" if e["role"] == "acc" else "CC"))
                if p is None:
                    continue
                link = tr["const"]["cfg"]["miu" + peer]
                cls = "none" if p["mtlv"] == 65535 else "below" if p["miux"] < link else "at" if p["miux"] == link else "above"
                seen.add((e["mode"], e["side"], e["role"], cls, 1 if p["rw"] == 65535 else p["rw"]))
    want = {(m, o, r, cl, w) for m in ("sap", "name", "resolved") for o in "IT" for r in ("opn", "acc")
            for cl in ("none", "below", "at", "above") for w in (1, 2, 3, 4)}
    acc = nframes = nx = nup = nllc = nfull = 0
    for tr in traces:
        v = verdicts[tr["id"]]
        nllc += sum(1 + len(e["inner"]) for e in tr["ev"] if e["a"] == "Llc")
        nfull += 1 if any(e["a"] == "Dep" for e in tr["ev"]) else 0
        nframes += sum(f["n"] for e in tr["ev"] if e["a"] == "Dep" for f in e["frames"])
        if tr.get("errors"):
            ck.violation("traffic:application-call-failed:%s" % tr["errors"][0].split(":")[0],
                         "configuration %s: %s" % (tr["id"], tr["errors"][:3]),
                         replay=dict(kind=tr["const"]["kind"], k=tr["const"]["k"], full=True))
        flagged = [inv for inv in INVS if tr["id"] + "#" + inv in verdicts]
        for inv in INVS:
            w = verdicts.get(tr["id"] + "#" + inv)
            if inv in ("LinkUp", "Timeouts", "Delivered") and ("RwtKept" in flagged or "LtoKept" in flagged):
                continue        # the link broke because a pause exceeded the announced RWT / LTO: reported there
            if w is not None:
                ck.violation(classify(tr, w), "configuration %s: event %d (%s) %s ; cfg=%s ; event=%s" % (
                    tr["id"], w[1], w[2], json.dumps(w[3], default=list)[:600], json.dumps(tr["const"]["cfg"]),
                    json.dumps(tr["ev"][w[1] - 1])[:500]),
                    replay=dict(kind=tr["const"]["kind"], k=tr["const"]["k"], full=True))
        nframes += sum(1 for e in tr["ev"] if e["a"] == "Frame")
        nx += sum(1 for e in tr["ev"] if e["a"] == "Xfer")
        nup += 1 if tr["ev"][0]["ok"] else 0
        if v[0] == "ACCEPT":
            acc += 1
            continue
        ck.violation(classify(tr, v), "configuration %s: event %d (%s) %s ; cfg=%s ; event=%s" % (
            tr["id"], v[1], v[2], json.dumps(v[3], default=list)[:600], json.dumps(tr["const"]["cfg"]),
            json.dumps(tr["ev"][v[1] - 1])[:500]),
            replay=dict(kind=tr["const"]["kind"], k=tr["const"]["k"], full=any(e["a"] == "Dep" for e in tr["ev"])))
    if want - seen and not ck.found:
        raise tlc.TLCError("binding vacuous: connection ends not exercised: %s" % sorted(want - seen)[:6])
    ck.cover(full_traffic_runs=nfull, llc_pdus_checked=nllc, slow_target_answers=sum(t.get("slow", 0) for t in traces),traces_validated_against_impl=acc, activations=len(traces), activated=nup, grid_size=grid,
             distinct_configurations=distinct, tlc_initial_states=init_states,
             exhaustive_over_structured_grid=exhaustive, full_product_size="~1.1e8 (not enumerated)",
             traffic_frames_monitored=nframes, llcp_pdus_transferred=nx, trace_states=st["states"],
             connection_ends_exercised=len(seen),
             binding_selftest="altered send-miu, dropped Activate, oversize frame rejected; AGF information field + 1 "
                              "flagged by Obey, timeout + 1 ms flagged by Timeouts; send MIU - 1 / send window - 1 of an "
                              "accepting end, window - 1 of an opening end flagged by ConnEqual, a refused message of "
                              "exactly the limit by Admitted")
    ck.sample(dict(trace=traces[0]["id"], const=traces[0]["const"], activate=traces[0]["ev"][0]))
    ck.sample(dict(mc="P2pNeg grid " + "+".join(kinds), initial_states=init_states, obey_states=rq.distinct))
    ck.assume("grid = full product of the NFC-DEP options (brs, acm, discovery technology, lri, lrt, rwt), full product of"
              " (miu, lto) of both sides, full product of (lsc, agf, SNEP bound) of both sides, each with the remaining"
              " options cycling deterministically; thorough adds DEP x 16 LLCP samples and the full LLCP product",
              "miu 128..2175 (smaller or larger is not encodable); lto 0..2559 at the edges of the TLV encoding (0..9 announce 0 ms)"
              " and 2560, which the code as it is encodes modulo 256 (announces 0 ms): modelled as such, not judged",
              "no DID/NAD (connect() cannot set them); llcp-sec off (OpenSSL unavailable)",
              "full traffic phase (real run loops; UI bursts of 3..5 datagrams at sendMIU-4m-2..+4, maximum-size I PDUs with"
              " pending acknowledgements both ways, SNL batches) on the whole (miu, lto) and (lsc, agf, snep) products and a"
              " part of the other sub-grids; the remaining configurations get one LLC PDU each way",
              "limits are decoded from the air: general bytes (link MIU, LTO), ATR (LR, WT), CONNECT/CC (connection MIU, RW)",
              "data link connections: opened by both sides in every full-traffic run, addressed by SAP / by service name "
              "(CONNECT to SAP 1) / by SAP after resolve(), CONNECT and CC announce MIU none/below/at/above the link MIU and "
              "RW 1 (no TLV)..4; explicit MIUX 0, RW 0 and 15 are in the model only (the two real stacks do not emit them)",
              "fault-free air in C19 (faults: C04); the closing phase is checked at NFC-DEP level only",
              "both simulated devices support active communication mode; the target answers 106A+212F+424F or 212F+424F only")
    return ck.finish()


def replay(rep, args):
    r = rep["replay"]
    tr = traffic_pair(r["kind"], r["k"]) if r.get("full") else activate_pair(r["kind"], r["k"], False)
    frames = tr["ev"][0].pop("act_frames", None)
    verdicts, st = tlc.validate_traces("Trace_P2pNeg.tla", "Trace_P2pNeg.cfg", PID + "_replay", [tr], shards=1)
    v = verdicts[tr["id"]]
    print("cfg:", json.dumps(tr["const"]["cfg"]))
    print("activation frames:", json.dumps(frames))
    print("activate event:", json.dumps(tr["ev"][0]))
    print("replay verdict:", json.dumps(v, default=list)[:1500])
    rc = 0
    if v[0] != "ACCEPT":
        print("key:", classify(tr, v))
        rc = 1
    for inv in INVS:
        w = verdicts.get(tr["id"] + "#" + inv)
        if w is not None:
            print("invariant %s violated at event %d: %s" % (inv, w[1], json.dumps(tr["ev"][w[1] - 1])[:600]))
            print("  %s" % json.dumps(w[3], default=list)[:600])
            print("key:", classify(tr, w))
            rc = 1
    if rc:
        print("VIOLATION property=%s replay=%s" % (PID, args.replay))
    return rc
