"""C11 -- LLCP PDU encoding and decoding are mutually consistent.

Spec: spec/LlcpPdu.tla (executable reading of the LLCP 1.3 frame formats: Encode, Decode, DeclLen, Norm).
  * MC_LlcpPdu.cfg / MC_LlcpPdu_bytes.cfg: TLC evaluates the theorems over all PDU values / byte strings of
    small domains (no interleavings; one state per value), with reachability witnesses against vacuity.
  * Trace_LlcpPdu.tla: every case executed on nfcpy's src/nfc/llcp/pdu.py (bind/c11_cases.py) is one TLC
    step: outcome class and fields against Decode, nfcpy's octets against Encode, len() against DeclLen,
    the re-encoding round trip, and "decoded from its own slice" (OwnSlice).
"""
import os, re, sys, json, time, shutil, multiprocessing, concurrent.futures as cf

from vlib import tlc, check, tlaval, OUT, SRC
from bind import c11_cases as cases

PID = "C11"
TRIVIAL = ("short",)            # Decode's header check: not counted in distinct_nontrivial

_acc = re.compile(r'^<<"ACCEPT", "([^"]+)", <<(.*)>>>>$', re.M)


def parse_verdicts(text):
    """-> {id: ("ACCEPT", cls) | ("STUCK", act, why, cls)}; fast path for the one-line ACCEPT tuples"""
    v = {}
    for m in _acc.finditer(text):
        v[m.group(1)] = ("ACCEPT", tuple(x.strip().strip('"') for x in m.group(2).split(",")))
    rest = _acc.sub("", text)
    k = rest.find("<<")
    if k >= 0:
        for t in tlaval.extract_tuples(rest[k:]):
            if not isinstance(t, list) or len(t) < 3:
                continue
            if t[0] == "ACCEPT":
                v[t[1]] = ("ACCEPT", tuple(str(x) for x in t[2]))
            elif t[0] == "STUCK" and len(t) >= 6:
                v[t[1]] = ("STUCK", t[3], t[4], tuple(str(x) for x in t[5]))
    return v


def validate_files(paths, tag, timeout):
    """run Trace_LlcpPdu over the shard files (one JVM per file, 16 at a time)"""
    jobs = [("Trace_LlcpPdu.tla", "Trace_LlcpPdu.cfg", tag, k, p, timeout, None, tlc.SPEC) for k, p in enumerate(paths)]
    with cf.ThreadPoolExecutor(max_workers=16) as ex:
        res = list(ex.map(tlc._run_trace_shard, jobs))
    verdicts, states = {}, 0
    for p, r in zip(paths, res):
        if not r.completed or r.violated:
            raise tlc.TLCError("trace batch %s failed rc=%s\n%s" % (p, r.rc, r.out[-4000:]))
        states += r.distinct
        verdicts.update(parse_verdicts(r.out))
    return verdicts, states, max(r.wall for r in res)


def flat(x):
    if isinstance(x, list):
        return "/".join(flat(y) for y in x)
    return str(x)


def canonical_key(v):
    """key of a rejection: the failing clause and the spec's own description of the difference / branch"""
    _, act, why, cls = v
    kind = why[0]
    if kind == "inv":
        name, det = why[1], why[2]
        if name == "OwnSlice":
            return "inv:OwnSlice:%s" % det[-1]                    # innermost reason, e.g. tlv-past-slice
        det = list(det)
        while len(det) > 1 and det[0] == "AGF" and det[1] != "count":
            det = det[1:]                                          # the innermost differing PDU
        return "inv:%s:%s" % (name, flat(det))
    if kind == "no-action":
        what, out = why[1], why[2]
        br = why[3] if len(why) > 3 else []
        where = "spec=%s" % ("/".join(br[:2]) if br and br[0] == "ERR" else (br[0] if br else "-"))
        return "no-action:%s:%s:%s" % (what, out, where)
    if kind == "result":
        return "result:%s:nfcpy=%s:%s" % (act, flat(why[2]), flat(why[1]))
    return "stuck:" + flat(why)


def find_case(paths, cid):
    for p in paths:
        with open(p) as fh:
            for ln in fh:
                if ln.startswith('{"id":"%s"' % cid):
                    return json.loads(ln)
    return None


def selftest_cases(good_pdu, good_bytes):
    """binding self-test: one field corrupted, one step dropped, one foreign exception -> all must be rejected"""
    out = []
    a = json.loads(json.dumps(good_pdu)); a["id"] = "self-corrupt-enc"; a["enc"][-1] ^= 1
    out.append(a)
    b = json.loads(json.dumps(good_bytes)); b["id"] = "self-corrupt-field"; b["f"]["ssap"] = (b["f"]["ssap"] + 1) % 64
    out.append(b)
    c = json.loads(json.dumps(good_pdu)); c["id"] = "self-dropped-redecode"; c["ro"] = "-"; c["f2"] = {"t": "ERR"}
    out.append(c)
    d = json.loads(json.dumps(good_bytes)); d["id"] = "self-foreign-exception"; d["out"] = "Other:IndexError"
    d.update(f={"t": "ERR"}, re="-", enc=[], len=-1, ro="-", f2={"t": "ERR"})
    out.append(d)
    e = json.loads(json.dumps(good_pdu)); e["id"] = "self-len"; e["len"] += 1
    out.append(e)
    return out


def model_check(tier):
    """exhaustive evaluation of the theorems on the spec alone + witnesses; returns dict of numbers"""
    q = tier == "quick"
    res = {}

    def mc(cfg):
        return tlc.run("MC_LlcpPdu.tla", cfg, PID + "/mc_" + cfg, workers=8, timeout=300 if q else 900)

    def wit(cfg, names):
        hit, _ = tlc.witnesses("MC_LlcpPdu.tla", cfg, PID + "/w_" + cfg, names, timeout=200, workers=2)
        return set(names) - hit

    with cf.ThreadPoolExecutor(max_workers=4) as ex:
        f1 = ex.submit(mc, "MC_LlcpPdu.cfg" if q else "MC_LlcpPdu_thorough.cfg")
        f2 = ex.submit(mc, "MC_LlcpPdu_bytes.cfg" if q else "MC_LlcpPdu_bytes_thorough.cfg")
        f3 = ex.submit(wit, "MC_LlcpPdu_reach.cfg", ["W_Rw0", "W_Nested", "W_Snl2"])
        f4 = ex.submit(wit, "MC_LlcpPdu_bytes_reach.cfg",
                       ["W_TlvSlice", "W_MemSlice", "W_NoNest", "W_TlvLen", "W_Skip"])
        r1, r2, m3, m4 = f1.result(), f2.result(), f3.result(), f4.result()
    if m3 or m4:
        raise tlc.TLCError("vacuous model: witnesses not reached: %s" % sorted(m3 | m4))
    res.update(pdu=r1, byt=r2)
    return res


def run(tier, seed):
    ck = check.Check(PID, tier, seed, "exploration")
    quick = tier == "quick"
    wd = os.path.join(OUT, PID, "cases_%d" % os.getpid())
    shutil.rmtree(wd, ignore_errors=True)
    os.makedirs(wd)
    t0 = time.time()
    try:
        with cf.ThreadPoolExecutor(max_workers=1) as bg:
            mcf = bg.submit(model_check, tier)             # TLC on the spec alone, while nfcpy executes the cases
            # 1. execute the cases on nfcpy: 16 worker processes = 16 shards = 16 trace files
            paths = [os.path.join(wd, "shard_%02d.ndjson" % k) for k in range(cases.NSHARD)]
            ctx = multiprocessing.get_context("fork")
            with ctx.Pool(cases.NSHARD) as pool:
                stats = pool.map(cases.worker, [(tier, seed, k, paths[k], SRC) for k in range(cases.NSHARD)])
            ncases = sum(s["n"] for s in stats)
            t_gen = time.time() - t0
            # binding self-test cases (built from two recorded, well-behaved cases)
            gp = cases.run_pdu("g1", {"t": "I", "dsap": 32, "ssap": 17, "ns": 3, "nr": 9, "data": [1, 2, 3]})
            gb = cases.run_bytes("g2", [0x81, 0x01, 0x02, 0x02, 0x03, 0x67, 0x06, 0x02, 0x41, 0x42])
            st_cases = [gp, gb] + selftest_cases(gp, gb)
            sp = os.path.join(wd, "selftest.ndjson")
            with open(sp, "w") as fh:
                for c in st_cases:
                    fh.write(json.dumps(c, separators=(",", ":")) + "\n")
            # 2. TLC judges every case
            verdicts, tstates, twall = validate_files(paths + [sp], PID + "/trace", 900 if quick else 3000)
            mc = mcf.result()
        for c in st_cases:
            v = verdicts.get(c["id"])
            if v is None:
                raise tlc.TLCError("no verdict for self-test case %s" % c["id"])
            if c["id"].startswith("self-") and v[0] == "ACCEPT":
                raise tlc.TLCError("binding vacuous: corrupted case %s accepted" % c["id"])
            if c["id"] in ("g1", "g2") and v[0] != "ACCEPT":
                raise tlc.TLCError("binding self-test: well-behaved case %s rejected: %r" % (c["id"], v))
        for k in [c["id"] for c in st_cases]:
            verdicts.pop(k)
        if len(verdicts) != ncases:
            raise tlc.TLCError("verdicts for %d of %d cases" % (len(verdicts), ncases))

        # 3. the spec-alone theorems
        for name, r in (("pdu", mc["pdu"]), ("bytes", mc["byt"])):
            if not r.ok:
                ck.violation("spec:LlcpPdu(%s):%s" % (name, ",".join(r.violated or ["deadlock"])),
                             "TLC refutes a theorem of the reference codec itself: %s" % (r.error_trace or "")[:1500])
        # 4. verdicts
        classes, rejected = {}, {}
        for cid, v in verdicts.items():
            cls = v[-1]
            classes[cls] = classes.get(cls, 0) + 1
            if v[0] == "STUCK":
                rejected.setdefault(canonical_key(v), []).append(cid)
        samples = {}
        for key, ids in sorted(rejected.items()):
            ids.sort(key=lambda i: (len(i), i))
            c = min((find_case(paths, i) for i in ids[:40]), key=lambda c: (len(c["b"]) + len(c["enc"]), c["id"]))
            v = verdicts[c["id"]]
            inp = {"pdu": c["f"]} if c["k"] == "pdu" else {"bytes": c["b"]}
            what = "%d case(s), smallest %s [%s]: %s -> nfcpy %s%s ; TLC: %s %s" % (
                len(ids), c["id"], c.get("tag"),
                ("bytes " + bytes(c["b"]).hex()) if c["k"] == "bytes" else ("PDU " + json.dumps(c["f"])[:300]),
                c["out"], (" " + json.dumps(c["f"])[:200]) if c["k"] == "bytes" and c["out"] == "ok" else "",
                v[1], json.dumps(v[2])[:300])
            ck.violation(key, what, replay=dict(kind="case", input=inp, expect_key=key))
            samples[key] = dict(input=(bytes(c["b"]).hex() if c["k"] == "bytes" else c["f"]), nfcpy=c["out"],
                                nfcpy_fields=c["f"] if c["k"] == "bytes" and len(json.dumps(c["f"])) < 300 else None,
                                tlc=[v[1], v[2]])
        nontrivial = sorted(c for c in classes if not (c[2:3] == ("ERR",) and c[3:] == TRIVIAL))
        outs = {}
        tags = {}
        for s in stats:
            for k, n in s["outs"].items():
                outs[k] = outs.get(k, 0) + n
            for k, n in s["tags"].items():
                tags[k] = tags.get(k, 0) + n
        ck.cover(evaluations=ncases, distinct_nontrivial=len(nontrivial),
                 rule="distinct (case kind, reading that matched nfcpy [strict|nonest|loose|mismatch|other|given], "
                      "spec branch = PDU type (+ first member type for AGF) or the ERR reason path) as printed by "
                      "TLC per case, excluding the header-length check ERR/short",
                 mc_pdu_states=mc["pdu"].distinct, mc_bytes_states=mc["byt"].distinct,
                 mc_wall_s=round(max(mc["pdu"].wall, mc["byt"].wall), 1),
                 witnesses_reached=["W_Rw0", "W_Nested", "W_Snl2", "W_TlvSlice", "W_MemSlice",
                                    "W_NoNest", "W_TlvLen", "W_Skip"],
                 trace_states=tstates, cases_by_generator=tags, cases_by_nfcpy_outcome=outs,
                 rejected_cases=sum(len(v) for v in rejected.values()),
                 gen_wall_s=round(t_gen, 1), tlc_trace_wall_s=round(twall, 1),
                 binding_selftest="corrupted octet / field / len, dropped re-decode and a foreign exception all rejected")
        # evidence samples: concrete byte strings with both verdicts
        for cid in ("l129.1", "l0.64"):
            c = find_case(paths, cid)
            if c:
                ck.sample(dict(bytes=bytes(c["b"]).hex(), nfcpy=c["out"], nfcpy_fields=c["f"], tlc=list(verdicts[cid])))
        for key in sorted(samples)[:4]:
            ck.sample(dict(finding=key, **samples[key]), limit=8)
        ck.cover(classes=[" ".join(c) for c in nontrivial][:400])
        ck.assume("the TLA+ module is the reference: Decode/Encode/DeclLen/Norm as documented in spec/LlcpPdu.tla (N1-N4, D1-D9)",
                  "PDU objects are built through the public constructors with in-range field values only",
                  "byte strings longer than 3 octets are sampled (mutations, random), not enumerated",
                  "llcp-sec is off in this sandbox: DPS PDUs are exercised by the codec only")
    finally:
        shutil.rmtree(wd, ignore_errors=True)
    return ck.finish()


def replay(rep, args):
    r = rep["replay"]
    wd = os.path.join(OUT, PID, "replay_%d" % os.getpid())
    os.makedirs(wd, exist_ok=True)
    try:
        c = cases.run_input("replay", r["input"])
        p = os.path.join(wd, "case.ndjson")
        with open(p, "w") as fh:
            with cases.deep():
                fh.write(json.dumps(c, separators=(",", ":")) + "\n")
        verdicts, _, _ = validate_files([p], PID + "/replay", 300)
    finally:
        shutil.rmtree(wd, ignore_errors=True)
    v = verdicts["replay"]
    inp = r["input"]
    print("input   :", ("bytes " + bytes(inp["bytes"]).hex()) if "bytes" in inp else ("PDU " + json.dumps(inp["pdu"])))
    print("nfcpy   : decode -> %s %s ; encode -> %s %s len=%s ; re-decode -> %s %s" % (
        c["out"], json.dumps(c["f"])[:400], c["re"], bytes(c["enc"]).hex()[:200], c["len"], c["ro"], json.dumps(c["f2"])[:400]))
    print("TLC     :", v)
    if v[0] != "ACCEPT":
        print("failing clause: %s  key=%s" % (json.dumps(v[2]), canonical_key(v)))
        print("VIOLATION property=%s replay=%s" % (PID, args.replay))
        return 1
    print("accepted (class %s)" % " ".join(v[1]))
    return 0
