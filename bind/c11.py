"""C11 -- LLCP PDU encoding and decoding are mutually consistent.

Spec: spec/LlcpPdu.tla (executable reading of the LLCP 1.3 frame formats: Encode, Decode, DeclLen, Norm).
  * MC_LlcpPdu.cfg / MC_LlcpPdu_bytes.cfg: TLC evaluates the theorems over all PDU values / byte strings of
    small domains (no interleavings; one state per value), with reachability witnesses against vacuity.
  * Trace_LlcpPdu.tla: every case executed on nfcpy's src/nfc/llcp/pdu.py (bind/c11_cases.py) is one TLC
    step: outcome class and fields against Decode, nfcpy's octets against Encode, len() against DeclLen,
    the re-encoding round trip, and "decoded from its own slice" (OwnSlice).
"""
import os, re, sys, json, time, shutil, subprocess, multiprocessing, concurrent.futures as cf

from vlib import tlc, check, tlaval, OUT, SRC
from bind import c11_cases as cases

PID = "C11"
TRIVIAL = ("short",)            # Decode's header check: not counted in distinct_nontrivial

_acc = re.compile(r'^<<"ACCEPT", "([^"]+)", <<(.*)>>>>$', re.M)


def parse_verdicts(text, want=()):
    """one shard's TLC output -> (classes {cls: n}, stuck {id: ("STUCK", act, why, cls)}, n_accept, {id: verdict for id in want})
    (fast path for the one-line ACCEPT tuples; millions of cases in the thorough tier)"""
    classes, stuck, kept, nacc = {}, {}, {}, 0
    for m in _acc.finditer(text):
        cls = tuple(x.strip().strip('"') for x in m.group(2).split(","))
        classes[cls] = classes.get(cls, 0) + 1
        nacc += 1
        if m.group(1) in want:
            kept[m.group(1)] = ("ACCEPT", cls)
    rest = _acc.sub("", text)
    k = rest.find("<<")
    if k >= 0:
        for t in tlaval.extract_tuples(rest[k:]):
            if not isinstance(t, list) or len(t) < 3:
                continue
            if t[0] == "ACCEPT":
                cls = tuple(str(x) for x in t[2])
                classes[cls] = classes.get(cls, 0) + 1
                nacc += 1
                if t[1] in want:
                    kept[t[1]] = ("ACCEPT", cls)
            elif t[0] == "STUCK" and len(t) >= 6:
                cls = tuple(str(x) for x in t[5])
                classes[cls] = classes.get(cls, 0) + 1
                stuck[t[1]] = ("STUCK", t[3], t[4], cls)
    return classes, stuck, nacc, kept


def _run_shard(args):
    """vlib.tlc._run_trace_shard with a 1 GB thread stack: Decode recurses over aggregated PDUs (549 levels for a
    2200-octet frame) and the not yet JIT-compiled interpreter overflowed vlib's 16 MB now and then."""
    module, cfg, tag, k, path, timeout = args
    meta = os.path.join(OUT, tag, "tmeta_%d_%d" % (os.getpid(), k))
    os.makedirs(os.path.join(OUT, tag), exist_ok=True)
    shutil.rmtree(meta, ignore_errors=True)
    cmd = ["java", "-XX:+UseParallelGC", "-Xmx3g", "-Xss1g", "-cp", tlc.JAR, "tlc2.TLC", "-config", cfg,
           "-workers", "1", "-metadir", meta, "-noGenerateSpecTE", "-deadlock", module]
    env = dict(os.environ, TRACE_FILE=path)
    t0 = time.time()
    try:
        p = subprocess.run(cmd, cwd=tlc.SPEC, env=env, stdout=subprocess.PIPE, stderr=subprocess.STDOUT,
                           timeout=timeout, text=True, errors="replace")
    except subprocess.TimeoutExpired:
        raise tlc.TLCError("trace shard %d timeout" % k)
    finally:
        shutil.rmtree(meta, ignore_errors=True)
    r = tlc.Result()
    r.rc, r.out, r.wall = p.returncode, p.stdout, time.time() - t0
    tlc.parse_output(p.stdout, r)
    return r


def validate_files(paths, tag, timeout, want=()):
    """run Trace_LlcpPdu over the shard files (one JVM per file, 16 at a time)
    -> list per file of (classes, stuck, n_accept, kept), states, wall"""
    jobs = [("Trace_LlcpPdu.tla", "Trace_LlcpPdu.cfg", tag, k, p, timeout) for k, p in enumerate(paths)]
    with cf.ThreadPoolExecutor(max_workers=16) as ex:
        res = list(ex.map(_run_shard, jobs))
    out, states = [], 0
    for p, r in zip(paths, res):
        if not r.completed or r.violated:
            with open(os.path.join(OUT, PID, "failed_shard.log"), "w") as fh:
                fh.write(r.out)
            raise tlc.TLCError("trace batch %s failed rc=%s\n%s" % (p, r.rc, r.out[-4000:]))
        states += r.distinct
        out.append(parse_verdicts(r.out, want))
        r.out = None
    return out, states, max(r.wall for r in res)


def flat(x):
    if isinstance(x, list):
        return "/".join(flat(y) for y in x)
    return str(x)


TYPES = {"SYMM", "PAX", "AGF", "UI", "CONNECT", "DISC", "CC", "DM", "FRMR", "SNL", "DPS", "I", "RR", "RNR", "UNK", "type"}


def innermost(det):
    """a Diff path <<"AGF", "AGF", type, field, ..>> without the enclosing aggregates"""
    det = list(det)
    while len(det) > 2 and det[0] == "AGF" and det[1] in TYPES:
        det = det[1:]
    return det


def canonical_key(v):
    """key of a rejection: the failing clause and the spec's own description of the difference / branch"""
    _, act, why, cls = v
    kind = why[0]
    if kind == "inv":
        name, det = why[1], why[2]
        if name == "OwnSlice":
            return "inv:OwnSlice:%s" % det[-1]                    # innermost reason, e.g. tlv-past-slice
        return "inv:%s:%s" % (name, flat(innermost(det)))
    def inner(br):
        """innermost part of a spec branch: drop the enclosing AGF / agf-member levels"""
        br = [str(x) for x in br]
        if br[:1] == ["ERR"]:
            rest = [x for x in br[1:] if x != "agf-member"]
            return "ERR/" + "/".join(rest)
        if br[:1] == ["AGF"]:
            return "AGF"
        return "/".join(br)
    if kind == "no-action":
        what, out = why[1], why[2]
        return "no-action:%s:%s:spec=%s" % (what, out, inner(why[3]) if len(why) > 3 else "-")
    if kind == "result":
        det = list(why[2])
        if len(det) > 1:                                           # a field difference between two decoded PDUs
            return "result:%s:%s" % (act, flat(innermost(det)))
        return "result:%s:nfcpy=%s:spec=%s" % (act, flat(det), inner(why[1]))
    return "stuck:" + flat(why)


def fetch_cases(path, ids):
    """the recorded cases with the given ids from one shard file (one pass)"""
    ids, out = set(ids), {}
    if not ids:
        return out
    with open(path) as fh:
        for ln in fh:
            k = ln.find('"', 7)
            if ln[7:k] in ids:
                out[ln[7:k]] = json.loads(ln)
                if len(out) == len(ids):
                    break
    return out


def selftest_cases(good_pdu, good_bytes):
    """binding self-test: one field corrupted, one step dropped, one foreign exception -> all must be rejected"""
    out = []
    a = json.loads(json.dumps(good_pdu)); a["id"] = "self-corrupt-enc"; a["enc"][-1] ^= 1
    out.append(a)
    b = json.loads(json.dumps(good_bytes)); b["id"] = "self-corrupt-field"; b["f"]["ssap"] = (b["f"]["ssap"] + 1) % 64
    out.append(b)
    c = json.loads(json.dumps(good_pdu)); c["id"] = "self-dropped-redecode"; c["ro"] = "-"; c["f2"] = {"t": "ERR"}
    out.append(c)
    d = json.loads(json.dumps(good_bytes)); d["id"] = "self-foreign-exception"; d["out"] = "Other:IndexError"
    d.update(f={"t": "ERR"}, re="-", enc=[], len=-1, ro="-", f2={"t": "ERR"})
    out.append(d)
    e = json.loads(json.dumps(good_pdu)); e["id"] = "self-len"; e["len"] += 1
    out.append(e)
    return out


def model_check(tier):
    """exhaustive evaluation of the theorems on the spec alone + witnesses; returns dict of numbers"""
    q = tier == "quick"
    res = {}

    def mc(cfg):
        return tlc.run("MC_LlcpPdu.tla", cfg, PID + "/mc_" + cfg, workers=8, timeout=300 if q else 900)

    def wit(cfg, names):
        hit, _ = tlc.witnesses("MC_LlcpPdu.tla", cfg, PID + "/w_" + cfg, names, timeout=200, workers=2)
        return set(names) - hit

    with cf.ThreadPoolExecutor(max_workers=4) as ex:
        f1 = ex.submit(mc, "MC_LlcpPdu.cfg" if q else "MC_LlcpPdu_thorough.cfg")
        f2 = ex.submit(mc, "MC_LlcpPdu_bytes.cfg" if q else "MC_LlcpPdu_bytes_thorough.cfg")
        f3 = ex.submit(wit, "MC_LlcpPdu_reach.cfg", ["W_Rw0", "W_Nested", "W_Snl2"])
        f4 = ex.submit(wit, "MC_LlcpPdu_bytes_reach.cfg",
                       ["W_TlvSlice", "W_MemSlice", "W_NoNest", "W_TlvLen", "W_Skip"])
        r1, r2, m3, m4 = f1.result(), f2.result(), f3.result(), f4.result()
    if m3 or m4:
        raise tlc.TLCError("vacuous model: witnesses not reached: %s" % sorted(m3 | m4))
    res.update(pdu=r1, byt=r2)
    return res


def run(tier, seed):
    ck = check.Check(PID, tier, seed, "exploration")
    quick = tier == "quick"
    wd = os.path.join(OUT, PID, "cases_%d" % os.getpid())
    shutil.rmtree(wd, ignore_errors=True)
    os.makedirs(wd)
    t0 = time.time()
    try:
        with cf.ThreadPoolExecutor(max_workers=1) as bg:
            mcf = bg.submit(model_check, tier)             # TLC on the spec alone, while nfcpy executes the cases
            # 1. execute the cases on nfcpy: 16 worker processes = 16 shards = 16 trace files
            paths = [os.path.join(wd, "shard_%02d.ndjson" % k) for k in range(cases.NSHARD)]
            ctx = multiprocessing.get_context("fork")
            with ctx.Pool(cases.NSHARD) as pool:
                stats = pool.map(cases.worker, [(tier, seed, k, paths[k], SRC) for k in range(cases.NSHARD)])
            ncases = sum(s["n"] for s in stats)
            t_gen = time.time() - t0
            # binding self-test cases (built from two recorded, well-behaved cases)
            gp = cases.run_pdu("g1", {"t": "I", "dsap": 32, "ssap": 17, "ns": 3, "nr": 9, "data": [1, 2, 3]})
            gb = cases.run_bytes("g2", [0x81, 0x01, 0x02, 0x02, 0x03, 0x67, 0x06, 0x02, 0x41, 0x42])
            st_cases = [gp, gb] + selftest_cases(gp, gb)
            sp = os.path.join(wd, "selftest.ndjson")
            with open(sp, "w") as fh:
                for c in st_cases:
                    fh.write(json.dumps(c, separators=(",", ":")) + "\n")
            # 2. TLC judges every case
            SAMPLE_IDS = ("l129.1", "l0.64", "l0.65")
            per, tstates, twall = validate_files(paths + [sp], PID + "/trace", 900 if quick else 3000, SAMPLE_IDS)
            mc = mcf.result()
        _, st_stuck, st_nacc, _ = per[-1]
        per = per[:-1]
        for c in st_cases:
            if c["id"].startswith("self-") and c["id"] not in st_stuck:
                raise tlc.TLCError("binding vacuous: corrupted case %s accepted" % c["id"])
            if c["id"] in ("g1", "g2") and c["id"] in st_stuck:
                raise tlc.TLCError("binding self-test: well-behaved case %s rejected: %r" % (c["id"], st_stuck[c["id"]]))
        if st_nacc + len(st_stuck) != len(st_cases):
            raise tlc.TLCError("self-test: %d verdicts for %d cases" % (st_nacc + len(st_stuck), len(st_cases)))
        for k, (cl, stuck, nacc, kept) in enumerate(per):
            if nacc + len(stuck) != stats[k]["n"]:
                raise tlc.TLCError("shard %d: %d verdicts for %d cases" % (k, nacc + len(stuck), stats[k]["n"]))

        # 3. the spec-alone theorems
        for name, r in (("pdu", mc["pdu"]), ("bytes", mc["byt"])):
            if not r.ok:
                ck.violation("spec:LlcpPdu(%s):%s" % (name, ",".join(r.violated or ["deadlock"])),
                             "TLC refutes a theorem of the reference codec itself: %s" % (r.error_trace or "")[:1500])
        # 4. verdicts
        classes, rejected, verdicts = {}, {}, {}
        for k, (cl, stuck, nacc, kept) in enumerate(per):
            for c, n in cl.items():
                classes[c] = classes.get(c, 0) + n
            verdicts.update(kept)
            for cid, v in stuck.items():
                verdicts[cid] = v
                rejected.setdefault(canonical_key(v), []).append((cid, k))
        # fetch a few recorded cases per key (one pass per shard file) and report the smallest input
        wanted = {}
        for key, ids in rejected.items():
            ids.sort(key=lambda x: (len(x[0]), x[0]))
            for cid, k in ids[:24]:
                wanted.setdefault(k, set()).add(cid)
        got = {}
        for k, ids in wanted.items():
            got.update(fetch_cases(paths[k], ids))
        samples = {}
        for key, ids in sorted(rejected.items()):
            c = min((got[cid] for cid, _ in ids[:24]), key=lambda c: (len(c["b"]) + len(c["enc"]), c["id"]))
            v = verdicts[c["id"]]
            inp = {"pdu": c["f"]} if c["k"] == "pdu" else {"bytes": c["b"]}
            what = "%d case(s), smallest %s [%s]: %s -> nfcpy %s%s ; TLC: %s %s" % (
                len(ids), c["id"], c.get("tag"),
                ("bytes " + bytes(c["b"]).hex()[:400]) if c["k"] == "bytes" else ("PDU " + json.dumps(c["f"])[:300]),
                c["out"], (" " + json.dumps(c["f"])[:200]) if c["k"] == "bytes" and c["out"] == "ok" else "",
                v[1], json.dumps(v[2])[:300])
            ck.violation(key, what, replay=dict(kind="case", input=inp, expect_key=key))
            samples[key] = dict(input=(bytes(c["b"]).hex()[:400] if c["k"] == "bytes" else c["f"]), nfcpy=c["out"],
                                nfcpy_fields=c["f"] if c["k"] == "bytes" and len(json.dumps(c["f"])) < 300 else None,
                                tlc=[v[1], v[2]])
        nontrivial = sorted(c for c in classes if not (c[2:3] == ("ERR",) and c[3:] == TRIVIAL))
        outs = {}
        tags = {}
        for s in stats:
            for k, n in s["outs"].items():
                outs[k] = outs.get(k, 0) + n
            for k, n in s["tags"].items():
                tags[k] = tags.get(k, 0) + n
        ck.cover(evaluations=ncases, distinct_nontrivial=len(nontrivial),
                 rule="distinct (case kind, reading that matched nfcpy [strict|nonest|loose|mismatch|other|given], "
                      "spec branch = PDU type (+ first member type for AGF) or the ERR reason path) as printed by "
                      "TLC per case, excluding the header-length check ERR/short",
                 mc_pdu_states=mc["pdu"].distinct, mc_bytes_states=mc["byt"].distinct,
                 mc_wall_s=round(max(mc["pdu"].wall, mc["byt"].wall), 1),
                 witnesses_reached=["W_Rw0", "W_Nested", "W_Snl2", "W_TlvSlice", "W_MemSlice",
                                    "W_NoNest", "W_TlvLen", "W_Skip"],
                 trace_states=tstates, cases_by_generator=tags, cases_by_nfcpy_outcome=outs,
                 rejected_cases=sum(len(v) for v in rejected.values()),
                 gen_wall_s=round(t_gen, 1), tlc_trace_wall_s=round(twall, 1),
                 binding_selftest="corrupted octet / field / len, dropped re-decode and a foreign exception all rejected")
        # evidence samples: concrete byte strings with both verdicts
        for k in range(cases.NSHARD):
            for cid, c in sorted(fetch_cases(paths[k], [i for i in SAMPLE_IDS if i in per[k][3]]).items()):
                ck.sample(dict(bytes=bytes(c["b"]).hex(), nfcpy=c["out"], nfcpy_fields=c["f"], tlc=list(verdicts[cid])), limit=8)
        for key in sorted(samples)[:4]:
            ck.sample(dict(finding=key, **samples[key]), limit=8)
        ck.cover(classes=[" ".join(c) for c in nontrivial][:400])
        ck.assume("the TLA+ module is the reference: Decode/Encode/DeclLen/Norm as documented in spec/LlcpPdu.tla (N1-N4, D1-D9)",
                  "PDU objects are built through the public constructors with in-range field values only",
                  "byte strings longer than 3 octets are sampled (mutations, random), not enumerated",
                  "llcp-sec is off in this sandbox: DPS PDUs are exercised by the codec only")
    finally:
        shutil.rmtree(wd, ignore_errors=True)
    return ck.finish()


def replay(rep, args):
    r = rep["replay"]
    wd = os.path.join(OUT, PID, "replay_%d" % os.getpid())
    os.makedirs(wd, exist_ok=True)
    try:
        c = cases.run_input("replay", r["input"])
        p = os.path.join(wd, "case.ndjson")
        with open(p, "w") as fh:
            with cases.deep():
                fh.write(json.dumps(c, separators=(",", ":")) + "\n")
        per, _, _ = validate_files([p], PID + "/replay", 300, ("replay",))
    finally:
        shutil.rmtree(wd, ignore_errors=True)
    v = per[0][1].get("replay") or per[0][3]["replay"]
    inp = r["input"]
    print("input   :", ("bytes " + bytes(inp["bytes"]).hex()) if "bytes" in inp else ("PDU " + json.dumps(inp["pdu"])))
    print("nfcpy   : decode -> %s %s ; encode -> %s %s len=%s ; re-decode -> %s %s" % (
        c["out"], json.dumps(c["f"])[:400], c["re"], bytes(c["enc"]).hex()[:200], c["len"], c["ro"], json.dumps(c["f2"])[:400]))
    print("TLC     :", v)
    if v[0] != "ACCEPT":
        print("failing clause: %s  key=%s" % (json.dumps(v[2]), canonical_key(v)))
        print("VIOLATION property=%s replay=%s" % (PID, args.replay))
        return 1
    print("accepted (class %s)" % " ".join(v[1]))
    return 0
