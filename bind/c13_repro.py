"""Stand-alone reproductions of the C13 driver defects with plain mocks (no simulator, no TLC):
    /venv/bin/python /verif/bind/c13_repro.py        (imports nfcpy from /repo/src or $NFCPY_SRC)"""
import sys, logging
import os
sys.path.insert(0, os.environ.get("NFCPY_SRC", "/repo/src"))
logging.disable(logging.CRITICAL)
import nfc.clf, nfc.clf.pn532, nfc.clf.pn533, nfc.clf.rcs380, nfc.clf.udp
from unittest import mock
H = bytearray.fromhex
ACK = H("0000ff00ff00")
def std(p): p = H(p); return H("0000ff") + bytearray([len(p), 256 - len(p) & 255]) + p + bytearray([256 - sum(p) & 255, 0])
def r380(p): p = H(p); return H("0000ffffff") + bytearray([len(p) & 255, len(p) >> 8, 256 - (len(p) & 255) - (len(p) >> 8) & 255]) + p + bytearray([256 - sum(p) & 255, 0])
def run(name, fn):
    try:
        r = fn(); print("%-44s returned %r" % (name, r))
    except BaseException as e:
        print("%-44s raised %s.%s: %s" % (name, type(e).__module__, type(e).__qualname__, e))

def pn53x_dev(mod, reads):
    t = mock.Mock(); t.read.side_effect = reads
    dev = mod.Device.__new__(mod.Device); dev.chipset = mod.Chipset(t, logging.getLogger("x")); dev.log = dev.chipset.log
    clf = nfc.clf.ContactlessFrontend(); clf.device = dev
    return clf
tt4 = lambda: nfc.clf.RemoteTarget("106A", sens_res=H("4403"), sel_res=H("20"), sdd_res=H("01020304"))
# 1 truncated response frame -> IndexError
clf = pn53x_dev(nfc.clf.pn532, [ACK, H("0000ff")]); clf.target = tt4()
run("pn532 3-byte response to ReadRegister", lambda: clf.exchange(b"\x02", 0.1))
# 2 error frame on a preparatory command -> Chipset.Error
clf = pn53x_dev(nfc.clf.pn532, [ACK, std("d507000000"), ACK, std("d50900"), ACK, H("0000ff01ff7f8100")]); clf.target = tt4()
run("pn532 error frame to RFConfiguration", lambda: clf.exchange(b"\x02", 0.1))
clf = pn53x_dev(nfc.clf.pn533, [ACK, std("d50727")]); clf.target = tt4()
run("pn533 ReadRegister status 27h", lambda: clf.exchange(b"\x02", 0.1))
# 3/4 type 3 tag emulation path
t3 = lambda: nfc.clf.LocalTarget("212F", tt3_cmd=H("0601020304050607080b"), sensf_res=H("01" + "00" * 18))
clf = pn53x_dev(nfc.clf.pn532, [ACK, H("0000ff01ff7f8100")]); clf.target = t3()
run("pn532 tt3 emulation, error frame", lambda: clf.exchange(b"\x01\x02", 0.1))
clf = pn53x_dev(nfc.clf.pn532, [ACK, std("d50900"), ACK, std("d5072000"), ACK, std("d50900"), ACK, std("d50700"), ACK, std("d507")]); clf.target = t3()
with mock.patch("nfc.clf.pn53x.time"):
    nfc.clf.pn53x.time.time.side_effect = [0, 0, 1, 2, 3]
    run("pn532 tt3 emulation, RxIRq with empty FIFO", lambda: clf.exchange(b"\x01\x02", 0.1))
# rcs380
def r380_dev(reads):
    t = mock.Mock(); t.read.side_effect = reads
    cs = nfc.clf.rcs380.Chipset.__new__(nfc.clf.rcs380.Chipset); cs.transport = t; cs.log = logging.getLogger("x")
    dev = nfc.clf.rcs380.Device.__new__(nfc.clf.rcs380.Device); dev.chipset = cs; dev.log = cs.log
    clf = nfc.clf.ContactlessFrontend(); clf.device = dev
    return clf
ok = [ACK, r380("d70100"), ACK, r380("d70300"), ACK, r380("d70300")]
clf = r380_dev([ACK, r380("d70101")]); clf.target = tt4()
run("rcs380 InSetRF status 01", lambda: clf.exchange(b"\x02", 0.1))
clf = r380_dev(ok + [H("0000ffff0000")]); clf.target = tt4()
run("rcs380 NAK instead of ACK for InCommRF (tt4)", lambda: clf.exchange(b"\x02", 0.1))
clf = r380_dev(ok + [H("0000ffff0000")]); clf.target = nfc.clf.RemoteTarget("106A", sens_res=H("4400"), sel_res=H("00"), sdd_res=H("01020304"))
run("rcs380 NAK instead of ACK for InCommRF (tt2)", lambda: clf.exchange(b"\x30\x00", 0.1))
clf = r380_dev(ok + [ACK, H("0000ffffff05")]); clf.target = tt4()
run("rcs380 6-byte response frame", lambda: clf.exchange(b"\x02", 0.1))
print("%-44s %s" % ("rcs380 no answer", "Chipset.send_command calls transport.read() without a timeout (rcs380.py:214,216) -> blocks"))
# udp
def udp_dev(datagram):
    dev = nfc.clf.udp.Device.__new__(nfc.clf.udp.Device); dev.addr = ("127.0.0.1", 1); dev.socket = mock.Mock()
    dev.socket.sendto.side_effect = lambda d, a: len(d); dev.socket.recvfrom.return_value = (datagram, ("127.0.0.1", 1))
    dev.sent_data = dev.rcvd_data = 0
    clf = nfc.clf.ContactlessFrontend(); clf.device = dev
    t = nfc.clf.RemoteTarget("106A"); t._addr = dev.addr; clf.target = t
    return clf
for dg in (b"106A 0", b"106A zz", b"\xff\xfe 00"):
    clf = udp_dev(dg)
    with mock.patch("nfc.clf.udp.select.select", return_value=([1], [], [])):
        run("udp datagram %r" % dg, lambda: clf.exchange(b"\x00", 0.1))
