"""Stand-alone reproductions of the C20 findings on the simulated FeliCa Lite-S tag.
   cd /verif && /venv/bin/python -m bind.c20_repro 1|2|3      (NFCPY_SRC selects the nfcpy tree, default /repo/src)"""
import sys
from vlib import use_repo
use_repo()
import nfc.clf, nfc.tag                                            # noqa: E402
from sim.auth_felica import SimFelicaLite                          # noqa: E402


class Clf(object):
    def __init__(self, sim):
        self.sim, self.hook = sim, None

    def exchange(self, data, timeout):
        rsp = bytearray(self.sim.process(data))
        return self.hook(bytes(data), rsp) if self.hook else rsp

    def sense(self, *a, **kw):
        return None


def make(kind, key):
    sim = SimFelicaLite(kind, ck=key)
    clf = Clf(sim)
    target = nfc.clf.RemoteTarget("212F")
    target.sensf_res = bytearray(sim.sensf_res())
    return nfc.tag.activate(clf, target), sim, clf


def main(which):
    key = b"0123456789abcdef"
    if which == "1":
        tag, sim, clf = make("lites", key)

        def flip_state_mac(cmd, rsp):          # one bit of the MAC returned with the STATE block (92h, 81h)
            if cmd[1] == 0x06 and cmd[-4:] == b"\x80\x92\x80\x81":
                rsp[13 + 16] ^= 0x01
            return rsp
        clf.hook = flip_state_mac
        print("FelicaLiteS.authenticate ->", tag.authenticate(key))         # TypeError: None[0]
    elif which == "2":
        tag, sim, clf = make("lites", bytes(16))
        print("FelicaLiteS.protect(bytes) ->", tag.protect(key, protect_from=14))   # AttributeError: bytes.encode
        print("authenticate(same object) ->", tag.authenticate(key))
    elif which == "3":
        tag, sim, clf = make("lite", key)
        attr = bytearray(b"\x10\x04\x01\x00\x0d\0\0\0\0\x00\x01\x00\x00\x10\0\0")
        attr[14:16] = sum(attr[:14]).to_bytes(2, "big")
        sim.mem[0][:] = attr
        print("authenticate ->", tag.authenticate(key))

        def flip_data(cmd, rsp):               # one data bit of any MAC protected read
            if cmd[1] == 0x06 and cmd[-2:] == b"\x80\x81":
                rsp[13] ^= 0x80
            return rsp
        clf.hook = flip_data
        print("tag.ndef ->", tag.ndef)                                     # TypeError instead of None


if __name__ == "__main__":
    main(sys.argv[1])
