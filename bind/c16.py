"""C16 -- tag commands retry transient errors and fail only as TagCommandError.

Spec: spec/TagCmd.tla (retry discipline + outcome rules), MC_TagCmd.tla (exhaustive: every fault script
Pos x Kind x Burst x Mode for operations of 1..5 commands, four protocols; rule-breaking client = witnesses).
Binding: for every (tag class, public operation) a fault-free run on a simulated tag fixes the command
sequence (N commands); then every script of TagCmd!Scripts(N, bursts) is run against a fresh real tag object
behind a fake clf whose exchange() raises nfc.clf.TimeoutError / TransmissionError / ProtocolError at the scripted
command (before or after the simulated tag executed it).  Events Send/Answer/Fault/Ret are validated by
Trace_TagCmd.tla; a Cover trace per operation makes TLC check that the script set equals Scripts(N, bursts).
"""
import os, sys, json, hashlib, itertools, contextlib, io
from vlib import tlc, check

import nfc
import nfc.clf
import nfc.tag
import nfc.tag.tt1
import nfc.tag.tt2
import nfc.tag.tt3
import nfc.tag.tt4
from sim.c16_tags import SimT1, SimT2, SimT3, NdefApplet
from sim.picc import SimPicc
from sim.vendor_nxp import SimNxp
from sim.auth_felica import SimFelicaLite

PID = "C16"
KINDS = ("timeout", "transmission", "protocol")
MODES = ("before", "after")
EXC = {"timeout": nfc.clf.TimeoutError, "transmission": nfc.clf.TransmissionError, "protocol": nfc.clf.ProtocolError}


def h30(b):
    return int(hashlib.sha1(bytes(b)).hexdigest()[:7], 16)


def norm(v):
    if v is None or v is True or v is False:
        return str(v)
    if isinstance(v, str) and v.startswith("tag:"):
        return v
    if isinstance(v, (bytes, bytearray)):
        return "b:" + hashlib.sha1(bytes(v)).hexdigest()[:10]
    if isinstance(v, nfc.tag.Tag.NDEF):
        return "ndef:" + hashlib.sha1(bytes(v.octets)).hexdigest()[:10]
    return "o:" + hashlib.sha1(repr(v).encode()).hexdigest()[:10]


class FaultClf(object):
    """fake contactless frontend: passes commands to the simulated tag, injects the fault script"""
    max_send_data_size = 256
    max_recv_data_size = 256

    def __init__(self, proto, sim):
        self.proto, self.sim = proto, sim
        self.armed = False
        self.script = None
        self.ev = []
        self.npos = 0
        self.left = 0
        self.last = None        # "answer" | "rack" | "fault"
        self.cur = None
        self.curcc = "-"
        self.clean = []
        self.activation = False  # the operation under test is nfc.tag.activate(): every exchange is of class "act"
        # like nfc.ContactlessFrontend: a failed sense() clears the frontend's target and exchange() then returns None
        self.present = True      # the frontend has a target
        self.gone = False        # the tag has left the field
        self.gone_at = None      # script: the tag leaves right before the k-th sense() of the operation
        self.nsense = 0
        self.tagobj = None
        self.mac_at = None       # script: the MAC of the k-th MAC-protected read of the operation does not verify
        self.nmac = 0

    def tp(self):
        """`tag.target is not None` of the tag object under test (the frontend's own target while activating)"""
        if isinstance(self.tagobj, nfc.tag.Tag):
            return self.tagobj.target is not None
        return bool(self.present)

    def sense(self, target, **kw):
        if self.armed:
            self.nsense += 1
            if self.gone_at == self.nsense:
                self.gone = True
        if self.gone:
            self.present = False
            if self.armed:
                self.ev.append(dict(e="Sense", res=False))
            return None
        if hasattr(self.sim, "activate") and self.proto == "T2":
            self.sim.activate()  # REQA / anticollision / SELECT: a tag that went mute after a NAK is selected again
        self.present = True
        if self.armed:
            self.ev.append(dict(e="Sense", res=True))
        return target

    def arm(self, script):
        self.armed = True
        if script and "gone" in script:
            self.gone_at, script = script["gone"], None
        if script and "mac" in script:
            self.mac_at, script = script["mac"], None
        self.script = script

    def rearm(self):
        """start recording a further operation on the same objects"""
        self.ev, self.npos, self.left, self.last, self.cur, self.curcc, self.clean = [], 0, 0, None, None, "-", []
        self.script, self.gone_at, self.nsense, self.mac_at, self.nmac = None, None, 0, None, 0

    def _cc(self, data):
        if self.activation:
            return "act"
        if self.proto == "T2" and self.sim.expects_packet2():
            return "ssel2"
        if self.proto == "T2" and data[0] in (0x1A, 0xAF) and len(data) in (2, 17):
            return "nonce"                                   # Ultralight C AUTHENTICATE part 1 / part 2
        if self.proto == "T3" and len(data) > 34 and data[1] == 0x08 and data[-33] == 0x91 and data[-34] & 0x80:
            return "nonce"                                   # FeliCa Lite-S write with MAC_A: bound to the write counter
        if self.proto == "T3" and len(data) > 18 and data[1] == 0x08 and data[-17] == 0x88 and data[-18] & 0x80:
            return "nonce"                                   # FeliCa Lite MC block: the write that locks the system blocks
                                                             # (itself included) cannot be repeated once executed
        if self.proto == "T4":
            pcb = data[0]
            if pcb & 0xE2 == 0x02:
                return "I"
            if pcb & 0xE6 == 0xA2:
                return "R"  # (a presence check R(NAK) sent as a new command is re-classified "P" by the caller)
            return "S"
        return "std"

    def _process(self, data):
        """-> (response or None, executed)"""
        if self.proto == "T4" and not self.sim.active:
            rep = self.sim.activate(data)                    # RATS / ATTRIB
            return rep, rep is not None, dict(t="ATS", bn=0)
        if self.proto == "T4":
            rep, rd = self.sim.block(data)
            return rep, self.sim.last_ex != 0, rd
        rsp = self.sim.process(data)
        return rsp, (rsp is not None or getattr(self.sim, "passive", False)), None

    def exchange(self, data, timeout):
        data = bytes(data)
        if not self.armed:
            rsp, ex, rd = self._process(data)
            if rsp is None:
                raise nfc.clf.TimeoutError("mute")
            return bytearray(rsp)
        cc = self._cc(data)
        if not self.present:
            # no target: ContactlessFrontend.exchange() logs an error and returns None
            self.ev.append(dict(e="Send", h=h30(data), cc=cc, tp=self.tp()))
            self.ev.append(dict(e="Answer", rk="none", ex=False))
            self.last = "answer"
            return None
        if self.activation:
            same = False
        elif self.proto == "T4":
            same = (self.last == "fault" and (cc == "R" and (self.curcc == "I" or data == self.cur))) or \
                   (self.last == "rack")
        else:
            same = self.last == "fault" and data == self.cur
        if self.proto == "T4" and cc == "S":
            # an S(WTX) response is a fault position of its own but belongs to the command that is being answered
            self.npos += 1
            sc = self.script
            self.left = sc["b"] if sc and sc["p"] == self.npos else 0
        elif not same:
            if self.proto == "T4" and cc == "R" and data[0] & 0xFE == 0xB2:
                cc = "P"
            self.npos += 1
            self.cur, self.curcc = data, cc
            self.clean.append(h30(data))
            sc = self.script
            self.left = sc["b"] if sc and sc["p"] == self.npos else 0
        self.ev.append(dict(e="Send", h=h30(data), cc=cc, tp=self.tp()))
        if self.gone:
            self.ev.append(dict(e="Fault", k="timeout", ex=False))
            self.last = "fault"
            raise nfc.clf.TimeoutError("tag gone")
        if self.left > 0:
            self.left -= 1
            ex = False
            if self.script["m"] == "after":
                rsp, ex, rd = self._process(data)
            elif cc == "ssel2":
                self.sim.pending = False       # the tag leaves the SECTOR SELECT state after 1 ms without packet 2
            # burst of mixed kinds: the first fault is of kind k1, the later ones of kind k
            kind = self.script["k1"] if "k1" in self.script and self.left == self.script["b"] - 1 else self.script["k"]
            self.ev.append(dict(e="Fault", k=kind, ex=bool(ex)))
            self.last = "fault"
            raise EXC[kind]("scripted")
        rsp, ex, rd = self._process(data)
        if rsp is None and cc == "act":
            # a probe the tag does not know: silence is the tag's answer (the code takes the time-out for "unsupported")
            self.ev.append(dict(e="Answer", rk="mute", ex=False))
            self.last = "answer"
            raise nfc.clf.TimeoutError("mute tag")
        if rsp is None:
            self.ev.append(dict(e="Fault", k="timeout", ex=bool(ex)))
            self.last = "fault"
            raise nfc.clf.TimeoutError("mute tag")
        rk = "rack" if (self.proto == "T4" and self.curcc == "I" and data[0] & 0xFE == 0xB2 and rd["t"] == "RACK"
                        and rd["bn"] != data[0] & 1) else "rsp"
        if self.proto == "T4" and rd["t"] == "WTX":
            rk = "wtx"
        if self.proto == "T3" and len(data) > 12 and data[1] == 0x06 and data[-1] in (0x81, 0x91) and data[-2] & 0x80 \
                and len(rsp) >= 29 and rsp[10] == 0:
            self.nmac += 1                                   # FeliCa Lite(-S) read with the MAC / MAC_A block appended
            if self.mac_at == self.nmac:
                rsp = bytearray(rsp)
                rsp[-16] ^= 0x01                             # the MAC does not verify
                rk = "badmac"
        self.ev.append(dict(e="Answer", rk=rk, ex=bool(ex)))
        self.last = rk if rk in ("rack", "wtx") else "answer"
        return bytearray(rsp)


# ------------------------------------------------------------------------------------------------
# tag classes: factory -> (proto, nRetry, sim, clf, tag)

# with activated=False the factory stops before nfc.tag.activate(): the last element is the RemoteTarget, and the
# activation itself becomes the operation under test (ACTIVATE)

def make_t1(hr=b"\x11\x48", activated=True):
    sim = SimT1(hr=hr)
    clf = FaultClf("T1", sim)
    target = nfc.clf.RemoteTarget("106A", sens_res=bytearray(b"\x00\x0C"), rid_res=bytearray(sim.rid_res()))
    return "T1", 0, sim, clf, nfc.tag.activate(clf, target) if activated else target


def make_t2(size=64, activated=True, **kw):
    sim = SimT2(size=size, **kw)
    clf = FaultClf("T2", sim)
    target = nfc.clf.RemoteTarget("106A", sens_res=bytearray(b"\x44\x00"), sel_res=bytearray(b"\x00"),
                                  sdd_res=bytearray(sim.uid))
    return "T2", 0, sim, clf, nfc.tag.activate(clf, target) if activated else target


def make_t3(activated=True, **kw):
    sim = SimT3(**kw)
    clf = FaultClf("T3", sim)
    target = nfc.clf.RemoteTarget("212F", sensf_res=bytearray(sim.sensf_res()))
    return "T3", 0, sim, clf, nfc.tag.activate(clf, target) if activated else target


def make_t4(fwi=10, fsci=2, rchunk=20, wtx=False, activated=True, typ="A", ats="abc"):
    app = NdefApplet()
    # wtx: the card asks for a waiting time extension before every block it produces (rule 9)
    sim = SimPicc(app, fsci=fsci, fwi=fwi, rchunk=rchunk, wtx_plan=[True, False] * 400 if wtx else (), typ=typ, ats=ats)
    sim.app = app
    clf = FaultClf("T4", sim)
    if typ == "A":
        target = nfc.clf.RemoteTarget("106A", sens_res=bytearray(b"\x44\x03"), sel_res=bytearray(b"\x20"),
                                      sdd_res=bytearray(b"\x08\x11\x22\x33"))
    else:
        target = nfc.clf.RemoteTarget("106B", sensb_res=bytearray(sim.sensb_res()))
    fwt = 4096 / 13.56E6 * 2 ** fwi
    return "T4", min(int(1 / fwt), 5), sim, clf, nfc.tag.activate(clf, target) if activated else target


class NxpSim(object):
    """sim.vendor_nxp.SimNxp behind the interface FaultClf expects from a Type 2 simulator"""
    passive = False

    def __init__(self, product, **kw):
        import random
        self.nxp = SimNxp(product, nak="byte", rnd=random.Random(16), **kw)     # RndB: the same in every run
        self.uid = self.nxp.uid

    def process(self, cmd):
        return self.nxp.process(cmd)

    def activate(self):
        return self.nxp.activate()

    def expects_packet2(self):
        return bool(self.nxp.sel2)

    pending = property(lambda self: self.nxp.sel2, lambda self, v: setattr(self.nxp, "sel2", bool(v)))

    @property
    def writes(self):
        return len(self.nxp.log)


def make_nxp(product, activated=True, **kw):
    sim = NxpSim(product, **kw)
    clf = FaultClf("T2", sim)
    target = nfc.clf.RemoteTarget("106A", sens_res=bytearray(b"\x44\x00"), sel_res=bytearray(b"\x00"),
                                  sdd_res=bytearray(sim.uid))
    return "T2", 0, sim, clf, nfc.tag.activate(clf, target) if activated else target


LITE_KEY = b"c16-felica-key-0"


def make_lite(kind="lite", activated=True):
    """FeliCa Lite / Lite-S (sim/auth_felica.py) with card key LITE_KEY and a small NDEF message"""
    ndef = bytes.fromhex("D1010B5402656E") + b"felicalite"                          # 17 byte: two data blocks
    attr = bytearray(16)
    attr[0:5] = bytes([0x10, 0x04, 0x01, 0x00, 0x0D])
    attr[10] = 0x01
    attr[11:14] = len(ndef).to_bytes(3, "big")
    attr[14:16] = sum(attr[0:14]).to_bytes(2, "big")
    data = ndef + bytes(-len(ndef) % 16)
    user = {0: bytes(attr), 1: data[0:16], 2: data[16:32]}
    sim = SimFelicaLite(kind, idm=bytes.fromhex("02FE112233445566"), ck=LITE_KEY, user=user)
    sim.writes = 0
    clf = FaultClf("T3", sim)
    target = nfc.clf.RemoteTarget("212F", sensf_res=bytearray(sim.sensf_res()))
    return "T3", 0, sim, clf, nfc.tag.activate(clf, target) if activated else target


def authenticated(tag):
    if tag.authenticate(LITE_KEY) is not True:
        raise RuntimeError("setup: authenticate failed")


def ACTIVATE(target_and_clf):
    """the operation nfc.tag.activate(clf, target): documented result is a tag object or None, never an exception"""
    clf, target = target_and_clf
    tag = nfc.tag.activate(clf, target)
    return None if tag is None else "tag:" + type(tag).__name__


NDEF2 = bytes.fromhex("D1010B5402656E") + b"verif-c16"
NDEF3 = bytes.fromhex("D101165402656E") + b"a-longer-message-016"
NDEF4 = bytes.fromhex("D1012D5402656E") + b"chained-over-several-iso-dep-i-blocks-0042"      # 49 byte: one UPDATE
LONG = bytes(range(0x30, 0x30 + 40))                                                         # BINARY of 51 byte data


def need_ndef(tag):
    if tag.ndef is None:
        raise RuntimeError("setup: no ndef")


def set_octets(data):
    def op(tag):
        tag.ndef.octets = data
        return "written"
    return op


def nop(tag):
    pass


# (class name, factory, [(op name, setup, op, documented failure values, tiers)])
def ops_table():
    T = []
    t1_ops = [
        ("ndef_read", nop, lambda t: t.ndef, ["None"], "qt"),
        ("ndef_write", need_ndef, set_octets(NDEF2), [], "qt"),
        ("is_present", nop, lambda t: t.is_present, ["False"], "qt"),
        ("format", nop, lambda t: t.format(), ["False"], "qt"),
        ("format_wipe", nop, lambda t: t.format(wipe=0), ["False"], "t"),
        ("protect", nop, lambda t: t.protect(), ["False"], "qt"),
        ("dump", nop, lambda t: t.dump(), ["any"], "qt"),
        ("read_id", nop, lambda t: t.read_id(), [], "qt"),
        ("read_all", nop, lambda t: t.read_all(), [], "qt"),
        ("read_byte", nop, lambda t: t.read_byte(9), [], "qt"),
        ("write_byte", nop, lambda t: t.write_byte(40, 0x5A), [], "qt"),
        ("write_byte_ne", nop, lambda t: t.write_byte(41, 0x5A, erase=False), [], "qt"),
    ]
    T.append(("Topaz", lambda: make_t1(b"\x11\x48"), t1_ops))
    T.append(("Type1Tag", lambda: make_t1(b"\x11\x00"), [o for o in t1_ops if o[0] in
                                                         ("ndef_read", "ndef_write", "is_present", "protect", "dump")]))
    t2_ops = [
        ("ndef_read", nop, lambda t: t.ndef, ["None"], "qt"),
        ("ndef_write", need_ndef, set_octets(NDEF2), [], "qt"),
        ("ndef_write_long", need_ndef, set_octets(NDEF3), [], "t"),
        ("is_present", nop, lambda t: t.is_present, ["False"], "qt"),
        ("format", nop, lambda t: t.format(), ["False"], "qt"),
        ("format_wipe", nop, lambda t: t.format(wipe=1), ["False"], "t"),
        ("protect", nop, lambda t: t.protect(), ["False"], "qt"),
        ("dump", nop, lambda t: t.dump(), ["any"], "qt"),
        ("read", nop, lambda t: t.read(4), [], "qt"),
        ("write", nop, lambda t: t.write(6, b"abcd"), [], "qt"),
    ]
    T.append(("Type2Tag", lambda: make_t2(64), t2_ops))
    T.append(("Type2Tag-2sectors", lambda: make_t2(1024 + 64), [
        ("sector_select", nop, lambda t: t.sector_select(1), [], "qt"),
        ("sector_select_read", nop, lambda t: (t.sector_select(1), t.read(2))[1], [], "qt"),
        ("dump", nop, lambda t: t.dump(), ["any"], "t"),
    ]))
    t3_ops = [
        ("ndef_read", nop, lambda t: t.ndef, ["None"], "qt"),
        ("ndef_write", need_ndef, set_octets(NDEF2), [], "qt"),
        ("ndef_write_long", need_ndef, set_octets(NDEF3), [], "qt"),
        ("is_present", nop, lambda t: t.is_present, ["False"], "qt"),
        ("format", nop, lambda t: t.format(version=0x10), ["False"], "qt"),
        ("dump", nop, lambda t: t.dump(), ["any"], "qt"),
        ("polling", nop, lambda t: t.polling(0x12FC), [], "qt"),
        ("read_from_ndef_service", nop, lambda t: t.read_from_ndef_service(1, 2), [], "qt"),
        ("write_to_ndef_service", nop, lambda t: t.write_to_ndef_service(b"0123456789abcdef", 3), [], "qt"),
    ]
    T.append(("Type3Tag", make_t3, t3_ops))
    t4_ops = [
        ("ndef_read", nop, lambda t: t.ndef, ["None"], "qt"),
        ("ndef_write", need_ndef, set_octets(NDEF2), [], "qt"),
        ("ndef_write_long", need_ndef, set_octets(NDEF3 + NDEF3 + NDEF3), [], "t"),
        ("is_present", nop, lambda t: t.is_present, ["False"], "qt"),
        ("format_wipe", nop, lambda t: t.format(wipe=0), ["False"], "t"),
        ("dump", nop, lambda t: t.dump(), ["any"], "qt"),
        ("send_apdu", nop, lambda t: t.send_apdu(0, 0xA4, 0x04, 0x00, bytes.fromhex("D2760000850101"), 256), [], "qt"),
    ]
    t4_ops.insert(1, ("has_changed", need_ndef, lambda t: t.ndef.has_changed, ["True"], "qt"))
    # the first tag.ndef (SELECT application, SELECT CC, READ CC x2, SELECT NDEF file, READ NLEN, READ data) on cards with
    # different ISO-DEP retry budgets: every position x kind (a ProtocolError gives up at once) x bursts up to and beyond
    # n_retry + 1
    first = [o for o in t4_ops if o[0] in ("ndef_read", "has_changed", "is_present", "dump", "send_apdu")]
    T.append(("Type4ATag", lambda: make_t4(10), t4_ops, (1, 2, 4, 5)))                       # n_retry 3
    T.append(("Type4ATag-fwi11", lambda: make_t4(11), first, (1, 2, 3)))                     # n_retry 1
    T.append(("Type4ATag-fwi9", lambda: make_t4(9), first[:3], (1, 4, 6, 7)))                # n_retry 5
    T.append(("Type4ATag-fwi13", lambda: make_t4(13), [o for o in t4_ops if o[0] in ("ndef_read", "send_apdu")], (1, 2)))
    # commands and responses chained over several I-blocks (FSC 16/24: 13/21 byte per block, the card chains its answer
    # by 10 byte): every block of a chain is a fault position and must get the full budget n_retry + 1 (tt4.py:93)
    t4_chain = [
        ("ndef_write_chained", need_ndef, set_octets(NDEF4), [], "qt"),                                   # 5 I-blocks
        ("update_binary_chained", need_ndef, lambda t: t.send_apdu(0, 0xD6, 0, 60, LONG), [], "qt"),      # 4 I-blocks
        ("transceive_chained", need_ndef,
         lambda t: t.transceive(bytearray(b"\x00\xD6\x00\x40" + bytes([len(LONG)]) + LONG)), [], "qt"),
        ("read_binary_chained", need_ndef, lambda t: t.send_apdu(0, 0xB0, 0, 0, mrl=55), [], "qt"),       # 6 blocks back
        ("ndef_read_chained", nop, lambda t: t.ndef, ["None"], "qt"),
        ("write_then_read_chained", need_ndef,
         lambda t: (t.send_apdu(0, 0xD6, 0, 60, LONG), t.send_apdu(0, 0xB0, 0, 60, mrl=40))[1], [], "t"),
    ]
    T.append(("Type4ATag-fsc16", lambda: make_t4(10, 0, 10), t4_chain, (1, 2, 3, 4)))       # n_retry 3: bursts 1..n_retry+1
    T.append(("Type4ATag-fsc16-fwi11", lambda: make_t4(11, 0, 10), t4_chain[:4], (1, 2)))   # n_retry 1
    T.append(("Type4ATag-fsc24-fwi9", lambda: make_t4(9, 1, 10),
              [o for o in t4_chain if o[0] in ("update_binary_chained", "read_binary_chained")], (1, 3, 5, 6)))  # n_retry 5
    # the card requests S(WTX) before every answer: the S(WTX) exchange is a fault position of its own; after a fault in it
    # the command's recovery block (R(NAK) / R(ACK)) is due, in command chaining and in response chaining
    # vendor variants on sim/vendor_nxp.py: password protection and authentication; protect(password) re-selects the tag
    # with clf.sense() (a fault position of its own: the tag has left the field) before it authenticates
    PW6, PW16 = b"\x31\x32\x33\x34\x41\x42", b"0123456789abcdef"
    for name, pw in (("NTAG213", PW6), ("MF0UL11", PW6), ("ULC", PW16)):
        def protected(t, pw=pw):
            if t.protect(pw) is not True:
                raise RuntimeError("setup: protect(password) failed")
        vops = [
            ("protect_password", nop, lambda t, pw=pw: t.protect(pw), ["False"], "qt"),
            ("protect_password_from_3_read", nop, lambda t, pw=pw: t.protect(pw, read_protect=True, protect_from=3),
             ["False"], "t" if name != "NTAG213" else "qt"),
            ("authenticate", protected, lambda t, pw=pw: t.authenticate(pw), ["False"], "qt"),
            ("authenticate_wrong_password", protected, lambda t, pw=pw: t.authenticate(pw[::-1]), ["False"], "qt"),
            ("protect_lockbits", nop, lambda t: t.protect(), ["False"], "qt"),
            ("is_present", nop, lambda t: t.is_present, ["False"], "qt"),
            ("ndef_read", nop, lambda t: t.ndef, ["None"], "qt"),
            ("ndef_write", need_ndef, set_octets(NDEF2), [], "t"),
            ("dump", nop, lambda t: t.dump(), ["any"], "t"),
            ("read_invalid_page", nop, lambda t: t.read(200), [], "qt"),
        ]
        T.append(("vendor-" + name, lambda name=name: make_nxp(name), vops))
    T.append(("Type2Tag", lambda: make_t2(64), [("read_invalid_page", nop, lambda t: t.read(200), [], "qt")]))
    # FeliCa Lite / Lite-S after authenticate(): NDEF reads go through read_with_mac (MAC block appended to every read)
    def auth_ndef(tag):
        authenticated(tag)
        need_ndef(tag)
    for name, kind in (("FelicaLite", "lite"), ("FelicaLiteS", "lites")):
        lops = [
            ("authenticate", nop, lambda t: t.authenticate(LITE_KEY), ["False"], "qt"),
            ("auth+ndef_read", authenticated, lambda t: t.ndef, ["None"], "qt"),
            ("auth+ndef_write", auth_ndef, set_octets(NDEF2), [], "qt"),
            ("auth+ndef_write_long", auth_ndef, set_octets(NDEF3), [], "t"),
            ("auth+read_with_mac", authenticated, lambda t: t.read_with_mac(1, 2), ["None"], "qt"),
            ("auth+is_present", authenticated, lambda t: t.is_present, ["False"], "qt"),
            ("auth+dump", authenticated, lambda t: t.dump(), ["any"], "t"),
            ("auth+format", authenticated, lambda t: t.format(), ["False"], "qt"),
            ("auth+protect", authenticated, lambda t: t.protect(), ["False"], "qt"),
            ("ndef_read", nop, lambda t: t.ndef, ["None"], "qt"),
            ("ndef_write", need_ndef, set_octets(NDEF2), [], "qt"),
        ]
        if kind == "lites":
            lops.insert(5, ("auth+write_with_mac", authenticated,
                            lambda t: t.write_with_mac(b"0123456789abcdef", 5), [], "qt"))
        T.append(("vendor-" + name, lambda kind=kind: make_lite(kind), lops))
    # activation: nfc.tag.activate(clf, target) on every tag type / vendor variant of the harness; every exchange of the
    # activation (RATS, ATTRIB, the AUTHENTICATE / GET_VERSION probes of tt2_nxp) is a fault position of budget 1
    NTAG213 = b"\x00\x04\x04\x02\x01\x00\x0F\x03"
    NXP = b"\x04\x51\x7C\xA1\xE1\xED\x25"
    act = [("activate", nop, ACTIVATE, ["any"], "qt")]
    for name, fac in [
            ("Topaz", lambda **k: make_t1(b"\x11\x48", **k)), ("Type1Tag", lambda **k: make_t1(b"\x11\x00", **k)),
            ("Topaz512", lambda **k: make_t1(b"\x12\x4C", **k)),
            ("Type2Tag", lambda **k: make_t2(64, **k)),
            ("NTAG213", lambda **k: make_t2(180, uid=NXP, version=NTAG213, **k)),
            ("MifareUltralight", lambda **k: make_t2(64, uid=NXP, **k)),
            ("MifareUltralightC", lambda **k: make_t2(192, uid=NXP, auth=True, **k)),
            ("NTAG203", lambda **k: make_t2(168, uid=NXP, version=b"\x00", **k)),
            ("Type3Tag", lambda **k: make_t3(**k)),
            ("FelicaLite", lambda **k: make_t3(pmm=b"\x00\xF0\x00\x00\x02\x06\x03\x00", **k)),
            ("FelicaLiteS", lambda **k: make_t3(pmm=b"\x00\xF1\x00\x00\x02\x06\x03\x00", **k)),
            ("Type4ATag", lambda **k: make_t4(10, 2, 20, **k)),
            ("Type4ATag-ats-b", lambda **k: make_t4(11, 0, 20, ats="b", **k)),
            ("Type4ATag-ats-none", lambda **k: make_t4(4, 2, 20, ats="none", **k)),
            ("Type4BTag", lambda **k: make_t4(9, 3, 20, typ="B", **k))]:
        T.append(("activation-" + name, fac, act, (1, 2, 3, 4)))
    T.append(("Type4ATag-wtx", lambda: make_t4(10, 0, 10, wtx=True),
              [o if o[0] != "ndef_read_chained" else o[:4] + ("t",) for o in t4_chain
               if o[0] in ("update_binary_chained", "read_binary_chained", "ndef_read_chained")],
              (1, 2, 3, 4)))
    T.append(("Type4ATag-wtx-fwi11", lambda: make_t4(11, 1, 10, wtx=True),
              [o for o in t4_chain if o[0] in ("read_binary_chained",)], (1, 2)))
    return T


def raise_site(exc):
    """innermost nfc.tag function on the traceback (where the exception left nfcpy's tag code)"""
    tb, site = exc.__traceback__, "-"
    while tb is not None:
        fn = tb.tb_frame.f_code.co_filename.replace(os.sep, "/")
        if "/nfc/tag/" in fn:
            site = "%s.%s" % (os.path.basename(fn)[:-3], tb.tb_frame.f_code.co_name)
        tb = tb.tb_next
    return site


def run_one(factory, setup, op, script):
    if op is ACTIVATE:
        proto, nretry, sim, clf, target = factory(activated=False)
        tag = (clf, target)
        clf.activation = True
    else:
        proto, nretry, sim, clf, tag = factory()
        if tag is None:
            raise RuntimeError("activation failed")
        clf.tagobj = tag
    with det_random():
        if op is not ACTIVATE:
            setup(tag)
        clf.arm(script)
        run_op(clf, tag, op)
    return proto, nretry, clf, sim, tag


class _DetOs(object):
    """`os` as seen by nfc.tag.tt2_nxp while an operation runs: urandom() is reproducible (Ultralight C RndA), so that the
    command bytes of a faulted run can be compared with those of the fault-free run"""
    def __init__(self, real):
        self._real, self._n = real, 0

    def __getattr__(self, name):
        return getattr(self._real, name)

    def urandom(self, n):
        self._n += 1
        return hashlib.sha256(b"c16-rnda-%d" % self._n).digest()[:n]


@contextlib.contextmanager
def det_random():
    """reproducible os.urandom() for nfc.tag.tt2_nxp (Ultralight C RndA) and nfc.tag.tt3_sony (FeliCa Lite RC)"""
    import nfc.tag.tt2_nxp as nxp
    import nfc.tag.tt3_sony as sony
    saved = [(m, m.os) for m in (nxp, sony)]
    if any(isinstance(o, _DetOs) for _, o in saved):
        yield                                   # already active (nested use)
        return
    det = _DetOs(saved[0][1])
    for m, _ in saved:
        m.os = det
    try:
        yield
    finally:
        for m, o in saved:
            m.os = o


def run_op(clf, tag, op):
    with det_random():
        _run_op(clf, tag, op)


def _run_op(clf, tag, op):
    kind, errno, val, site = "ok", 0, "-", "-"
    try:
        with contextlib.redirect_stdout(io.StringIO()):      # tt3.py _format() prints its search interval
            val = norm(op(tag))
    except nfc.tag.TagCommandError as e:
        kind, errno, site = "tagerr", int(e.errno), raise_site(e)
    except nfc.clf.CommunicationError as e:
        kind, val, site = "raw", type(e).__name__, raise_site(e)
    except Exception as e:
        kind, val, site = "other", type(e).__name__, raise_site(e)
    clf.ev.append(dict(e="Ret", kind=kind, errno=errno, val=val, site=site, tp=clf.tp()))


def followups(tag):
    """further operations on a tag object whose tag has gone: (name, operation, documented failure values)"""
    f = [("is_present", lambda t: t.is_present, ["False"]),
         ("ndef", lambda t: t.ndef, ["None"]),
         ("dump", lambda t: t.dump(), ["any"]),
         ("format", lambda t: t.format(), ["False", "None"]),
         ("protect", lambda t: t.protect(), ["False", "None"])]
    if isinstance(tag, nfc.tag.tt2.Type2Tag):
        f += [("read", lambda t: t.read(4), []), ("write", lambda t: t.write(5, b"abcd"), [])]
    if hasattr(tag, "_authenticate"):
        pw = b"0123456789abcdef"
        f += [("authenticate", lambda t: t.authenticate(pw), ["False"]),
              ("protect_password", lambda t: t.protect(pw), ["False"])]
    if hasattr(type(tag), "signature"):
        f += [("signature", lambda t: t.signature, ["any"])]
    return f


def never_raises(cname, oname):
    """attribute access (tag.ndef, ndef.has_changed, tag.is_present) on every tag type, and the Type 4 operations that
    report failure by value (dump, format): a persistent failure is the documented None / False, never an exception"""
    o = oname.split("+")[-1]
    if o.startswith("ndef_read") or o in ("is_present", "has_changed", "ndef"):
        return True
    return "Type4" in cname and o in ("dump", "format_wipe", "format")


def scripts_for(n, bursts):
    return [dict(p=p, k=k, b=b, m=m) for p in range(1, n + 1) for k in KINDS for b in bursts for m in MODES]


def _gen_entry(args):
    tier, i = args
    return gen_traces(tier, entries=[i])


def gen_traces_parallel(tier, procs=8):
    """the (tag class) entries of the table are independent: record them in forked workers, results in table order"""
    import multiprocessing
    n = len(ops_table())
    with multiprocessing.get_context("fork").Pool(procs) as pool:
        parts = pool.map(_gen_entry, [(tier, i) for i in range(n)], chunksize=1)
    traces, meta = [], {}
    for t, m in parts:
        traces += t
        meta.update(m)
    return traces, meta


def gen_traces(tier, only=None, entries=None):
    quick = tier == "quick"
    # budget 3 (T1, T2, T3): bursts 1 and 2 must be absorbed (the 2nd / 3rd attempt is answered -> clean result), 3 exhausts it
    dflt_bursts = (1, 2, 3) if quick else (1, 2, 3, 4)
    traces, meta = [], {}
    for ei, entry in enumerate(ops_table()):
        if entries is not None and ei not in entries:
            continue
        cname, factory, ops = entry[:3]
        bursts = entry[3] if len(entry) > 3 else dflt_bursts
        for (oname, setup, op, doc, tiers) in ops:
            if ("q" if quick else "t") not in tiers:
                continue
            if only and (cname, oname) != tuple(only):
                continue
            proto, nretry, clf, sim, tag = run_one(factory, setup, op, None)
            clean = list(clf.clean)
            ret = clf.ev[-1]
            const = dict(proto=proto, nRetry=nretry, clean=clean,
                         cleanRet=dict(kind=ret["kind"], errno=ret["errno"], val=ret["val"]), doc=doc, gone=False,
                         noraise=never_raises(cname, oname))
            base = "%s/%s" % (cname, oname)
            traces.append(dict(id=base + "/clean", const=const, ev=clf.ev))
            meta[base + "/clean"] = dict(cls=cname, op=oname, script=None)
            scs = scripts_for(clf.npos, bursts)
            for sc in scs:
                p2, n2, clf2, sim2, tag2 = run_one(factory, setup, op, sc)
                tid = "%s/p%d-%s-b%d-%s" % (base, sc["p"], sc["k"], sc["b"], sc["m"])
                traces.append(dict(id=tid, const=const, ev=clf2.ev))
                meta[tid] = dict(cls=cname, op=oname, script=sc)
            # the tag leaves the field right before the k-th sense() of the operation; afterwards every further
            # operation on the SAME tag object must end with its documented failure value / TIMEOUT_ERROR
            for k in range(1, clf.nsense + 1):
                p2, n2, clf2, sim2, tag2 = run_one(factory, setup, op, dict(gone=k))
                tid = "%s/gone-at-sense%d" % (base, k)
                traces.append(dict(id=tid, const=const, ev=clf2.ev))
                meta[tid] = dict(cls=cname, op=oname, script=dict(gone=k))
                if op is ACTIVATE or not isinstance(tag2, nfc.tag.Tag):
                    continue
                for (fname, fop, fdoc) in followups(tag2):
                    clf2.rearm()
                    run_op(clf2, tag2, fop)
                    fid = "%s/then-%s" % (tid, fname)
                    fconst = dict(proto=proto, nRetry=nretry, clean=[], cleanRet=dict(kind="ok", errno=0, val="-"),
                                  doc=fdoc, gone=True, noraise=never_raises(cname, fname))
                    traces.append(dict(id=fid, const=fconst, ev=clf2.ev))
                    meta[fid] = dict(cls=cname, op=oname + "+" + fname, script=dict(gone=k, then=fname))
            # bursts of mixed kinds, long enough to exhaust every budget of the class: the reason code must be the one of the
            # final attempt
            mixed = [dict(p=p, k1=k1, k=k) for p in range(1, clf.npos + 1) for k1 in KINDS for k in KINDS if k != k1]
            for mx in mixed:
                sc = dict(mx, b=max(bursts), m="before")
                p2, n2, clf2, sim2, tag2 = run_one(factory, setup, op, sc)
                tid = "%s/p%d-%s-then-%s" % (base, mx["p"], mx["k1"], mx["k"])
                traces.append(dict(id=tid, const=const, ev=clf2.ev))
                meta[tid] = dict(cls=cname, op=oname, script=sc)
            for k in range(1, clf.nmac + 1):
                p2, n2, clf2, sim2, tag2 = run_one(factory, setup, op, dict(mac=k))
                tid = "%s/bad-mac-at-read%d" % (base, k)
                traces.append(dict(id=tid, const=const, ev=clf2.ev))
                meta[tid] = dict(cls=cname, op=oname, script=dict(mac=k))
            traces.append(dict(id=base + "/cover", const=const,
                               ev=[dict(e="Cover", N=clf.npos, bursts=list(bursts), scripts=scs, S=clf.nsense,
                                        gone=list(range(1, clf.nsense + 1)), M=clf.nmac, mixed=mixed,
                                        mac=list(range(1, clf.nmac + 1)))]))
            meta[base + "/cover"] = dict(cls=cname, op=oname, script="cover")
    return traces, meta


def classify(tr, v, m):
    """canonical key: tag class, broken rule, how the operation ended, where -- not the script"""
    line, act, why = v[1], v[2], v[3]
    ev = tr["ev"][line - 1]
    sc = m["script"]
    cls = m["cls"].split("-")[1] if m["cls"].startswith("vendor-") else m["cls"].split("-")[0]
    if why[0] != "inv":
        return "%s/%s:guard@%s" % (cls, m["op"], act), ev
    names, viol, ctx = why[1], why[2], why[3]
    v_ = sorted(viol[1]) if isinstance(viol, tuple) else sorted(viol)
    ret = tr["ev"][-1]
    rule = "+".join(v_) or ",".join(names)
    if "stale-target" in v_:
        # the tag object kept its target although the last sense() failed (or lost it although it succeeded)
        return "%s:stale-target-after-sense@%s" % (cls, m["op"].split("+")[0]), ev
    if act != "Ret":
        return "%s/%s:%s@%s(cc=%s)" % (cls, m["op"], rule, act, ctx.get("cc")), ev
    if ret["kind"] in ("raw", "other"):
        return "%s:%s:%s@%s" % (cls, rule, ret["val"], ret["site"]), ev
    kind = sc.get("k", "bad-mac" if "mac" in sc else "tag-gone") if isinstance(sc, dict) else "-"
    if ret["kind"] == "tagerr" and tr["const"].get("noraise") and "wrong-result-after-giving-up" in v_:
        return "%s:%s-raises-TagCommandError@%s" % (cls, m["op"].split("+")[-1], ret["site"]), ev
    if ret["kind"] == "tagerr":
        return "%s:%s:errno=%d-after-%s@%s" % (cls, rule, ret["errno"], kind, ret["site"]), ev
    val = ret["val"] if ret["val"] in ("None", "True", "False") else "value"
    return "%s:%s:returned-%s@%s" % (cls, rule, val, m["op"]), ev


def selftest_traces(traces):
    src = next(t for t in traces if t["id"].endswith("b3-before") and t["const"]["proto"] == "T1"
               and any(e["e"] == "Ret" and e["kind"] == "tagerr" for e in t["ev"]))
    t1 = json.loads(json.dumps(src))
    t1["ev"][-1]["errno"] -= 1                     # wrong errno
    t1["id"] = "selftest-corrupt"
    t2 = json.loads(json.dumps(src))
    i = next(i for i, e in enumerate(t2["ev"]) if e["e"] == "Fault")
    del t2["ev"][i + 1]                            # the retry Send dropped
    t2["id"] = "selftest-dropped"
    cov = next(t for t in traces if t["id"].endswith("/cover") and t["ev"][0]["N"] >= 1)
    t3 = json.loads(json.dumps(cov))
    t3["ev"][0]["scripts"].pop()
    t3["id"] = "selftest-cover-incomplete"
    return [t1, t2, t3]


WITNESSES = ["W_GiveUp", "W_Doc", "W_AbsorbAfter", "W_Rack", "W_Passive", "W_WtxFault", "W_Gone", "W_BadMac"]
BUGGY = ["Bounded", "NoResendAfterAnswer", "Retries", "OnlyTagError", "AtMostOncePerAnswer", "TargetFollowsSense"]


def run(tier, seed):
    ck = check.Check(PID, tier, seed, "model_checking")
    quick = tier == "quick"
    import concurrent.futures as cf
    pool = cf.ThreadPoolExecutor(max_workers=3)
    f_mc = pool.submit(tlc.run, "MC_TagCmd.tla", "MC_TagCmd.cfg", PID + "/mc", 8, 600)
    f_w = pool.submit(tlc.witnesses, "MC_TagCmd.tla", "MC_TagCmd_reach.cfg", PID, WITNESSES, 300, 1)
    f_b = pool.submit(tlc.witnesses, "MC_TagCmd.tla", "MC_TagCmd_buggy.cfg", PID + "/buggy", BUGGY, 300, 1)
    traces, meta = gen_traces_parallel(tier)
    r = f_mc.result()
    if not r.ok:
        ck.violation("spec:TagCmd:" + ",".join(r.violated or ["deadlock"]),
                     "TLC found a violation in the design-level model: %s" % json.dumps(
                         [h for h, _ in (r.error_trace or [])])[:1500])
    ck.cover(states=r.distinct, transitions=r.generated, mc_depth=r.depth)
    hit, _ = f_w.result()
    if set(WITNESSES) - hit:
        raise tlc.TLCError("vacuous model: witnesses not reached: %s" % sorted(set(WITNESSES) - hit))
    hitb, _ = f_b.result()
    if set(BUGGY) - hitb:
        raise tlc.TLCError("vacuous invariants: a rule-breaking client does not violate %s" % sorted(set(BUGGY) - hitb))
    pool.shutdown()
    ck.cover(witnesses_reached=sorted(hit), invariants_violated_by_buggy_client=sorted(hitb))

    self_t = selftest_traces(traces)
    verdicts, st = tlc.validate_traces("Trace_TagCmd.tla", "Trace_TagCmd.cfg", PID, traces + self_t, shards=16,
                                       timeout=900 if quick else 3000)
    for t in self_t:
        if verdicts[t["id"]][0] == "ACCEPT":
            raise tlc.TLCError("binding vacuous: corrupted trace %s accepted" % t["id"])
    acc, nev, ops, covers = 0, 0, set(), 0
    for tr in traces:
        v = verdicts[tr["id"]]
        m = meta[tr["id"]]
        nev += len(tr["ev"])
        ops.add((m["cls"], m["op"]))
        if v[0] == "ACCEPT":
            acc += 1
            covers += m["script"] == "cover"
            continue
        if m["script"] == "cover":
            raise tlc.TLCError("script set of %s/%s differs from Scripts(N, bursts)" % (m["cls"], m["op"]))
        key, ev = classify(tr, v, m)
        ck.violation(key, "%s rejected at event %d (%s): %s ; event=%s ; ret=%s" % (
            tr["id"], v[1], v[2], json.dumps(v[3])[:400], json.dumps(ev), json.dumps(tr["ev"][-1])),
            replay=dict(kind="script", cls=m["cls"], op=m["op"], script=m["script"]))
    ck.cover(traces_validated_against_impl=acc, trace_events=nev, trace_states=st["states"],
             operations=len(ops), cover_sets_equal_to_spec=covers,
             binding_selftest="wrong errno, dropped retry and incomplete script set all rejected")
    ck.sample(dict(trace=traces[1]["id"], const=dict(traces[1]["const"], clean=traces[1]["const"]["clean"][:4]),
                   events=traces[1]["ev"][:8]))
    ck.sample(dict(mc="TagCmd", distinct=r.distinct, depth=r.depth))
    ck.sample(dict(operations=sorted("%s/%s" % o for o in ops)[:60]))
    ck.assume("nfc.clf.BrokenLinkError is not among the property's fault kinds: never injected, never judged",
              "one fault burst per run (position x kind x burst x before/after execution); bursts {1,3} quick, {1,2,3,4} thorough",
              "simulated tags sim/c16_tags.py (static Type 1, 64 byte / 2 sector Type 2, NFC Forum Type 3, Type 4A NDEF applet on "
              "sim/picc.py); vendor specific classes beyond Topaz are not simulated",
              "a time-out on SECTOR SELECT packet 2 is the passive acknowledge and is not distinguishable from a lost command")
    return ck.finish()


def replay(rep, args):
    r = rep["replay"]
    for entry in ops_table():
        cname, factory, ops = entry[:3]
        for (oname, setup, op, doc, tiers) in ops:
            if (cname, oname) != (r["cls"], r["op"].split("+")[0]):
                continue
            proto, nretry, clf, sim, tag = run_one(factory, setup, op, None)
            ret = clf.ev[-1]
            const = dict(proto=proto, nRetry=nretry, clean=list(clf.clean),
                         cleanRet=dict(kind=ret["kind"], errno=ret["errno"], val=ret["val"]), doc=doc, gone=False,
                         noraise=never_raises(cname, oname))
            sc = dict(r["script"])
            then = sc.pop("then", None)
            p2, n2, clf2, sim2, tag2 = run_one(factory, setup, op, sc)
            if then:
                fname, fop, fdoc = next(f for f in followups(tag2) if f[0] == then)
                clf2.rearm()
                run_op(clf2, tag2, fop)
                const = dict(proto=proto, nRetry=nretry, clean=[], cleanRet=dict(kind="ok", errno=0, val="-"),
                             doc=fdoc, gone=True, noraise=never_raises(cname, then))
            tr = dict(id="replay", const=const, ev=clf2.ev)
            verdicts, st = tlc.validate_traces("Trace_TagCmd.tla", "Trace_TagCmd.cfg", PID + "/replay", [tr], shards=1)
            v = verdicts["replay"]
            print("script:", r["script"], "clean commands:", len(const["clean"]))
            for e in clf2.ev[-8:]:
                print("  ", json.dumps(e))
            print("replay verdict:", v)
            if v[0] != "ACCEPT":
                print("VIOLATION property=%s replay=%s" % (PID, args.replay))
                return 1
            return 0
    raise RuntimeError("unknown operation %s/%s" % (r["cls"], r["op"]))
