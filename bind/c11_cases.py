"""C11 case generation and execution on nfcpy's codec (helper of bind/c11.py).

A *case* is one experiment on src/nfc/llcp/pdu.py, recorded as a uniform JSON record that
Trace_LlcpPdu.tla judges (see the header of that module for the fields).  Everything here is
deterministic in (seed, job): jobs are the unit of distribution over the 16 worker processes / TLC shards.
"""
import sys, json, random, contextlib

import nfc.llcp.pdu as P

ERRF = {"t": "ERR"}
NSHARD = 16
_DEFAULT_LIMIT = 1000          # CPython's default recursion limit: the one nfcpy runs under in the field


@contextlib.contextmanager
def deep():
    """the harness's own recursion (field extraction / JSON of deeply nested aggregates) gets a deep stack;
    nfcpy itself is always called under the default limit (see nf())."""
    old = sys.getrecursionlimit()
    sys.setrecursionlimit(50000)
    try:
        yield
    finally:
        sys.setrecursionlimit(old)


def nf(fn, *a):
    """call into nfcpy under the interpreter's default recursion limit -> (outcome, value)"""
    old = sys.getrecursionlimit()
    sys.setrecursionlimit(_DEFAULT_LIMIT)
    try:
        return "ok", fn(*a)
    except P.DecodeError:
        return "DecodeError", None
    except P.EncodeError:
        return "EncodeError", None
    except (KeyboardInterrupt, SystemExit):
        raise
    except BaseException as e:           # IndexError, struct.error, ValueError, RecursionError, ...
        t = type(e)
        return "Other:" + (t.__name__ if t.__module__ == "builtins" else t.__module__ + "." + t.__name__), None
    finally:
        sys.setrecursionlimit(old)


# ------------------------------------------------------------------------------------------------
# nfcpy object -> field record (the projection; mirrors the Pdu records of LlcpPdu.tla)

def _i(v):
    return int(v) if isinstance(v, int) and not isinstance(v, bool) and -2**31 < v < 2**31 else -999


def _opt(v):
    return {"p": False, "v": []} if v is None else {"p": True, "v": [_i(x) for x in bytearray(v)]}


def _m1(v):
    return -1 if v is None else _i(v)


def fields(p):
    d, s = _i(p.dsap), _i(p.ssap)
    if isinstance(p, P.Symmetry):
        return {"t": "SYMM", "dsap": d, "ssap": s}
    if isinstance(p, P.ParameterExchange):
        return {"t": "PAX", "dsap": d, "ssap": s, "ver": _m1(p._version), "miux": _m1(p._miux),
                "wks": _m1(p._wks), "lto": _m1(p._lto), "opt": _m1(p._opt)}
    if isinstance(p, P.AggregatedFrame):
        return {"t": "AGF", "dsap": d, "ssap": s, "agg": [fields(m) for m in p]}
    if isinstance(p, P.UnnumberedInformation):
        return {"t": "UI", "dsap": d, "ssap": s, "data": list(bytearray(p.data))}
    if isinstance(p, P.Connect):
        return {"t": "CONNECT", "dsap": d, "ssap": s, "miu": _i(p.miu), "rw": _i(p.rw), "sn": _opt(p.sn)}
    if isinstance(p, P.Disconnect):
        return {"t": "DISC", "dsap": d, "ssap": s}
    if isinstance(p, P.ConnectionComplete):
        return {"t": "CC", "dsap": d, "ssap": s, "miu": _i(p.miu), "rw": _i(p.rw)}
    if isinstance(p, P.DisconnectedMode):
        return {"t": "DM", "dsap": d, "ssap": s, "reason": _i(p.reason)}
    if isinstance(p, P.FrameReject):
        return {"t": "FRMR", "dsap": d, "ssap": s, "flags": _i(p.rej_flags), "ptype": _i(p.rej_ptype),
                "ns": _i(p.ns), "nr": _i(p.nr), "vs": _i(p.vs), "vr": _i(p.vr), "vsa": _i(p.vsa), "vra": _i(p.vra)}
    if isinstance(p, P.ServiceNameLookup):
        return {"t": "SNL", "dsap": d, "ssap": s,
                "sdreq": [{"tid": _i(t), "sn": list(bytearray(n))} for (t, n) in p.sdreq],
                "sdres": [{"tid": _i(t), "sap": _i(a)} for (t, a) in p.sdres]}
    if isinstance(p, P.DataProtectionSetup):
        return {"t": "DPS", "dsap": d, "ssap": s, "ecpk": _opt(p.ecpk), "rn": _opt(p.rn)}
    if isinstance(p, P.Information):
        return {"t": "I", "dsap": d, "ssap": s, "ns": _i(p.ns), "nr": _i(p.nr), "data": list(bytearray(p.data))}
    if isinstance(p, P.ReceiveReady):
        return {"t": "RR", "dsap": d, "ssap": s, "nr": _i(p.nr)}
    if isinstance(p, P.ReceiveNotReady):
        return {"t": "RNR", "dsap": d, "ssap": s, "nr": _i(p.nr)}
    if isinstance(p, P.UnknownProtocolDataUnit):
        return {"t": "UNK", "ptype": _i(p.ptype), "dsap": d, "ssap": s, "data": list(bytearray(p.payload))}
    raise TypeError("not a PDU: %r" % (p,))


def build(f):
    """field record -> nfcpy object through the public constructors"""
    t, d, s = f["t"], f.get("dsap"), f.get("ssap")
    ob = lambda o: bytes(o["v"]) if o["p"] else None
    m1 = lambda v: None if v < 0 else v
    if t == "SYMM":
        return P.Symmetry(d, s)
    if t == "PAX":
        return P.ParameterExchange(d, s, m1(f["ver"]), m1(f["miux"]), m1(f["wks"]), m1(f["lto"]), m1(f["opt"]))
    if t == "AGF":
        return P.AggregatedFrame(d, s, [build(m) for m in f["agg"]])
    if t == "UI":
        return P.UnnumberedInformation(d, s, bytes(f["data"]))
    if t == "CONNECT":
        return P.Connect(d, s, f["miu"], f["rw"], ob(f["sn"]))
    if t == "DISC":
        return P.Disconnect(d, s)
    if t == "CC":
        return P.ConnectionComplete(d, s, f["miu"], f["rw"])
    if t == "DM":
        return P.DisconnectedMode(d, s, f["reason"])
    if t == "FRMR":
        return P.FrameReject(d, s, f["flags"], f["ptype"], f["ns"], f["nr"], f["vs"], f["vr"], f["vsa"], f["vra"])
    if t == "SNL":
        return P.ServiceNameLookup(d, s, [(q["tid"], bytes(q["sn"])) for q in f["sdreq"]],
                                   [(r["tid"], r["sap"]) for r in f["sdres"]])
    if t == "DPS":
        return P.DataProtectionSetup(d, s, ob(f["ecpk"]), ob(f["rn"]))
    if t == "I":
        return P.Information(d, s, f["ns"], f["nr"], bytes(f["data"]))
    if t == "RR":
        return P.ReceiveReady(d, s, f["nr"])
    if t == "RNR":
        return P.ReceiveNotReady(d, s, f["nr"])
    if t == "UNK":
        return P.UnknownProtocolDataUnit(f["ptype"], d, s, bytes(f["data"]))
    raise ValueError(t)


# ------------------------------------------------------------------------------------------------
# executing a case on nfcpy

DEEP = {"t": "DEEP"}
MAXNEST = 100      # TLC's Json module (Gson) refuses JSON nested deeper than 255 = AGF nesting of ~126


def _nest1(f):
    with deep():
        return 1 + max([_nest1(m) for m in f["agg"] if m.get("t") == "AGF"] or [0])


def _post(obj, rec):
    """encode / len / decode-of-the-encoding of the PDU object -> re, enc, len, ro, f2
    (aggregates nested deeper than MAXNEST: f = f2 = DEEP and the re-encoding enc2 is recorded instead)"""
    with deep():
        isdeep = rec["f"].get("t") == "AGF" and _nest1(rec["f"]) > MAXNEST
    if isdeep:
        rec["f"] = DEEP
    re_, enc = nf(P.encode, obj)
    ln = -1
    if re_ == "ok":
        o2, ln = nf(len, obj)
        if o2 != "ok":
            re_, ln = "Other:len:" + o2.split(":")[-1], -1
    rec.update(re=re_, enc=list(bytearray(enc)) if re_ == "ok" else [], len=_i(ln) if re_ == "ok" else -1)
    if re_ == "ok":
        ro, p2 = nf(P.decode, bytes(enc))
        if isdeep:
            o3, e3 = nf(P.encode, p2) if ro == "ok" else ("-", b"")
            rec.update(ro=ro, f2=DEEP if ro == "ok" else ERRF, enc2=list(bytearray(e3)) if o3 == "ok" else [-1])
        else:
            with deep():
                rec.update(ro=ro, f2=fields(p2) if ro == "ok" else ERRF)
    else:
        rec.update(ro="-", f2=ERRF)
        if isdeep:
            rec["enc2"] = [-1]
    return rec


def run_bytes(cid, b, as_bytearray=False):
    data = bytearray(b) if as_bytearray else bytes(b)
    out, p = nf(P.decode, data)
    rec = {"id": cid, "k": "bytes", "b": list(bytearray(b)), "out": out}
    if out != "ok":
        rec.update(f=ERRF, re="-", enc=[], len=-1, ro="-", f2=ERRF)
        return rec
    with deep():
        rec["f"] = fields(p)
    return _post(p, rec)


def run_pdu(cid, f):
    with deep():
        obj = build(f)
    rec = {"id": cid, "k": "pdu", "b": [], "out": "ok", "f": f}
    return _post(obj, rec)


def run_input(cid, inp):
    """inp = {"bytes": [...], "ba": bool} | {"pdu": fields}"""
    if "pdu" in inp:
        return run_pdu(cid, inp["pdu"])
    return run_bytes(cid, inp["bytes"], inp.get("ba", False))


# ------------------------------------------------------------------------------------------------
# generators

def rbytes(r, n):
    return list(r.randbytes(n)) if n else []


def rname(r, maxlen):
    n = r.choice([0, 1, 2, 3, 8, 16, 30, 31, 32, 64, 127, 128, 200, 253, 254, 255, r.randint(0, 255)])
    n = min(n, maxlen)
    base = b"urn:nfc:sn:" + bytes(r.choice(b"abcdefghijklmnopqrstuvwxyz.-0123456789") for _ in range(255))
    return list(base[:n]) if r.random() < 0.7 else rbytes(r, n)


def rsap(r):
    return r.choice([0, 1, 2, 4, 15, 16, 31, 32, 62, 63, r.randint(0, 63)])


def rpay(r, miu):
    n = r.choice([0, 1, 2, 3, 127, 128, 129, 255, 256, miu - 1, miu, r.randint(0, miu)])
    return rbytes(r, max(0, min(n, miu)))


def rmiux(r):
    return r.choice([0, 0, 1, 2, 127, 128, 255, 256, 871, 1023, 1024, 2046, 2047, r.randint(0, 2047)])


def ropt(r, gen):
    c = r.random()
    return {"p": False, "v": []} if c < 0.3 else ({"p": True, "v": []} if c < 0.4 else {"p": True, "v": gen()})


SIMPLE_TYPES = ["SYMM", "PAX", "UI", "CONNECT", "DISC", "CC", "DM", "FRMR", "SNL", "DPS", "I", "RR", "RNR", "UNK"]


def gen_pdu(r, t=None, room=2200, depth=0):
    """a valid PDU value of type t (random if None) whose encoding fits in `room` octets"""
    if t is None:
        t = r.choice(SIMPLE_TYPES + (["AGF"] if depth < 3 else []))
    d, s = rsap(r), rsap(r)
    miu = max(0, min(2175, room - 3))
    m1 = lambda v: -1 if r.random() < 0.35 else v
    if t == "SYMM":
        return {"t": t, "dsap": 0, "ssap": 0}
    if t == "PAX":
        return {"t": t, "dsap": 0, "ssap": 0, "ver": m1(r.choice([0, 0x10, 0x11, 0x12, 0x13, 0xFF, r.randint(0, 255)])),
                "miux": m1(rmiux(r)), "wks": m1(r.choice([0, 1, 3, 0x13, 0x8000, 0xFFFF, r.randint(0, 65535)])),
                "lto": m1(r.choice([0, 1, 10, 100, 254, 255, r.randint(0, 255)])), "opt": m1(r.randint(0, 7))}
    if t == "AGF":
        agg, left = [], room - 2
        for _ in range(r.choice([0, 1, 1, 2, 2, 3, 5, 9, 40])):
            if left < 8:
                break
            mt = r.choice(SIMPLE_TYPES + (["AGF"] if depth < 2 and r.random() < 0.5 else []))
            m = gen_pdu(r, mt, min(left - 2, r.choice([8, 24, 64, 300, left - 2])), depth + 1)
            n = plen(m)
            if n + 2 > left:
                continue
            agg.append(m)
            left -= n + 2
        return {"t": t, "dsap": 0, "ssap": 0, "agg": agg}
    if t == "UI":
        return {"t": t, "dsap": d, "ssap": s, "data": rpay(r, miu)}
    if t in ("CONNECT", "CC"):
        f = {"t": t, "dsap": d, "ssap": s, "miu": 128 + rmiux(r), "rw": r.choice([0, 1, 1, 2, 7, 8, 15, r.randint(0, 15)])}
        if t == "CONNECT":
            f["sn"] = ropt(r, lambda: rname(r, max(0, min(255, room - 11))))
        return f
    if t == "DISC":
        return {"t": t, "dsap": d, "ssap": s}
    if t == "DM":
        return {"t": t, "dsap": d, "ssap": s, "reason": r.choice([0, 1, 2, 3, 0x10, 0x11, 0x20, 0x21, 255, r.randint(0, 255)])}
    if t == "FRMR":
        q = lambda: r.choice([0, 1, 8, 15, r.randint(0, 15)])
        return {"t": t, "dsap": d, "ssap": s, "flags": q(), "ptype": q(), "ns": q(), "nr": q(), "vs": q(), "vr": q(),
                "vsa": q(), "vra": q()}
    if t == "SNL":
        left = room - 2
        rq, rs = [], []
        for _ in range(r.choice([0, 1, 1, 2, 3, 8])):
            if r.random() < 0.55:
                n = rname(r, max(0, min(254, left - 3)))
                if left < 3 + len(n):
                    break
                rq.append({"tid": r.choice([0, 1, 255, r.randint(0, 255)]), "sn": n})
                left -= 3 + len(n)
            else:
                if left < 4:
                    break
                rs.append({"tid": r.choice([0, 1, 255, r.randint(0, 255)]), "sap": r.choice([0, 1, 16, 63, 64, 0x81, 255])})
                left -= 4
        return {"t": t, "dsap": 1, "ssap": 1, "sdreq": rq, "sdres": rs}
    if t == "DPS":
        key = lambda n: (lambda: rbytes(r, min(r.choice([n, n, 1, 2, 255, r.randint(1, 255)]), max(1, (room - 6) // 2))))
        return {"t": t, "dsap": 0, "ssap": 0, "ecpk": ropt(r, key(64)), "rn": ropt(r, key(8))}
    if t == "I":
        return {"t": t, "dsap": d, "ssap": s, "ns": r.choice([0, 1, 15, r.randint(0, 15)]),
                "nr": r.choice([0, 1, 15, r.randint(0, 15)]), "data": rpay(r, miu)}
    if t in ("RR", "RNR"):
        return {"t": t, "dsap": d, "ssap": s, "nr": r.choice([0, 1, 15, r.randint(0, 15)])}
    if t == "UNK":
        return {"t": t, "ptype": r.choice([11, 15]), "dsap": d, "ssap": s, "data": rpay(r, miu)}
    raise ValueError(t)


def plen(f):
    """encoded length of a field record (generator bookkeeping only; an upper bound is enough)"""
    t = f["t"]
    ol = lambda o: 2 + len(o["v"]) if o["p"] else 0
    if t in ("SYMM", "DISC"):
        return 2
    if t == "PAX":
        return 2 + 17
    if t == "AGF":
        return 2 + sum(2 + plen(m) for m in f["agg"])
    if t in ("UI", "UNK"):
        return 2 + len(f["data"])
    if t == "CONNECT":
        return 9 + ol(f["sn"])
    if t == "CC":
        return 9
    if t == "DM":
        return 3
    if t == "FRMR":
        return 6
    if t == "SNL":
        return 2 + sum(3 + len(q["sn"]) for q in f["sdreq"]) + 4 * len(f["sdres"])
    if t == "DPS":
        return 2 + ol(f["ecpk"]) + ol(f["rn"])
    if t == "I":
        return 3 + len(f["data"])
    return 3


# --- an own, deliberately dumb encoder for *building inputs* (never used as an oracle) -----------
def hdr(d, pt, s):
    return [(d << 2 | pt >> 2) & 255, ((pt & 3) << 6 | s) & 255]


def tlv(t, v):
    return [t, len(v) & 255] + list(v)


def u16(n):
    return [(n >> 8) & 255, n & 255]


def agf(members, lens=None):
    out = hdr(0, 2, 0)
    for i, m in enumerate(members):
        out += u16(len(m) if lens is None or lens[i] is None else lens[i]) + list(m)
    return out


TLV_PT = [1, 4, 6, 9, 10]


def tlv_soup(r, n_max):
    """a TLV list, mostly well formed, with the odd ill-formed element"""
    out = []
    for _ in range(r.choice([0, 1, 1, 2, 3, 5, 12])):
        T = r.choice([0, 1, 2, 3, 4, 5, 6, 7, 8, 9, 10, 11, 12, 0x7F, 0xFF])
        good = {1: 1, 2: 2, 3: 2, 4: 1, 5: 1, 7: 1, 9: 2}.get(T)
        c = r.random()
        if good is not None and c < 0.8:
            L = good
        elif c < 0.9:
            L = r.choice([0, 1, 2, 3])
        else:
            L = r.choice([0, 1, 5, 30, 64, 254, 255])
        v = rbytes(r, L)
        if r.random() < 0.5 and v:
            v[0] = r.choice([0, 1, 0x0F, 0x10, 0xF8, 0xFF])
        out += [T, L] + v
        if len(out) > n_max:
            break
    return out[:n_max]


def rand_frame(r, n_max=60):
    """a frame that is plausibly well formed: header of any type + matching body"""
    pt = r.randrange(16)
    if pt in (0, 1, 2, 10):
        d = s = 0 if r.random() < 0.9 else rsap(r)
    elif pt == 9:
        d = s = 1 if r.random() < 0.9 else rsap(r)
    else:
        d, s = rsap(r), rsap(r)
    h = hdr(d, pt, s)
    if pt in TLV_PT:
        return h + tlv_soup(r, n_max)
    if pt == 2:
        ms = [rand_frame(r, 20) for _ in range(r.choice([0, 1, 2, 3]))]
        return agf(ms)
    if pt == 7:
        return h + rbytes(r, r.choice([1, 1, 1, 0, 2]))
    if pt == 8:
        return h + rbytes(r, r.choice([4, 4, 4, 3, 5, 0]))
    if pt in (12, 13, 14):
        return h + rbytes(r, r.choice([1, 1, 0, 2, 9]))
    return h + rbytes(r, r.choice([0, 0, 1, 2, 17]))


def find_tlvs(b, start, end):
    """positions of TLV headers of a well-formed list"""
    pos, i = [], start
    while i + 1 < end:
        pos.append(i)
        i += 2 + b[i + 1]
    return pos


def mutations(r, f, enc):
    """grammar-aware mutations of a valid encoding `enc` (list of ints) of field record f -> [(tag, bytes)]"""
    out = []
    n = len(enc)
    pt = ((enc[0] & 3) << 2) | (enc[1] >> 6)
    out.append(("trunc", enc[:r.randint(0, n - 1)]))
    out.append(("ext", enc + rbytes(r, r.choice([1, 1, 2, 3, 4, 7]))))
    if n > 2:
        e = list(enc)
        i = r.randrange(2, n)
        e[i] = (e[i] + r.choice([1, 255, 128, 0x10])) & 255
        out.append(("flip", e))
    e = list(enc)
    e[r.randrange(0, 2)] ^= 1 << r.randrange(8)
    out.append(("hdrbit", e))
    if pt in TLV_PT and n > 2:
        tp = find_tlvs(enc, 2, n)
        if tp:
            i = r.choice(tp)
            for delta, tag in ((1, "tlvlen+1"), (-1, "tlvlen-1")):
                e = list(enc)
                e[i + 1] = (e[i + 1] + delta) & 255
                out.append((tag, e))
            e = list(enc)
            e[tp[-1] + 1] = min(255, n - tp[-1] - 2 + r.choice([1, 2, 50]))     # length field past the end
            out.append(("tlvlen>end", e))
            j = tp[-1]
            if enc[j + 1] > 0:
                out.append(("tlvval-trunc", enc[:n - r.randint(1, enc[j + 1])]))  # truncated value
            e = list(enc)
            e[i] = r.choice([0, 12, 0x55, 255])                                   # unknown TLV type
            out.append(("tlvtype", e))
            e = list(enc) + [r.choice([1, 2, 5, 6, 8])]                            # lone trailing octet
            out.append(("tlv-trail1", e))
    # ---- aggregation: the member is `enc`; what follows could be swallowed by a too-long TLV in it
    follow = r.choice([[0, 2, 0, 0], [0, 2, 0x01, 0x40], agf([hdr(1, 13, 2) + [5]])[2:], rbytes(r, r.randint(1, 12))])
    if True:
        out.append(("agf-wrap", agf([enc]) + r.choice([[], follow])))
        out.append(("agf-len-1", agf([enc], [n - 1]) + r.choice([[], follow])))
        out.append(("agf-len+1", agf([enc], [n + 1]) + r.choice([[], follow, [0]])))
        out.append(("agf-len>end", agf([enc], [n + r.choice([2, 100, 60000])])))
        out.append(("agf-trail1", agf([enc]) + [r.choice([0, 2, 255])]))
    if pt in TLV_PT:
        tp = find_tlvs(enc, 2, n)
        # a TLV at the end of the member whose length reaches into the octets that follow the member
        for k in (1, 2, 4, len(follow)):
            T = r.choice([6, 8, 10, 11, 0, 0x33] if pt != 1 else [0, 6, 0x33])
            body = enc + [T, r.choice([0, 1, 2]) + k]
            vis = body[-1] - k
            member = body + rbytes(r, vis)
            out.append(("agf-tlv-swallow", agf([member]) + follow))
            out.append(("agf-tlv-swallow-nested", agf([agf([member]) + follow])))
        if tp:
            e = list(enc)
            e[tp[-1] + 1] = min(255, e[tp[-1] + 1] + r.choice([1, 2, 4]))
            out.append(("agf-tlvlen+", agf([e]) + follow))
        # fixed-length TLV cut by the member boundary, the missing octet supplied by the next member
        T, L = r.choice([(2, 2), (5, 1), (3, 2), (9, 2), (1, 1), (7, 1), (4, 1)])
        out.append(("agf-tlv-cut", agf([enc + [T, L] + rbytes(r, L - 1)]) + follow))
        out.append(("agf-tlv-cut-top", enc + [T, L] + rbytes(r, L - 1)))
    # nested aggregate whose inner member length reaches past the inner aggregate, into the outer one
    inner = agf([enc], [n + r.choice([1, 2, 4])])
    out.append(("agf-nested-member-past-inner", agf([inner]) + follow))
    inner = agf([enc]) + [0]                     # inner AGF with one spare octet: its length field straddles
    out.append(("agf-nested-lenfield-straddle", agf([inner]) + [2] + hdr(0, 0, 0) + r.choice([[], follow])))
    out.append(("agf-nested-ok", agf([agf([enc]), enc])))
    # inner AGF with one spare octet t=1: its last length field straddles the slice end and is completed by the
    # high octet of the next member's length field (1): 257 octets starting at that field's low octet (44 =
    # DSAP 11, PTYPE 00xx) and running into the next member (a UI PDU from DSAP >= 48, so xx = 11 -> UI)
    nxt = hdr(r.choice([48, 55, 63]), 3, rsap(r)) + rbytes(r, 298)
    out.append(("agf-lenfield-straddle", agf([agf([enc] if n < 600 else []) + [1], nxt])))
    return out


NEST_QUICK = [1, 2, 3, 7, 30, 100, 250, 400, 470, 490, 500, 520, 549]
NEST_THOROUGH = sorted(set(NEST_QUICK + list(range(10, 549, 35)) + list(range(440, 549, 6))))
THIRD = [0, 1, 2, 3, 4, 5, 6, 7, 8, 9, 10, 11, 12, 0x0F, 0x10, 0x11, 0x1F, 0x20, 0x3F, 0x40, 0x41, 0x7F, 0x80, 0x81,
         0xBF, 0xC0, 0xEF, 0xF0, 0xF8, 0xFC, 0xFE, 0xFF]


def nested(depth, leaf):
    b = list(leaf)
    for _ in range(depth):
        b = agf([b])
    return b


def jobs(tier, seed):
    """the deterministic job list: (family, arg)"""
    q = tier == "quick"
    js = [("le2", -1)] + [("le2", b0) for b0 in range(256)]
    js += [("hdr3", b0) for b0 in range(256)]
    js += [("pdu", i) for i in range(24 if q else 400)]
    js += [("mut", i) for i in range(16 if q else 320)]
    js += [("rand", i) for i in range(8 if q else 160)]
    js += [("big", i) for i in range(4 if q else 64)]
    js += [("nest", d) for d in (NEST_QUICK if q else NEST_THOROUGH)]      # one job per depth: spread over the shards
    return js


def job_inputs(tier, seed, fam, arg):
    """yield (tag, input) for one job"""
    q = tier == "quick"
    r = random.Random("%d:%s:%d" % (seed, fam, arg))
    if fam == "le2":
        if arg < 0:
            yield "len0", {"bytes": []}
            for a in range(256):
                yield "len1", {"bytes": [a]}
        else:
            for b1 in range(256):
                yield "len2", {"bytes": [arg, b1], "ba": (b1 & 7) == 7}
    elif fam == "hdr3":
        for b1 in range(256):
            if q:
                if ((arg * 256 + b1) * 7 + seed) % 4:
                    continue                      # quick: a quarter of the headers, one third octet each
                yield "len3", {"bytes": [arg, b1, THIRD[(arg * 31 + b1 + seed) % len(THIRD)]]}
            else:
                for c in THIRD:
                    yield "len3", {"bytes": [arg, b1, c]}
    elif fam == "pdu":
        for i in range(250):
            t = (SIMPLE_TYPES + ["AGF"])[i % 15] if i < 150 else None
            room = r.choice([2200, 2200, 300, 60])
            yield "pdu", {"pdu": gen_pdu(r, t, room)}
    elif fam == "mut":
        for i in range(40 if q else 60):
            f = gen_pdu(r, (SIMPLE_TYPES + ["AGF"])[i % 15], r.choice([40, 40, 120, 600]))
            with deep():
                o, e = nf(P.encode, build(f))
            if o != "ok" or len(e) < 2:
                continue
            for tag, b in mutations(r, f, list(bytearray(e))):
                if len(b) <= 2200:
                    yield "mut:" + tag, {"bytes": b, "ba": r.random() < 0.1}
        # RW = 0 on the wire, in and outside an aggregate
        for pt in (4, 6):
            b = hdr(rsap(r), pt, rsap(r)) + [5, 1, r.choice([0, 0x10, 0xF0])]
            yield "mut:rw0", {"bytes": b}
            yield "mut:rw0-agf", {"bytes": agf([hdr(0, 0, 0), b])}
    elif fam == "rand":
        for i in range(300):
            c = i % 6
            if c == 0:
                b = rbytes(r, r.choice([3, 4, 5, 6, 7, 8, 12, 30]))
            elif c == 1:
                b = hdr(rsap(r) if r.random() < .5 else 0, r.randrange(16), rsap(r) if r.random() < .5 else 0) + \
                    rbytes(r, r.choice([1, 2, 3, 4, 5, 9]))
            elif c == 2:
                b = hdr(0, 2, 0) + [0, r.choice([0, 1, 2, 3, 4, 5, 6, 10])] + rbytes(r, r.choice([0, 2, 3, 4, 5, 6, 12]))
            else:
                b = rand_frame(r)
            yield "rand", {"bytes": b[:2200], "ba": i % 16 == 5}
    elif fam == "big":
        for i in range(12 if q else 24):
            c = i % 4
            n = r.choice([129, 256, 600, 1024, 2047, 2178, 2199, 2200])
            if c == 0:
                b = rbytes(r, n)
            elif c == 1:
                b = hdr(rsap(r), r.choice(TLV_PT + [3, 12, 11]), rsap(r)) + rbytes(r, n - 2)
            elif c == 2:      # a long, well formed TLV list
                pt = r.choice(TLV_PT)
                b = hdr(1 if pt == 9 else 0, pt, 1 if pt == 9 else 0)
                while len(b) < n - 260:
                    b += tlv_soup(r, 260)
            else:             # many aggregated PDUs
                ms = []
                while sum(len(m) + 2 for m in ms) < n - 70:
                    ms.append(rand_frame(r, 40))
                b = agf(ms)
            yield "big", {"bytes": b[:2200]}
    elif fam == "nest":
        leafs = [hdr(0, 0, 0), hdr(32, 4, 1) + [5, 1, 7]]
        for leaf in leafs[:1 if arg > 30 else 2]:
            b = nested(arg, leaf)
            if len(b) <= 2200:
                yield "nest:%s" % ("deep" if arg >= 100 else "shallow"), {"bytes": b}
    else:
        raise ValueError(fam)


def worker(args):
    """one shard: run its jobs on nfcpy, write the ndjson trace file, return light-weight stats"""
    tier, seed, shard, path, srcdir = args
    n = 0
    tags = {}
    outs = {}
    with open(path, "w") as fh:
        for j, (fam, arg) in enumerate(jobs(tier, seed)):
            if j % NSHARD != shard:
                continue
            for k, (tag, inp) in enumerate(job_inputs(tier, seed, fam, arg)):
                cid = "%s%d.%d" % (fam[0] if fam != "hdr3" else "h", arg if arg >= 0 else 999, k)
                rec = run_input(cid, inp)
                rec["tag"] = tag
                with deep():
                    fh.write(json.dumps(rec, separators=(",", ":")) + "\n")
                n += 1
                tags[tag] = tags.get(tag, 0) + 1
                key = rec["k"] + ":" + rec["out"] + ":" + rec["f"]["t"]
                outs[key] = outs.get(key, 0) + 1
    return dict(shard=shard, n=n, tags=tags, outs=outs)
