"""C13, frontend stage -- ContactlessFrontend reports "device gone" only as the documented IOError(ENODEV).

    from bind import c13_frontend
    c13_frontend.stage(ck, tier, seed)        # ck: the check.Check of C13; adds violations / coverage, returns nothing

src/nfc/clf/__init__.py is an anchored file of C13: every public API call (sense, listen, exchange,
max_send/recv_data_size, connect, close, open, __exit__) made while / after another thread closes the frontend
- with a clean driver close() and with one that fails with IOError - must
  * raise IOError with errno ENODEV, or one of the documented nfc.clf errors (CommunicationError subclasses,
    UnsupportedTargetError), or return normally when it completed its driver work before the close;
  * never raise anything else (AttributeError on self.device = None, TypeError, ValueError, RuntimeError ...);
  * raise (not return) once a close() has completed and nobody re-opened: sense/listen/exchange/max_* -> ENODEV.
The executions come from the C15 machinery (bind/c15.py api_outcomes): the real frontend over sim.clfdev under the
deterministic baton scheduler, all single-preemption cuts of (API program, closer) in both orders.  The judgement
here is a table lookup on recorded outcomes; the locking discipline itself is model-checked under C15.
Keys: frontend:<api>:<concurrent-close|after-close|no-close>-><ExcType or "returned">.
"""
import errno
import time

from bind import c15

MUST_RAISE_AFTER_CLOSE = ("sense", "listen", "exchange", "max_send_data_size", "max_recv_data_size")


def judge(o):
    """-> None if the outcome is documented, else (key, what)"""
    ctx = "after-close" if o["closed_at_begin"] else ("concurrent-close" if o["concurrent_close"] else "no-close")
    if o["outcome"] == "ret":
        if o["closed_at_begin"] and not o["concurrent_close"] and o["api"] in MUST_RAISE_AFTER_CLOSE:
            return ("frontend:%s:after-close->returned" % o["api"],
                    "%s() returned normally although close() had completed before it was called (IOError(ENODEV) "
                    "is documented)" % o["api"])
        return None
    if o["exc_type"] == "IOError":
        if o["errno"] == errno.ENODEV and (o["closed_at_begin"] or o["concurrent_close"]):
            return None
        return ("frontend:%s:%s->IOError(%s)" % (o["api"], ctx, errno.errorcode.get(o["errno"], o["errno"])),
                "%s() raised IOError errno=%s: %s" % (o["api"], o["errno"], o["msg"]))
    if o.get("documented"):
        return None
    return ("frontend:%s:%s->%s" % (o["api"], ctx, o["exc_type"]),
            "%s() raised %s (%s) instead of IOError(ENODEV) / a documented nfc.clf error" % (
                o["api"], o["exc_type"], o["msg"]))


def stage(ck, tier="quick", seed=1):
    t0 = time.time()
    outs = c15.api_outcomes(tier, seed)
    found = {}
    n_enodev = 0
    for o in outs:
        if o["outcome"] == "exc" and o["exc_type"] == "IOError" and o["errno"] == errno.ENODEV:
            n_enodev += 1
        v = judge(o)
        if v is not None and v[0] not in found:
            found[v[0]] = (v[1], o)
    for key, (what, o) in sorted(found.items()):
        ck.violation(key, "%s ; thread %s in schedule %s" % (what, o["thread"], o["schedule"]),
                     replay=dict(kind="frontend-schedule", progs=o["progs"], plan=o["plan"]))
    if not outs or n_enodev == 0:
        raise RuntimeError("frontend stage vacuous: %d API calls, %d ENODEV outcomes" % (len(outs), n_enodev))
    ck.cover(frontend_api_calls=len(outs), frontend_enodev_outcomes=n_enodev,
             frontend_schedules=len({o["schedule"] for o in outs}), frontend_stage_wall=round(time.time() - t0, 1))
    return found


def replay(rep):
    """re-run one stored schedule and print the outcomes; returns 1 if an undocumented outcome shows again"""
    from bind import c15_extract
    from vlib import SRC
    r = rep["replay"]
    ex = c15_extract.extract(SRC)
    tr, run = c15.run_schedule(ex, r["progs"], r["plan"])
    rc = 0
    for o in run.outcomes:
        v = judge(o)
        print(("BAD  " if v else "ok   ") + str({k: o[k] for k in ("api", "thread", "outcome", "exc_type", "errno",
                                                                 "closed_at_begin", "concurrent_close")}))
        if v:
            print("     " + v[0])
            rc = 1
    return rc


if __name__ == "__main__":
    from vlib import use_repo, check
    use_repo()
    ck = check.Check("C13F", "quick", 1, "model_checking")
    f = stage(ck)
    print(sorted(f), ck.cov)
