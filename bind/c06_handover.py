"""Handover part of C06: complete-stack HandoverServer / HandoverClient runs + Handover.tla."""
import random, threading, time, traceback, json
import ndef
import nfc, nfc.clf, nfc.dep, nfc.llcp, nfc.llcp.llc, nfc.handover
from sim import air as AIR
from vlib import tlc
from bind.c06 import Log, crc, wrap_socket, wrap_link

PID = "C06"


def hmsg(kind, L, salt):
    """canonical handover request/select message of exactly L octets (or the nearest reachable >= minimum)"""
    rnd = random.Random(salt * 104729 + L)
    rec = ndef.HandoverRequestRecord("1.3", rnd.getrandbits(16)) if kind == "Hr" else ndef.HandoverSelectRecord("1.3")
    rec.add_alternative_carrier("active", "c1")
    base = len(b"".join(ndef.message_encoder([rec, ndef.Record("application/x-pad", "c1", b"")])))
    for plen in range(max(0, L - base - 8), max(0, L - base) + 9):
        pad = ndef.Record("application/x-pad", "c1", bytes(rnd.getrandbits(8) for _ in range(plen)))
        o = b"".join(ndef.message_encoder([rec, pad]))
        if len(o) >= L:
            return o
    return o


def hmsg_aligned(kind, L, salt, frag):
    """handover message of about L octets with three records whose second record ends exactly on a fragment boundary
    (k * frag octets): reassembly must go on although the octets received so far end with a complete record"""
    rnd = random.Random(salt * 7919 + L)
    rec = ndef.HandoverRequestRecord("1.3", rnd.getrandbits(16)) if kind == "Hr" else ndef.HandoverSelectRecord("1.3")
    rec.add_alternative_carrier("active", "c1")
    tail = ndef.Record("application/x-pad", "c2", bytes(rnd.getrandbits(8) for _ in range(max(1, min(40, L // 8)))))
    tail_len = len(b"".join(ndef.message_encoder([tail])))
    k = max(1, (L - tail_len) // frag)
    for p1 in range(0, k * frag + 1):
        mid = ndef.Record("application/x-pad", "c1", bytes((i * 7 + salt) & 0xFF for i in range(p1)))
        o = b"".join(ndef.message_encoder([rec, mid, tail]))
        if len(o) - tail_len == k * frag:
            return o
        if len(o) - tail_len > k * frag:
            break
    return hmsg(kind, L, salt)


def model_check(ck, quick):
    r = tlc.run("Handover.tla", "MC_Handover.cfg", PID, workers=8, timeout=600)
    if not r.ok:
        ck.violation("spec:Handover:" + ",".join(r.violated or ["?"]), "TLC: %s" % str(r.error_trace)[:1500])
    ck.cover(states=r.distinct, transitions=r.generated)
    hit, _ = tlc.witnesses("Handover.tla", "MC_Handover.cfg", PID, ["W_Frag", "W_Two"])
    if len(hit) != 2:
        raise tlc.TLCError("vacuous Handover model: %s" % sorted(hit))


def gen_cfgs(tier, seed):
    rnd = random.Random(seed + 17)
    n = 30 if tier == "quick" else 600
    out = []
    for i in range(n):
        lm_s = rnd.choice([128, 131, 248, 1024, 2175])
        lm_c = rnd.choice([128, 129, 248, 700, 2175])
        srv_miu = rnd.choice([128, 300, 1984])
        cli_miu = rnd.choice([128, 248, 500])
        cm, sm = min(srv_miu, lm_s), min(cli_miu, lm_c)
        reqs = []
        for _ in range(rnd.choice([1, 1, 2, 3])):
            L = rnd.choice([1, 1, 2, 3]) * cm + rnd.randint(-7, 7)
            G = rnd.choice([1, 1, 2]) * sm + rnd.randint(-7, 7)
            reqs.append((max(40, rnd.choice([L, L, 60])), max(40, rnd.choice([G, G, 50]))))
        out.append(dict(id="ho%d_%d" % (seed, i), proto="handover", seed=seed * 1009 + i,
                        client_role=rnd.choice(["initiator", "target"]),
                        link_srv=dict(miu=lm_s, lto=rnd.choice([100, 500]), agf=rnd.random() < 0.6),
                        link_cli=dict(miu=lm_c, lto=rnd.choice([100, 500]), agf=rnd.random() < 0.6),
                        srv_miu=srv_miu, srv_rw=rnd.choice([1, 2, 15]), cli_miu=cli_miu, cli_rw=rnd.choice([1, 2, 7]),
                        reqs=reqs, aligned=(cm, sm) if i % 3 == 2 else None))
    return out


def run_handover(cfg):
    air = AIR.Air(stall_timeout=90.0)
    clf_i, clf_t = air.frontends()
    air.clock.install(nfc.dep, nfc.clf, nfc.llcp.llc)
    log = Log()
    done = threading.Event()
    errors, state = [], {}
    answers = {}
    try:
        if cfg.get("aligned"):      # a record boundary on a fragment boundary, in both directions
            cm, sm = cfg["aligned"]
            msgs = [(hmsg_aligned("Hr", L, cfg["seed"] + i, cm), hmsg_aligned("Hs", G, cfg["seed"] + 31 * i + 7, sm))
                    for i, (L, G) in enumerate(cfg["reqs"])]
        else:
            msgs = [(hmsg("Hr", L, cfg["seed"] + i), hmsg("Hs", G, cfg["seed"] + 31 * i + 7)) for i, (L, G) in enumerate(cfg["reqs"])]
        for rq, rs in msgs:
            answers[crc(rq)] = rs

        class Server(nfc.handover.HandoverServer):
            def serve(self, socket):
                wrap_socket(socket, log, "S")
                state["sm"] = socket.getsockopt(nfc.llcp.SO_SNDMIU)
                try:
                    nfc.handover.HandoverServer.serve(self, socket)
                except BaseException as e:
                    errors.append("server thread: %r" % (e,))
                    raise

            def process_handover_request_message(self, records):
                o = b"".join(ndef.message_encoder(records))
                log.add("Deliver", L=len(o), h=crc(o))
                rs = answers.get(crc(o))
                if rs is None:
                    errors.append("server callback saw octets that no client sent (len %d)" % len(o))
                    return [ndef.HandoverSelectRecord("1.3")]
                return list(ndef.message_decoder(rs, "relax"))

        def srv_startup(llc):
            state["server"] = Server(llc, recv_miu=cfg["srv_miu"], recv_buf=cfg["srv_rw"])
            wrap_link(llc, log)
            return llc

        def srv_connect(llc):
            state["server"].start()
            return True

        def client_thread(llc):
            try:
                cl = nfc.handover.HandoverClient(llc)
                cl.connect(recv_miu=cfg["cli_miu"], recv_buf=cfg["cli_rw"])
                for _ in range(2000):
                    if "sm" in state:
                        break
                    time.sleep(0.001)
                log.add("Conn", n=cl.socket.getsockopt(nfc.llcp.SO_SNDMIU), decl=state.pop("sm", 0))
                wrap_socket(cl.socket, log, "C")
                for rq, rs in msgs:
                    log.add("CStart", L=len(rq), len=len(rs), h=crc(rq))
                    if not cl.send_octets(rq):
                        errors.append("send_octets returned False")
                        break
                    got = cl.recv_octets(timeout=20.0)
                    if got is None:
                        log.add("CRet", ok=False, len=0, h=0, code=1)     # no answer within the time limit
                        break
                    log.add("CRet", ok=bytes(got) == rs, len=len(got), h=crc(got))
                cl.close()
            except BaseException as e:
                errors.append("client thread: %r\n%s" % (e, traceback.format_exc()))
            finally:
                done.set()

        def cli_startup(llc):
            wrap_link(llc, log)
            return llc

        def cli_connect(llc):
            threading.Thread(target=client_thread, args=(llc,), daemon=True).start()
            return True

        srv = dict(cfg["link_srv"])
        srv.update({"on-startup": srv_startup, "on-connect": srv_connect})
        cli = dict(cfg["link_cli"])
        cli.update({"on-startup": cli_startup, "on-connect": cli_connect})
        if cfg["client_role"] == "initiator":
            cli["role"], srv["role"] = "initiator", "target"
            fi = lambda: clf_i.connect(llcp=cli, terminate=done.is_set)
            ft = lambda: clf_t.connect(llcp=srv, terminate=lambda: False)
        else:
            cli["role"], srv["role"] = "target", "initiator"
            fi = lambda: clf_i.connect(llcp=srv, terminate=lambda: False)
            ft = lambda: clf_t.connect(llcp=cli, terminate=done.is_set)
        res = air.run(fi, ft, join_timeout=150.0)
        for k, r in enumerate(res):
            if r[0] == "exc":
                errors.append("connect() of port %d raised %r" % (k, r[1]))
        frames = [len(f) for f in air.log]
    finally:
        air.clock.uninstall()
    return dict(id=cfg["id"], const=dict(cm=0, sm=0, maxAcc=0), ev=log.ev, errors=errors, nframes=len(frames),
                maxframe=max(frames or [0]))
