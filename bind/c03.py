"""C03 dispatcher: TLV based tag types (bind/tags12.py) + Type 3 / Type 4 / emulated Type 3 (bind/tags34.py)."""
from vlib import check

PID = "C03"


def run(tier, seed):
    ck = check.Check(PID, tier, seed, "model_checking")
    from bind import tags12
    tags12.run_c03(ck, tier, seed)
    try:
        from bind import tags34
        fn = tags34.run_c03
    except (ImportError, AttributeError):
        fn = None
        ck.note("bind.tags34.run_c03 not available: Type 3 / Type 4 part not run")
    if fn is not None:
        fn(ck, tier, seed)
    from bind import c03_vendor                   # vendor classes: NTAG / Ultralight / FeliCa Lite / Topaz format(), protect()
    c03_vendor.stage(ck, tier, seed)
    return ck.finish()


def replay(rep, args):
    r = rep.get("replay") or {}
    if r.get("kind") in ("vendor-nxp", "vendor-fmt"):
        from bind import c03_vendor
        return c03_vendor.replay(rep, args)
    if r.get("kind") == "tags12":
        from bind import tags12
        return tags12.replay(rep, args)
    from bind import tags34
    fn = getattr(tags34, "replay_tags34", None) or tags34.replay
    return fn(rep, args)
