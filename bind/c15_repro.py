"""Stand-alone reproduction of the C15 finding with plain threading (no scheduler, no TLC):
    cd /verif && /venv/bin/python -m bind.c15_repro
connect(rdwr=..) calls device.turn_on_led_and_buzzer() / turn_off_led_and_buzzer() without holding
ContactlessFrontend.lock, so (1) a second thread's sense() drives the device at the same time and (2) after a
second thread's close() the call hits self.device = None.
"""
import sys, os, threading, time
sys.path.insert(0, os.environ.get("NFCPY_SRC", "/repo/src"))
import nfc.clf  # noqa


class Dev(object):
    """minimal fake driver: a Type 2 tag is always present; records overlapping driver calls"""
    def __init__(self, clf):
        self.clf, self.inside, self.overlaps, self.unlocked = clf, [], [], []
        self.in_led = threading.Event()
        self.go_on = threading.Event()

    def _enter(self, m):
        if not self.clf.lock.locked():
            self.unlocked.append(m)
        if self.inside:
            self.overlaps.append((list(self.inside), m))
        self.inside.append(m)

    def _exit(self, m):
        self.inside.remove(m)

    def mute(self):
        pass

    def close(self):
        pass

    def sense_tta(self, target):
        self._enter("sense_tta")
        self._exit("sense_tta")
        return nfc.clf.RemoteTarget("106A", sens_res=bytearray(b"\x44\x00"), sel_res=bytearray(b"\x00"),
                                    sdd_res=bytearray.fromhex("08112233445566"))

    def send_cmd_recv_rsp(self, target, data, timeout):
        return bytearray(16)

    def turn_on_led_and_buzzer(self):
        self._enter("turn_on_led_and_buzzer")
        self.in_led.set()
        self.go_on.wait(2)          # a real driver talks to the chip here (acr122: CCID escape command)
        self._exit("turn_on_led_and_buzzer")

    def turn_off_led_and_buzzer(self):
        self._enter("turn_off_led_and_buzzer")
        self._exit("turn_off_led_and_buzzer")


def main():
    clf = nfc.clf.ContactlessFrontend()
    dev = clf.device = Dev(clf)
    stop = []
    t1 = threading.Thread(target=lambda: clf.connect(rdwr={"targets": ["106A"], "iterations": 1},
                                                     terminate=lambda: bool(stop)))
    t1.start()
    dev.in_led.wait(2)              # thread 1 is inside the driver (LED/buzzer command), lock not held
    clf.sense(nfc.clf.RemoteTarget("106A"))   # thread 2 drives the device at the same time
    dev.go_on.set()
    stop.append(1)
    t1.join(2)
    print("driver calls made without the frontend lock:", sorted(set(dev.unlocked)))
    print("overlapping driver calls (inside, entered):", dev.overlaps)

    # (2) close() by another thread while connect() is about to switch the LED off
    clf2 = nfc.clf.ContactlessFrontend()
    dev2 = clf2.device = Dev(clf2)
    dev2.go_on.set()
    err = []

    def run():
        try:
            clf2.connect(rdwr={"targets": ["106A"], "iterations": 1, "beep-on-connect": False},
                         terminate=lambda: clf2.device is None)
        except AttributeError as e:
            err.append(e)
    t = threading.Thread(target=run)
    t.start()
    time.sleep(0.3)
    clf2.close()
    t.join(2)
    print("connect() after a concurrent close():", repr(err[0]) if err else "no error")
    return 1 if (dev.unlocked or dev.overlaps or err) else 0


if __name__ == "__main__":
    sys.exit(main())
