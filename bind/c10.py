"""C10 -- nothing sent on an LLCP link exceeds the peer's announced MIU; aggregation is transparent.

Spec: spec/LlcpCollect.tla (exhaustive on scaled constants: MIU 8..14, three scenario families).
Binding: queue states are built on a real LogicalLinkController through the socket API (sendto/send with
MSG_DONTWAIT, resolve()/connect()/close() helper threads, dispatch() of crafted SNL/CONNECT/RR PDUs), every
real collect() is recorded with its pre-state, frame and post-state, the encoded frame is decoded and
dispatched at a real peer; Trace_LlcpCollect.tla recomputes the frame from the pre-state and evaluates
FrameFits / PayloadFits / Transparent / LenIsLen on the real frames (MIU 128..2175).
"""
import json, random, struct
from vlib import tlc, check
from bind.llcp_rig import (nfc, llc_mod, tco_mod, pdu_mod, err_mod, HarnessError, wait_for, Call, make_pair,
                           xfer, settle, crc, errname, DONTWAIT, RAW, LDL, DLC)

PID = "C10"
KEY_SDRES = "ServiceDiscovery.dequeue:SDRES-batch-admitted-with-1..3-bytes-left:information-field>send-miu"
KEY_NEGBUDGET = "collect:aggregation-loop-runs-with-negative-budget:unchecked-PDU-appended:information-field>send-miu"
GENERATED = ("SNL", "RR", "RNR")
MIUS = [128, 129, 130, 131, 132, 133, 135, 140, 160, 200, 248, 255, 256, 257, 1000, 2175]


# ------------------------------------------------------------------------------------------------
# projection of the real objects
def enc_len(p):
    try:
        return len(p.encode())
    except pdu_mod.EncodeError:
        if p.name == "I":          # queued I PDU: N(R) is assigned at dequeue time
            q = pdu_mod.Information(p.dsap, p.ssap, p.ns or 0, 0, p.data)
            return len(q.encode())
        raise


def content(p):
    k = p.name
    if k in ("UI", "I"):
        return bytes(p.data)
    if k == "CONNECT":
        return repr((p.miu, p.rw, p.sn)).encode()
    if k == "CC":
        return repr((p.miu, p.rw)).encode()
    if k == "DM":
        return bytes([p.reason])
    if k == "FRMR":
        return bytes([p.rej_flags, p.rej_ptype, p.ns, p.nr or 0, p.vs, p.vr, p.vsa, p.vra])
    return b""


def pdesc(p, raw=False):
    k = p.name
    d = dict(k=k, h=p.header_size, dl=len(p), el=enc_len(p), n=0, miu=128, rw=1, sn=0, res=0, req=[],
             raw=bool(raw), id=0)
    if k in ("UI", "I"):
        d["n"] = len(p.data)
    elif k in ("CONNECT", "CC"):
        d["miu"] = int(p.miu or 128)
        d["rw"] = int(p.rw if p.rw is not None else 1)
        if k == "CONNECT":
            d["sn"] = len(p.sn) if p.sn else 0
    elif k == "SNL":
        d["res"] = len(p.sdres)
        d["req"] = [len(nm) for (_, nm) in p.sdreq]
    if k not in GENERATED:
        d["id"] = crc(k.encode() + bytes([p.dsap, p.ssap]) + content(p))
    return d


def sock_desc(s):
    kind = "raw" if isinstance(s, tco_mod.RawAccessPoint) else "ldl" if isinstance(s, tco_mod.LogicalDataLink) else "dlc"
    d = dict(kind=kind, q=[pdesc(p, kind == "raw") for p in s.send_queue], est=False, ack="none",
             rbusy=False, bsent=False, lsn=bool(s.state.LISTEN))
    if kind == "dlc":
        est = bool(s.state.ESTABLISHED)
        d["est"] = est
        d["rbusy"] = bool(s.mode.RECV_BUSY)
        d["bsent"] = bool(s.mode.RECV_BUSY_SENT)
        if est and s.recv_confs:
            if s.recv_window_slots == 0:
                d["ack"] = "nec"
            elif s.recv_cnt != s.recv_ack:
                d["ack"] = "vol"
    return d


def snap(L, raw_socks=()):
    saps = []
    for a in range(64):
        x = L.sap[a]
        if x is None:
            continue
        if isinstance(x, llc_mod.ServiceDiscovery):
            saps.append(dict(t="sd", addr=a, socks=[], sl=[]))
        else:
            # PDUs in a SAP's own send_list are DM PDUs made by the controller
            saps.append(dict(t="sap", addr=a, socks=[sock_desc(s) for s in x.sock_list],
                             sl=[pdesc(p) for p in x.send_list]))
    sd = L.sap[1]
    return dict(saps=saps, sd=dict(res=len(sd.sdres), req=[dict(tid=t, len=len(n)) for (t, n) in sd.sdreq],
                                   dm=[pdesc(p) for p in sd.dmpdu]),
                miu=L.cfg["send-miu"], agf=bool(L.cfg["send-agf"]))


# ------------------------------------------------------------------------------------------------
class Rig(object):
    """Sender A (under test) and receiver B."""

    def __init__(self, miu, agf, rnd, miu_a=248):
        self.rnd = rnd
        self.A, self.B = make_pair(miu_a, miu, agf_a=agf, agf_b=True)
        self.ev = []
        self.touched = True
        self.calls = []
        self.ldl_a, self.ldl_b, self.dlc_a, self.dlc_b, self.raw_a = [], [], [], [], []
        self.raw_pdus = set()
        self.waiters = []          # (Call, tco, state name): helper threads that a frame from B may wake up
        self.nframes = 0
        # record what B dispatches (leaf PDUs) -- wraps the bound method, recursion goes through the wrapper
        self.rx = None
        orig = self.B.dispatch

        def rec(p):
            if self.rx is not None and p is not None and p.name not in ("SYMM", "AGF"):
                self.rx.append(dict(p=pdesc(p), wid=crc(p.encode()), rmiu=self.rmiu_at_b(p)))
            return orig(p)
        self.B.dispatch = rec

    def rmiu_at_b(self, p):
        if p.name not in ("UI", "I") or not (0 <= p.dsap < 64):
            return -1
        sap = self.B.sap[p.dsap]
        if not isinstance(sap, llc_mod.ServiceAccessPoint):
            return -1
        for s in sap.sock_list:
            if p.ssap == s.peer or s.peer is None:
                if p.name == "UI" and isinstance(s, tco_mod.LogicalDataLink):
                    return s.recv_miu
                if p.name == "I" and isinstance(s, tco_mod.DataLinkConnection) and s.state.ESTABLISHED:
                    return s.recv_miu
                return -1
        return -1

    # ---- set-up ---------------------------------------------------------------------------
    def add_ldl(self):
        a = nfc.llcp.Socket(self.A, LDL)
        a.bind()
        b = nfc.llcp.Socket(self.B, LDL)
        b.bind()
        b.setsockopt(nfc.llcp.SO_RCVBUF, 1000)
        self.ldl_a.append(a)
        self.ldl_b.append(b)
        self.touched = True

    def add_raw(self):
        r = nfc.llcp.Socket(self.A, RAW)
        r.bind(self.rnd.choice([20 + len(self.raw_a), 24 + len(self.raw_a), 60 - len(self.raw_a)]) if self.rnd.random() < 0.7 else None)
        self.raw_a.append(r)
        self.touched = True

    def add_dlc(self, a_listens, rw_a, rw_b, miu_a, miu_b, name=None):
        """One established data link connection; setup frames go through the recorded collect()."""
        srv_side, cli_side = (self.A, self.B) if a_listens else (self.B, self.A)
        srv = nfc.llcp.Socket(srv_side, DLC)
        srv.setsockopt(nfc.llcp.SO_RCVMIU, miu_a if a_listens else miu_b)
        srv.setsockopt(nfc.llcp.SO_RCVBUF, rw_a if a_listens else rw_b)
        srv.bind(name) if name else srv.bind(40 + len(self.dlc_a))
        srv.listen(2)
        cli = nfc.llcp.Socket(cli_side, DLC)
        cli.setsockopt(nfc.llcp.SO_RCVMIU, miu_b if a_listens else miu_a)
        cli.setsockopt(nfc.llcp.SO_RCVBUF, rw_b if a_listens else rw_a)
        call = Call(cli.connect, name if name else srv.getsockname())
        wait_for(lambda: len(cli._tco.send_queue) > 0 or call.done, "CONNECT queued")
        self.waiters.append((call, cli._tco, "CONNECT"))
        self.touched = True
        self.pump()
        wait_for(lambda: len(srv._tco.recv_queue) > 0, "CONNECT at listener")
        acc = srv.accept()
        self.touched = True
        self.pump()
        call.join()
        if call.error is not None:
            raise HarnessError("connect failed: %r" % (call.error,))
        a, b = (acc, cli) if a_listens else (cli, acc)
        self.dlc_a.append(a)
        self.dlc_b.append(b)
        return a, b

    def add_dlc_rawpeer(self, a_listens, peer_miu, peer_rw):
        """A data link connection whose other end is a raw access point on B that announces `peer_miu` - possibly
        more than the link MIU, which connect()/accept() must clip (llc.py:787-789, 815-817)."""
        rb = nfc.llcp.Socket(self.B, RAW)
        rb.bind(50 + len(self.dlc_a))
        rb._tco.setsockopt(nfc.llcp.SO_RCVBUF, 100)
        ra = rb.getsockname()
        if a_listens:
            lst = nfc.llcp.Socket(self.A, DLC)
            lst.bind(44 + len(self.dlc_a))
            lst.listen(1)
            rb.send(pdu_mod.Connect(lst.getsockname(), ra, miu=peer_miu, rw=peer_rw), DONTWAIT)
            for _ in range(2):
                self.back()
            a = lst.accept()
            self.touched = True
        else:
            a = nfc.llcp.Socket(self.A, DLC)
            call = Call(a.connect, ra)
            wait_for(lambda: len(a._tco.send_queue) > 0 or call.done, "CONNECT queued")
            self.waiters.append((call, a._tco, "CONNECT"))
            self.touched = True
            self.collect()
            rb.send(pdu_mod.ConnectionComplete(a.getsockname(), ra, miu=peer_miu, rw=peer_rw), DONTWAIT)
            for _ in range(2):
                self.back()
            call.join()
            if call.error is not None:
                raise HarnessError("connect to raw peer failed: %r" % (call.error,))
        self.dlc_a.append(a)
        self.dlc_b.append(None)
        return a

    # ---- frames ---------------------------------------------------------------------------
    def collect(self):
        """The real collect() on A, recorded; then the frame is dispatched at B, recorded."""
        A = self.A
        with A.lock:            # a helper thread that collect() wakes up cannot touch the tables before `post` is taken
            pre = snap(A)
            f = A.collect()
            post = snap(A)
        pdus = [] if f is None else list(f) if f.name == "AGF" else [f]
        rawset = self.raw_pdus
        frame = [pdesc(p, id(p) in rawset) for p in pdus]
        enc = pdu_mod.encode(f) if f is not None else b"\x00\x00"
        self.ev.append(dict(a="Collect", pre=pre, post=post, frame=frame, agf=bool(f is not None and f.name == "AGF"),
                            enc=len(enc), wids=[crc(p.encode()) for p in pdus], cont=not self.touched))
        self.touched = False
        self.nframes += 1
        n0 = len(self.waiters)
        self.sync()             # e.g. close() returning because the FRMR just dequeued shut its socket down
        if len(self.waiters) != n0:
            self.touched = True
        self.rx = []
        if f is not None:
            self.B.dispatch(pdu_mod.decode(enc))
            self.sync()
        self.ev.append(dict(a="Dispatch", rcvd=self.rx))
        self.rx = None
        return f

    def back(self):
        """B -> A, not recorded (B is not under test here)."""
        f = self.B.collect()
        if f is not None:
            self.A.dispatch(pdu_mod.decode(pdu_mod.encode(f)))
            self.touched = True
            self.sync()
        return f

    def sync(self):
        """A woken helper thread (connect()/close() on A) has finished before anybody looks at A again."""
        def quiet(call, t, st):
            with t.lock:       # held by the thread except while it waits
                return call.done or (getattr(t.state, st) and len(t.recv_queue) == 0)
        for (call, t, st) in self.waiters:
            wait_for(lambda: quiet(call, t, st), "helper thread")
        self.waiters = [w for w in self.waiters if not w[0].done]

    def pump(self, n=8):
        for _ in range(n):
            a = self.collect()
            b = self.back()
            if a is None and b is None:
                return

    def drain(self, limit=80):
        for _ in range(limit):
            if self.collect() is None:
                return

    # ---- fill operations --------------------------------------------------------------------
    def data(self, n):
        return bytes(self.rnd.getrandbits(8) for _ in range(min(n, 8))) + bytes(max(0, n - 8))

    def ldl_send(self, i, n):
        s = self.ldl_a[i]
        dest = self.ldl_b[self.rnd.randrange(len(self.ldl_b))].getsockname()
        try:
            s.sendto(self.data(n), dest, DONTWAIT)
            res = "OK"
        except err_mod.Error as e:
            res = errname(e)
        self.touched = True
        self.ev.append(dict(a="Send", kind="ldl", n=n, res=res, smiu=s._tco.send_miu, lmiu=self.A.cfg["send-miu"]))

    def ldl_send_view(self, i, items, width):
        """a message handed over as a buffer object whose items are `width` octets wide: refused with TypeError (no
        event: nothing happened) or judged by its size in OCTETS like every other message"""
        import array
        s = self.ldl_a[i]
        dest = self.ldl_b[self.rnd.randrange(len(self.ldl_b))].getsockname()
        arr = array.array({1: "B", 2: "H", 4: "I"}[width], [7] * items)
        msg = memoryview(arr) if self.rnd.random() < 0.7 else arr
        try:
            s.sendto(msg, dest, DONTWAIT)
            res = "OK"
        except TypeError:
            return
        except err_mod.Error as e:
            res = errname(e)
        self.touched = True
        self.ev.append(dict(a="Send", kind="ldl", n=items * width, res=res, smiu=s._tco.send_miu, lmiu=self.A.cfg["send-miu"]))

    def dlc_send(self, i, n):
        s = self.dlc_a[i]
        t = s._tco
        if not t.state.ESTABLISHED or t.send_window_slots == 0:
            return
        try:
            s.send(self.data(n), DONTWAIT)
            res = "OK"
        except err_mod.Error as e:
            res = errname(e)
        self.touched = True
        self.ev.append(dict(a="Send", kind="dlc", n=n, res=res, smiu=t.send_miu, lmiu=self.A.cfg["send-miu"]))

    def raw_send(self, i, p):
        self.raw_pdus.add(id(p))
        self._keep = getattr(self, "_keep", [])
        self._keep.append(p)           # keep ids unique
        self.raw_a[i].send(p, DONTWAIT)
        self.touched = True

    def sdreq_in(self, k):
        """k service name lookups arrive from the peer -> k answers pending."""
        names = [b"urn:nfc:sn:x%d" % self.rnd.randrange(5) for _ in range(k)]
        p = pdu_mod.ServiceNameLookup(1, 1, sdreq=[(j & 255, nm) for j, nm in enumerate(names)])
        self.A.dispatch(pdu_mod.decode(pdu_mod.encode(p)))
        self.touched = True

    def resolve(self, nlen):
        nm = (b"urn:nfc:sn:" + b"r%d-" % len(self.calls) + b"a" * 300)[:min(254, max(13, nlen))]   # SDREQ TLV limit
        sd = self.A.sap[1]
        n0 = len(sd.sdreq)
        self.calls.append(Call(self.A.resolve, nm))
        wait_for(lambda: len(sd.sdreq) > n0, "SDREQ queued")
        self.touched = True

    def dm_sd(self):
        p = pdu_mod.Connect(1, self.rnd.randrange(32, 60), sn=b"urn:nfc:sn:nobody")
        self.A.dispatch(pdu_mod.decode(pdu_mod.encode(p)))
        self.touched = True

    def dm_sap(self, zero):
        if zero or not self.ldl_a:
            p = pdu_mod.ReceiveReady(0, self.rnd.randrange(2, 60), 0)
        else:
            p = pdu_mod.Connect(self.ldl_a[0].getsockname(), self.rnd.randrange(32, 60))
        self.A.dispatch(pdu_mod.decode(pdu_mod.encode(p)))
        self.touched = True

    def ack_state(self, i):
        """B sends on connection i, A receives and reads: an acknowledgement becomes pending at A."""
        a, b = self.dlc_a[i], self.dlc_b[i]
        if b is None:
            return
        if not (a._tco.state.ESTABLISHED and b._tco.state.ESTABLISHED) or b._tco.send_window_slots == 0:
            return
        try:
            b.send(self.data(self.rnd.randrange(0, 20)), DONTWAIT)
        except err_mod.Error:
            return
        for _ in range(3):
            self.back()
        while a._tco.state.ESTABLISHED and len(a._tco.recv_queue) > 0:
            a.recv()
        self.touched = True

    def busy(self, i):
        a = self.dlc_a[i]
        if a._tco.state.ESTABLISHED:
            a.setsockopt(nfc.llcp.SO_RCVBSY, not a._tco.mode.RECV_BUSY)
            self.touched = True

    def close_dlc(self, i):
        a = self.dlc_a[i]._tco
        if a.state.ESTABLISHED and len(a.recv_queue) == 0:
            self.calls.append(Call(self.dlc_a[i].close))
            wait_for(lambda: a.state.DISCONNECT, "DISC queued")
            self.waiters.append((self.calls[-1], a, "DISCONNECT"))
            with a.lock:
                pass
            self.touched = True

    def frmr(self, i):
        a = self.dlc_a[i]._tco
        if a.state.ESTABLISHED:
            bad = pdu_mod.Information(a.addr, a.peer, (a.recv_cnt + 3) % 16, a.send_ack, b"x")
            self.A.dispatch(pdu_mod.decode(pdu_mod.encode(bad)))
            self.touched = True

    def finish(self):
        """Unblock the helper threads (link termination does exactly this)."""
        A = self.A
        for i in range(63, -1, -1):
            if A.sap[i] is not None:
                A.sap[i].shutdown()
        for s in self.dlc_a:
            t = s._tco
            with t.lock:
                t.recv_queue.append(pdu_mod.DisconnectedMode(0, 0, 0))
                t.recv_ready.notify_all()
        for cl in self.calls:
            cl.t.join(5)


# ------------------------------------------------------------------------------------------------
def split(rnd, total, parts):
    """`parts` non-negative integers summing to `total`."""
    cuts = sorted(rnd.randint(0, total) for _ in range(parts - 1))
    return [b - a for a, b in zip([0] + cuts, cuts + [total])]


def scenario(seed, klass, miu=None):
    rnd = random.Random(seed)
    random.seed(seed)                      # ServiceDiscovery.resolve draws transaction ids from `random`
    miu = miu or rnd.choice(MIUS + [rnd.randint(128, 2175)])
    agf = rnd.random() < 0.85
    R = Rig(miu, agf, rnd, miu_a=rnd.choice([128, 248, 1000]))
    try:
        if klass == "sdres":
            # answers batched around the budget, alone or behind a first PDU of n bytes
            first = rnd.random() < 0.5
            n = rnd.choice([0, 1, 2, 3, 5, 6, 7, 9, 17])
            if first:
                R.add_ldl()
                R.ldl_send(0, n)
            budget = miu - (2 + 4 + n) - 3 if (first and agf) else miu
            k = max(1, (budget + 3) // 4 + rnd.randint(-2, 3))
            R.sdreq_in(k)
            if rnd.random() < 0.4:
                R.resolve(rnd.choice([13, 16, 30]))
            if rnd.random() < 0.3:
                R.dm_sd()
            R.drain()
        elif klass == "boundary":
            # UI PDUs from several sockets whose aggregate lands on miu-7 .. miu+7
            ns = rnd.randint(1, 3)
            for _ in range(ns):
                R.add_ldl()
            if rnd.random() < 0.3:
                R.add_raw()
            j = rnd.randint(2, 6)
            target = miu + rnd.randint(-7, 7) - 4 * j          # information field = sum(2 + 2 + n)
            if target < 0 or rnd.random() < 0.2:
                sizes = [rnd.choice([0, 1, miu - 1, miu, miu + 1, miu // 2]) for _ in range(j)]
            else:
                sizes = split(rnd, target, j)
            for n in sizes:
                R.ldl_send(rnd.randrange(ns), n)
            if rnd.random() < 0.5:        # buffer objects with wide items: the item count fits, the octets do not
                w = rnd.choice([1, 2, 4])
                R.ldl_send_view(rnd.randrange(ns), rnd.choice([miu // w, miu // w + 1, miu - 1, miu, 3]), w)
            if R.raw_a and rnd.random() < 0.7:
                R.raw_send(0, pdu_mod.UnnumberedInformation(R.ldl_b[0].getsockname(), 20,
                                                           R.data(rnd.choice([0, 5, miu, miu + 9]))))
            if rnd.random() < 0.4:
                R.sdreq_in(rnd.randint(1, 4))
            if rnd.random() < 0.3:
                R.dm_sap(rnd.random() < 0.5)
            R.drain()
        elif klass == "dlc":
            nconn = rnd.randint(1, 2)
            same_sap = rnd.random() < 0.4
            for i in range(nconn):
                rw_a, rw_b = rnd.choice([1, 2, 5, 15]), rnd.choice([1, 3, 15])
                m_a, m_b = rnd.choice([128, 140, 2175]), rnd.choice([128, 129, 150, 1024, 2175])
                if i == 1 and same_sap and R.dlc_a:
                    # second client of the same listening socket on A: accepted sockets share the SAP
                    lst = R.lst
                    cli = nfc.llcp.Socket(R.B, DLC)
                    cli.setsockopt(nfc.llcp.SO_RCVMIU, m_b)
                    cli.setsockopt(nfc.llcp.SO_RCVBUF, rw_b)
                    call = Call(cli.connect, lst.getsockname())
                    wait_for(lambda: len(cli._tco.send_queue) > 0, "CONNECT queued")
                    R.waiters.append((call, cli._tco, "CONNECT"))
                    for _ in range(3):
                        R.back()
                    acc = lst.accept()
                    R.touched = True
                    R.pump()
                    call.join()
                    R.dlc_a.append(acc)
                    R.dlc_b.append(cli)
                else:
                    a_listens = same_sap or rnd.random() < 0.5
                    if a_listens:
                        lst = nfc.llcp.Socket(R.A, DLC)
                        lst.setsockopt(nfc.llcp.SO_RCVMIU, m_a)
                        lst.setsockopt(nfc.llcp.SO_RCVBUF, rw_a)
                        lst.bind(40 + i)
                        lst.listen(2)
                        R.lst = lst
                        cli = nfc.llcp.Socket(R.B, DLC)
                        cli.setsockopt(nfc.llcp.SO_RCVMIU, m_b)
                        cli.setsockopt(nfc.llcp.SO_RCVBUF, rw_b)
                        call = Call(cli.connect, 40 + i)
                        wait_for(lambda: len(cli._tco.send_queue) > 0, "CONNECT queued")
                        R.waiters.append((call, cli._tco, "CONNECT"))
                        for _ in range(3):
                            R.back()
                        acc = lst.accept()
                        R.touched = True
                        R.pump()
                        call.join()
                        if call.error:
                            raise HarnessError(repr(call.error))
                        R.dlc_a.append(acc)
                        R.dlc_b.append(cli)
                    else:
                        R.add_dlc(False, rw_a, rw_b, m_a, m_b, name=rnd.choice([None, "urn:nfc:sn:svc%d" % i]))
            if rnd.random() < 0.5:
                R.add_dlc_rawpeer(rnd.random() < 0.5, rnd.choice([128, miu - 1, miu, miu + 1, 2175, 2175]),
                                  rnd.choice([1, 2, 15]))
            if rnd.random() < 0.6:
                R.add_ldl()
            for step in range(rnd.randint(6, 16)):
                r = rnd.random()
                i = rnd.randrange(len(R.dlc_a))
                smiu = R.dlc_a[i]._tco.send_miu
                if r < 0.40:
                    R.dlc_send(i, rnd.choice([0, 1, 2, 7, smiu - 1, smiu, smiu + 1, rnd.randint(0, smiu)]))
                elif r < 0.55:
                    R.ack_state(i)
                elif r < 0.62:
                    R.busy(i)
                elif r < 0.72 and R.ldl_a:
                    R.ldl_send(0, rnd.choice([0, 3, 30, miu - 9, miu]))
                elif r < 0.76:
                    R.sdreq_in(rnd.randint(1, 3))
                elif r < 0.79:
                    R.close_dlc(i)
                elif r < 0.81:
                    R.frmr(i)
                else:
                    R.collect()
                    if rnd.random() < 0.5:
                        R.back()
            R.drain()
        elif klass == "ctrl":
            # connection set-up PDUs with every parameter combination (CC with RW 0..15 and MIUX present/absent, DM)
            # next to a datagram that leaves -3..+4 octets of slack in the aggregate
            rw, m = rnd.choice([0, 0, 1, 2, 15]), rnd.choice([128, 129, 2175])
            R.add_ldl()
            rb = nfc.llcp.Socket(R.B, RAW)
            rb.bind(50)
            rb._tco.setsockopt(nfc.llcp.SO_RCVBUF, 100)
            lst = nfc.llcp.Socket(R.A, DLC)
            lst.setsockopt(nfc.llcp.SO_RCVMIU, m)
            lst.setsockopt(nfc.llcp.SO_RCVBUF, rw)
            lst.bind(rnd.choice([33, 44]))
            lst.listen(2)
            R.lst = lst
            nconn = rnd.randint(1, 2)
            for j in range(nconn):
                rb.send(pdu_mod.Connect(lst.getsockname(), 50 + j, miu=rnd.choice([128, 300]), rw=rnd.choice([0, 1, 7])), DONTWAIT)
            for _ in range(3):
                R.back()
            cclen = 2 + (4 if m > 128 else 0) + (3 if rw != 1 else 0)
            n = miu - 4 - nconn * (2 + cclen) + rnd.randint(-3, 4)
            first_ui = rnd.random() < 0.5
            if first_ui and n >= 0:
                R.ldl_send(0, n)
            for j in range(nconn):
                R.dlc_a.append(lst.accept())
                R.dlc_b.append(None)
                R.touched = True
            if not first_ui and n >= 0:
                R.ldl_send(0, n)
            if rnd.random() < 0.3:
                R.dm_sap(rnd.random() < 0.5)
            R.drain()
        else:  # "mix"
            for _ in range(rnd.randint(1, 3)):
                R.add_ldl()
            if rnd.random() < 0.5:
                R.add_raw()
            if rnd.random() < 0.5:
                R.add_dlc(rnd.random() < 0.5, rnd.choice([1, 4, 15]), rnd.choice([2, 15]), 128,
                          rnd.choice([128, 131, 2175]))
            small = rnd.random() < 0.6
            for step in range(rnd.randint(8, 30)):
                r = rnd.random()
                if r < 0.35:
                    n = rnd.choice([0, 1, 2, 3, 4, 5, 8, 13]) if small else rnd.choice(
                        [0, miu // 3, miu // 2, miu - 12, miu - 5, miu - 1, miu, miu + 1, rnd.randint(0, miu)])
                    R.ldl_send(rnd.randrange(len(R.ldl_a)), n)
                elif r < 0.45 and R.dlc_a:
                    smiu = R.dlc_a[0]._tco.send_miu
                    R.dlc_send(0, rnd.choice([0, 1, 5, smiu, smiu + 1]))
                elif r < 0.52 and R.dlc_a:
                    R.ack_state(0)
                elif r < 0.60 and R.raw_a:
                    kind = rnd.random()
                    dst = R.ldl_b[0].getsockname()
                    if kind < 0.5:
                        p = pdu_mod.UnnumberedInformation(dst, 20, R.data(rnd.choice([0, 1, 40, miu, miu + 3, miu + 40])))
                    elif kind < 0.7:
                        p = pdu_mod.Connect(rnd.randrange(2, 60), 20, miu=rnd.choice([128, 500]), rw=rnd.choice([1, 2, 9]),
                                            sn=rnd.choice([None, b"urn:nfc:sn:raw-service"]))
                    elif kind < 0.85:
                        p = pdu_mod.DisconnectedMode(rnd.randrange(2, 60), 20, 0x10)
                    else:
                        p = pdu_mod.Disconnect(rnd.randrange(2, 60), 20)
                    R.raw_send(0, p)
                elif r < 0.70:
                    R.sdreq_in(rnd.choice([1, 2, 3, 7, miu // 4, miu // 4 + 1]))
                elif r < 0.76 and len(R.calls) < 4:
                    R.resolve(rnd.choice([13, 14, 20, 64, miu - 3, miu - 2, 200]))
                elif r < 0.80:
                    R.dm_sd()
                elif r < 0.85:
                    R.dm_sap(rnd.random() < 0.5)
                else:
                    R.collect()
            R.drain(40)
    except HarnessError as e:
        # a call did not come back / the link does not settle: no spec action matches -> the trace is rejected here
        R.ev.append(dict(a="Blocked", what=str(e)))
    finally:
        R.finish()
    return dict(id="%s-%d" % (klass, seed), const=dict(miu=miu, agf=agf), ev=R.ev)


KLASSES = ("sdres", "boundary", "dlc", "mix", "ctrl")


# ------------------------------------------------------------------------------------------------
def selftest_traces(traces):
    """One corrupted field and one dropped event must be rejected."""
    src = None
    for tr in traces:
        if sum(1 for e in tr["ev"] if e["a"] == "Collect" and len(e["frame"]) > 1) >= 1:
            src = tr
            break
    if src is None:
        raise tlc.TLCError("no trace with an aggregated frame for the binding self-test")
    t1 = json.loads(json.dumps(src))
    for e in t1["ev"]:
        if e["a"] == "Collect" and len(e["frame"]) > 1:
            e["frame"][1]["dl"] += 1
            break
    t1["id"] = src["id"] + "-corrupt"
    t2 = json.loads(json.dumps(src))
    for i, e in enumerate(t2["ev"]):
        if e["a"] == "Collect" and len(e["frame"]) > 1:
            del t2["ev"][i]                  # the Dispatch that follows has no frame to compare with
            break
    t2["id"] = src["id"] + "-dropped"
    return [t1, t2]


def classify(tr, line, act, why):
    ev = tr["ev"][line - 1]
    kind = why[0] if why else "?"
    if kind == "inv":
        names = ",".join(why[1])
        if act == "Collect" and names == "FrameFits" and ev["agf"]:
            # budget before the last PDU was appended (llc.py:620/632): negative -> the loop should not have run
            before = 2 + sum(2 + p["dl"] for p in ev["frame"][:-1])
            if ev["pre"]["miu"] - before - 3 < 0:
                return KEY_NEGBUDGET
        if act == "Collect" and names == "FrameFits":
            over = (ev["enc"] - 2 if ev["agf"] else ev["frame"][0]["el"] - 2) - ev["pre"]["miu"]
            if 1 <= over <= 3 and any(p["k"] == "SNL" and p["res"] > 0 for p in ev["frame"]):
                return KEY_SDRES
        return "inv:%s@%s:%s" % (names, act, ",".join(sorted(set(p["k"] for p in ev.get("frame", [])))))
    return "%s@%s:%s" % (kind, act, tr["id"].split("-")[0])


MC_CFGS = ("queues", "sd", "dlc")
WITNESSES = {"sd": ["W_SnlBatch", "W_SnlReq", "W_Full"], "queues": ["W_Agf", "W_Requeue", "W_RawOver", "W_Single"],
             "dlc": ["W_Ack"]}


def run(tier, seed):
    ck = check.Check(PID, tier, seed, "model_checking")
    quick = tier == "quick"
    # 1. exhaustive: the repaired design (SdresMin = 4) satisfies every invariant on all three families
    import concurrent.futures as cf
    suffix = "" if quick else "_thorough"
    with cf.ThreadPoolExecutor(max_workers=3) as ex:
        futs = {k: ex.submit(tlc.run, "MC_LlcpCollect.tla", "MC_LlcpCollect_%s%s.cfg" % (k, suffix), PID + "/" + k,
                             workers=5, timeout=300 if quick else 1500) for k in MC_CFGS}
        res = {k: f.result() for k, f in futs.items()}
    for k, r in res.items():
        if not r.ok:
            ck.violation("spec:LlcpCollect(%s):%s" % (k, ",".join(r.violated or ["deadlock"])),
                         "TLC found a violation in the design-level model: %s" % (r.error_trace or "")[:2000])
        ck.cover(states=r.distinct, transitions=r.generated)
    # the models of the code as shipped (`while miu_size > 0` in ServiceDiscovery.dequeue; `while True` in the
    # aggregation loop): TLC must find the overshoot in each -- these are the predictions the conformance stage
    # has to reproduce on nfcpy before they are reported, and they show that FrameFits is not vacuous
    for k in ("sd_asis", "queues_asis"):
        asis = tlc.run("MC_LlcpCollect.tla", "MC_LlcpCollect_%s.cfg" % k, PID + "/" + k, workers=2, timeout=300)
        if "FrameFits" not in asis.violated:
            raise tlc.TLCError("model of the shipped code (%s) does not violate FrameFits: invariant is vacuous" % k)
        ck.cover(**{"shipped_model_" + k: "FrameFits violated (counterexample of %d states)" % len(asis.error_trace or [])})
    # reachability witnesses
    for k, names in WITNESSES.items():
        hit, _ = tlc.witnesses("MC_LlcpCollect.tla", "MC_LlcpCollect_%s.cfg" % k, PID + "/w" + k, names, workers=2)
        missing = set(names) - hit
        if missing:
            raise tlc.TLCError("vacuous model: witnesses not reached: %s" % sorted(missing))
    ck.cover(witnesses_reached=sorted(sum(WITNESSES.values(), [])))

    # 2. conformance: real collect()/dispatch() -> Trace_LlcpCollect
    n = 400 if quick else 5000
    traces, meta = [], {}
    for i in range(n):
        klass = KLASSES[i % len(KLASSES)]
        s = seed * 1000003 + i
        miu = None
        if klass == "sdres" and i < 64:
            miu = [128, 129, 130, 131, 132, 133, 2175, 257][(i // 4) % 8]      # boundary values always covered
        tr = scenario(s, klass, miu)
        traces.append(tr)
        meta[tr["id"]] = dict(seed=s, klass=klass, miu=miu)
    self_t = selftest_traces(traces)
    verdicts, st = tlc.validate_traces("Trace_LlcpCollect.tla", "Trace_LlcpCollect.cfg", PID, traces + self_t,
                                       shards=16, timeout=900 if quick else 3000)
    for t in self_t:
        if verdicts[t["id"]][0] == "ACCEPT":
            raise tlc.TLCError("binding vacuous: corrupted trace %s accepted" % t["id"])
    acc = nev = ncol = nagf = 0
    mius = set()
    for tr in traces:
        nev += len(tr["ev"])
        ncol += sum(1 for e in tr["ev"] if e["a"] == "Collect")
        nagf += sum(1 for e in tr["ev"] if e["a"] == "Collect" and e["agf"])
        mius.add(tr["const"]["miu"])
    # a step that conforms to the spec action but breaks invariants is recorded by the trace module and the
    # execution goes on; a step that does not conform (guard / result / post-state) ends the trace
    for tr in traces:
        v = verdicts[tr["id"]]
        if v[0] == "ACCEPT":
            acc += 1
            continue
        line, act, why = v[1], v[2], v[3]
        fails = v[4] if len(v) > 4 else []
        items = [(f[0], f[1], ["inv", f[2]]) for f in fails]
        if why and why[0] != "inv":
            items.append((line, act, why))
        for (ln, op, wy) in items:
            ev = tr["ev"][ln - 1]
            key = classify(tr, ln, op, wy)
            brief = dict(a=ev["a"], miu=ev.get("pre", {}).get("miu"), enc=ev.get("enc"), agf=ev.get("agf"),
                         frame=[(p["k"], p["dl"], p["res"]) for p in ev.get("frame", [])][:12])
            ck.violation(key, "trace %s rejected at event %d (%s): %s ; %s" % (
                tr["id"], ln, op, json.dumps(wy)[:500], json.dumps(brief)[:500]),
                replay=dict(kind="trace", **meta[tr["id"]]))
    ck.cover(traces_validated_against_impl=acc, trace_events=nev, collects=ncol, aggregated_frames=nagf,
             distinct_mius=len(mius), trace_states=st["states"],
             binding_selftest="corrupted len(pdu) and dropped Collect both rejected")
    t0 = traces[1]
    ck.sample(dict(trace=t0["id"], const=t0["const"],
                   first_collect=[dict(frame=[(p["k"], p["dl"]) for p in e["frame"]], enc=e["enc"])
                                  for e in t0["ev"] if e["a"] == "Collect"][:3]))
    ck.sample(dict(mc={k: dict(distinct=r.distinct, depth=r.depth) for k, r in res.items()}))
    ck.assume("non-threaded binding: frames are moved by the harness between collect() and dispatch(); llcp-sec is off (no OpenSSL)",
              "exhaustive runs use MIU 8..14 in three scenario families; MIU 128..2175 is covered by trace validation only",
              "the receiver's link MIU equals the sender's send-miu (what activate() establishes)")
    return ck.finish()


def replay(rep, args):
    r = rep["replay"]
    tr = scenario(r["seed"], r["klass"], r.get("miu"))
    verdicts, st = tlc.validate_traces("Trace_LlcpCollect.tla", "Trace_LlcpCollect.cfg", PID + "_replay", [tr], shards=1)
    v = verdicts[tr["id"]]
    print("replay verdict:", v)
    if v[0] != "ACCEPT":
        ev = tr["ev"][v[1] - 1]
        print("event:", json.dumps(dict(a=ev["a"], miu=ev.get("pre", {}).get("miu"), enc=ev.get("enc"),
                                        frame=[(p["k"], p["dl"], p["res"]) for p in ev.get("frame", [])]))[:1500])
        print("VIOLATION property=%s replay=%s" % (PID, args.replay))
        return 1
    return 0
