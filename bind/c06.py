"""C06 -- SNEP and handover carry NDEF messages intact through fragmentation.

Complete stack: two real ContactlessFrontend.connect(llcp={...}) calls (initiator / target) over the
simulated air interface (sim/air.py), a real SnepServer / HandoverServer on one side and the real
SnepClient / HandoverClient on the other.  Socket calls of both applications, the server callbacks,
the client results and every LLCP frame are recorded and validated by TLC against spec/Snep.tla
and spec/Handover.tla (all invariants as step post-conditions).
"""
import os, sys, json, random, struct, threading, zlib, time, traceback
import multiprocessing as mp
from vlib import tlc, check

import ndef
import nfc, nfc.clf, nfc.dep, nfc.llcp, nfc.llcp.llc, nfc.snep, nfc.snep.client, nfc.handover
import nfc.llcp.pdu as pdu_mod
from sim import air as AIR

PID = "C06"


def crc(b):
    return zlib.crc32(bytes(b)) & 0x3FFFFFFF


def make_msg(L, salt):
    """canonical NDEF message octets of L bytes (the nearest reachable length >= L; 0 stays 0)"""
    if L == 0:
        return b""
    rnd = random.Random(salt * 7919 + L)
    best = None
    for extra in range(0, 3):            # optional empty records (3 bytes each) to cross the SR boundary
        for plen in range(max(0, L - 40), L + 8):
            payload = bytes(rnd.getrandbits(8) for _ in range(plen))
            recs = [ndef.Record("application/x-v", "", payload)] + [ndef.Record()] * extra
            octets = b"".join(ndef.message_encoder(recs))
            if len(octets) >= L:
                if best is None or len(octets) < len(best):
                    best = octets
                break
        if best is not None and len(best) == L:
            break
    return best


class Log(object):
    def __init__(self):
        self.ev, self.lock = [], threading.Lock()

    def add(self, a, **kw):
        rec = dict(a=a, n=0, kind="-", L=0, acc=0, h=0, ok=False, len=0, code=0, decl=0)
        rec.update(kw)
        with self.lock:
            self.ev.append(rec)


def hdr_fields(data):
    code = data[1] if len(data) >= 2 else 0
    decl = struct.unpack(">L", bytes(data[2:6]))[0] if len(data) >= 6 else 0
    acc = struct.unpack(">L", bytes(data[6:10]))[0] if len(data) >= 10 else 0
    big = lambda v: min(v, 0x3FFFFFFF)
    return dict(code=code, decl=big(decl), acc=big(acc))


def wrap_socket(sock, log, who, slow=0.0):
    send, recv = sock.send, sock.recv
    import time as real_time

    def wsend(data, flags=0):
        log.add(who + "Send", n=len(data), **hdr_fields(data))       # logged before the data can be received
        return send(data, flags)

    def wrecv():
        if slow:
            real_time.sleep(slow)          # a host that reads slower than the link delivers: the window must hold
        d = recv()
        if d is not None:
            log.add(who + "Recv", n=len(d))                           # logged after it was received
        return d
    sock.send, sock.recv = wsend, wrecv


def wrap_link(llc, log):
    orig = llc.exchange

    def exchange(send_pdu, timeout):
        if send_pdu is not None and send_pdu.name != "SYMM":
            log.add("Link", n=len(send_pdu) - send_pdu.header_size, decl=llc.cfg["send-miu"])
        return orig(send_pdu, timeout)
    llc.exchange = exchange


# ------------------------------------------------------------------------------------------------
class PeerDidAir(AIR.Air):
    """The air interface with a translator that makes the nfcpy Initiator look like a peer device that uses the OPTIONAL
    NFC-DEP device identifier (nfcpy's own Initiator never does; phones and readers may): DID d is written into ATR_REQ /
    PSL_REQ, added to every DEP / DSL / RLS request and taken out of the responses again.  So that the translated
    requests stay legal (one octet longer) the initiator is shown the next smaller length reduction value of the target.
    The translator is also a monitor: a response frame longer than the LR the initiator announced, a response without
    the DID of its request, or a frame it cannot parse is recorded in `did_errors` (the stack under test is the Target)."""
    LR = (64, 128, 192, 254)

    def __init__(self, did, *a, **k):
        AIR.Air.__init__(self, *a, **k)
        self.did = did
        self.did_errors = []
        self.lri = None          # LR announced by the initiator (limit for the target's frames)
        self.translated = 0

    def _emit(self, p, data, brty, kind):
        if data is not None and len(data) >= 4:
            d = bytearray(data)
            k = 1 if (brty == "106A" and d[0] == 0xF0) else 0
            body = d[k:]
            if len(body) >= 3 and body[0] == len(body) and body[1] in (0xD4, 0xD5) and body[2] <= 0x0B \
                    and (body[2] & 1) == (body[1] & 1):
                new = self._translate(body)
                if new is not None:
                    self.translated += 1
                    data = bytearray(d[:k] + new)
        return AIR.Air._emit(self, p, data, brty, kind)

    def _translate(self, b):
        b = bytearray(b)
        did, cmd = self.did, b[2]
        if b[1] == 0xD4:                                   # initiator -> target
            if cmd == 0x00 and len(b) >= 17:
                b[13] = did
                self.lri = self.LR[(b[16] >> 4) & 3]
            elif cmd == 0x04 and len(b) >= 6:
                b[3] = did
            elif cmd == 0x06 and len(b) >= 4:
                if not b[3] & 0x04:
                    b[3] |= 0x04
                    b.insert(4, did)
            elif cmd in (0x08, 0x0A):
                if len(b) == 3:
                    b.append(did)
            else:
                return None
        else:                                              # target -> initiator
            if self.lri is not None and cmd != 0x01 and len(b) - 1 > self.lri:     # LR bounds the transport data (after LEN)
                self.did_errors.append("did-peer: the Target sent %d octets of NFC-DEP transport data to an Initiator that "
                                       "announced LR %d (peer uses DID %d)" % (len(b) - 1, self.lri, did))
            if cmd == 0x01 and len(b) >= 18:
                b[13] = 0
                lrt = (b[17] >> 4) & 3
                if lrt > 0:
                    b[17] = (b[17] & 0xCF) | ((lrt - 1) << 4)
            elif cmd == 0x05 and len(b) >= 4:
                b[3] = 0
            elif cmd == 0x07 and len(b) >= 4:
                if b[3] & 0x04 and len(b) >= 5 and b[4] == did:
                    b[3] &= ~0x04 & 0xFF
                    del b[4]
                else:
                    self.did_errors.append("did-peer: DEP_RES without the DID %d of its request (PFB %02x)" % (did, b[3]))
            elif cmd in (0x09, 0x0B):
                if len(b) == 4 and b[3] == did:
                    del b[3]
                else:
                    self.did_errors.append("did-peer: DSL/RLS response without the DID %d of its request" % did)
            else:
                return None
        b[0] = len(b)
        return b


def run_snep(cfg):
    """one complete-stack execution; returns a trace dict (or raises)"""
    rnd = random.Random(cfg["seed"])
    air = PeerDidAir(cfg["peer_did"], stall_timeout=90.0) if cfg.get("peer_did") else AIR.Air(stall_timeout=90.0)
    clf_i, clf_t = air.frontends()
    air.clock.install(nfc.dep, nfc.clf, nfc.llcp.llc)
    log = Log()
    done = threading.Event()
    errors = []
    state = {}
    try:
        class Server(nfc.snep.SnepServer):
            def _serve(self, client_socket):
                wrap_socket(client_socket, log, "S", cfg.get("slow_s", 0.0))
                state["sm"] = client_socket.getsockopt(nfc.llcp.SO_SNDMIU)
                try:
                    nfc.snep.SnepServer._serve(self, client_socket)
                except BaseException as e:      # a dying server thread is an observable failure
                    errors.append("server thread: %r" % (e,))
                    raise

            def process_put_request(self, records):
                o = b"".join(ndef.message_encoder(records))
                log.add("Deliver", kind="PUT", L=len(o), h=crc(o))
                return 0x81

            def process_get_request(self, records):
                o = b"".join(ndef.message_encoder(records))
                log.add("Deliver", kind="GET", L=len(o), h=crc(o))
                return records

        def srv_startup(llc):
            state["server"] = Server(llc, max_acceptable_length=cfg["max_acc"], recv_miu=cfg["srv_miu"],
                                     recv_buf=cfg["srv_rw"])
            wrap_link(llc, log)
            return llc

        def srv_connect(llc):
            state["server"].start()
            return True

        def client_thread(llc):
            try:
                cl = nfc.snep.SnepClient(llc, max_ndef_msg_recv_size=cfg["acc"])
                sock = None

                def connect():
                    s = nfc.llcp.Socket(llc, nfc.llcp.DATA_LINK_CONNECTION)
                    s.setsockopt(nfc.llcp.SO_RCVMIU, cfg["cli_miu"])
                    s.setsockopt(nfc.llcp.SO_RCVBUF, cfg["cli_rw"])
                    s.connect("urn:nfc:sn:snep")
                    cl.socket = s
                    cl.send_miu = s.getsockopt(nfc.llcp.SO_SNDMIU)
                    for _ in range(2000):          # the server thread publishes its send MIU after accept()
                        if "sm" in state:
                            break
                        time.sleep(0.001)
                    log.add("Conn", n=cl.send_miu, decl=state.pop("sm", 0))
                    wrap_socket(s, log, "C", cfg.get("slow_c", 0.0))
                for i, (kind, L) in enumerate(cfg["reqs"]):
                    if cl.socket is None:
                        connect()
                    octets = make_msg(L, cfg["seed"] + i)
                    log.add("CStart", kind=kind, L=len(octets), acc=cfg["acc"] if kind == "GET" else 0, h=crc(octets))
                    try:
                        if kind == "PUT":
                            r = cl.put_octets(octets, timeout=120.0)
                            log.add("CRet", ok=bool(r), len=0)
                        else:
                            r = cl.get_octets(octets, timeout=120.0)
                            good = r is not None and bytes(r) == octets
                            log.add("CRet", ok=r is not None, len=len(r) if r is not None else 0,
                                    h=crc(r) if r is not None else 0, code=1 if good else 0)
                            if r is not None and not good:
                                errors.append("GET returned different octets for request %d" % i)
                    except nfc.snep.SnepError as e:
                        log.add("CRet", ok=False, len=0, code=e.errno)
                    if not cfg["persistent"]:
                        cl.close()
                if cl.socket is not None:
                    cl.close()
            except BaseException as e:
                errors.append("client thread: %r\n%s" % (e, traceback.format_exc()))
            finally:
                done.set()

        def cli_startup(llc):
            wrap_link(llc, log)
            return llc

        def cli_connect(llc):
            threading.Thread(target=client_thread, args=(llc,), daemon=True).start()
            return True

        srv = dict(cfg["link_srv"])
        srv.update({"on-startup": srv_startup, "on-connect": srv_connect})
        cli = dict(cfg["link_cli"])
        cli.update({"on-startup": cli_startup, "on-connect": cli_connect})
        if cfg["client_role"] == "initiator":
            cli["role"], srv["role"] = "initiator", "target"
            fi = lambda: clf_i.connect(llcp=cli, terminate=done.is_set)
            ft = lambda: clf_t.connect(llcp=srv, terminate=lambda: False)
        else:
            cli["role"], srv["role"] = "target", "initiator"
            fi = lambda: clf_i.connect(llcp=srv, terminate=lambda: False)
            ft = lambda: clf_t.connect(llcp=cli, terminate=done.is_set)
        res = air.run(fi, ft, join_timeout=150.0)
        for k, r in enumerate(res):
            if r[0] == "exc":
                errors.append("connect() of port %d raised %r" % (k, r[1]))
        frames = [len(f) for f in air.log]
        if cfg.get("peer_did"):
            errors.extend(sorted(set(air.did_errors))[:3])
            if not air.translated:
                errors.append("harness: the DID translator saw no NFC-DEP frame")
    finally:
        air.clock.uninstall()
    const = dict(cm=0, sm=0, maxAcc=min(cfg["max_acc"], 0x3FFFFFFF))
    return dict(id=cfg["id"], const=const, ev=log.ev, errors=errors, nframes=len(frames), maxframe=max(frames or [0]))


def gen_cfgs(tier, seed):
    rnd = random.Random(seed)
    n = 60 if tier == "quick" else 1200
    out = []
    for i in range(n):
        lm_s = rnd.choice([128, 129, 200, 248, 1024, 2175])
        lm_c = rnd.choice([128, 130, 248, 500, 2175])
        srv_miu = rnd.choice([128, 200, 1984])
        cli_miu = rnd.choice([128, 248, 600])
        cm = min(srv_miu, lm_s)          # what the client may send per fragment (server connection MIU)
        sm = min(cli_miu, lm_c)
        sizes = []
        for _ in range(rnd.choice([1, 2, 3])):
            base = rnd.choice([cm, sm])
            k = rnd.choice([1, 1, 2, 3])
            L = max(0, k * base + rnd.randint(-9, 7) - rnd.choice([0, 6, 10]))
            L = rnd.choice([L, L, L, 0, 3, rnd.randint(3, 400)])
            if 0 < L < 3:
                L = 3
            sizes.append(L)
        reqs = [(rnd.choice(["PUT", "PUT", "GET"]), L) for L in sizes]
        slow_c = slow_s = 0.0
        if i % 5 == 4:
            # long transfers: more than 16 fragments on one connection (the sequence numbers wrap) towards a
            # host that reads slowly, with a small receive window
            lm_s, lm_c, srv_miu, cli_miu = rnd.choice([128, 2175]), rnd.choice([128, 2175]), 128, 128
            cm = sm = 128
            sizes = [rnd.randint(17, 26) * 128 + rnd.randint(-9, 7), rnd.choice([0, 3, 100, 18 * 128])]
            reqs = [(rnd.choice(["PUT", "GET"]), L) for L in sizes]
            slow_c, slow_s = rnd.choice([0.0, 0.004]), rnd.choice([0.0, 0.004])
            if not (slow_c or slow_s):
                slow_c = 0.004
        biggest = max(sizes)
        max_acc = rnd.choice([0x100000, 0x100000, biggest + rnd.randint(-8, 12), biggest + 6])
        acc = rnd.choice([1024 * 64, 1024 * 64, biggest + rnd.randint(-6, 6), max(0, biggest - 1)])
        out.append(dict(id="snep%d_%d" % (seed, i), seed=seed * 100003 + i, client_role=rnd.choice(["initiator", "target"]),
                        link_srv=dict(miu=lm_s, lto=rnd.choice([100, 500, 1000]), agf=rnd.random() < 0.6),
                        link_cli=dict(miu=lm_c, lto=rnd.choice([100, 500]), agf=rnd.random() < 0.6),
                        srv_miu=srv_miu, srv_rw=rnd.choice([1, 2, 15]), cli_miu=cli_miu, cli_rw=rnd.choice([1, 2, 7]),
                        slow_c=slow_c, slow_s=slow_s,
                        max_acc=max(0, max_acc), acc=max(0, acc), reqs=reqs, persistent=rnd.random() < 0.5))
    # the peer's NFC-DEP layer uses the optional device identifier (PeerDidAir): both roles for the SNEP client, LLC PDUs
    # that fill a complete NFC-DEP frame (connection and link MIU above the frame size) and small ones
    rnd = random.Random(seed * 31 + 7)
    for j in range(6 if tier == "quick" else 60):
        big = j % 3 != 2
        lm = rnd.choice([248, 1024, 2175]) if big else rnd.choice([128, 200])
        cmiu = rnd.choice([248, 600, 1984]) if big else 128
        sizes = [rnd.choice([242, 250, 251, 260, 700, 1500]) + rnd.randint(-3, 3), rnd.choice([0, 3, 120, 249, 500])]
        out.append(dict(id="snepdid%d_%d" % (seed, j), seed=seed * 100019 + j, client_role=("initiator", "target")[j % 2],
                        peer_did=rnd.choice([1, 7, 14]),
                        link_srv=dict(miu=lm, lto=rnd.choice([100, 500]), agf=rnd.random() < 0.5),
                        link_cli=dict(miu=lm, lto=rnd.choice([100, 500]), agf=rnd.random() < 0.5),
                        srv_miu=cmiu, srv_rw=rnd.choice([1, 2, 15]), cli_miu=cmiu, cli_rw=rnd.choice([1, 2, 7]),
                        slow_c=0.0, slow_s=0.0, max_acc=0x100000, acc=1024 * 64,
                        reqs=[(("PUT", "GET")[(j + i) % 2], L) for i, L in enumerate(sizes)], persistent=rnd.random() < 0.5))
    return out


def _work(cfg):
    try:
        from vlib import use_repo
        use_repo()
        if cfg.get("proto") == "handover":
            from bind import c06_handover
            return ("ok", c06_handover.run_handover(cfg), cfg)
        return ("ok", run_snep(cfg), cfg)
    except AIR.AirStall as e:
        return ("stall", repr(e), cfg)
    except BaseException as e:
        return ("error", traceback.format_exc(), cfg)


def selftest_mutants(tr):
    out = []
    t1 = json.loads(json.dumps(tr))
    for e in t1["ev"]:
        if e["a"] == "Deliver":
            e["h"] = (e["h"] + 1) & 0x3FFFFFFF
            break
    t1["id"] += "-hash"
    out.append(t1)
    t2 = json.loads(json.dumps(tr))
    idx = [i for i, e in enumerate(t2["ev"]) if e["a"] == "SRecv"]
    if idx:
        del t2["ev"][idx[-1]]
    t2["id"] += "-drop"
    out.append(t2)
    return out


def run(tier, seed):
    ck = check.Check(PID, tier, seed, "model_checking")
    quick = tier == "quick"
    r = tlc.run("Snep.tla", "MC_Snep.cfg" if quick else "MC_Snep_thorough.cfg", PID, workers=8, timeout=600 if quick else 1500)
    if not r.ok:
        ck.violation("spec:Snep:" + ",".join(r.violated or ["?"]), "TLC: %s" % str(r.error_trace)[:1500])
    ck.cover(states=r.distinct, transitions=r.generated)
    hit, _ = tlc.witnesses("Snep.tla", "MC_Snep_reach.cfg", PID, ["W_FragReq", "W_FragResp", "W_Reject", "W_Excess", "W_Three"])
    if len(hit) != 5:
        raise tlc.TLCError("vacuous Snep model: reached only %s" % sorted(hit))
    from bind import c06_handover
    c06_handover.model_check(ck, quick)

    cfgs = gen_cfgs(tier, seed) + c06_handover.gen_cfgs(tier, seed)
    traces, bykind = [], {"snep": [], "handover": []}
    with mp.Pool(12, maxtasksperchild=20) as pool:
        for st, payload, cfg in pool.imap_unordered(_work, cfgs):
            proto = cfg.get("proto", "snep")
            if st == "error":
                raise RuntimeError("harness crashed on %s:\n%s" % (cfg["id"], payload))
            if st == "stall":
                ck.violation("stall:%s" % proto, "complete-stack run never finished: %s cfg=%s" % (payload, json.dumps(cfg)),
                             replay=cfg)
                continue
            for e in payload["errors"]:
                ck.violation("%s:app-error:%s" % (proto, e.split(":")[0][:40]), "%s cfg=%s" % (e[:600], json.dumps(cfg)), replay=cfg)
            payload["cfg"] = cfg
            bykind[proto].append(payload)
    for proto, module, tcfg in (("snep", "Trace_Snep.tla", "Trace_Snep.cfg"), ("handover", "Trace_Handover.tla", "Trace_Handover.cfg")):
        trs = bykind[proto]
        if not trs:
            continue
        slim = [dict(id=t["id"], const=t["const"], ev=t["ev"]) for t in trs]
        muts = selftest_mutants(next(t for t in slim if any(e["a"] == "Deliver" for e in t["ev"])))
        verdicts, stt = tlc.validate_traces(module, tcfg, PID, slim + muts, shards=12, timeout=900)
        for m in muts:
            if verdicts[m["id"]][0] == "ACCEPT":
                raise tlc.TLCError("binding vacuous: %s accepted" % m["id"])
        acc = 0
        for t in trs:
            v = verdicts[t["id"]]
            if v[0] == "ACCEPT":
                acc += 1
                continue
            line, act, why = v[1], v[2], v[3]
            ev = t["ev"][line - 1]
            clause = why.get("clause") if isinstance(why, dict) else "?"
            if clause == "inv":
                key = "%s:inv:%s" % (proto, ",".join(why.get("failed", [])))
            else:
                key = "%s:%s:%s:cpc=%s:spc=%s" % (proto, act, clause, why.get("cpc"), why.get("spc"))
            ck.violation(key, "trace %s rejected at event %d %s: %s cfg=%s" % (
                t["id"], line, json.dumps(ev), json.dumps(why, default=str)[:500], json.dumps(t["cfg"])), replay=t["cfg"])
        ck.cover(traces_validated_against_impl=acc, trace_states=stt["states"])
        ck.cover(**{"runs_" + proto: len(trs), "air_frames_" + proto: sum(t["nframes"] for t in trs)})
        ck.sample(dict(proto=proto, cfg=trs[0]["cfg"], events=trs[0]["ev"][:10]))
    ck.assume("GET server echoes the request message; messages are canonical ndeflib encodings",
              "application threads run as real threads next to the two link loops; the air interface and clock are simulated",
              "exhaustive model uses a 2-byte header and MIU 4..5; the real 6-byte header and MIU 128..2175 are covered by the traces")
    return ck.finish()


def replay(rep, args):
    cfg = rep["replay"]
    st, payload, _ = _work(cfg)
    print(st, payload if st != "ok" else payload["errors"])
    if st != "ok" or payload["errors"]:
        print("VIOLATION property=%s replay=%s" % (PID, args.replay))
        return 1
    proto = cfg.get("proto", "snep")
    mod = ("Trace_Snep.tla", "Trace_Snep.cfg") if proto == "snep" else ("Trace_Handover.tla", "Trace_Handover.cfg")
    v, _ = tlc.validate_traces(mod[0], mod[1], PID + "_replay", [dict(id=payload["id"], const=payload["const"], ev=payload["ev"])], shards=1)
    print(v)
    if v[payload["id"]][0] != "ACCEPT":
        print("VIOLATION property=%s replay=%s" % (PID, args.replay))
        return 1
    return 0
