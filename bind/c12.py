"""C12 -- ISO-DEP exchanges each APDU exactly once or reports a tag error.

Spec: spec/IsoDep.tla (PCD = nfc/tag/tt4.py IsoDepInitiator.exchange as coded, PICC from ISO/IEC 14443-4,
air with deliver/lose/corrupt/empty).  Exhaustive TLC on scaled constants (variant "fixed" must satisfy
every invariant; variant "asis" must satisfy those that do not depend on the proposed fix, and the
counterexamples TLC finds for the others are *replayed into the real code* and only reported when the
real execution is rejected by Trace_IsoDep for the same invariant).
Binding: real Type4ATag/Type4BTag activated with nfc.tag.activate against sim/picc.py behind a fake clf
with a fate script; the recorded events are validated by Trace_IsoDep.tla (variant "any").
"""
import os, sys, json, random, hashlib, re
from vlib import tlc, check, tlaval

import nfc
import nfc.clf
import nfc.tag
import nfc.tag.tt4
from sim.picc import SimPicc, FSC_TABLE, NONE

PID = "C12"
DELIVER, LOSE, CORRUPT, EMPTY = "deliver", "lose", "corrupt", "empty"


class HarnessError(RuntimeError):
    pass


def prng_bytes(tag, n):
    out = b""
    k = 0
    while len(out) < n:
        out += hashlib.sha256(("%s/%d" % (tag, k)).encode()).digest()
        k += 1
    return out[:n]


def rsp_bytes(a, R):
    return prng_bytes("rsp%d" % a, R)


def cmd_spec(a, L, api, fill="prng", miu=0):
    """-> (command bytes as they must appear in the I-blocks, call arguments)
    fill: "prng" pseudo random payload | "zero" all-zero data field | "const" one value | "periodic" the command is one
    pattern of `miu` bytes (which carries the id) repeated: all full I-blocks have identical content"""
    if fill == "periodic" and miu > 2:
        pat = (bytes([0x80, (a >> 8) & 0xFF, a & 0xFF]) + prng_bytes("pat%d" % a, miu))[:miu]
        return (pat * (L // miu + 1))[:L], None
    if api == "send_apdu" and 4 <= L <= 260:
        hdr = bytes([0x00, 0xA0 + (a % 16), (a >> 8) & 0xFF, a & 0xFF])
        if L == 4:
            return hdr, dict(cla=hdr[0], ins=hdr[1], p1=hdr[2], p2=hdr[3], data=None, mrl=0)
        if L == 5:
            mrl = (a % 255) + 1
            return hdr + bytes([mrl]), dict(cla=hdr[0], ins=hdr[1], p1=hdr[2], p2=hdr[3], data=None, mrl=mrl)
        data = prng_bytes("cmd%d" % a, L - 5) if fill == "prng" else bytes([0x00 if fill == "zero" else 0x5A]) * (L - 5)
        return hdr + bytes([L - 5]) + data, dict(cla=hdr[0], ins=hdr[1], p1=hdr[2], p2=hdr[3], data=data, mrl=0)
    tail = prng_bytes("raw%d" % a, max(0, L - 2)) if fill == "prng" else \
        bytes([0x00 if fill == "zero" else 0x5A]) * max(0, L - 2)
    body = (bytes([(a >> 8) & 0xFF, a & 0xFF]) + tail)[:L]
    if L == 1:
        body = bytes([a & 0xFF])
    return body, None


class Rig(object):
    """One real Type 4 tag object on a simulated card; records the C12 events."""

    def __init__(self, typ="A", fsci=8, fwi=4, max_send=256, max_recv=256, rchunk=None, fates=(), wtx_at=(),
                 wtxm=2, ats="abc"):
        self.ev = []
        self.fates = list(fates)
        self.wtx_at = set(wtx_at)
        self.ntr = 0
        self.resume = None
        self.table = {}
        self.R = {}
        self.cur = None
        self.nop = 0
        self.wtxm = wtxm
        self.card = SimPicc(self._applet, fsci=fsci, fwi=fwi, rchunk=rchunk, wtxm=wtxm, typ=typ, ats=ats)
        ann_fsci, ann_fwi = fsci, fwi
        fsci, fwi = self.card.fsci, self.card.fwi      # what the ATS (or the defaults for absent bytes) announces
        self.card_delay = None                          # the card uses its full announced FWT (WTXM x FWT after S(WTX))
        self.max_send_data_size = max_send
        self.max_recv_data_size = max_recv
        self.fwt = 4096 / 13.56E6 * 2 ** fwi
        self.dflt = self.fwt + 49152 / 13.56E6
        fsc = min(FSC_TABLE[fsci], max_send)
        self.miu = fsc - 3
        if typ == "A":
            target = nfc.clf.RemoteTarget("106A", sens_res=bytearray(b"\x44\x03"), sel_res=bytearray(b"\x20"),
                                          sdd_res=bytearray(b"\x08\x11\x22\x33"))
        else:
            target = nfc.clf.RemoteTarget("106B", sensb_res=bytearray(self.card.sensb_res()))
        self.tag = nfc.tag.activate(self, target)
        if self.tag is None or not self.card.active:
            raise HarnessError("activation failed")
        self.const = dict(miu=self.miu, rmiu=self.card.rchunk, fsc=fsc, nRetry=min(int(1 / self.fwt), 5),
                          fsd=self.card.fsd, mrecv=max_recv, msend=max_send)
        self.script = dict(typ=typ, fsci=ann_fsci, fwi=ann_fwi, max_send=max_send, max_recv=max_recv, rchunk=rchunk,
                           fates=list(fates), wtx_at=sorted(wtx_at), wtxm=wtxm, ats=ats, ops=[])

    # ---- card applet: counts executions (the card's own list is card.executed) -------------------
    def _applet(self, cmd):
        a = self.table.get(bytes(cmd))
        if a is None:
            return -1, b"\x6F\x00"
        return a, rsp_bytes(a, self.R[a])

    # ---- fake clf ----------------------------------------------------------------------------
    def _fate(self):
        f = self.fates.pop(0) if self.fates else DELIVER
        self.ntr += 1
        return f

    def _annotate(self, nx):
        if self.resume is not None:
            self.resume["nx"] = nx
            self.resume = None

    def _pcd_desc(self, frame):
        frame = bytes(frame)
        if len(frame) == 0:
            return dict(t="BAD", bn=0, ch=False, a=0, k=0, len=0)
        pcb = frame[0]
        if pcb & 0xE2 == 0x02:
            inf = frame[1:]
            a, k = -2, 0
            if self.cur is not None and len(inf) > 0:
                cmd = self.cur["cmd"]
                last = not (pcb & 0x10)
                cand = [o for o in range(0, len(cmd), self.miu) if cmd[o:o + len(inf)] == inf]
                best = [o for o in cand if (o + len(inf) == len(cmd)) == last] or cand
                # blocks of identical content: the one the card is waiting for (what it has reassembled so far)
                want = len(self.card.cbuf)
                best = [o for o in best if o == want] or best
                if best:
                    a, k = self.cur["id"], best[0] // self.miu + 1
            return dict(t="I", bn=pcb & 1, ch=bool(pcb & 0x10), a=a, k=k, len=len(inf))
        if pcb & 0xFE == 0xA2 and len(frame) == 1:
            return dict(t="RACK", bn=pcb & 1, ch=False, a=0, k=0, len=0)
        if pcb & 0xFE == 0xB2 and len(frame) == 1:
            return dict(t="RNAK", bn=pcb & 1, ch=False, a=0, k=0, len=0)
        if pcb == 0xF2 and len(frame) == 2 and frame[1] == self.wtxm:
            return dict(t="WTX", bn=0, ch=False, a=0, k=0, len=1)
        return dict(t="BAD", bn=pcb & 1, ch=False, a=0, k=0, len=len(frame) - 1)

    def exchange(self, data, timeout):
        if not self.card.active:
            rsp = self.card.activate(data)
            if rsp is None:
                raise nfc.clf.TimeoutError("activation")
            return bytearray(rsp)
        d = self._pcd_desc(data)
        self._annotate(d["t"])
        if abs(timeout - self.dflt) < 1e-9:
            tmo = 0
        elif abs(timeout - self.wtxm * self.fwt) < 1e-9:
            tmo = 1
        else:
            tmo = 2
        self.ev.append(dict(e="Send", b=d, tmo=tmo, pni=int(self.tag._dep.pni)))
        n = self.ntr
        f = self._fate()
        if f != DELIVER:
            f = LOSE if f == LOSE else CORRUPT
            ev = dict(e="ToCard", f=f, rep=dict(NONE), ex=0, nx="?")
            self.ev.append(ev)
            self.resume = ev
            raise nfc.clf.TimeoutError("scripted")
        self.card.wtx_now = n in self.wtx_at
        rep, rd = self.card.block(data)
        self.card.wtx_now = False
        ev = dict(e="ToCard", f=DELIVER, rep=dict(rd), ex=self.card.last_ex, nx="-")
        self.ev.append(ev)
        if rep is None:
            ev["nx"] = "?"
            self.resume = ev
            raise nfc.clf.TimeoutError("mute card")
        f = self._fate()
        # the card answers at the end of its announced FWT (WTXM x FWT when an S(WTX) response was received): a reader
        # that waits less than that does not get the block
        delay = self.wtxm * self.fwt if d["t"] == "WTX" else self.fwt
        if f == DELIVER and timeout < delay - 1e-12:
            f = LOSE
        ev = dict(e="ToPcd", f=f, nx="?")
        self.ev.append(ev)
        self.resume = ev
        if f == LOSE:
            raise nfc.clf.TimeoutError("scripted")
        if f == CORRUPT:
            raise nfc.clf.TransmissionError("scripted")
        if f == EMPTY:
            return bytearray()
        return bytearray(rep)

    # ---- operations --------------------------------------------------------------------------
    def _end(self, res, ok=False, n=0, errno=0, rtype=""):
        self._annotate(res)
        self.ev.append(dict(e="End", res=res, ok=bool(ok), len=n, errno=errno, rtype=rtype))

    def apdu(self, L, R, api="transceive", fill="prng"):
        self.nop += 1
        a = self.nop
        cmd, args = cmd_spec(a, L, api, fill, self.miu)
        if args is None:
            api = "transceive"
        self.script["ops"].append(["apdu", L, R, api, fill])
        self.table[bytes(cmd)] = a
        self.R[a] = R
        self.cur = dict(id=a, cmd=bytes(cmd))
        ev = dict(e="Start", op="apdu", L=L, R=R, sa=(api == "send_apdu"), nx="?")
        self.ev.append(ev)
        self.resume = ev
        try:
            if api == "send_apdu":
                ret = self.tag.send_apdu(args["cla"], args["ins"], args["p1"], args["p2"], args["data"],
                                         args["mrl"], check_status=False)
            else:
                ret = self.tag.transceive(bytearray(cmd))
        except nfc.tag.tt4.Type4TagCommandError as e:
            self._end("err", errno=int(e.errno))
            return ("err", e.errno)
        except Exception as e:
            self._end("raise", rtype=type(e).__name__)
            return ("raise", type(e).__name__)
        ok = bytes(ret) == rsp_bytes(a, R)
        self._end("ret", ok=ok, n=len(ret))
        return ("ret", ok)

    def ping(self):
        self.nop += 1
        self.script["ops"].append(["ping", 0, 0, ""])
        self.cur = None
        ev = dict(e="Start", op="ping", L=0, R=0, sa=False, nx="?")
        self.ev.append(ev)
        self.resume = ev
        try:
            r = self.tag.is_present
        except Exception as e:
            self._end("raise", rtype=type(e).__name__)
            return ("raise", type(e).__name__)
        self._end("ret" if r else "false")
        return ("ret" if r else "false",)

    def trace(self, tid):
        return dict(id=tid, const=self.const, ev=self.ev)


def run_script(sc, tid):
    rig = Rig(sc.get("typ", "A"), sc["fsci"], sc["fwi"], sc.get("max_send", 256), sc.get("max_recv", 256),
              sc.get("rchunk"), sc.get("fates", ()), sc.get("wtx_at", ()), sc.get("wtxm", 2), sc.get("ats", "abc"))
    for op in sc["ops"]:
        if op[0] == "ping":
            rig.ping()
        else:
            rig.apdu(op[1], op[2], op[3] if len(op) > 3 and op[3] else "transceive", op[4] if len(op) > 4 else "prng")
    return rig


# ------------------------------------------------------------------------------------------------
# script generation

def lens_around(m, nblocks, rnd):
    """byte lengths that need exactly nblocks blocks of m bytes: the extremes and one in between"""
    lo, hi = (nblocks - 1) * m + 1, nblocks * m
    return sorted({lo, hi, rnd.randint(lo, hi)})


CFGS_QUICK = [("A", 0, 14, 256, 256, None), ("A", 2, 11, 256, 256, 7), ("A", 8, 10, 256, 256, 100),
              ("B", 1, 9, 256, 256, 5), ("A", 5, 11, 255, 255, None), ("B", 4, 13, 40, 256, 20)]


def all_cfgs():
    out = []
    for fsci in range(9):
        for fwi in (4, 10, 11, 13):
            out.append(("A", fsci, fwi, 256, 256, None if fsci % 2 else 9))
    for fsci in (0, 2, 5, 8):
        for fwi in (9, 11):
            out.append(("B", fsci, fwi, 256, 256, None))
    out += [("A", 8, 11, 255, 255, None), ("A", 7, 11, 64, 128, 9), ("B", 8, 10, 100, 100, 50)]
    return out


def base_script(cfg, ops, **kw):
    typ, fsci, fwi, ms, mr, rchunk = cfg
    d = dict(typ=typ, fsci=fsci, fwi=fwi, max_send=ms, max_recv=mr, rchunk=rchunk, ops=ops, fates=[], wtx_at=[],
             wtxm=kw.get("wtxm", 2), ats="abc")
    d.update(kw)
    return d


def dirs_of(rig):
    """direction of every transfer of a recorded run (for fault enumeration)"""
    return [("C" if e["e"] == "ToCard" else "P") for e in rig.ev if e["e"] in ("ToCard", "ToPcd")]


def gen_scripts(tier, seed):
    rnd = random.Random(seed)
    quick = tier == "quick"
    scripts = []
    cfgs = CFGS_QUICK if quick else all_cfgs()
    # (1) systematic: shape x every single fault position x kind, every WTX position
    for ci, cfg in enumerate(cfgs):
        typ, fsci, fwi, ms, mr, rchunk = cfg
        miu = min(FSC_TABLE[fsci], ms) - 3
        rmiu = min((128 if mr < 256 else 256) - 3, rchunk or 10 ** 6)
        shapes = [(c, r) for c in (1, 2, 3) for r in (1, 2, 3)]
        if quick:
            shapes = [s for j, s in enumerate(shapes) if (j + ci) % 3 == 0] + [(3, 3)] * (ci == 0)
        for (cb, rb) in shapes:
            Ls = lens_around(miu, cb, rnd)
            Rs = [x for x in lens_around(rmiu, rb, rnd) if x >= 2] or [2]
            L, R = rnd.choice(Ls), rnd.choice(Rs)
            if quick:
                pairs = [(L, R), (Ls[-1], Rs[0])]
            else:
                pairs = [(l_, r_) for l_ in Ls for r_ in Rs]
            if not quick:
                pairs = [pairs[0], pairs[-1]] if (cb + rb + ci) % 3 == 0 else [rnd.choice(pairs)]
            for (L, R) in pairs[:1 if quick else 2]:
                api = "send_apdu" if rnd.random() < 0.5 else "transceive"
                ops = [["apdu", L, R, api], ["apdu", max(1, L - 1), R + 1, "transceive"]]
                clean = run_script(base_script(cfg, ops), "probe")
                dirs = dirs_of(clean)
                scripts.append(base_script(cfg, ops))
                for n, d in enumerate(dirs):
                    kinds = (LOSE, CORRUPT) if d == "C" else (LOSE, CORRUPT, EMPTY)
                    if quick:
                        kinds = (rnd.choice(kinds),)
                    for k in kinds:
                        for burst in ((1,) if quick and fwi > 10 else (1, 2)):
                            fates = [DELIVER] * n + [k] * burst
                            scripts.append(base_script(cfg, ops, fates=fates))
                    if d == "C":
                        wm = rnd.choice([2, 10, 59])
                        scripts.append(base_script(cfg, ops, wtx_at=[n], wtxm=wm))
                        if (n + ci) % 3:
                            continue
                        # faults around the S(WTX) request / response / the block that follows
                        wdirs = dirs_of(run_script(base_script(cfg, ops, wtx_at=[n], wtxm=wm), "probe"))
                        for m in range(n + 1, min(n + 4, len(wdirs))):
                            for k in ((LOSE, CORRUPT) if wdirs[m] == "C" else (LOSE, CORRUPT, EMPTY)):
                                scripts.append(base_script(cfg, ops, wtx_at=[n], wtxm=wm,
                                                           fates=[DELIVER] * m + [k]))
    # (1b) every ATS layout (TA(1)/TB(1)/TC(1) present or absent, TL only) x FWI: FWT, time-outs and the retry budget
    #      must be the announced ones; one clean run, every single lost block, one S(WTX)
    ATS = ["abc", "ab", "ac", "bc", "a", "b", "c", "", "none"]
    for ai, ats in enumerate(ATS):
        for fwi in ((9, 11, 13) if quick else (0, 4, 9, 10, 11, 12, 14)):
            cfg = ("A", (ai + fwi) % 9, fwi, 256, 256, 11)
            miu = FSC_TABLE[2 if ats == "none" else cfg[1]] - 3
            ops = [["apdu", miu + 1, 23, "send_apdu"], ["apdu", 5, 2, "transceive"]]
            scripts.append(base_script(cfg, ops, ats=ats))
            dirs = dirs_of(run_script(base_script(cfg, ops, ats=ats), "probe"))
            for n, d in enumerate(dirs):
                if quick and (n + ai + fwi) % 3:
                    continue
                scripts.append(base_script(cfg, ops, ats=ats, fates=[DELIVER] * n + [LOSE]))
                if d == "C":
                    scripts.append(base_script(cfg, ops, ats=ats, wtx_at=[n], wtxm=10))
    # (1d) payload content: all-zero / constant data fields and commands that are one pattern of FSC-3 bytes repeated (all
    #      full I-blocks identical), lengths at exact multiples of FSC-3 for 2..4 blocks and +-1, every FSCI: the chaining
    #      bit is a matter of position, the card reassembles by it and must execute exactly the command that was sent
    for fsci in range(9):
        cfg = ("A" if fsci % 3 else "B", fsci, 10, 256, 256, 9)
        miu = FSC_TABLE[fsci] - 3
        for n in (2, 3, 4):
            for L in (n * miu - 1, n * miu, n * miu + 1):
                if quick and L != n * miu and (n + fsci) % 3:
                    continue
                for fill in ("zero", "periodic", "const"):
                    if fill == "const" and (quick or L != n * miu):
                        continue
                    ops = [["apdu", L, 4, "send_apdu" if fill != "periodic" else "transceive", fill],
                           ["apdu", 7, 3, "transceive", "prng"]]
                    scripts.append(base_script(cfg, ops))
                    if L == n * miu:      # a lost block / a lost acknowledge in the middle of the chain of identical blocks
                        scripts.append(base_script(cfg, ops, fates=[DELIVER] * 2 + [LOSE]))
                        scripts.append(base_script(cfg, ops, fates=[DELIVER] * 3 + [LOSE]))
    # (1e) device limits: send limit below / equal / above the receive limit, values around the FSC table, card FSC above and
    #      below the send limit, both types: no block handed to the device exceeds min(FSC, send limit) (the command is chained
    #      accordingly); receive limits stay >= 128 (the FSD the reader announces is not judged)
    for di, (ms, mr) in enumerate([(64, 256), (40, 256), (24, 128), (128, 128), (256, 128), (256, 256), (100, 300), (17, 256),
                                   (300, 130)]):
        for typ in "AB":
            for fsci in ((2, 5, 8) if quick else range(9)):
                if quick and (di + fsci + (typ == "B")) % 2:
                    continue
                cfg = (typ, fsci, 10, ms, mr, 30)
                lim = min(FSC_TABLE[fsci], ms)
                ops = [["apdu", lim - 3, 31, "transceive"], ["apdu", lim - 2, 5, "send_apdu" if lim - 2 >= 4 else "transceive"],
                       ["apdu", 2 * (lim - 3) + 1, 61, "transceive"]]
                scripts.append(base_script(cfg, ops))
                scripts.append(base_script(cfg, ops, fates=[DELIVER] * 3 + [LOSE]))
    # (1c) S(WTX) at every turn of the card in command chaining, response chaining and after a retransmission, with
    #      every fault on the S(WTX) request, the S(WTX) response and the block that follows: what is sent after a
    #      fault must be the block of the state machine (R(NAK) / R(ACK)), never the S(WTX) response again
    for ci, cfg in enumerate([("A", 1, 10, 256, 256, 6), ("B", 2, 11, 256, 256, 9)] if quick else
                             [("A", 1, 10, 256, 256, 6), ("B", 2, 11, 256, 256, 9), ("A", 0, 9, 256, 256, 4),
                              ("A", 8, 13, 256, 256, 50)]):
        miu = FSC_TABLE[cfg[1]] - 3
        ops = [["apdu", miu + 2, 3 * cfg[5] - 1, "transceive"]]
        dirs = dirs_of(run_script(base_script(cfg, ops), "probe"))
        for n, d in enumerate(dirs):
            if d != "C":
                continue
            wdirs = dirs_of(run_script(base_script(cfg, ops, wtx_at=[n]), "probe"))
            for m in range(n + 1, min(n + 4, len(wdirs))):
                for k in ((LOSE, CORRUPT) if wdirs[m] == "C" else (LOSE, CORRUPT, EMPTY)):
                    for burst in (1, 2):
                        scripts.append(base_script(cfg, ops, wtx_at=[n], fates=[DELIVER] * m + [k] * burst))
    # (2) random: several operations, several faults, WTX, presence checks in between
    nrand = 500 if quick else 8000
    for j in range(nrand):
        cfg = rnd.choice(cfgs if quick else all_cfgs())
        typ, fsci, fwi, ms, mr, rchunk = cfg
        miu = min(FSC_TABLE[fsci], ms) - 3
        rmiu = min((128 if mr < 256 else 256) - 3, rchunk or 10 ** 6)
        ops = []
        for _ in range(rnd.randint(1, 5)):
            if rnd.random() < 0.15:
                ops.append(["ping", 0, 0, ""])
            else:
                L = rnd.choice(lens_around(miu, rnd.choice([1, 1, 2, 3, 4]), rnd))
                R = max(2, rnd.choice(lens_around(rmiu, rnd.choice([1, 1, 2, 3, 4]), rnd)))
                if R > 3000:
                    R = rnd.choice([rmiu, rmiu + 1, 2 * rmiu])
                ops.append(["apdu", L, R, rnd.choice(["send_apdu", "transceive"])])
        ntr = rnd.randint(4, 40)
        p = rnd.choice([0.0, 0.05, 0.15, 0.3])
        fates = [rnd.choice([LOSE, CORRUPT, EMPTY]) if rnd.random() < p else DELIVER for _ in range(ntr)]
        wtx_at = [n for n in range(ntr) if rnd.random() < rnd.choice([0.0, 0.1, 0.3])]
        scripts.append(base_script(cfg, ops, fates=fates, wtx_at=wtx_at, wtxm=rnd.choice([2, 10, 59])))
    return scripts


# ------------------------------------------------------------------------------------------------
# TLC counterexample -> script for the real code (binding direction spec -> code)

def script_from_error_trace(et, real_cfg=("A", 2, 11, 256, 256, 7)):
    """et: list of (action header, state text) of a TLC error trace of MC_IsoDep (miu = rmiu = 2)."""
    typ, fsci, fwi, ms, mr, rchunk = real_cfg
    miu = min(FSC_TABLE[fsci], ms) - 3
    rmiu = rchunk

    def scale(L, m_model, m_real):
        n = (L + m_model - 1) // m_model
        full = L == n * m_model
        return (n - 1) * m_real + (m_real if full else max(2, m_real // 2))

    ops, fates, wtx_at = [], [], []
    nwtx = 0
    ntr = 0
    nretry = None
    for hdr, st in et:
        m = re.search(r"nRetry \|-> (\d+)", st)
        if m:
            nretry = int(m.group(1))
        mm = re.search(r"rmiu \|-> (\d+)", st)
        rm_model = int(mm.group(1)) if mm else 2
        w = re.search(r"nwtx = (\d+)", st)
        w = int(w.group(1)) if w else nwtx
        m = re.match(r'StartOp\("(\w+)",\s*(\d+),\s*(\d+)', hdr)
        if m:
            if m.group(1) == "ping":
                ops.append(["ping", 0, 0, ""])
            else:
                ops.append(["apdu", scale(int(m.group(2)), 2, miu), scale(int(m.group(3)), rm_model, rmiu),
                            "transceive"])
        m = re.match(r'(ToCard|ToPcd)\("(\w+)"\)', hdr)
        if m:
            if w > nwtx:
                wtx_at.append(ntr)
            fates.append(m.group(2))
            ntr += 1
        nwtx = w
    fwi = {0: 13, 1: 11}.get(nretry)
    if fwi is None:
        return None
    return base_script((typ, fsci, fwi, ms, mr, rchunk), ops, fates=fates, wtx_at=wtx_at)


# ------------------------------------------------------------------------------------------------
def classify(tr, v):
    """canonical key of a rejected trace"""
    line, act, why = v[1], v[2], v[3]
    ev = tr["ev"][line - 1]
    kind = why[0]
    ctx = why[-1] if kind == "inv" else (why[1] if len(why) > 1 else {})
    nxt = tr["ev"][line] if line < len(tr["ev"]) else {}
    end = next((e for e in tr["ev"][line - 1:] if e["e"] == "End"), {})
    if kind == "inv":
        names = list(why[1])
        if "OnlyT4Error" in names:
            return "raw-exception:%s@%s-phase" % (end.get("rtype") or "?", ctx.get("ph")), names
        if "BlockFits" in names:
            return "block-exceeds-FSC@%s" % ctx.get("ph"), names
        if ctx.get("dirty"):
            for n in ("AtMostOnce", "NoGarbage", "NoStale", "RespIntact"):
                if n in names:
                    return "after-failed-exchange:%s" % n, names
        if ctx.get("wc") or (ctx.get("ph") == "chain" and ctx.get("slot") == "WTX"):
            return "wtx-during-response-chaining:%s" % ("error-without-fault" if "CleanOk" in names else ",".join(names)), names
        if "CleanOk" in names:
            return "error-without-fault:errno=%s@%s-phase:rx=%s" % (end.get("errno"), ctx.get("ph"), ctx.get("slot")), names
        return "inv:%s@%s-phase" % (",".join(names), ctx.get("ph")), names
    got = ev.get("nx") if act in ("ToCard", "ToPcd", "Start") else (ev.get("b", {}).get("t") if act == "Send" else ev.get("res"))
    return "mismatch:%s:%s@%s-phase(out=%s,rx=%s):got=%s" % (kind, act, ctx.get("ph"), ctx.get("out"), ctx.get("slot"), got), []


def selftest_traces(tr):
    """binding self-test: one corrupted field, one dropped event -> both must be rejected"""
    t1 = json.loads(json.dumps(tr))
    for ev in t1["ev"]:
        if ev["e"] == "Send" and ev["b"]["t"] == "I":
            ev["b"]["bn"] ^= 1
            ev["pni"] ^= 1
            break
    t1["id"] = tr["id"] + "-corrupt"
    t2 = json.loads(json.dumps(tr))
    for i, ev in enumerate(t2["ev"]):
        if ev["e"] == "ToCard" and ev["ex"] > 0:
            del t2["ev"][i]
            break
    t2["id"] = tr["id"] + "-dropped"
    return [t1, t2]


TRACE_CFG = """SPECIFICATION TSpec
CONSTANTS
  NOps = 1000000
  CLens = {}
  RLens = {}
  Cfgs = {}
  MaxFaults = 1000000
  MaxWtx = 1000000
  PFates = {"lose", "corrupt", "empty"}
  CFates = {"lose", "corrupt"}
  WithPing = TRUE
  Variant = "any"
  Apis = {}
  Judge = %s
CONSTRAINT Done
CHECK_DEADLOCK FALSE
"""


def trace_cfg(judge):
    d = os.path.join(tlc.OUT, PID)
    os.makedirs(d, exist_ok=True)
    p = os.path.join(d, "Trace_IsoDep_%s.cfg" % ("judge" if judge else "conf"))
    with open(p, "w") as f:
        f.write(TRACE_CFG % ("TRUE" if judge else "FALSE"))
    return p


def validate(traces, tag, shards=16, judge=True):
    return tlc.validate_traces("Trace_IsoDep.tla", trace_cfg(judge), tag, traces, shards=shards, timeout=900)


EXPECTED_ASIS = ["OnlyT4Error", "CleanOk", "AtMostOnceDirty", "NoGarbageDirty", "RespIntactDirty"]
CLEAN_INVS = ["TypeOK", "AtMostOnceClean", "OnlyT4Error", "BlockFits", "CleanOk", "RespIntactClean", "NoStaleClean",
              "NoGarbageClean"]
ASIS_INVS = ["TypeOK", "AtMostOnceClean", "BlockFits", "RespIntactClean", "NoStaleClean", "NoGarbageClean"]
WITNESSES = ["W_Chain3", "W_CmdChain", "W_Retx", "W_Wtx", "W_Err", "W_ErrRx", "W_Third", "W_AckRetx"]


SIZES = {   # NOps, CLens, RLens, Cfgs, MaxFaults, MaxWtx
    "quick": (3, "{1, 5}", "{2, 5}", "CfgsQuick", 3, 1),
    "thorough": (3, "{1, 2, 3, 5}", "{2, 4, 5}", "CfgsQuick", 3, 1),
    "nowtx": (3, "{1, 5}", "{2, 5}", "CfgsQuick", 3, 0),     # counterexamples that do not depend on the WTX variant
    "deep": (2, "{1, 2, 3, 5}", "{2, 4, 5}", "CfgsThorough", 4, 2),
}


def mc_cfg(name, variant, invs, size, nretry01=False):
    nops, cl, rl, cfgs, mf, mw = SIZES[size]
    body = """SPECIFICATION Spec
CONSTANTS
  NOps = %d
  CLens = %s
  RLens = %s
  Cfgs <- %s
  MaxFaults = %d
  MaxWtx = %d
  PFates = {"lose", "corrupt", "empty"}
  CFates = {"lose"}
  WithPing = TRUE
  Variant = "%s"
  Apis = %s
CHECK_DEADLOCK FALSE
""" % (nops, cl, rl, "Cfgs01" if nretry01 else cfgs, mf, mw, variant, "{FALSE, TRUE}" if size == "deep" else "{FALSE}")
    body += "".join("INVARIANT %s\n" % i for i in invs)
    d = os.path.join(tlc.OUT, PID)
    os.makedirs(d, exist_ok=True)
    p = os.path.join(d, "MC_IsoDep_%s_%d.cfg" % (name, os.getpid()))
    with open(p, "w") as f:
        f.write(body)
    return p


def run(tier, seed):
    ck = check.Check(PID, tier, seed, "model_checking")
    quick = tier == "quick"
    import concurrent.futures as cf

    # 1. exhaustive model checking (all TLC jobs run concurrently with the recording of the real executions) ----
    jobs = {
        "fixed": ("fixed", CLEAN_INVS, False, 6, tier),
        "asis": ("asis", ASIS_INVS, False, 6, tier),
    }
    if not quick:
        jobs["fixed_deep"] = ("fixed", CLEAN_INVS, False, 6, "deep")
        jobs["asis_deep"] = ("asis", ASIS_INVS, False, 6, "deep")
    for inv in EXPECTED_ASIS:
        jobs["x_" + inv] = ("asis", [inv], True, 1, "nowtx" if inv.endswith("Dirty") else "quick")
    main_jobs = [n for n in jobs if not n.startswith("x_")]

    def mc(name):
        variant, invs, n01, workers, size = jobs[name]
        cfgp = mc_cfg(name, variant, invs, size, n01)
        try:
            return name, tlc.run("MC_IsoDep.tla", cfgp, PID + "/mc_" + name, workers=workers,
                                 timeout=400 if quick else 3000)
        finally:
            os.remove(cfgp)

    pool = cf.ThreadPoolExecutor(max_workers=len(jobs) + 1)
    futs = [pool.submit(mc, n) for n in jobs]
    wfut = pool.submit(tlc.witnesses, "MC_IsoDep.tla", "MC_IsoDep_reach.cfg", PID, WITNESSES, 300, 1)
    scripts = gen_scripts(tier, seed)
    traces, by_id = [], {}
    for j, sc in enumerate(scripts):
        tid = "s%d" % j
        rig = run_script(sc, tid)
        traces.append(rig.trace(tid))
        by_id[tid] = sc
    res = dict(f.result() for f in futs)
    hit, _ = wfut.result()
    pool.shutdown()
    for name in main_jobs:
        r = res[name]
        if not r.ok:
            ck.violation("spec:IsoDep(%s):%s" % (name, ",".join(r.violated or ["deadlock"])),
                         "TLC found a violation in the design-level model (%s variant): %s" % (
                             name, json.dumps([h for h, _ in (r.error_trace or [])])[:1500]))
        ck.cover(states=r.distinct, transitions=r.generated)
    ck.cover(mc_depth=res["fixed"].depth)
    missing = set(WITNESSES) - hit
    if missing:
        raise tlc.TLCError("vacuous model: witnesses not reached: %s" % sorted(missing))
    ck.cover(witnesses_reached=sorted(hit))

    # 2. spec -> code: counterexamples of the as-is model replayed into the real code --------------
    replays = []
    for inv in EXPECTED_ASIS:
        r = res["x_" + inv]
        if not r.violated:
            ck.note("as-is model: TLC found no counterexample for %s" % inv)
            continue
        sc = script_from_error_trace(r.error_trace)
        if sc is not None and not sc["ops"]:
            raise tlc.TLCError("counterexample for %s could not be converted (no operations parsed)" % inv)
        if sc is None:
            raise tlc.TLCError("cannot realise counterexample for %s" % inv)
        rig = run_script(sc, "cex-" + inv)
        replays.append((inv, sc, rig.trace("cex-" + inv)))
    # 3. code -> spec: the scripted runs of the real code recorded above ---------------------------------
    for inv, sc, tr in replays:
        traces.append(tr)
        by_id[tr["id"]] = sc
    self_t = selftest_traces(traces[0])
    verdicts, st = validate(traces + self_t, PID, shards=16)
    for t in self_t:
        if verdicts[t["id"]][0] == "ACCEPT":
            raise tlc.TLCError("binding vacuous: corrupted trace %s accepted" % t["id"])
    acc, nev, rej = 0, 0, []
    for tr in traces:
        v = verdicts[tr["id"]]
        nev += len(tr["ev"])
        if v[0] == "ACCEPT":
            acc += 1
            continue
        key, names = classify(tr, v)
        rej.append((tr, v, key, names))
        ck.violation(key, "real Type4Tag run %s rejected at event %d (%s): %s ; script=%s" % (
            tr["id"], v[1], v[2], json.dumps(v[3])[:500], json.dumps(by_id[tr["id"]])[:600]),
            replay=dict(kind="script", script=by_id[tr["id"]]))
    # spec -> code replays: each counterexample must be reproduced or be explained by the fix
    for inv, sc, tr in replays:
        v = verdicts[tr["id"]]
        ck.cover(**{"cex_" + inv: "reproduced on the real code: %s" % classify(tr, v)[0] if v[0] != "ACCEPT"
                    else "not reproduced (real code absorbs it)"})
    # rejected for an invariant: the rest of the trace is still checked for conformance (Judge = FALSE)
    again = [json.loads(json.dumps(tr)) for tr, v, key, names in rej if v[3][0] == "inv"]
    conf_ok = 0
    if again:
        v2, st2 = validate(again, PID + "/conf", shards=16, judge=False)
        for tr in again:
            v = v2[tr["id"]]
            if v[0] == "ACCEPT":
                conf_ok += 1
            else:
                key, _ = classify(tr, v)
                ck.violation(key, "real Type4Tag run %s (conformance only) rejected at event %d (%s): %s ; script=%s" % (
                    tr["id"], v[1], v[2], json.dumps(v[3])[:500], json.dumps(by_id[tr["id"]])[:600]),
                    replay=dict(kind="script", script=by_id[tr["id"]], judge=False))
        st["states"] += st2["states"]
    ck.cover(traces_validated_against_impl=acc + conf_ok, traces_accepted_with_all_invariants=acc,
             traces_conformant_after_a_finding=conf_ok, trace_events=nev, trace_states=st["states"],
             scripts=len(scripts), binding_selftest="toggled block number and dropped ToCard(exec) both rejected")
    ck.sample(dict(trace=traces[0]["id"], const=traces[0]["const"], first_events=traces[0]["ev"][:5]))
    ck.sample(dict(mc="IsoDep fixed variant", distinct=res["fixed"].distinct, depth=res["fixed"].depth))
    if replays:
        ck.sample(dict(cex=replays[0][0], script=replays[0][1]))
    ck.assume("PICC model: ISO/IEC 14443-4 rules C-E, 9-13; blocks that infringe the rules are ignored (mute card); "
              "an I-block received while the card is chaining its response aborts that chain",
              "exhaustive runs: miu = 2, 3 operations, <= 3 (quick) / 4 faults, <= 1 / 2 S(WTX); real frame sizes "
              "(FSCI 0..8), FWI and device limits are exercised by trace validation only",
              "a lost and a corrupted block towards the card are the same event for the PCD (time-out)",
              "CID/NAD are not used (nfcpy never sends them)")
    return ck.finish()


def replay(rep, args):
    r = rep["replay"]
    rig = run_script(r["script"], "replay")
    tr = rig.trace("replay")
    verdicts, st = validate([tr], PID + "/replay", shards=1, judge=r.get("judge", True))
    v = verdicts["replay"]
    print("replay verdict:", v)
    if v[0] != "ACCEPT":
        print("key:", classify(tr, v)[0])
        for i, e in enumerate(tr["ev"][max(0, v[1] - 6):v[1] + 1]):
            print("  ", max(0, v[1] - 6) + i + 1, json.dumps(e))
        print("VIOLATION property=%s replay=%s" % (PID, args.replay))
        return 1
    return 0
