"""Stand-alone driver for the Type 3 / Type 4 part of C01-C03 (development and mutant runs):
    /venv/bin/python -m bind.tags34_main C01 [--tier quick|thorough] [--seed N] [--replay FILE]
Evidence goes to out/tags34/evidence/<PID>.json (the registered checks are bind/c01.py .. c03.py)."""
import sys, os, json, argparse, traceback


def main():
    ap = argparse.ArgumentParser()
    ap.add_argument("pid")
    ap.add_argument("--tier", default="quick", choices=["quick", "thorough"])
    ap.add_argument("--seed", type=int, default=1)
    ap.add_argument("--replay", default=None)
    a = ap.parse_args()
    os.environ.setdefault("PYTHONHASHSEED", "0")
    try:
        from vlib import use_repo, OUT, check
        use_repo()
        from bind import tags34
        if a.replay:
            sys.exit(tags34.replay_tags34(json.load(open(a.replay)), a))
        check.EVID = os.path.join(OUT, "tags34", "evidence")
        os.makedirs(check.EVID, exist_ok=True)
        ck = check.Check(a.pid.upper(), a.tier, a.seed, "model_checking")
        getattr(tags34, "run_" + a.pid.lower())(ck, a.tier, a.seed)
        rc = ck.finish()
    except SystemExit:
        raise
    except BaseException:
        traceback.print_exc()
        print("MACHINERY-FAILURE property=%s (no verdict)" % a.pid)
        sys.exit(2)
    sys.exit(rc)


if __name__ == "__main__":
    main()
