"""C01 dispatcher: TLV based tag types (bind/tags12.py) + Type 3 / Type 4 / emulated Type 3 (bind/tags34.py)."""
from vlib import check

PID = "C01"


def run(tier, seed):
    ck = check.Check(PID, tier, seed, "model_checking")
    from bind import tags12
    tags12.run_c01(ck, tier, seed)
    try:
        from bind import tags34
        fn = tags34.run_c01
    except (ImportError, AttributeError):
        fn = None
        ck.note("bind.tags34.run_c01 not available: Type 3 / Type 4 part not run")
    if fn is not None:
        fn(ck, tier, seed)
    return ck.finish()


def replay(rep, args):
    r = rep.get("replay") or {}
    if r.get("kind") == "tags12":
        from bind import tags12
        return tags12.replay(rep, args)
    from bind import tags34
    fn = getattr(tags34, "replay_tags34", None) or tags34.replay
    return fn(rep, args)
