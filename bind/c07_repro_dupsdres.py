"""Stand-alone reproduction (C07): one service discovery answer received twice makes a later resolve() block forever.

    /venv/bin/python bind/c07_repro_dupsdres.py [SRC]      exit 1 = defect present, 0 = absent

History: lookup of name a is answered twice by the peer (same transaction id).  Before the fix the id went back into the
pool twice, so two later concurrent lookups (b, c) could draw the same id (random.choice - here made to pick the last
entry, a legal outcome); the second request overwrote sent[id], the peer's correct answers were both filed under c and the
resolver of b never woke up although the peer answered it.
"""
import sys, threading, time
sys.path.insert(0, sys.argv[1] if len(sys.argv) > 1 else "/repo/src")
import nfc.llcp.llc as L, nfc.llcp.pdu as P

L.random.choice = lambda seq: seq[-1]
llc = L.LogicalLinkController()
sd = llc.sap[1]
res = {}


def look(n):
    res[n] = sd.resolve(n)


def start(n):
    t = threading.Thread(target=look, args=(n,), daemon=True)
    t.start()
    time.sleep(0.05)
    return t


ta = start(b"urn:nfc:sn:a")
(tid, name), = sd.dequeue(128, 0).sdreq
ans = P.ServiceNameLookup(1, 1)
ans.sdres.append((tid, 17))
sd.enqueue(ans)
sd.enqueue(ans)                                   # the misbehaving peer repeats its answer
ta.join(1)
tb, tc = start(b"urn:nfc:sn:b"), start(b"urn:nfc:sn:c")
reqs = list(sd.dequeue(128, 0).sdreq)
ans = P.ServiceNameLookup(1, 1)
for t_, n_ in reqs:                               # a correct peer: each request answered with its id
    ans.sdres.append((t_, {b"urn:nfc:sn:b": 18, b"urn:nfc:sn:c": 19}[bytes(n_)]))
sd.enqueue(ans)
tb.join(1)
tc.join(1)
print("ids of the two requests:", [t_ for t_, _ in reqs], "results:", res, "b blocked:", tb.is_alive(), "c blocked:", tc.is_alive())
bad = tb.is_alive() or tc.is_alive() or res.get(b"urn:nfc:sn:b") != 18 or res.get(b"urn:nfc:sn:c") != 19
print("DEFECT PRESENT" if bad else "ok")
sys.exit(1 if bad else 0)
