"""C13 -- drivers report RF and host-link failures only as documented errors.

Spec: spec/DriverErr.tla (the finite product driver x kind x host command x fault with the table
Allowed; TLC enumerates it completely and checks the table is total, non-empty and class-consistent).
Binding: the harness walks the same product on the *real* driver objects (built by the drivers' own
init() on the simulated chipsets of sim/chip_*.py) through ContactlessFrontend.exchange(); every case
is one event [d, k, m, at, c, f, v, o, x]; Trace_DriverErr.tla checks per event that the host command
at position `at` is the one the spec lists, that the outcome class is in Allowed, and per batch that
the set of recorded cases equals the spec's Cases for the slice that was run.
Target variants (DriverErr!Vars, bind/c13_drivers.variants): every exchange kind also runs with the activated target
at every bit rate / technology / SEL_RES class the driver's sense_* methods accept ("TT4B@848B", "TT2@106A/08",
"DEPA@424F/psl" ..); the simulated chips hold a remote device that talks that bit rate and technology only
(sim/chip_*: card), so a wrong speed / framing / InSetRF setting shows as a time-out of the fault-free exchange.
"""
import json

import errno

from vlib import tlc, check
from bind import c13_drivers as D
from bind import c13_ops as OP
from sim import chip_pn53x as P
from sim import chip_rcs380 as R
from sim import chip_udp as U
from sim import chip_ops as O

PID = "C13"
QUICK_DRIVERS = ("pn532", "pn533", "rcs380", "acr122", "udp")
ALL_DRIVERS = D.DRIVERS

LINK_FAULTS_PN53X = [("ErrorFrame", 0), ("HostTimeout", 0), ("NoAck", 0), ("BadAck", 0), ("HostIO", 0),
                     ("HostIOW", 0), ("DeviceGone", 0), ("ShortFrame", 1), ("ShortFrame", 3), ("ShortFrame", 4),
                     ("ShortFrame", 6), ("CutTail", 0), ("BadChecksum", 0), ("WrongCode", 0)]
LINK_FAULTS_ACR122 = [f for f in LINK_FAULTS_PN53X if f[0] not in ("NoAck", "BadAck")] + \
                     [("ShortFrame", 9), ("ShortFrame", 11)]
CUT_LENS = range(6)          # well-formed frame, payload cut to k bytes (CutBodyX: extended frame, PN53x links only)


ERRNOS = (5, 19, 32, 110)   # EIO, ENODEV, EPIPE, ETIMEDOUT raised by transport.read at the ACK wait / the response wait


def link_faults(driver):
    fs = list(LINK_FAULTS_ACR122 if driver == "acr122" else LINK_FAULTS_PN53X) + [("RspErr", n) for n in ERRNOS]
    if driver != "acr122":
        fs += [("AckErr", n) for n in ERRNOS]
    fs += [("CutBody", n) for n in CUT_LENS]
    if driver in D.PN53X_LINK:
        fs += [("CutBodyX", n) for n in CUT_LENS]
    return fs
UDP_SEND_FAULTS = [("HostIOW", 0), ("DeviceGone", 0), ("ShortSend", 0)]
UDP_RECV_FAULTS = [("HostTimeout", 0), ("HostIO", 0), ("RfOff", 0), ("ShortFrame", 1), ("ShortFrame", 2),
                   ("BadChecksum", 0), ("WrongCode", 0), ("Garbled", 1), ("Garbled", 2)] + \
                  [("CutBody", n) for n in range(6)] + [("RspErr", n) for n in (5, 19, 32)]
QUICK_PREP_STATUS = (0, 1, 2, 255)
REG_READS = ("ReadRegister", "ReadIRq", "ReadFIFOLevel", "ReadFIFOData")
PN53X_FAM = ("pn531", "pn532", "pn533", "rcs956", "arygon", "acr122")


def has_status(driver, cmd):
    return (cmd in ("InCommunicateThru", "InDataExchange", "TgGetInitiatorCommand", "TgResponseToInitiator")
            or (driver == "pn533" and cmd in REG_READS + ("WriteRegister",))
            or (driver == "rcs956" and cmd == "WriteRegister")
            or (driver == "rcs380" and cmd in ("InSetRF", "InSetProtocol")))


COMM_ALL_ONES = 4096         # stands for the status word FFFFFFFFh


def quick_masks():
    """no flag, every single flag, every pair, all defined flags, all ones"""
    return [m for m in range(4096) if bin(m).count("1") <= 2] + [4095, COMM_ALL_ONES]


def faults_for(driver, cmd, final, tier):
    """The faults this tier injects at one host command (must equal DriverErr!SliceFaults -- TLC checks)."""
    if driver == "udp":
        return list(UDP_RECV_FAULTS if final else UDP_SEND_FAULTS)
    fs = link_faults(driver)
    if tier == "reach":                    # DriverErr tier "reach": the small sample used for the payload length kinds
        if driver == "rcs380" and cmd in ("InCommRF", "TgCommRF"):
            fs += [("CommStatus", m) for m in range(4097) if m >= 4095 or bin(m).count("1") <= 1]
        if has_status(driver, cmd):
            fs += [("ChipStatus", s) for s in (0, 1, 10, 11)]
        if driver in PN53X_FAM and cmd in REG_READS:
            dom = range(65) if cmd == "ReadFIFOLevel" else range(256)
            fs += [("RegValue", s) for s in dom if s in QUICK_PREP_STATUS + (32, 48)]
        return fs
    full = final or tier != "quick"
    if driver == "rcs380" and cmd in ("InCommRF", "TgCommRF"):
        fs += [("CommStatus", m) for m in (quick_masks() if tier == "quick" else range(4097))]
    if has_status(driver, cmd):
        fs += [("ChipStatus", s) for s in (range(256) if full else QUICK_PREP_STATUS)]
    if driver in PN53X_FAM and cmd in REG_READS:
        dom = range(65) if cmd == "ReadFIFOLevel" else range(256)
        fs += [("RegValue", s) for s in dom if full or s in QUICK_PREP_STATUS + (32, 48)]
    return fs


def sim_fault(driver, at, k, v):
    if driver == "udp":
        m = {"HostIOW": ("io_write", D.EIO), "DeviceGone": ("io_write", D.ENODEV), "ShortSend": ("short_send", 0),
             "HostTimeout": ("timeout", 0), "HostIO": ("io_read", D.EIO), "RfOff": ("rfoff", 0)}
        if k in m:
            return U.UFault(at, *m[k])
        if k == "RspErr":
            return U.UFault(at, "io_read", v)
        raw = {("ShortFrame", 1): b"106A", ("ShortFrame", 2): b"106A 0", ("BadChecksum", 0): b"106A zz",
               ("WrongCode", 0): b"848B 00", ("Garbled", 1): b"\xff\xfe 00", ("Garbled", 2): b"106A 00 00"}[(k, v)]
        return U.UFault(at, "raw", raw)
    m = {"ErrorFrame": ("errframe", 0), "HostTimeout": ("timeout", 0), "NoAck": ("noack", 0),
         "BadAck": ("badack", 0), "HostIO": ("io_read", D.EIO), "HostIOW": ("io_write", D.EIO),
         "DeviceGone": ("io_write", D.ENODEV), "CutTail": ("short", -1), "BadChecksum": ("badsum", 0),
         "WrongCode": ("wrongcode", 0)}
    if k in m:
        return P.Fault(at, *m[k])
    if k in ("CutBody", "CutBodyX"):
        return P.Fault(at, k.lower(), v)
    if k in ("AckErr", "RspErr"):
        return P.Fault(at, "io_ack" if k == "AckErr" else "io_read", v)
    if k == "ShortFrame":
        return P.Fault(at, "short", v)
    if k == "ChipStatus":
        return P.Fault(at, "status", v)
    if k == "RegValue":
        return P.Fault(at, "regval", v)
    if k == "CommStatus":
        f = P.Fault(at, "status", 0)
        f.kind, f.arg = "comm", (0xFFFFFFFF if v == COMM_ALL_ONES else R.comm_status(v))
        return f
    raise ValueError(k)


ACK_FRAMES = (P.ACK, b"2" + P.ACK)
LAST_CANCEL = [False]        # of the most recent run_case / run_op (the rig may be replaced before the event is built)


def cancelled(rig, at):
    """did the host write an ACK frame (= cancel the pending command) right after its `at`-th command of the case?"""
    t = rig.transport
    if t is None or not at:
        return False
    n = 0
    for i, w in enumerate(t.written):
        if t._is_command(bytes(w)):
            n += 1
            if n == at:
                return i + 1 < len(t.written) and bytes(t.written[i + 1]) in ACK_FRAMES
    return False


def run_case(rig, kind, at, k, v):
    send, tmo = D.prepare(rig, kind)
    D.place_card(rig, kind)
    if at and rig.driver == "udp" and k == "CutBody":
        rig.chip.arm(U.UFault(at, "raw", rig.net.reply[:max(0, min(v, len(rig.net.reply) - 1))]))
    else:
        rig.chip.arm(sim_fault(rig.driver, at, k, v) if at else None)
    if rig.transport is not None:
        rig.transport.reset_log()
    o, x, val = D.classify(lambda: rig.clf.exchange(send, tmo))
    LAST_CANCEL[0] = cancelled(rig, at)
    return o, x, val


def walk(driver, tier, only_kinds=None):
    """-> list of batches (one per kind) of events."""
    rig = D.Rig(driver)
    batches = []
    all_kinds = list(D.SUPPORT[driver]) + D.len_kinds(driver) + D.var_kinds(driver)
    for kind in all_kinds:
        if only_kinds and kind not in only_kinds:
            continue
        mode = D.KINDS[kind][0]
        # payload length kinds and target variants: the small fault sample (DriverErr tier "reach") at every command
        ftier = "reach" if D.base_kind(kind) != kind else tier
        o, x, val = run_case(rig, kind, 0, None, None)
        names = list(rig.chip.log)
        ev = [dict(d=driver, k=kind, m=mode, at=0, c="-", f="None", v=0, o=o, x=x,
                   same=bool(o == "Data" and bytes(val) == D.expected_data(rig, kind)), cancel=LAST_CANCEL[0])]
        if o != "Data" and D.base_kind(kind) != kind:
            # the fault-free exchange of a length kind failed (judged by TLC at event 1): walk the command positions
            # of the base kind, so that the structure still matches and every case gets its own verdict
            if o in ("Hang", "Internal"):
                rig = D.Rig(driver)
            run_case(rig, D.base_kind(kind), 0, None, None)
            names = list(rig.chip.log)
        n = len(names)
        for at in range(1, n + 1):
            cmd, final = names[at - 1], at == n
            for (k, v) in faults_for(driver, cmd, final, ftier):
                o, x, val = run_case(rig, kind, at, k, v)
                seen = rig.chip.log[at - 1] if len(rig.chip.log) >= at else "?"
                if seen == "?" and o == "Internal":
                    seen = cmd                         # the exchange raised before it got to this command: nothing to compare
                if o in ("Hang", "Internal"):
                    rig = D.Rig(driver)                # do not trust the object's state any further
                ev.append(dict(d=driver, k=kind, m=mode, at=at, c=seen, f=k, v=v, o=o, x=x,
                               same=bool(o == "Data" and bytes(val) == D.expected_data(rig, kind)), cancel=LAST_CANCEL[0]))
        batches.append(dict(id="%s/%s/%s" % (driver, kind, tier),
                            slice=dict(d=driver, k=kind, tier=tier, n=n, cover=True), ev=ev))
    if batches and not only_kinds:
        # the exchange kinds walked for this driver: Trace_DriverErr compares them with DriverErr!ExKinds(d)
        batches[0]["slice"]["kinds"] = all_kinds
    return batches


# ------------------------------------------------------------------------------------------------
# operations: sense() / listen()  (bind/c13_ops.py has the scenarios)
RF_CMDS = ("InListPassiveTarget", "InJumpForPSL", "InCommunicateThru", "InDataExchange", "TgGetInitiatorCommand",
           "TgResponseToInitiator", "TgSetGeneralBytes", "InCommRF", "TgCommRF")
QUICK_OP_STATUS = (0, 1, 2, 10, 11, 41, 49, 64, 128, 255)
QUICK_OP_REG = (0, 1, 2, 32, 38, 48, 255)
UDP_BIND_FAULTS = [("HostIO", 0), ("AddrInUse", 0)]


def op_has_status(driver, cmd):
    return ((cmd in RF_CMDS and cmd not in ("InListPassiveTarget", "InCommRF", "TgCommRF"))
            or (driver == "pn533" and cmd in REG_READS + ("WriteRegister",))
            or (driver == "rcs956" and cmd == "WriteRegister")
            or (driver == "rcs380" and cmd in ("InSetRF", "InSetProtocol", "SwitchRF", "TgSetRF", "TgSetProtocol")))


def op_faults_for(driver, cmd, tier):
    """The faults injected at one host command of an operation (must equal DriverErr!OpFaults -- TLC checks)."""
    if driver == "udp":
        return list({"bind": UDP_BIND_FAULTS, "sendto": UDP_SEND_FAULTS}.get(cmd, UDP_RECV_FAULTS))
    quick = tier == "quick"
    fs = link_faults(driver)
    if driver == "rcs380" and cmd in ("InCommRF", "TgCommRF"):
        fs += [("CommStatus", m) for m in range(4097) if not quick or bin(m).count("1") <= 1]
    if op_has_status(driver, cmd):
        fs += [("ChipStatus", s) for s in (QUICK_OP_STATUS if quick else range(256))]
    if cmd == "InListPassiveTarget":
        fs += [("NbTg", s) for s in (0, 1, 2, 255)]
    if driver in PN53X_FAM and cmd in REG_READS:
        dom = range(65) if cmd == "ReadFIFOLevel" else range(256)
        fs += [("RegValue", s) for s in dom if not quick or s in QUICK_OP_REG]
    return fs


def op_sim_fault(driver, kind, at, cmd, k, v):
    if driver == "udp":
        if cmd == "bind":
            return O.UFault(at, "io", errno.EACCES if k == "HostIO" else errno.EADDRINUSE)
        m = {"HostIOW": ("io", D.EIO), "DeviceGone": ("io", D.ENODEV), "ShortSend": ("short_send", 0),
             "HostTimeout": ("lost", 0), "HostIO": ("io", D.EIO), "RfOff": ("rfoff", 0)}
        if k in m:
            return O.UFault(at, *m[k])
        if k == "CutBody":
            return O.UFault(at, "cut", v)
        if k == "RspErr":
            return O.UFault(at, "io", v)
        b = (OP.scenario(driver, kind).brty or OP.brty_of(kind)).encode()
        raw = {("ShortFrame", 1): b, ("ShortFrame", 2): b + b" 0", ("BadChecksum", 0): b + b" zz",
               ("WrongCode", 0): b"848B 00", ("Garbled", 1): b"\xff\xfe 00", ("Garbled", 2): b + b" 00 00"}[(k, v)]
        return O.UFault(at, "raw", raw)
    if k == "NbTg":
        return O.FaultI(at, "status", v, nbtg=True)
    if k == "RegValue" and cmd == "ReadRegister" and kind.startswith("LF"):
        return O.FaultI(at, "regval", v, idx=2)           # listen_ttf polls Status1, Status2, CommIRq, DivIRq
    return sim_fault(driver, at, k, v)


def run_op(rig, kind, at, cmd, k, v):
    scn, fn = OP.prepare(rig, kind)
    rig.chip.arm(op_sim_fault(rig.driver, kind, at, cmd, k, v) if at else None)
    if rig.transport is not None:
        rig.transport.reset_log()
    o, x, val = fn() if kind in OP.CLOSE_KINDS else OP.classify(fn)
    LAST_CANCEL[0] = cancelled(rig, at)
    return o, x, OP.same(scn, o, val)


def walk_ops(driver, tier, only_kinds=None):
    """-> list of batches (one per operation kind) of events, same shape as walk()."""
    rig = D.Rig(driver, ops=True)
    batches = []
    for kind in OP.OP_KINDS:
        if only_kinds and kind not in only_kinds:
            continue
        mode = OP.mode_of(kind)
        o, x, sm = run_op(rig, kind, 0, None, None, None)
        names = list(rig.chip.log)
        ev = [dict(d=driver, k=kind, m=mode, at=0, c="-", f="None", v=0, o=o, x=x, same=sm, cancel=LAST_CANCEL[0])]
        n = len(names)
        for at in range(1, n + 1):
            for (k, v) in op_faults_for(driver, names[at - 1], tier):
                o, x, sm = run_op(rig, kind, at, names[at - 1], k, v)
                seen = rig.chip.log[at - 1] if len(rig.chip.log) >= at else "?"
                if o in ("Hang", "Internal"):
                    rig = D.Rig(driver, ops=True)      # do not trust the object's state any further
                ev.append(dict(d=driver, k=kind, m=mode, at=at, c=seen, f=k, v=v, o=o, x=x, same=sm, cancel=LAST_CANCEL[0]))
        batches.append(dict(id="%s/%s/%s" % (driver, kind, tier),
                            slice=dict(d=driver, k=kind, tier=tier, n=n, cover=True), ev=ev))
    return batches


def op_key_of(e, n):
    """driver family : driver method : host command : fault class -> outcome"""
    d = e["d"]
    fam = family(d)
    meth = OP.method_of(e["k"])
    mute = {"pn53x": 1, "rcs380": 1, "udp": 0}[fam] + (1 if d == "rcs956" else 0)
    if fam == "pn53x" and d == "rcs956" and (e["c"] in ("ResetMode", "SetParameters", "TgSetGeneralBytes")
                                             or (meth == "sense_dep" and e["at"] == 3)
                                             or (meth == "listen_dep" and 3 <= e["at"] <= 6)):
        fam = "rcs956"                                  # code of rcs956.py itself
    if 0 < e["at"] <= mute or (OP.mode_of(e["k"]) == "sense" and OP.scenario(d, e["k"]).expect == "NoTarget"
                               and e["at"] > n - mute):
        meth = "mute"                                   # before the operation / after a sense that found nothing
    f, o = e["f"], e["o"]
    out = o if o != "Internal" else e["x"]
    if o == "Hang":
        return "%s:send_command:no-answer->Hang" % fam
    if e["k"] in OP.CLOSE_KINDS:
        return "clf:%s:closed-while-waiting-for-the-lock->%s" % (meth, out)
    if f in ("CutBody", "CutBodyX") and o != "Hang":
        cut = "cut-body%s(%d)" % ("-ext" if f == "CutBodyX" else "", e["v"])
        if e["v"] < 2 and fam != "udp":
            site = {"pn53x": "Chipset.command", "rcs380": "send_command", "rcs956": "Chipset.command"}[fam]
            return "%s:%s:%s->%s" % ("acr122" if d == "acr122" else family(d), site, cut, out)
        if fam == "udp":
            return "%s:%s:%s:%s->%s" % (fam, meth, e["c"], cut, out)
        return "%s:%s:short-answer->%s" % (family(d), e["c"], out)
    if e["at"] == 0:
        if OP.scenario(d, e["k"]).expect == "Unsupported":
            return "%s:%s:unsupported-bitrate->%s" % (fam, meth, out)
        return "%s:%s:%s:no-fault->%s" % (fam, meth, e["k"], out)
    if f in ("ChipStatus", "CommStatus", "ErrorFrame"):
        what = "chip-error"
    elif f in ("RegValue", "NbTg"):
        what = "value"
    elif f == "NoAck" or (f == "AckErr" and e["v"] == 110):
        what = "ack-wait-timeout"
    elif f == "HostTimeout" or (f == "RspErr" and e["v"] == 110):
        what = "no-answer"
    elif f in ("HostIO", "HostIOW", "DeviceGone", "AddrInUse", "AckErr", "RspErr"):
        what = "host-io-error"
    elif f == "RfOff":
        what = "rf-off"
    else:
        what = "bad-frame"
    return "%s:%s:%s:%s->%s" % (fam, meth, e["c"], what, out)


# ------------------------------------------------------------------------------------------------
def family(d):
    return "rcs380" if d == "rcs380" else ("udp" if d == "udp" else "pn53x")


def key_of(e, n):
    """Canonical key of a violating case: code site + fault class + outcome, never a value or seed."""
    fam = family(e["d"])
    final = e["at"] == n
    f, o = e["f"], e["o"]
    out = o if o != "Internal" else e["x"]
    if "@" not in e["k"] and D.base_kind(e["k"]) != e["k"] and o in ("Internal", "NoData", "CommOther") and \
            (f == "None" or e["x"] in ("ValueError", "AssertionError", "OverflowError")):
        return "%s:%s:payload-length(%s)->%s" % (fam, e["m"], e["k"][2:], out)
    garble = f in ("ShortFrame", "CutTail", "BadChecksum", "Garbled")
    if o == "Hang":
        return "%s:send_command:no-answer->Hang" % fam
    if "@" in e["k"] and (f == "None" or e.get("asfree")):
        # a target variant whose exchange fails without a fault (and in the same way under any fault): the input
        # class is the activated target -- base kind @ bit rate / technology [/ class]
        return "%s:%s:target(%s):no-fault->%s" % (fam, e["m"], e["k"], out)
    if f in ("CutBody", "CutBodyX") and o != "Hang":
        cut = "cut-body%s(%d)" % ("-ext" if f == "CutBodyX" else "", e["v"])
        if e["v"] < 2 and fam != "udp":                 # nothing of the answer left: the frame decoder's business
            site = {"pn53x": "Chipset.command", "rcs380": "send_command"}[fam]
            return "%s:%s:%s->%s" % ("acr122" if e["d"] == "acr122" else fam, site, cut, out)
        # a shortened but well-formed answer: the chipset method of that host command is the site, whatever the operation
        return "%s:%s:short-answer->%s" % (fam, e["c"], out)
    if garble and o == "Internal" and e["x"] in ("IndexError", "struct.error", "binascii.Error",
                                                  "UnicodeDecodeError"):
        site = {"pn53x": "Chipset.command", "rcs380": "Frame", "udp": "recvfrom"}[fam]
        what = "truncated-frame(%d)" % e["v"] if f == "ShortFrame" and fam != "udp" else \
            {"ShortFrame": "odd-hex-datagram", "BadChecksum": "non-hex-datagram", "Garbled": "non-ascii-datagram",
             "CutTail": "cut-tail"}[f] if fam == "udp" else f
        return "%s:%s:%s->%s" % (fam, site, what, out)
    if e["k"] == "LTT3" and fam == "pn53x":
        site = "target-tt3"
    elif e["k"] == "TT1CIU" and e["at"] > 3:
        site = "initiator-tt1-ciu"
    elif e["k"] == "TT2" and final:
        site = "initiator-tt2"
    else:
        site = e["m"]
    if site in ("target", "initiator", "initiator-tt2"):
        site += ":final" if final else ":prep"
    if "@" in e["k"]:
        site = "%s:target(%s)" % (site, e["k"])
    if fam == "rcs380" and final and f == "ErrorFrame":
        what = "bad-frame"
    elif f in ("ChipStatus", "CommStatus", "ErrorFrame"):
        what = "chip-error"
    elif f == "RegValue":
        what = "reg-value@" + e["c"]
    elif f == "NoAck" or (f == "AckErr" and e["v"] == 110):
        what = "ack-wait-timeout"
    elif f == "HostTimeout" or (f == "RspErr" and e["v"] == 110):
        what = "no-answer"
    elif f in ("HostIO", "HostIOW", "DeviceGone", "AckErr", "RspErr"):
        what = "host-io-error"
    else:
        what = "bad-frame"
    return "%s:%s:%s->%s" % (fam, site, what, out)


# ------------------------------------------------------------------------------------------------
WITNESSES = ["W_Data", "W_Timeout", "W_BrokenLink", "W_Transmission", "W_Protocol", "W_IOErr", "W_NoData",
             "W_Target", "W_NoTarget", "W_Unsupported", "W_VarData", "W_VarTimeout"]


def selftest_traces(b, op=False):
    """binding self-test: one corrupted field (outcome), one corrupted command name, one dropped event."""
    out = []
    t1 = json.loads(json.dumps(b))
    t1["id"] = b["id"] + "-corrupt"
    line = None
    for i, e in enumerate(t1["ev"]):
        if op and e["f"] == "HostIO" and e["c"] == "TgInitAsTarget" and e["o"] == "IOErr":
            e["o"], e["x"], e["same"], line = "Target", "LocalTarget", True, i + 1
            break
        if not op and e["f"] == "HostIO" and e["at"] == b["slice"]["n"] and e["o"] == "IOErr":
            e["o"], e["x"], line = "Data", "bytearray", i + 1
            break
    out.append((t1, "%s#%d" % (t1["id"], line)))
    t2 = json.loads(json.dumps(b))
    t2["id"] = b["id"] + "-dropped"
    del t2["ev"][len(t2["ev"]) // 2]
    out.append((t2, t2["id"]))
    t3 = json.loads(json.dumps(b))
    t3["id"] = b["id"] + "-wrongcmd"
    t3["ev"][-1]["c"] = "GetFirmwareVersion"
    out.append((t3, t3["id"]))
    t4 = json.loads(json.dumps(b))                      # the cancel ACK after a timed-out response "forgotten"
    t4["id"] = b["id"] + "-nocancel"
    for i, e in enumerate(t4["ev"]):
        if e["f"] == "HostTimeout" and e["cancel"]:
            e["cancel"] = False
            out.append((t4, "%s#%d" % (t4["id"], i + 1)))
            break
    return out


def run(tier, seed):
    ck = check.Check(PID, tier, seed, "model_checking")
    quick = tier == "quick"
    # 1. TLC enumerates the whole product and checks the table
    cfg = "MC_DriverErr_quick.cfg" if quick else "MC_DriverErr.cfg"
    r = tlc.run("DriverErr.tla", cfg, PID, workers=8, timeout=300 if quick else 1500)
    if not r.ok:
        ck.violation("spec:DriverErr:" + ",".join(r.violated or ["deadlock"]),
                     "TLC: the Allowed table is not total / consistent: %s" % (r.error_trace or "")[:1500])
    ck.cover(states=r.distinct, transitions=r.generated)
    hit, _ = tlc.witnesses("DriverErr.tla", "MC_DriverErr_reach.cfg", PID, WITNESSES, workers=2, timeout=300)
    if set(WITNESSES) - hit:
        raise tlc.TLCError("vacuous model: witnesses not reached: %s" % sorted(set(WITNESSES) - hit))
    ck.cover(witnesses_reached=sorted(hit))

    # 2. the same product executed on the real drivers
    drivers = QUICK_DRIVERS if quick else ALL_DRIVERS
    batches = []
    for d in drivers:
        batches += walk(d, tier)
    for d in ALL_DRIVERS:                              # the operations run on every driver in both tiers
        batches += walk_ops(d, tier)
    by_id = {b["id"]: b for b in batches}
    st = selftest_traces(by_id["%s/TT4A/%s" % (drivers[0], tier)]) + \
        selftest_traces(by_id["pn532/LDEPF/%s" % tier], op=True)
    # a harness that leaves a target variant out must be noticed (the slice that lists the kinds walked)
    t5 = json.loads(json.dumps(next(b for b in batches if "kinds" in b["slice"])))
    t5["id"] += "-variant-not-walked"
    t5["slice"]["kinds"] = [k for k in t5["slice"]["kinds"] if "@" not in k or not k.startswith("DEPA@")]
    st.append((t5, t5["id"]))
    verdicts, stats = tlc.validate_traces("Trace_DriverErr.tla", "Trace_DriverErr.cfg", PID,
                                          batches + [t for t, _ in st], shards=16, timeout=900 if quick else 3000)
    for t, must in st:
        if verdicts.get(must, ("ACCEPT",))[0] != "STUCK":
            raise tlc.TLCError("binding vacuous: corrupted trace %s not rejected (%s)" % (t["id"], must))
    ncase = 0
    accepted = 0
    classes = set()
    for b in batches:
        v = verdicts[b["id"]]
        n = b["slice"]["n"]
        if v[0] != "ACCEPT":
            ev = b["ev"][v[1] - 1]
            ck.violation("binding:%s:%s:%s" % (b["slice"]["d"], b["slice"]["k"], v[3][0] if v[3] else "?"),
                         "slice %s does not match the spec's product at event %d: %s ; event=%s" % (
                             b["id"], v[1], json.dumps(v[3])[:400], json.dumps(ev)),
                         replay=dict(kind="slice", driver=b["slice"]["d"], k=b["slice"]["k"], tier=tier))
            continue
        accepted += 1
        free = b["ev"][0]
        for i, e in enumerate(b["ev"]):
            ncase += 1
            # (only used for the key) the case fails exactly as the fault-free exchange of its slice already does
            e["asfree"] = bool(i and free["o"] != "Data" and (e["o"], e["x"]) == (free["o"], free["x"]))
            classes.add((e["d"], e["m"], "final" if e["at"] == n else "prep", e["f"], e["o"]))
            pv = verdicts.get("%s#%d" % (b["id"], i + 1))
            if pv is None:
                continue
            why = pv[3]
            if why[1] == ["CancelAck"]:
                key = "%s:Chipset.command:%s:%s" % (family(e["d"]), e["f"] + ("(%d)" % e["v"] if e["v"] else ""),
                                                     "no-cancel-ack" if not e["cancel"] else "unexpected-ack-frame")
            elif e["k"] in OP.OP_KINDS:
                key = op_key_of(e, n) if why[1] == ["OutcomeAllowed"] else \
                    "target-intact:%s:%s:%s:%s" % (family(e["d"]), OP.method_of(e["k"]), e["c"], e["f"])
            else:
                key = key_of(e, n) if why[1] == ["OutcomeAllowed"] else \
                    "data-intact:%s:%s:%s" % (family(e["d"]), e["k"], e["f"])
            ck.violation(key, "%s %s: fault %s(%s) at host command %d (%s) -> %s %s ; allowed %s" % (
                e["d"], e["k"], e["f"], e["v"], e["at"], e["c"], e["o"], e["x"], sorted(why[4][1]) if len(why) > 4 else "?"),
                replay=dict(kind="case", driver=e["d"], k=e["k"], at=e["at"], f=e["f"], v=e["v"]))
    nop = sum(len(b["ev"]) for b in batches if b["slice"]["k"] in OP.OP_KINDS)
    ck.cover(operation_cases=nop, exchange_cases=sum(len(b["ev"]) for b in batches) - nop,
             operation_slices=sum(1 for b in batches if b["slice"]["k"] in OP.OP_KINDS))
    ck.cover(traces_validated_against_impl=ncase, slices_accepted=accepted, slices=len(batches),
             trace_states=stats["states"], distinct_outcome_classes=len(classes),
             binding_selftest="changed outcome, changed command name, dropped case, dropped cancel ACK and a target "
                              "variant left out all rejected")
    ck.sample(dict(slice=batches[0]["id"], first_events=batches[0]["ev"][:3]))
    ck.sample(dict(mc="DriverErr", tier=tier, distinct=r.distinct))
    ck.assume("chipsets and transports are simulated at frame level (sim/chip_*.py): USB/TTY glue of nfc.clf.transport is not executed",
              "one fault per exchange; the drivers' time module is a virtual clock",
              "exchange kinds: quick tier runs drivers %s, thorough all eight; sense()/listen() operation kinds run on all "
              "eight drivers in both tiers (quick samples status / register values / single communication status flags)" % (
                  ", ".join(QUICK_DRIVERS)),
              "operations: the remote device never retries after a fault (a silent air costs the timeout that was asked for); "
              "an InListPassiveTarget answer that reports no target keeps saying so whatever NbTg is injected",
              "sense()/listen() outcomes: Target / None / UnsupportedTargetError / IOError; a reported target must carry the "
              "documented bit rate and attributes also under a fault (TargetIntact)",
              "RC-S380 frame checksums are not verified by nfcpy (outside the C14 statement): Data accepted for BadChecksum/CutTail there",
              "exchange() returning None is accepted only in target mode (documented there), never for an initiator",
              "target variants: every exchange kind also runs with the activated target at every bit rate / technology / "
              "SEL_RES class the driver's sense_* methods accept and after a PSL switch (small fault sample at every host "
              "command); the simulated chips answer the RF exchange command only when the driver configured the bit rate, "
              "framing and modulation that target talks (otherwise the chip's RF time-out)")
    # frontend level (clf/__init__.py is an anchored file): what every public API call returns or raises when another
    # thread closes the frontend before, while or after it - schedules from the C15 machinery, judged against the
    # documented outcome set (IOError(ENODEV) once closed, never AttributeError/TypeError/...)
    from bind import c13_frontend
    c13_frontend.stage(ck, tier, seed)
    return ck.finish()


def replay(rep, args):
    r = rep["replay"]
    if r.get("kind") == "frontend-schedule":
        from bind import c13_frontend
        return c13_frontend.replay(rep)
    if r["k"] in OP.OP_KINDS and r.get("kind") == "slice":
        bs = walk_ops(r["driver"], r["tier"], only_kinds=(r["k"],))
    elif r["k"] in OP.OP_KINDS:
        rig = D.Rig(r["driver"], ops=True)
        mode = OP.mode_of(r["k"])
        o, x, sm = run_op(rig, r["k"], 0, None, None, None)
        names = list(rig.chip.log)
        ev = [dict(d=r["driver"], k=r["k"], m=mode, at=0, c="-", f="None", v=0, o=o, x=x, same=sm, cancel=LAST_CANCEL[0])]
        if r["at"]:
            o, x, sm = run_op(rig, r["k"], r["at"], names[r["at"] - 1], r["f"], r["v"])
            print("real outcome: %s %s ; host commands: %s" % (o, x, " ".join(rig.chip.log)))
            ev.append(dict(d=r["driver"], k=r["k"], m=mode, at=r["at"], c=rig.chip.log[r["at"] - 1], f=r["f"], v=r["v"],
                           o=o, x=x, same=sm, cancel=LAST_CANCEL[0]))
        else:
            print("real outcome: %s %s ; host commands: %s" % (o, x, " ".join(names)))
        bs = [dict(id="replay", slice=dict(d=r["driver"], k=r["k"], tier="thorough", n=len(names), cover=False), ev=ev)]
    elif r.get("kind") == "slice":
        bs = [b for b in walk(r["driver"], r["tier"], only_kinds=(r["k"],))]
    else:
        rig = D.Rig(r["driver"])
        mode = D.KINDS[r["k"]][0]
        o, x, val = run_case(rig, r["k"], 0, None, None)
        names = list(rig.chip.log)
        ev = [dict(d=r["driver"], k=r["k"], m=mode, at=0, c="-", f="None", v=0, o=o, x=x,
                   same=bool(o == "Data" and bytes(val) == D.expected_data(rig, r["k"])), cancel=LAST_CANCEL[0])]
        if o != "Data" and D.base_kind(r["k"]) != r["k"]:      # a failing length kind: command positions of the base kind
            rig = D.Rig(r["driver"])
            run_case(rig, D.base_kind(r["k"]), 0, None, None)
            names = list(rig.chip.log)
        if r["at"] == 0:                                        # the stored case is the fault-free exchange itself
            print("real outcome: %s %s" % (o, x))
        else:
            o, x, val = run_case(rig, r["k"], r["at"], r["f"], r["v"])
            print("real outcome: %s %s %r" % (o, x, val))
            seen = rig.chip.log[r["at"] - 1] if len(rig.chip.log) >= r["at"] else names[r["at"] - 1]
            ev.append(dict(d=r["driver"], k=r["k"], m=mode, at=r["at"], c=seen, f=r["f"], v=r["v"],
                           o=o, x=x, same=False, cancel=LAST_CANCEL[0]))
        bs = [dict(id="replay", slice=dict(d=r["driver"], k=r["k"], tier="thorough", n=len(names), cover=False), ev=ev)]
    verdicts, _ = tlc.validate_traces("Trace_DriverErr.tla", "Trace_DriverErr.cfg", PID + "_replay", bs, shards=1)
    bad = {k: v for k, v in verdicts.items() if v[0] != "ACCEPT"}
    for k, v in sorted(bad.items()):
        print("replay verdict:", k, v)
    if bad:
        print("VIOLATION property=%s replay=%s" % (PID, args.replay))
        return 1
    print("replay verdict: ACCEPT")
    return 0
