"""Two real LogicalLinkController objects back to back, without the run-loop threads (shared by C10 and C17).

Frames move by `dst.dispatch(pdu.decode(pdu.encode(src.collect())))`.  Calls that block by design
(connect / accept / resolve / close) run in helper threads; the harness waits for the observable effect
(a PDU in a queue, a thread finished), so the result does not depend on timing.
"""
import threading, time, logging, zlib, errno

import nfc.llcp
import nfc.llcp.llc as llc_mod
import nfc.llcp.tco as tco_mod
import nfc.llcp.pdu as pdu_mod
import nfc.llcp.err as err_mod

logging.getLogger("nfc").setLevel(logging.CRITICAL + 1)

DONTWAIT = nfc.llcp.MSG_DONTWAIT
RAW = llc_mod.RAW_ACCESS_POINT
LDL = nfc.llcp.LOGICAL_DATA_LINK
DLC = nfc.llcp.DATA_LINK_CONNECTION


class HarnessError(RuntimeError):
    pass


def wait_for(cond, what="condition", t=10.0):
    t0 = time.time()
    while not cond():
        if time.time() - t0 > t:
            raise HarnessError("timeout waiting for " + what)
        time.sleep(0.0003)


class Call(object):
    """A blocking library call in a helper thread; .done / .value / .error once it returned."""

    def __init__(self, fn, *args):
        self.value, self.error, self.done = None, None, False

        def body():
            try:
                self.value = fn(*args)
            except BaseException as e:       # the harness reports it
                self.error = e
            self.done = True
        self.t = threading.Thread(target=body, daemon=True)
        self.t.start()

    def join(self, t=10.0):
        self.t.join(t)
        if self.t.is_alive():
            raise HarnessError("helper thread did not finish")
        return self


def make_pair(miu_a, miu_b, agf_a=True, agf_b=True):
    """A and B as activate() leaves them: each one's send-miu is the other's recv-miu."""
    A = llc_mod.LogicalLinkController(miu=miu_a, agf=agf_a, sec=False)
    B = llc_mod.LogicalLinkController(miu=miu_b, agf=agf_b, sec=False)
    A.cfg["send-miu"], B.cfg["send-miu"] = miu_b, miu_a
    A.cfg["llcp-dpc"] = B.cfg["llcp-dpc"] = 0
    A.link.ESTABLISHED = True
    B.link.ESTABLISHED = True
    return A, B


def xfer(src, dst):
    """One frame src -> dst (None = SYMM).  Returns the collected PDU."""
    f = src.collect()
    if f is not None:
        dst.dispatch(pdu_mod.decode(pdu_mod.encode(f)))
    return f


def settle(A, B, rounds=6):
    """Exchange frames both ways until both sides are silent."""
    for _ in range(rounds * 4):
        a = xfer(A, B)
        b = xfer(B, A)
        if a is None and b is None:
            return
    raise HarnessError("link does not settle")


def crc(b):
    return zlib.crc32(bytes(b)) & 0x3FFFFFFF


def errname(ex):
    return errno.errorcode.get(ex.errno, "E%s" % ex.errno)
