"""Stand-alone reproductions (no TLC) of the nfcpy defects found by C01/C02/C03 on Type 1 / Type 2 tags.

  cd /verif && /venv/bin/python -m bind.repro_tags12 empty      # C01  tag.ndef.octets = b'' raises UnboundLocalError
  cd /verif && /venv/bin/python -m bind.repro_tags12 straddle   # C02  power cut leaves FF + stale length bytes (Type 2; `straddle1`: Topaz-512)
  cd /verif && /venv/bin/python -m bind.repro_tags12 format     # C03  Type2Tag.format() writes FE onto a lock byte
Exit code 1 = defect reproduced, 0 = not reproduced.  NFCPY_SRC selects the tree (default /repo/src).
"""
import sys
import vlib
vlib.use_repo()
import nfc.tag
from bind.tags12 import activate
from sim.tlvtags import SimT2T, SimT1T


def t2(pad, old, area=0x3E, extra=16):
    mem = bytearray(16 + area * 8 + extra)
    mem[0:10] = bytes([8, 1, 2, 0x8B, 3, 4, 5, 6, 4, 0x48])
    mem[12:16] = bytes([0xE1, 0x10, area, 0])
    body = [0] * pad + [3, len(old)] + list(old) + [0xFE]
    body = body[:area * 8]                  # the terminator TLV is optional: none if the area is full
    mem[16:16 + len(body)] = bytes(body)
    return SimT2T(mem, oneway=[16 + area * 8, 16 + area * 8 + 1])


def empty():
    bad = 0
    sim = t2(0, b"hello")
    tag = activate(sim)
    try:
        tag.ndef.octets = b""
        print("Type2Tag: empty message written, fresh reader:", activate(sim).ndef.octets)
    except UnboundLocalError as e:
        print("Type2Tag: tag.ndef.octets = b'' ->", repr(e))
        bad = 1
    mem = bytearray(120)
    mem[0:8] = bytes([0x11, 0x22, 0x33, 0x44, 0x55, 0x66, 0x77, 0])
    mem[8:18] = bytes([0xE1, 0x10, 0x0E, 0, 3, 3, 1, 2, 3, 0xFE])
    s1 = SimT1T(mem, 0x11, 0x48)
    tag = activate(s1)
    try:
        tag.ndef.octets = b""
        print("Type1Tag: empty message written, fresh reader:", activate(s1).ndef.octets)
    except UnboundLocalError as e:
        print("Type1Tag: tag.ndef.octets = b'' ->", repr(e))
        bad = 1
    return bad


def straddle():
    # NDEF TLV at offset 18 (two NULL TLVs): FF lands in page 4, the two length bytes in page 5
    old = bytes([0x00, 0x10]) + b"OLD-MESSAGE-OLD-MESSAGE"
    new = bytes((0x41 + i % 26) for i in range(300))
    probe = t2(2, old)
    activate(probe).ndef.octets = new
    total = len(probe.log)
    bad = 0
    for k in range(total + 1):
        sim = t2(2, old)
        tag = activate(sim)
        ndef = tag.ndef
        sim.cut_after = k
        try:
            ndef.octets = new
        except nfc.tag.TagCommandError:
            pass
        sim.power_cycle()
        nd = activate(sim).ndef
        seen = None if nd is None else nd.octets
        if seen not in (None, b"", old, new):
            print("cut after write command %d of %d: fresh reader sees %d bytes %r... (neither old nor new)"
                  % (k, total, len(seen), seen[:12]))
            bad = 1
    if not bad:
        print("every cut point leaves old / empty / new (%d commands)" % total)
    return bad


def straddle1():
    # canonical Topaz-512 layout (what Topaz512.format() creates): NDEF TLV at offset 22, FF in block 2, length in block 3
    def mk():
        mem = bytearray(512)
        mem[0:8] = bytes([0x11, 0x22, 0x33, 0x44, 0x55, 0x66, 0x77, 0])
        mem[8:24] = bytearray.fromhex("E1103F000103F230330203F002030312")
        mem[24:24 + 18] = bytes([0x00, 0x10]) + b"OLD-MESSAGE-OLD-"
        mem[42] = 0xFE
        return SimT1T(mem, 0x12, 0x4C)
    old = bytes(mk().mem[24:42])
    new = bytes((0x41 + i % 26) for i in range(300))
    probe = mk()
    activate(probe).ndef.octets = new
    total = len(probe.log)
    bad = 0
    for k in range(total + 1):
        sim = mk()
        ndef = activate(sim).ndef
        sim.cut_after = k
        try:
            ndef.octets = new
        except nfc.tag.TagCommandError:
            pass
        sim.power_cycle()
        nd = activate(sim).ndef
        seen = None if nd is None else nd.octets
        if seen not in (None, b"", old, new):
            print("Topaz512: cut after write command %d of %d: fresh reader sees %d bytes %r... (neither old nor new)"
                  % (k, total, len(seen), seen[:12]))
            bad = 1
    return bad


def fmt():
    # NDEF TLV in the last two bytes of the data area; the byte behind the area is a dynamic lock byte
    area = 12
    sim = t2(area * 8 - 2, b"", area=area)
    end = 16 + area * 8
    before = bytes(sim.mem)
    tag = activate(sim)
    assert tag.ndef is not None and tag.ndef.capacity == 0
    tag.format()
    diff = [(a, before[a], sim.mem[a]) for a in range(len(before)) if before[a] != sim.mem[a]]
    print("data area is 16..%d; format() changed (addr, old, new): %s" % (end - 1, diff))
    return 1 if any(a >= end for a, _, _ in diff) else 0


if __name__ == "__main__":
    sys.exit(dict(empty=empty, straddle=straddle, straddle1=straddle1, format=fmt)[sys.argv[1]]())
