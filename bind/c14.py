"""C14 -- host-link frames and ISO 14443 CRCs are built and checked correctly.

Specs: spec/HostFrame.tla, spec/Crc14443.tla (constant-level reference operators); MC_HostFrame.tla is
the one exhaustive run (positional validator = parser automaton on all short frames over a small
alphabet and all single-byte / truncation / extension / DCS+postamble corruptions of template frames;
the same frames go through NfcpyPn53x, the model of Chipset.command as written, and every disagreement
is printed as a prediction that is replayed on the real code below).
Binding (Trace_HostFrame.tla evaluates every recorded case):
  cmd   frames written by the real chipset classes to a recording transport = Spec frame
  rsp   Chipset.command() on valid frames, every single-bit flip, every truncation, extensions,
        multi-byte substitutions, DCS/postamble pairs, and TLC's predicted discrepancies
  crc   calculate_crc/add_crc_a/add_crc_b/check_crc_a/check_crc_b = CrcA/CrcB
  tt2   the drivers' Type 2 Tag CRC_A check through ContactlessFrontend.exchange()
"""
import json
import random

from vlib import tlc, check, tlaval
from bind import c13_drivers as D
from sim import chip_pn53x as P
from sim import chip_crc as CRC
from bind import c14_transport as TR

import nfc.clf
import nfc.clf.device
import nfc.clf.pn53x
import nfc.clf.rcs380

PID = "C14"
CODE = 0x42


def pattern(p, n):
    if p == 0:
        return bytes(n)
    if p == 1:
        return bytes(((i * 7 + 3) % 256) for i in range(1, n + 1))
    if p == 2:
        return b"\xff" * n
    return bytes(((i * i + p) % 256) for i in range(1, n + 1))


# ---------------------------------------------------------------------------------------------------
# cmd: command frames
CMD_DRIVERS = (("pn531", "pn53x"), ("pn532", "pn53x"), ("pn533", "pn53x"), ("rcs956", "pn53x"),
               ("arygon", "arygon"), ("acr122", "acr122"), ("rcs380", "rcs380"))


def cmd_cases(driver, fam, tier, rnd):
    rig = D.Rig(driver)
    cs = rig.chipset
    codes = sorted(cs.CMD)
    if fam == "rcs380":
        nmax = 300
    else:
        nmax = cs.host_command_frame_max_size - 2
    dense = set([0, 1, 2, 3] + list(range(248, 262)) + [nmax - 2, nmax - 1, nmax])
    ev = []
    for n in range(nmax + 1):
        if tier == "quick" and n not in dense:
            combos = [(codes[n % len(codes)], n % 3)]
        elif n in dense:
            combos = [(c, p) for c in (codes[n % len(codes)], codes[(n * 7 + 1) % len(codes)], 0x42 if 0x42 in codes else codes[0], codes[-1])
                      for p in (0, 1, 2)]
        else:
            combos = [(codes[(n + k * 5) % len(codes)], p) for k, p in enumerate((0, 1, 2))]
        for code, p in combos:
            data = pattern(p, n)
            rig.chip.arm(None)
            rig.transport.reset_log()
            try:
                if fam == "rcs380":
                    cs.send_command(code, data)
                else:
                    cs.command(code, bytearray(data), 0.1)
            except (Exception, P.SimHang):
                pass                          # only the written frame matters here (w = [] if nothing was written)
            w = rig.transport.written
            ev.append(dict(code=code, pat=p, n=n, w=list(w[0]) if w else [], nw=len(w)))
    return dict(id="cmd/%s/%s" % (driver, tier), kind="cmd", const=dict(drv=fam, driver=driver), ev=ev)


# ---------------------------------------------------------------------------------------------------
# rsp: response frames
def rsp_templates(fam, tier):
    code1 = CODE + 1
    if fam == "acr122":
        mk = lambda pd: P.ccid_rsp(bytes([0xD5, code1]) + bytes(pd) + b"\x90\x00")
        return [("min", mk(b"")), ("short", mk(b"\x00\x01\x02\x03\x04")), ("long", mk(bytes(range(200))))]
    mk = lambda pd: P.info_frame(bytes([0xD5, code1]) + bytes(pd))
    mkx = lambda pd: P.ext_frame(bytes([0xD5, code1]) + bytes(pd))
    t = [("min", mk(b"")), ("short", mk(b"\x00\x01\x02\x03\x04")), ("len255", mk(pattern(1, 253))),
         ("ext", mkx(pattern(1, 262))), ("extshort", mkx(b"\x00\x11\x22")), ("err", P.ERR)]
    return t


def classify_cmd(fn):
    try:
        r = fn()
    except nfc.clf.pn53x.Chipset.Error:
        return "ChipError", "Chipset.Error", None
    except IOError as e:
        return "IOError", "errno%s" % e.errno, None
    except Exception as e:
        return type(e).__module__.replace("builtins", "").strip(".") + ("." if type(e).__module__ != "builtins" else "") \
            + type(e).__qualname__, type(e).__qualname__, None
    if r is None:
        return "None", "None", None
    return "Data", type(r).__name__, bytes(r)


def corruptions(tpl, full, tier, rnd):
    n = len(tpl)
    out = [("none", 0, 0, [])]
    if full:
        out += [("flip", b, 0, []) for b in range(8 * n)]
        out += [("cut", k, 0, []) for k in range(0, n)]
    else:
        out += [("flip", b, 0, []) for b in range(0, 8 * n, 5)]
        out += [("cut", k, 0, []) for k in sorted(set(list(range(0, min(n, 12))) + [n - 2, n - 1]))]
    for k in (1, 2, 3):
        for _ in range(3 if tier == "quick" else 10):
            out.append(("ext", 0, 0, [rnd.randrange(256) for _ in range(k)]))
        out.append(("ext", 0, 0, [0] * k))
    nsub = (40 if tier == "quick" else 400) if full else 10
    for _ in range(nsub):
        k = rnd.choice((2, 2, 3, 4, 6))
        pos = rnd.sample(range(1, n + 1), min(k, n))
        xs = []
        for p_ in pos:
            xs += [p_, rnd.randrange(256)]
        out.append(("subst", 0, 0, xs))
    if full:
        dcs, post = tpl[-2], tpl[-1]
        ks = range(1, 256) if tier != "quick" else list(range(1, 256, 9)) + [255]
        out += [("tail", (dcs + k) & 255, (post - k) & 255, []) for k in ks]       # compensating pairs
        out += [("tail", rnd.randrange(256), rnd.randrange(256), []) for _ in range(30)]
    return out


def apply_corruption(tpl, ck, a, b, xs):
    t = bytearray(tpl)
    if ck == "none":
        return bytes(t)
    if ck == "flip":
        t[a // 8] ^= 1 << (a % 8)
        return bytes(t)
    if ck == "cut":
        return bytes(t[:a])
    if ck == "ext":
        return bytes(t) + bytes(xs)
    if ck == "tail":
        t[-2], t[-1] = a, b
        return bytes(t)
    if ck == "subst":
        seen = set()
        for i in range(0, len(xs), 2):
            if xs[i] not in seen:          # positions are unique by construction (rnd.sample)
                t[xs[i] - 1] = xs[i + 1]
                seen.add(xs[i])
        return bytes(t)
    if ck == "raw":
        return bytes(xs)
    raise ValueError(ck)


def feed_response(rig, fam, code, frame):
    """Chipset.command(code) with `frame` as the chip's response -> (out, x, data)."""
    rig.chip.arm(P.Fault(1, "raw", frame))
    return classify_cmd(lambda: rig.chipset.command(code, bytearray(b""), 0.1))


def rsp_cases(driver, fam, tier, rnd, full):
    rig = D.Rig(driver)
    batches = []
    for name, tpl in rsp_templates(fam, tier):
        ev = []
        for ck, a, b, xs in corruptions(tpl, full, tier, rnd):
            frame = apply_corruption(tpl, ck, a, b, xs)
            if len(frame) == 0:
                continue                      # a zero length transfer never reaches the driver (transport error)
            out, x, data = feed_response(rig, fam, CODE, frame)
            ev.append(dict(ck=ck, a=a, b=b, xs=xs, n=len(frame), s=sum(frame), out=out, x=x,
                           dn=len(data) if data is not None else 0, ds=sum(data) if data is not None else 0))
        batches.append(dict(id="rsp/%s/%s/%s" % (driver, name, tier), kind="rsp",
                            const=dict(drv=fam, driver=driver, code=CODE, tpl=list(tpl), name=name), ev=ev))
    return batches


class TtyRig(object):
    """pn532.Chipset on the real nfc.clf.transport.TTY over a simulated serial byte stream."""

    def __init__(self):
        import logging
        import nfc.clf.transport
        import nfc.clf.pn532
        base = D.Rig("pn531")                      # virtual clock, quiet logging
        self.chip = P.SimPn53x("pn532")
        self.ser = P.ByteSerial(self.chip, base.clock)
        tty = nfc.clf.transport.TTY.__new__(nfc.clf.transport.TTY)
        tty.tty = self.ser
        self.got = got = []
        orig = tty.read

        def rec(timeout):
            f = orig(timeout)
            got.append(bytes(f))
            return f
        tty.read = rec
        self.chipset = nfc.clf.pn532.Chipset(tty, logging.getLogger("nfc.clf.pn532"))

    def feed(self, code, frame):
        """-> (out, x, data, the frame TTY.read handed to the chipset (or the stream if it never returned))"""
        del self.got[:]
        self.chip.arm(P.Fault(1, "raw", frame))
        out, x, data = classify_cmd(lambda: self.chipset.command(code, bytearray(b""), 0.1))
        return out, x, data, (self.got[1] if len(self.got) > 1 else bytes(frame))


def tty_cases(tier, rnd):
    """The same corrupted responses delivered as a byte stream through the real nfc.clf.transport.TTY.read
    (PN532 on a serial line): the frame judged by the reference is what TTY.read handed to the chipset."""
    rig = TtyRig()
    batches = []
    for name, tpl in rsp_templates("pn53x", tier):
        full = name in ("min", "short", "extshort", "err") or tier != "quick"
        ev = []
        for ck, a, b, xs in corruptions(tpl, full, tier, rnd):
            if ck == "tail" and not (a + b) % 3 == 0:
                continue
            frame = apply_corruption(tpl, ck, a, b, xs)
            out, x, data, seen = rig.feed(CODE, frame)
            ev.append(dict(ck="raw", a=0, b=0, xs=list(seen), n=len(seen), s=sum(seen), out=out, x=x,
                           dn=len(data) if data is not None else 0, ds=sum(data) if data is not None else 0,
                           how=ck, sent=len(frame)))
        batches.append(dict(id="rsp/pn532tty/%s/%s" % (name, tier), kind="rsp",
                            const=dict(drv="pn53x", driver="pn532tty", code=CODE, tpl=[0], name=name), ev=ev))
    return batches


def disc_cases(frames, tier):
    """TLC's predicted discrepancies replayed on the real pn53x Chipset.command (pn533 class)."""
    rig = D.Rig("pn533")
    ev = []
    for pred, f in frames:
        out, x, data = feed_response(rig, "pn53x", 66, bytes(f))
        ev.append(dict(ck="raw", a=0, b=0, xs=list(f), n=len(f), s=sum(f), out=out, x=x,
                       dn=len(data) if data is not None else 0, ds=sum(data) if data is not None else 0, pred=pred))
    return dict(id="rsp/pn533/predicted/%s" % tier, kind="rsp",
                const=dict(drv="pn53x", driver="pn533", code=66, tpl=[0], name="predicted"), ev=ev)


# ---------------------------------------------------------------------------------------------------
# crc
Dev = nfc.clf.device.Device


def crc_int(extended, n):
    return extended[n] | extended[n + 1] << 8


def crc_case(fn, m):
    m = bytearray(m)
    if fn == "calcA":
        r = nfc.clf.device.calculate_crc(m, len(m), 0x6363)
    elif fn == "calcB":
        r = nfc.clf.device.calculate_crc(m, len(m), 0xFFFF)
    elif fn == "addA":
        x = Dev.add_crc_a(m)
        r = crc_int(x, len(m)) if x[:len(m)] == m and len(x) == len(m) + 2 else -1
    elif fn == "addB":
        x = Dev.add_crc_b(m)
        r = crc_int(x, len(m)) if x[:len(m)] == m and len(x) == len(m) + 2 else -1
    elif fn == "chkA":
        r = int(bool(Dev.check_crc_a(m)))
    else:
        r = int(bool(Dev.check_crc_b(m)))
    return dict(fn=fn, m=list(m), r=r)


def tab_row(fn, p):
    add = Dev.add_crc_a if fn == "A" else Dev.add_crc_b
    return dict(p=list(p), r=[crc_int(add(bytearray(list(p) + [j])), len(p) + 1) for j in range(256)])


def crc_batches(tier, rnd):
    out = []
    for fn, add in (("A", Dev.add_crc_a), ("B", Dev.add_crc_b)):
        ev = [tab_row(fn, [])] + [tab_row(fn, [b]) for b in range(256)]
        out.append(dict(id="crctab/%s/le2" % fn, kind="crctab", const=dict(fn=fn), ev=ev))
        if tier != "quick":
            ev = []
            for b1 in range(256):
                for b2 in range((b1 * 5) % 16, 256, 16):         # all 3-byte messages, first two bytes sampled 1:16
                    ev.append(tab_row(fn, [b1, b2]))
            for k in range(0, len(ev), 256):
                out.append(dict(id="crctab/%s/3/%d" % (fn, k), kind="crctab", const=dict(fn=fn), ev=ev[k:k + 256]))
    ev = []

    def one(fn, m):
        ev.append(crc_case(fn, m))

    for fn in ("calcA", "calcB", "addA", "addB"):
        one(fn, b"")
    nrand = 600 if tier == "quick" else 25000
    for i in range(nrand):
        n = rnd.choice((3, 4, 5, 8, 16, 18, 33, 64, rnd.randint(3, 300), rnd.randint(3, 300)))
        m = bytes(rnd.randrange(256) for _ in range(n))
        fn = ("addA", "addB", "calcA", "calcB")[i % 4]
        one(fn, m)
        good = m + (CRC.crc_a_bytes(m) if i % 2 == 0 else CRC.crc_b_bytes(m))
        chk = "chkA" if i % 2 == 0 else "chkB"
        one(chk, good)
        bad = bytearray(good)
        bad[rnd.randrange(len(bad))] ^= 1 << rnd.randrange(8)
        one(chk, bad)
    # every single-bit flip of two checked messages, and the check on short inputs
    for chk, crc in (("chkA", CRC.crc_a_bytes), ("chkB", CRC.crc_b_bytes)):
        m = bytes(range(16))
        good = m + crc(m)
        for b in range(8 * len(good)):
            bad = bytearray(good)
            bad[b // 8] ^= 1 << (b % 8)
            one(chk, bad)
        step = 31 if tier == "quick" else 1
        for v in range(0, 65536, step):
            one(chk, bytes([v & 255, v >> 8]))
        c0 = crc(b"")
        one(chk, c0)
    for k in range(0, len(ev), 2000):
        out.append(dict(id="crc/%s/%d" % (tier, k), kind="crc", const=dict(fn="-"), ev=ev[k:k + 2000]))
    return out


# ---------------------------------------------------------------------------------------------------
# tt2: the Type 2 Tag CRC check inside the drivers
TT2_DRIVERS = ("pn531", "pn532", "pn533", "rcs956", "acr122", "arygon", "rcs380")


def tt2_batches(tier):
    out = []
    tpls = [("read", bytes(range(16))), ("one", b"\x5a"), ("ack", None), ("two", None), ("three", b"\x00\x00")]
    for drv in (TT2_DRIVERS if tier != "quick" else ("pn532", "pn533", "acr122", "rcs380")):
        rig = D.Rig(drv)
        for name, m in tpls:
            if name == "ack":
                rf = b"\x0a"
            elif name == "two":
                rf = b"\x0a\x05"
            else:
                rf = m + CRC.crc_a_bytes(m)
            ev = []
            for bit in range(-1, 8 * len(rf)):
                x = bytearray(rf)
                if bit >= 0:
                    x[bit // 8] ^= 1 << (bit % 8)
                send, tmo = D.prepare(rig, "TT2")
                rig.chip.rf_rsp = bytes(x)
                rig.chip.arm(None)
                o, xt, val = D.classify(lambda: rig.clf.exchange(send, tmo))
                ev.append(dict(bit=bit, out=o, x=xt, dn=len(val) if o == "Data" else 0, ds=sum(val) if o == "Data" else 0))
            out.append(dict(id="tt2/%s/%s" % (drv, name), kind="tt2", const=dict(rf=list(rf), driver=drv), ev=ev))
    return out


# ---------------------------------------------------------------------------------------------------
# tt2x: who checks CRC_A?  Every SEL_RES class of a Type A target, the chip's RxCRCEn / check_crc modelled
PN53X_FAMILY = ("pn531", "pn532", "pn533", "rcs956", "acr122", "arygon")
SEL_VALUES = [v for v in range(256) if v & 0x60 == 0] + [0x20, 0x40, 0x60]
AIR_DATA = bytes((7 * i + 3) & 255 for i in range(16))


class CountingCheck(object):
    """counts the driver's own check_crc_a calls (instance attribute in front of the static method)"""

    def __init__(self, dev):
        self.n = 0
        self.orig = type(dev).check_crc_a
        dev.check_crc_a = self

    def __call__(self, data):
        self.n += 1
        return self.orig(data)


def tt2x_case(rig, cnt, sel, bit):
    """One exchange with a Type A target of the given SEL_RES: target obtained by the driver's own
    sense_tta (PN53x family: this is where RxCRCEn gets switched off) -> event."""
    air = bytearray(AIR_DATA + CRC.crc_a_bytes(AIR_DATA))
    if bit >= 0:
        air[bit // 8] ^= 1 << (bit % 8)
    chip = rig.chip
    if rig.driver == "rcs380":
        rig.clf.target = nfc.clf.RemoteTarget("106A", sens_res=bytearray(b"\x44\x00"), sel_res=bytearray([sel]),
                                              sdd_res=bytearray(D.UID))
    else:
        chip.rf_rsp, chip.air = b"", None
        chip.tag = dict(sens_res=b"\x00\x44", sel_res=bytes([sel]), uid=D.UID)
        chip.arm(None)
        tgt = rig.clf.sense(nfc.clf.RemoteTarget("106A"), iterations=1)
        if tgt is None or tgt.sel_res != bytearray([sel]):
            raise RuntimeError("sense_tta did not return the simulated target: %r" % (tgt,))
    chip.air = bytes(air)
    chip.arm(None)
    chip.chip_checked_crc = 0
    cnt.n = 0
    o, xt, val = D.classify(lambda: rig.clf.exchange(b"\x30\x00", 0.1))
    chip.air = None
    return dict(sel=sel, bit=bit, chip=min(chip.chip_checked_crc, 2), drv=min(cnt.n, 2), out=o, x=xt,
                dn=len(val) if o == "Data" else 0, ds=sum(val) if o == "Data" else 0)


def tt2x_batches(tier):
    out = []
    air = AIR_DATA + CRC.crc_a_bytes(AIR_DATA)
    step = 5 if tier == "quick" else 1
    for drv in PN53X_FAMILY + ("rcs380",):
        rig = D.Rig(drv)
        cnt = CountingCheck(rig.device)
        ev = []
        for sel in SEL_VALUES:
            for bit in [-1] + list(range(sel % step, 8 * len(air), step)):
                ev.append(tt2x_case(rig, cnt, sel, bit))
        for k in range(0, len(ev), 2500):
            out.append(dict(id="tt2x/%s/%s/%d" % (drv, tier, k), kind="tt2x", const=dict(rf=list(air), driver=drv),
                            ev=ev[k:k + 2500]))
    return out


def sel_class(sel):
    if sel == 0:
        return "00"
    if sel & 0x60 == 0:
        return "b7b6=00,not-00"
    return "%02X" % (sel & 0x60)


# ---------------------------------------------------------------------------------------------------
def rsp_key(b, e, why):
    """canonical key of a response-validation violation"""
    fam = b["const"]["drv"]
    site = "acr122.command" if fam == "acr122" else "pn53x.Chipset.command"
    clause = why[1][0]
    f = apply_corruption(bytes(b["const"]["tpl"]), e["ck"], e["a"], e["b"], e["xs"])
    ext = f[:5] == b"\x00\x00\xff\xff\xff"
    if clause == "NoOtherException" and b["const"]["driver"] == "pn532tty" and len(f) < (7 if ext else 4):
        return "transport.TTY.read:short-read-%s(len<%d)->%s" % ("extended" if ext else "normal", 7 if ext else 4, e["out"])
    if clause == "NoOtherException":
        return "%s:truncated-%s-frame(len<%d)->%s" % (site, "extended" if ext else "normal", 7 if ext else 4, e["out"])
    if clause in ("AcceptedImpliesValid", "ChipErrorOnlyForErrorFrame"):
        hdr = 8 if ext else 5
        body_ok = len(f) >= hdr + 2 and f[-1] != 0 and sum(f[hdr:]) % 256 == 0
        if body_ok:
            return "%s:dcs-postamble-compensation->accepted" % site
        return "%s:%s:%s:accepted-invalid" % (site, e["ck"], b["const"]["name"])
    return "%s:%s:%s:%s" % (site, clause, e["ck"], b["const"]["name"])


def run(tier, seed):
    ck = check.Check(PID, tier, seed, "exploration")
    quick = tier == "quick"
    rnd = random.Random(seed)
    # 1. exhaustive: two definitions of the response format agree; predictions for the code model
    r = tlc.run("MC_HostFrame.tla", "MC_HostFrame.cfg" if quick else "MC_HostFrame_thorough.cfg", PID,
                workers=16, timeout=400 if quick else 1800)
    if not r.ok:
        ck.violation("spec:HostFrame:" + ",".join(r.violated or ["deadlock"]),
                     "the two reference definitions of a valid PN53x response disagree: %s" % (r.error_trace or "")[:1500])
    preds = {}
    for v in tlaval.extract_tuples(r.out):
        if isinstance(v, list) and len(v) == 3 and v[0] == "DISC":
            preds[tuple(v[2])] = v[1]
    hit, _ = tlc.witnesses("MC_HostFrame.tla", "MC_HostFrame_reach.cfg", PID, ["W_Valid", "W_ValidExt", "W_Rejected"],
                           workers=4, timeout=300)
    if len(hit) != 3:
        raise tlc.TLCError("vacuous model: witnesses not reached: %s" % sorted({"W_Valid", "W_ValidExt", "W_Rejected"} - hit))
    ck.cover(mc_states=r.distinct, mc_transitions=r.generated, predicted_discrepancies=len(preds),
             witnesses_reached=sorted(hit))

    # 1b. the byte-stream layer below the frames: the real transport.USB / transport.TTY on fake usb1 / serial backends
    #     (spec/Transport.tla exhaustively, recorded executions against spec/Trace_Transport.tla)
    TR.stage(ck, tier, seed)

    # 2. recorded cases
    batches = []
    for drv, fam in CMD_DRIVERS:
        batches.append(cmd_cases(drv, fam, tier, rnd))
    for drv, fam, full in (("pn533", "pn53x", True), ("acr122", "acr122", True), ("pn531", "pn53x", False),
                           ("pn532", "pn53x", False), ("rcs956", "pn53x", False), ("arygon", "pn53x", False)):
        batches += rsp_cases(drv, fam, tier, rnd, full)
    pl = sorted(preds.items())
    if quick:
        pl = pl[::4] + [p for p in pl if p[1] != "Data"]
        pl = sorted(set(pl))
    batches.append(disc_cases([(p, list(f)) for f, p in pl], tier))
    batches += tty_cases(tier, rnd)
    batches += crc_batches(tier, rnd)
    batches += tt2_batches(tier)
    batches += tt2x_batches(tier)

    # binding self-test: one corrupted field per kind of batch, one dropped byte
    st = []
    b0 = json.loads(json.dumps(batches[0]))
    b0["id"] += "-corrupt"
    b0["ev"] = b0["ev"][:3]
    b0["ev"][1]["w"][-2] ^= 1
    st.append((b0, b0["id"] + "#2"))
    b1 = json.loads(json.dumps(batches[0]))
    b1["id"] += "-dropped"
    b1["ev"] = b1["ev"][:3]
    del b1["ev"][2]["w"][5]
    st.append((b1, b1["id"] + "#3"))
    bc = json.loads(json.dumps([b for b in batches if b["kind"] == "crc"][0]))
    bc["id"] += "-corrupt"
    bc["ev"] = bc["ev"][:6]
    bc["ev"][4]["r"] ^= 0x10
    st.append((bc, bc["id"] + "#5"))
    br = json.loads(json.dumps([b for b in batches if b["kind"] == "rsp"][0]))
    br["id"] += "-corrupt"
    br["ev"] = br["ev"][:4]
    br["ev"][2]["out"], br["ev"][2]["dn"], br["ev"][2]["ds"] = "Data", 0, 0       # a flipped frame claimed accepted
    st.append((br, br["id"] + "#3"))

    bx = json.loads(json.dumps([b for b in batches if b["kind"] == "tt2x"][0]))
    bx["id"] += "-corrupt"
    bx["ev"] = bx["ev"][:2]
    bx["ev"][0]["drv"] = 0                                                        # nobody checked the accepted frame
    st.append((bx, bx["id"] + "#1"))

    verdicts, stats = tlc.validate_traces("Trace_HostFrame.tla", "Trace_HostFrame.cfg", PID,
                                          batches + [t for t, _ in st], shards=16, timeout=900 if quick else 3000)
    for t, must in st:
        if verdicts.get(must, ("ACCEPT",))[0] != "STUCK":
            raise tlc.TLCError("binding vacuous: corrupted case %s not rejected" % must)
    neval = 0
    classes = set()
    for b in batches:
        if verdicts[b["id"]][0] != "ACCEPT":
            raise tlc.TLCError("batch %s not evaluated completely: %s" % (b["id"], verdicts[b["id"]]))
        for i, e in enumerate(b["ev"]):
            neval += 1
            pv = verdicts.get("%s#%d" % (b["id"], i + 1))
            if b["kind"] == "rsp":
                classes.add((b["const"]["driver"], b["const"]["name"], e["ck"], e["out"], "viol" if pv else "ok"))
            elif b["kind"] == "cmd":
                classes.add((b["const"]["driver"], "cmd", "ext" if e["n"] + 2 > 255 else "std", e["pat"]))
            elif b["kind"] == "tt2":
                classes.add((b["const"]["driver"], "tt2", b["id"].split("/")[-1], e["out"]))
            elif b["kind"] == "tt2x":
                classes.add((b["const"]["driver"], "tt2x", sel_class(e["sel"]), e["chip"], e["drv"], e["out"]))
            else:
                classes.add((b["kind"], e.get("fn", b["const"].get("fn")), "viol" if pv else "ok"))
            if pv is None:
                continue
            why = pv[3]
            if why[0] == "harness":
                raise tlc.TLCError("harness and spec built different frames: %s line %d %s" % (b["id"], i + 1, why))
            if b["kind"] == "rsp":
                key = rsp_key(b, e, why)
                frame = apply_corruption(bytes(b["const"]["tpl"]), e["ck"], e["a"], e["b"], e["xs"])
                what = "%s.command(%02X): response %s (%s of template %s) -> %s %s ; clause %s" % (
                    b["const"]["driver"], b["const"]["code"], frame[:24].hex() + (".." if len(frame) > 24 else ""),
                    e["ck"], b["const"]["name"], e["out"], e["x"], why[1][0])
                rep = dict(kind="rsp", driver=b["const"]["driver"], fam=b["const"]["drv"], code=b["const"]["code"],
                           frame=list(frame))
            elif b["kind"] == "cmd":
                key = "%s:command-frame:%s:len=%d" % (b["const"]["driver"], "ext" if e["n"] + 2 > 255 else "std", e["n"])
                what = "%s command %02X with %d data bytes (pattern %d) wrote %s.." % (
                    b["const"]["driver"], e["code"], e["n"], e["pat"], bytes(e["w"][:16]).hex())
                rep = dict(kind="cmd", driver=b["const"]["driver"], fam=b["const"]["drv"], code=e["code"], pat=e["pat"], n=e["n"])
            elif b["kind"] == "tt2":
                key = "%s:tt2-crc:%s" % ("rcs380" if b["const"]["driver"] == "rcs380" else "pn53x", why[1][0])
                what = "%s Type 2 Tag answer %s with bit %d flipped -> %s" % (
                    b["const"]["driver"], bytes(b["const"]["rf"]).hex(), e["bit"], e["out"])
                rep = dict(kind="tt2", driver=b["const"]["driver"], rf=b["const"]["rf"], bit=e["bit"])
            elif b["kind"] == "tt2x":
                fam = "rcs380" if b["const"]["driver"] == "rcs380" else "pn53x"
                key = "%s:type-a-crc-ownership:%s:sel_res=%s" % (fam, why[1][0], sel_class(e["sel"]))
                what = "%s Type A target SEL_RES %02Xh, answer with bit %d flipped: chip checked CRC_A %d x, driver %d x -> %s (%d bytes)" % (
                    b["const"]["driver"], e["sel"], e["bit"], e["chip"], e["drv"], e["out"], e["dn"])
                rep = dict(kind="tt2x", driver=b["const"]["driver"], sel=e["sel"], bit=e["bit"])
            elif b["kind"] == "crctab":
                key = "device.crc:%s" % why[1][0]
                what = "add_crc_%s on the 256 messages %s||j: %s values differ from the reference" % (
                    b["const"]["fn"].lower(), bytes(e["p"]).hex(), why[2])
                rep = dict(kind="crctab", fn=b["const"]["fn"], p=e["p"])
            else:
                key = "device.crc:%s" % why[1][0]
                what = "%s on %s -> %s, reference %s" % (e["fn"], bytes(e["m"])[:20].hex(), why[2], why[3])
                rep = dict(kind="crc", fn=e["fn"], m=e["m"])
            ck.violation(key, what, replay=rep)
    ck.cover(evaluations=neval, distinct_nontrivial=len(classes),
             rule="class = (driver, frame kind or template, corruption kind or payload pattern, outcome class, verdict)",
             batches=len(batches), trace_states=stats["states"],
             binding_selftest="changed written byte, dropped written byte, changed CRC value, flipped frame claimed accepted, unchecked Type A answer: all rejected")
    ck.sample(dict(batch=batches[0]["id"], first=batches[0]["ev"][1]))
    rb = [b for b in batches if b["kind"] == "rsp"][0]
    ck.sample(dict(batch=rb["id"], first=rb["ev"][:2]))
    ck.assume("frames: frame-level simulated transports; byte streams: the real nfc.clf.transport.USB / TTY on simulated usb1 / "
              "pyserial backends (bulk transfers end with a short packet; serial bytes arrive in arbitrary chunks)",
              "responses are validated for the pn53x.Chipset.command and acr122.Chipset.command code paths; "
              "RC-S380 responses are outside the statement (rcs380.Frame verifies no checksum)",
              "the TLA+ modules HostFrame/Crc14443 are the oracle (written from the chip manuals / ISO 14443-3 Annex B)")
    return ck.finish()


def replay(rep, args):
    r = rep["replay"]
    if r["kind"] == "transport":
        return TR.replay(r, args)
    rnd = random.Random(1)
    if r["kind"] == "rsp":
        f = r["frame"]
        if r["driver"] == "pn532tty":
            out, x, data, seen = TtyRig().feed(r["code"], bytes(f))
            f = list(seen)
        else:
            out, x, data = feed_response(D.Rig(r["driver"]), r["fam"], r["code"], bytes(f))
        print("real outcome: %s %s %r" % (out, x, data))
        b = dict(id="replay", kind="rsp", const=dict(drv=r["fam"], driver=r["driver"], code=r["code"], tpl=[0], name="replay"),
                 ev=[dict(ck="raw", a=0, b=0, xs=f, n=len(f), s=sum(f), out=out, x=x,
                          dn=len(data) if data is not None else 0, ds=sum(data) if data is not None else 0)])
    elif r["kind"] == "cmd":
        b = cmd_cases(r["driver"], r["fam"], "thorough", rnd)
        b["ev"] = [e for e in b["ev"] if e["n"] == r["n"] and e["pat"] == r["pat"]][:3]
        b["id"] = "replay"
    elif r["kind"] == "tt2":
        bs = [x for x in tt2_batches("thorough") if x["const"]["driver"] == r["driver"] and x["const"]["rf"] == r["rf"]]
        b = bs[0]
        b["id"] = "replay"
    elif r["kind"] == "tt2x":
        rig = D.Rig(r["driver"])
        e = tt2x_case(rig, CountingCheck(rig.device), r["sel"], r["bit"])
        print("real outcome:", e)
        air = AIR_DATA + CRC.crc_a_bytes(AIR_DATA)
        b = dict(id="replay", kind="tt2x", const=dict(rf=list(air), driver=r["driver"]), ev=[e])
    elif r["kind"] == "crctab":
        b = dict(id="replay", kind="crctab", const=dict(fn=r["fn"]), ev=[tab_row(r["fn"], r["p"])])
    else:
        e = crc_case(r["fn"], r["m"])
        print("real result: %s(%s) = %s" % (r["fn"], bytes(r["m"]).hex(), e["r"]))
        b = dict(id="replay", kind="crc", const=dict(fn="-"), ev=[e])
    verdicts, _ = tlc.validate_traces("Trace_HostFrame.tla", "Trace_HostFrame.cfg", PID + "_replay", [b], shards=1)
    bad = {k: v for k, v in verdicts.items() if v[0] != "ACCEPT"}
    for k, v in sorted(bad.items()):
        print("replay verdict:", k, v)
    if bad:
        print("VIOLATION property=%s replay=%s" % (PID, args.replay))
        return 1
    print("replay verdict: ACCEPT")
    return 0
