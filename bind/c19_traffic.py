"""C19 traffic phase: applications that fill frames to the negotiated limits, and the recorder that reads the
limits and the traffic back from the simulated air (never from nfcpy's own bookkeeping).

The applications run inside the real run loops (LogicalLinkController.run_as_initiator / run_as_target, entered
through ContactlessFrontend.connect): the `terminate` callable that connect() and the run loop poll once per
iteration is the application's clock, so every socket call happens in the run thread at a defined iteration and
the execution stays a deterministic function of the configuration.  Only calls that block by design run in helper
threads (DataLinkConnection.connect, LogicalLinkController.resolve); they are started before the run loop and are
joined at a point that the run thread determines under the socket lock.

  * UI bursts: m = 3..5 connection-less sockets with one datagram each, pending at the same time, whose sizes sum
    to sendMIU - 4m + delta (delta sweeps -2..+4 with the grid index): the aggregate lands on the boundary
  * two data link connections (each side connects to the service of the other, so each side also *accepts* a
    connection the peer opened); CONNECT and CC announce a connection MIU below, at and above the link MIU of the
    announcing side's PAX (128 = no MIUX TLV) and a receive window 1..4 (1 = no RW TLV) that differs between the
    four ends; all four ends send I PDUs as large as they believe they may, with MSG_DONTWAIT, while the peer's
    acknowledgements are pending
  * the way the connection is addressed rotates with the grid index, independently for the two openers (conn_mode):
    "sap" (connect(<number>)), "name" (connect(<service name>): CONNECT to SAP 1 with SN TLV, resolved by the accepting
    LLC) and "resolved" (resolve(<service name>) first, then connect(<the number it returned>))
  * every end is asked what it holds (End): SO_SNDMIU, a first message of exactly the receiver's limit (it must be
    accepted), one of one octet more (it must be refused), and how many send() calls the fresh connection takes
    before EWOULDBLOCK (= the receive window the other end announced)
  * service name lookups: many names at once (SNL batches in both directions)
  * every 8th configuration idles for 14 more iterations (the run loops' idle pauses against LTO / RWT)
  * the target side answers twice at 0.9 x the RWT it announced (when its announced LTO allows that)

(*) observed while building this (not a C19 matter, reported to the C05/C17 owners): data sent on an accepted
    socket in the same run loop iteration as accept() is dequeued *before* the CC (the accepted socket is inserted
    in front of the listening one, ServiceAccessPoint.insert_socket/dequeue), and the connecting side drops I PDUs
    silently while it is still in state CONNECT.
"""
import threading
import time as _time

import nfc.llcp

PTYPE = {0: "SYMM", 1: "PAX", 2: "AGF", 3: "UI", 4: "CONNECT", 5: "DISC", 6: "CC", 7: "DM", 8: "FRMR", 9: "SNL",
         10: "DPS", 12: "I", 13: "RR", 14: "RNR"}
UI_SAP = 33                 # connection-less receiver on both sides
SVC = "urn:nfc:sn:verif"    # connection-oriented service of the target side
NO_TLV = 65535             # (P2pNeg!NoTlv)
NAMES = ["urn:nfc:sn:verif", "urn:nfc:sn:snep", "urn:nfc:sn:a", "urn:nfc:sn:bb", "urn:nfc:sn:ccc", "urn:nfc:sn:dddd",
         "urn:nfc:xsn:verif.example:e", "urn:nfc:sn:f", "urn:nfc:sn:gg", "urn:nfc:sn:handover", "urn:nfc:sn:h",
         "urn:nfc:sn:ii"]


def pattern(tag, n):
    return bytes((tag * 29 + 7 * j + n) & 0xFF for j in range(n))


def conn_announce(x, k, side):
    """(MIU in the CONNECT of side's client socket, MIU in the CC of side's listening socket): below, at and above
    the link MIU of the side's own PAX, rotating with the grid index"""
    miu = x["miuI" if side == "i" else "miuT"]
    shift = 0 if side == "i" else 1

    def announce(mode):
        return (min(miu, (128, 131, 200, 1000)[k % 4]), miu, min(2175, miu + 352))[mode % 3]
    return announce(k // 5 + shift), announce(k // 5 + shift + 1)


def conn_rw(k, side):
    """(receive window of side's client socket = RW in its CONNECT, of its listening socket = RW in its CC): 1..4,
    different for the four ends of the two connections"""
    shift = 0 if side == "i" else 2
    return 1 + (k // 2 + k // 11 + shift) % 4, 1 + (k // 2 + k // 11 + shift + 1) % 4


MODES = ("sap", "name", "resolved")


def conn_mode(k, side):
    """how side addresses the connection it opens (independent of the MIU / RW rotations and of the link MIUs)"""
    return MODES[(k // 11 + k // 36 + (0 if side == "i" else 1)) % 3]


class App(object):
    """The application of one side.  `hook` is the terminate callable given to connect()."""

    def __init__(self, side, x, k, air, shared, rounds=24):
        self.side, self.x, self.k, self.air, self.shared = side, x, k, air, shared
        self.llc = None
        self.active = False
        self.calls0 = 0
        self.j = 0
        self.rounds = rounds
        self.done = False
        self.ui_rx = self.srv = self.cli = None
        self.helper = None
        self.accepted = None
        self.resolvers = []
        self.ui_sent, self.ui_rcvd = [], []          # (tag, n) / data
        # two data link connections per side: "out" = opened by this side, "in" = opened by the peer and accepted here
        self.dlc = {"out": None, "in": None}
        self.i_sent, self.i_rcvd = {"out": [], "in": []}, {"out": [], "in": []}
        self.quota = {"out": 5, "in": 5}
        self.over = {}               # which -> (n, accepted, peer sap): one message one octet beyond the peer's limit
        self.at = {}                 # which -> (n, accepted, peer sap): one message of exactly the peer's limit
        self.end = {}                # which -> dict(sndmiu, burst, blocked, sap): what the fresh connection end holds
        self.mode = conn_mode(k, side)
        self.svc_sap = None          # "resolved": what resolve() returned
        self.errors = []
        self.dead = set()            # connections whose recv() failed

    # -- callbacks of connect() ---------------------------------------------------------------------
    def on_startup(self, llc):
        self.llc = llc
        self.shared[self.side] = llc
        x, s = self.x, self.side
        if x["snepI" if s == "i" else "snepT"]:
            sn = nfc.llcp.Socket(llc, nfc.llcp.DATA_LINK_CONNECTION)
            sn.bind("urn:nfc:sn:snep")
        self.ui_rx = nfc.llcp.Socket(llc, nfc.llcp.LOGICAL_DATA_LINK)
        self.ui_rx.setsockopt(nfc.llcp.SO_RCVBUF, 8)
        self.ui_rx.bind(UI_SAP)
        miu = x["miuI" if s == "i" else "miuT"]
        self.cli_rw, self.srv_rw = conn_rw(self.k, s)
        # the connection MIU this side announces in its CONNECT (client socket) and in its CC (listening socket):
        # below, at and above the link MIU of its own PAX.  "Above" is what a foreign peer may do; it is set on the
        # transmission control object because LogicalLinkController.setsockopt clamps SO_RCVMIU to the link MIU.
        # The side that receives such an announcement has to keep to the smaller of the two.
        self.cli_miu, self.srv_miu = conn_announce(x, self.k, s)
        # what the peer announces: on the connection opened here the peer's CC, on the accepted one its CONNECT; the
        # peer's limit for an I PDU is the smaller of that and the link MIU of its PAX
        p = "t" if s == "i" else "i"
        pcli, psrv = conn_announce(x, self.k, p)
        plink = x["miuI" if p == "i" else "miuT"]
        self.peer_limit = {"out": min(psrv, plink), "in": min(pcli, plink)}
        self.srv = nfc.llcp.Socket(llc, nfc.llcp.DATA_LINK_CONNECTION)
        self.srv._tco.setsockopt(nfc.llcp.SO_RCVMIU, self.srv_miu)
        self.srv.setsockopt(nfc.llcp.SO_RCVBUF, self.srv_rw)
        self.srv.bind(SVC)
        self.srv.listen(2)
        self.shared["svc_" + s] = self.srv.getsockname()     # (told to the peer out of band for connect-by-SAP)
        return llc

    @staticmethod
    def _wait(cond, what):
        t0 = _time.monotonic()
        while not cond():
            if _time.monotonic() - t0 > 20:
                raise RuntimeError("traffic harness: " + what)
            _time.sleep(0.0002)

    def on_connect(self, llc):
        self.active = True
        self.shared["mark_" + self.side] = len(self.air.log)
        # both sides open a connection to the peer's service
        self.cli = nfc.llcp.Socket(llc, nfc.llcp.DATA_LINK_CONNECTION)
        self.cli._tco.setsockopt(nfc.llcp.SO_RCVMIU, self.cli_miu)
        self.cli.setsockopt(nfc.llcp.SO_RCVBUF, self.cli_rw)
        self.cli.bind()
        sdp = llc.sap[1]
        n0 = 0
        if self.mode == "name":
            self.open_connection(SVC)
        elif self.mode == "sap":
            self.open_connection(self.shared["svc_" + ("t" if self.side == "i" else "i")])
        else:
            # the lookup of the service comes first (its SDREQ is the first in the queue); the CONNECT follows in the
            # run loop iteration that sees the answer (step)
            th = threading.Thread(target=llc.resolve, args=(SVC,), daemon=True)
            th.start()
            self.resolvers.append(th)
            n0 = 1
            self._wait(lambda: len(sdp.sdreq) + len(sdp.snl) >= n0, "SDREQ not queued")
        # service name lookups, all pending before the run loop starts (the service itself is looked up only when
        # the connection is to be opened after an explicit resolve)
        n = (10 if self.side == "i" else 6) if self.k % 3 == 0 else 2
        for name in NAMES[1:n + 1]:
            th = threading.Thread(target=llc.resolve, args=(name,), daemon=True)
            th.start()
            self.resolvers.append(th)
        self._wait(lambda: len(sdp.sdreq) + len(sdp.snl) >= n + n0, "SDREQs not queued")
        return True

    def open_connection(self, dest):
        tco = self.cli._tco

        def connect():
            try:
                self.cli.connect(dest)
            except nfc.llcp.Error as e:
                self.errors.append("connect: %r" % (e,))
        self.helper = threading.Thread(target=connect, daemon=True)
        self.helper.start()
        self._wait(lambda: len(tco.send_queue) > 0 or not self.helper.is_alive(), "CONNECT not queued")

    def on_release(self, llc):
        return True

    def hook(self):
        if not self.active:
            self.calls0 += 1
            return self.calls0 > 1
        self.j += 1
        try:
            self.step(self.j)
        except nfc.llcp.Error as e:
            self.errors.append("step %d: %r" % (self.j, e))
        if self.done:
            self.shared.setdefault("closing", len(self.air.log))
        return self.done

    # -- one application step per run loop iteration --------------------------------------------------
    def burst(self, m, delta, tag):
        """m connection-less sockets, one datagram each, sizes summing to sendMIU - 4m + delta"""
        miu = self.llc.cfg["send-miu"]
        total = miu - 4 * m + delta
        base = [1 + (self.k + 3 * i) % 17 for i in range(m - 1)]
        if total - sum(base) < 1:
            base = [1] * (m - 1)
        sizes = base + [total - sum(base)]
        for i, n in enumerate(sizes):
            s = nfc.llcp.Socket(self.llc, nfc.llcp.LOGICAL_DATA_LINK)
            s.sendto(pattern(tag + i, n), UI_SAP, nfc.llcp.MSG_DONTWAIT)
            self.ui_sent.append((tag + i, n))

    def step(self, j):
        k = self.k
        # a slow target: twice it answers only after 0.9 x the response waiting time it announced in its ATR_RES
        # (when that is still within the link timeout it announced); the initiator has to wait that long
        if self.side == "t" and j in (2, 9):
            rwt = 4096 / 13.56E6 * 2 ** self.x["rwt"]
            if self.x["rwt"] >= 6 and 900.0 * rwt + 3 <= ((self.x["ltoT"] // 10) % 256) * 10:
                self.air.clock.sleep(0.9 * rwt)
                self.shared["slow"] = self.shared.get("slow", 0) + 1
        # connection-less traffic
        if j == 1:
            self.burst(3, -2 + k % 7, 10)            # sum = MIU-14 .. MIU-8
        elif j == 3:
            self.burst(4, 1 + k % 3, 20)
        elif j == 5:
            self.burst(3, -1, 30)                    # the largest aggregate that fits on HEAD
            self.burst(1, 4, 40)                     # and one datagram of exactly the MIU
        elif j == 7:
            self.burst(5, k % 5, 50)
        tq = self.ui_rx._tco
        while len(tq.recv_queue) > 0:
            data, peer = self.ui_rx.recvfrom()
            self.ui_rcvd.append(bytes(data))
        # connection-oriented traffic: the connection the peer opened (accepted here) and the one opened here
        if self.dlc["in"] is None and self.accepted is not None:
            self.dlc["in"] = self.accepted   # one iteration after accept(): the CC is on its way first (*)
        if self.accepted is None and len(self.srv._tco.recv_queue) > 0:
            self.accepted = self.srv.accept()
        if self.mode == "resolved" and self.svc_sap is None:
            sdp = self.llc.sap[1]
            with self.llc.lock:
                known = sdp.snl is not None and SVC.encode("latin") in sdp.snl
            if known:
                self.svc_sap = self.llc.resolve(SVC)         # (answered from what the lookup brought, does not block)
                if not self.svc_sap:
                    raise RuntimeError("traffic harness: resolve(%r) = %r" % (SVC, self.svc_sap))
                self.open_connection(self.svc_sap)
        if self.dlc["out"] is None and self.helper is not None:
            tco = self.cli._tco
            with tco.lock:          # either the helper has not seen the answer yet or it is through
                arrived = len(tco.recv_queue) > 0 or not tco.state.CONNECT
            if arrived:
                self.helper.join(20)
                if self.helper.is_alive():
                    raise RuntimeError("traffic harness: connect() did not return")
                self.helper = None
                if tco.state.ESTABLISHED:
                    self.dlc["out"] = self.cli
        for which in ("in", "out"):
            if self.dlc[which] is None:
                continue
            sock, d = self.dlc[which], self.dlc[which]._tco
            while len(d.recv_queue) > 0 and d.state.ESTABLISHED and which not in self.dead:
                try:
                    self.i_rcvd[which].append(bytes(sock.recv()))
                except RuntimeError as e:
                    # the receiving end found its own book-keeping violated (e.g. more I PDUs than its window):
                    # reported as a failed application call, the connection is not read any more
                    self.errors.append("recv: %r" % (e,))
                    self.dead.add(which)
            fresh = which not in self.end and d.state.ESTABLISHED
            burst, blocked = 0, False
            if fresh:
                # what the end says it may send in one I PDU, before anything was sent on the connection
                self.end[which] = dict(sndmiu=sock.getsockopt(nfc.llcp.SO_SNDMIU), sap=d.peer)
            if which not in self.over and d.state.ESTABLISHED:
                # first one message that is one octet more than the receiver allows: send() has to refuse it
                n = self.peer_limit[which] + 1
                try:
                    sock.send(pattern(90, n), nfc.llcp.MSG_DONTWAIT)
                    self.over[which] = (n, True, d.peer)
                    burst += 1
                except nfc.llcp.Error as e:
                    if e.errno == nfc.llcp.errno.EMSGSIZE:
                        self.over[which] = (n, False, d.peer)
                    elif e.errno != nfc.llcp.errno.EWOULDBLOCK:
                        raise
            while self.quota[which] > 0 and d.state.ESTABLISHED:
                q = self.quota[which]
                if which not in self.at:
                    # then one message of exactly what the receiver allows (its connection MIU, at most its link
                    # MIU): send() has to take it
                    n = self.peer_limit[which]
                else:
                    # then as much as this side believes it may send on the connection
                    n = d.send_miu if q % 3 else max(1, d.send_miu - 1 - k % 5)
                try:
                    sock.send(pattern(60 + q + (0 if which == "in" else 10), n), nfc.llcp.MSG_DONTWAIT)
                except nfc.llcp.Error as e:
                    if e.errno == nfc.llcp.errno.EWOULDBLOCK:
                        blocked = True
                        break
                    if e.errno == nfc.llcp.errno.EMSGSIZE and which not in self.at:
                        self.at[which] = (n, False, d.peer)
                        continue
                    raise
                self.at.setdefault(which, (n, True, d.peer))
                burst += 1
                self.i_sent[which].append((60 + q + (0 if which == "in" else 10), n))
                self.quota[which] -= 1
            if fresh:
                # how many messages the fresh connection took at once (no acknowledgement can have arrived yet)
                self.end[which].update(burst=burst, blocked=blocked)
        if self.side == "i" and j >= self.rounds + (14 if self.k % 8 == 3 else 0):
            self.done = True                 # (every 8th configuration: an idle tail of symmetry PDUs)


# ------------------------------------------------------------------------------------------------
# recorder: NFC-DEP frames on the air -> LLC PDUs -> descriptors

def dep_parse(fr):
    """air frame -> (kind, more, data, transport size) for DEP PDUs, else (None, False, b"", size|None)"""
    d = bytearray(fr.data)
    if fr.brty == "106A":
        if not d or d.pop(0) != 0xF0:
            return None, False, b"", None
    if not d or d[0] != len(d):
        return None, False, b"", None
    d.pop(0)
    size = len(d)
    if len(d) < 3 or d[0] != (0xD4 if fr.src == "I" else 0xD5) or d[1] != (0x06 if fr.src == "I" else 0x07):
        return None, False, b"", size
    pfb = d[2]
    typ = pfb >> 4
    skip = 3 + (1 if pfb & 4 else 0) + (1 if pfb & 8 else 0)
    if typ in (0, 1):
        return "INF", typ == 1, bytes(d[skip:]), size
    return {4: "ACK", 5: "NAK", 8: "ATN", 9: "RTOX"}.get(typ, "?"), False, b"", size


def llc_desc(b, nested=True):
    """LLC PDU bytes -> descriptor (own decoder): t, dsap, ssap, info (information field length), miux, inner"""
    if len(b) < 2:
        return dict(t="SHORT", dsap=0, ssap=0, info=len(b), miux=0, inner=[])
    dsap, pt, ssap = b[0] >> 2, ((b[0] & 3) << 2) | (b[1] >> 6), b[1] & 63
    t = PTYPE.get(pt, "T%d" % pt)
    # miux: the MIU a CONNECT / CC announces (128 without TLV); mtlv / rw: the MIUX / RW TLV values (NO_TLV: absent);
    # sn: a CONNECT with SN TLV; svc: an SNL that asks for the SAP of SVC; ns / nr: sequence numbers (-1: none)
    out = dict(t=t, dsap=dsap, ssap=ssap, info=len(b) - 2, miux=0, mtlv=NO_TLV, rw=NO_TLV, sn=False, svc=False,
               ns=-1, nr=-1, inner=[])
    if t == "I":
        out["info"] = len(b) - 3
        if len(b) >= 3:
            out["ns"], out["nr"] = b[2] >> 4, b[2] & 15
    elif t in ("RR", "RNR"):
        out["info"] = 0
        if len(b) >= 3:
            out["nr"] = b[2] & 15
    elif t in ("CONNECT", "CC"):
        miu, p = 128, 2
        while p + 2 <= len(b):
            ty, ln = b[p], b[p + 1]
            if ty == 2 and ln == 2 and p + 4 <= len(b):
                out["mtlv"] = ((b[p + 2] << 8) | b[p + 3]) & 0x7FF
                miu = 128 + out["mtlv"]
            elif ty == 5 and ln == 1 and p + 3 <= len(b):
                out["rw"] = b[p + 2] & 15
            elif ty == 6 and t == "CONNECT":
                out["sn"] = True
            p += 2 + ln
        out["miux"] = miu
    elif t == "SNL":
        p = 2
        while p + 2 <= len(b):
            ty, ln = b[p], b[p + 1]
            if ty == 8 and ln >= 1 and bytes(b[p + 3:p + 2 + ln]) == SVC.encode("latin"):
                out["svc"] = True
            p += 2 + ln
    elif t == "AGF" and nested:
        p = 2
        while p + 2 <= len(b):
            ln = (b[p] << 8) | b[p + 1]
            inner = llc_desc(b[p + 2:p + 2 + ln], nested=False)
            inner.pop("inner")
            out["inner"].append(inner)
            p += 2 + ln
    return out


def max_in_flight(descs):
    """descs: [(dir, descriptor)] in the order of the air -> {(dir, dsap, ssap): the largest number of I PDUs of that
    connection direction that were sent and not yet acknowledged by an N(R) of the opposite direction}"""
    nxt, ack, most = {}, {}, {}
    for d, e in descs:
        for p in (e["inner"] if e["t"] == "AGF" else [e]):
            if p["nr"] >= 0:
                ack[("TI" if d == "IT" else "IT", p["ssap"], p["dsap"])] = p["nr"]
            if p["ns"] >= 0:
                key = (d, p["dsap"], p["ssap"])
                nxt[key] = (p["ns"] + 1) % 16
                most[key] = max(most.get(key, 0), (nxt[key] - ack.get(key, 0)) % 16)
    return most


def llc_frames(log, start, stop):
    """reassemble the LLC PDUs carried by the DEP frames log[start:stop] (fault free: no retransmissions)"""
    buf = {"I": bytearray(), "T": bytearray()}
    out = []
    for fr in log[start:stop]:
        kind, more, data, _ = dep_parse(fr)
        if kind != "INF":
            continue
        buf[fr.src] += data
        if not more:
            out.append(("IT" if fr.src == "I" else "TI", bytes(buf[fr.src]), fr.time))
            buf[fr.src] = bytearray()
    return out
