"""C19 traffic phase: applications that fill frames to the negotiated limits, and the recorder that reads the
limits and the traffic back from the simulated air (never from nfcpy's own bookkeeping).

The applications run inside the real run loops (LogicalLinkController.run_as_initiator / run_as_target, entered
through ContactlessFrontend.connect): the `terminate` callable that connect() and the run loop poll once per
iteration is the application's clock, so every socket call happens in the run thread at a defined iteration and
the execution stays a deterministic function of the configuration.  Only calls that block by design run in helper
threads (DataLinkConnection.connect, LogicalLinkController.resolve); they are started before the run loop and are
joined at a point that the run thread determines under the socket lock.

  * UI bursts: m = 3..5 connection-less sockets with one datagram each, pending at the same time, whose sizes sum
    to sendMIU - 4m + delta (delta sweeps -2..+4 with the grid index): the aggregate lands on the boundary
  * two data link connections (each side connects to the named service of the other, so each side also *accepts* a
    connection the peer opened); CONNECT and CC announce a connection MIU below, at and above the link MIU of the
    announcing side's PAX; all four ends send I PDUs as large as they believe they may, with MSG_DONTWAIT, while
    the peer's acknowledgements are pending
  * service name lookups: many names at once (SNL batches in both directions)
  * every 8th configuration idles for 14 more iterations (the run loops' idle pauses against LTO / RWT)
  * the target side answers twice at 0.9 x the RWT it announced (when its announced LTO allows that)

(*) observed while building this (not a C19 matter, reported to the C05/C17 owners): data sent on an accepted
    socket in the same run loop iteration as accept() is dequeued *before* the CC (the accepted socket is inserted
    in front of the listening one, ServiceAccessPoint.insert_socket/dequeue), and the connecting side drops I PDUs
    silently while it is still in state CONNECT.
"""
import threading
import time as _time

import nfc.llcp

PTYPE = {0: "SYMM", 1: "PAX", 2: "AGF", 3: "UI", 4: "CONNECT", 5: "DISC", 6: "CC", 7: "DM", 8: "FRMR", 9: "SNL",
         10: "DPS", 12: "I", 13: "RR", 14: "RNR"}
UI_SAP = 33                 # connection-less receiver on both sides
SVC = "urn:nfc:sn:verif"    # connection-oriented service of the target side
NAMES = ["urn:nfc:sn:verif", "urn:nfc:sn:snep", "urn:nfc:sn:a", "urn:nfc:sn:bb", "urn:nfc:sn:ccc", "urn:nfc:sn:dddd",
         "urn:nfc:xsn:verif.example:e", "urn:nfc:sn:f", "urn:nfc:sn:gg", "urn:nfc:sn:handover", "urn:nfc:sn:h",
         "urn:nfc:sn:ii"]


def pattern(tag, n):
    return bytes((tag * 29 + 7 * j + n) & 0xFF for j in range(n))


def conn_announce(x, k, side):
    """(MIU in the CONNECT of side's client socket, MIU in the CC of side's listening socket): below, at and above
    the link MIU of the side's own PAX, rotating with the grid index"""
    miu = x["miuI" if side == "i" else "miuT"]
    shift = 0 if side == "i" else 1

    def announce(mode):
        return (min(miu, (128, 131, 200, 1000)[k % 4]), miu, min(2175, miu + 352))[mode % 3]
    return announce(k // 5 + shift), announce(k // 5 + shift + 1)


class App(object):
    """The application of one side.  `hook` is the terminate callable given to connect()."""

    def __init__(self, side, x, k, air, shared, rounds=24):
        self.side, self.x, self.k, self.air, self.shared = side, x, k, air, shared
        self.llc = None
        self.active = False
        self.calls0 = 0
        self.j = 0
        self.rounds = rounds
        self.done = False
        self.ui_rx = self.srv = self.cli = None
        self.helper = None
        self.accepted = None
        self.resolvers = []
        self.ui_sent, self.ui_rcvd = [], []          # (tag, n) / data
        # two data link connections per side: "out" = opened by this side, "in" = opened by the peer and accepted here
        self.dlc = {"out": None, "in": None}
        self.i_sent, self.i_rcvd = {"out": [], "in": []}, {"out": [], "in": []}
        self.quota = {"out": 5, "in": 5}
        self.over = {}               # which -> (n, accepted, peer sap): one message one octet beyond the peer's limit
        self.errors = []

    # -- callbacks of connect() ---------------------------------------------------------------------
    def on_startup(self, llc):
        self.llc = llc
        self.shared[self.side] = llc
        x, s = self.x, self.side
        if x["snepI" if s == "i" else "snepT"]:
            sn = nfc.llcp.Socket(llc, nfc.llcp.DATA_LINK_CONNECTION)
            sn.bind("urn:nfc:sn:snep")
        self.ui_rx = nfc.llcp.Socket(llc, nfc.llcp.LOGICAL_DATA_LINK)
        self.ui_rx.setsockopt(nfc.llcp.SO_RCVBUF, 8)
        self.ui_rx.bind(UI_SAP)
        miu = x["miuI" if s == "i" else "miuT"]
        self.conn_win = 1 + self.k % 3
        # the connection MIU this side announces in its CONNECT (client socket) and in its CC (listening socket):
        # below, at and above the link MIU of its own PAX.  "Above" is what a foreign peer may do; it is set on the
        # transmission control object because LogicalLinkController.setsockopt clamps SO_RCVMIU to the link MIU.
        # The side that receives such an announcement has to keep to the smaller of the two.
        self.cli_miu, self.srv_miu = conn_announce(x, self.k, s)
        # what the peer announces: on the connection opened here the peer's CC, on the accepted one its CONNECT; the
        # peer's limit for an I PDU is the smaller of that and the link MIU of its PAX
        p = "t" if s == "i" else "i"
        pcli, psrv = conn_announce(x, self.k, p)
        plink = x["miuI" if p == "i" else "miuT"]
        self.peer_limit = {"out": min(psrv, plink), "in": min(pcli, plink)}
        self.srv = nfc.llcp.Socket(llc, nfc.llcp.DATA_LINK_CONNECTION)
        self.srv._tco.setsockopt(nfc.llcp.SO_RCVMIU, self.srv_miu)
        self.srv.setsockopt(nfc.llcp.SO_RCVBUF, self.conn_win)
        self.srv.bind(SVC)
        self.srv.listen(2)
        return llc

    @staticmethod
    def _wait(cond, what):
        t0 = _time.monotonic()
        while not cond():
            if _time.monotonic() - t0 > 20:
                raise RuntimeError("traffic harness: " + what)
            _time.sleep(0.0002)

    def on_connect(self, llc):
        self.active = True
        self.shared["mark_" + self.side] = len(self.air.log)
        if True:            # both sides open a connection to the peer's service
            self.cli = nfc.llcp.Socket(llc, nfc.llcp.DATA_LINK_CONNECTION)
            self.cli._tco.setsockopt(nfc.llcp.SO_RCVMIU, self.cli_miu)
            self.cli.setsockopt(nfc.llcp.SO_RCVBUF, self.conn_win)
            self.cli.bind()
            tco = self.cli._tco

            def connect():
                try:
                    self.cli.connect(SVC)
                except nfc.llcp.Error as e:
                    self.errors.append("connect: %r" % (e,))
            self.helper = threading.Thread(target=connect, daemon=True)
            self.helper.start()
            self._wait(lambda: len(tco.send_queue) > 0 or not self.helper.is_alive(), "CONNECT not queued")
        # service name lookups, all pending before the run loop starts
        n = (10 if self.side == "i" else 6) if self.k % 3 == 0 else 2
        sdp = llc.sap[1]
        for name in NAMES[:n]:
            th = threading.Thread(target=llc.resolve, args=(name,), daemon=True)
            th.start()
            self.resolvers.append(th)
        self._wait(lambda: len(sdp.sdreq) + len(sdp.snl) >= n, "SDREQs not queued")
        return True

    def on_release(self, llc):
        return True

    def hook(self):
        if not self.active:
            self.calls0 += 1
            return self.calls0 > 1
        self.j += 1
        try:
            self.step(self.j)
        except nfc.llcp.Error as e:
            self.errors.append("step %d: %r" % (self.j, e))
        if self.done:
            self.shared.setdefault("closing", len(self.air.log))
        return self.done

    # -- one application step per run loop iteration --------------------------------------------------
    def burst(self, m, delta, tag):
        """m connection-less sockets, one datagram each, sizes summing to sendMIU - 4m + delta"""
        miu = self.llc.cfg["send-miu"]
        total = miu - 4 * m + delta
        base = [1 + (self.k + 3 * i) % 17 for i in range(m - 1)]
        if total - sum(base) < 1:
            base = [1] * (m - 1)
        sizes = base + [total - sum(base)]
        for i, n in enumerate(sizes):
            s = nfc.llcp.Socket(self.llc, nfc.llcp.LOGICAL_DATA_LINK)
            s.sendto(pattern(tag + i, n), UI_SAP, nfc.llcp.MSG_DONTWAIT)
            self.ui_sent.append((tag + i, n))

    def step(self, j):
        k = self.k
        # a slow target: twice it answers only after 0.9 x the response waiting time it announced in its ATR_RES
        # (when that is still within the link timeout it announced); the initiator has to wait that long
        if self.side == "t" and j in (2, 9):
            rwt = 4096 / 13.56E6 * 2 ** self.x["rwt"]
            if self.x["rwt"] >= 6 and 900.0 * rwt + 3 <= ((self.x["ltoT"] // 10) % 256) * 10:
                self.air.clock.sleep(0.9 * rwt)
                self.shared["slow"] = self.shared.get("slow", 0) + 1
        # connection-less traffic
        if j == 1:
            self.burst(3, -2 + k % 7, 10)            # sum = MIU-14 .. MIU-8
        elif j == 3:
            self.burst(4, 1 + k % 3, 20)
        elif j == 5:
            self.burst(3, -1, 30)                    # the largest aggregate that fits on HEAD
            self.burst(1, 4, 40)                     # and one datagram of exactly the MIU
        elif j == 7:
            self.burst(5, k % 5, 50)
        tq = self.ui_rx._tco
        while len(tq.recv_queue) > 0:
            data, peer = self.ui_rx.recvfrom()
            self.ui_rcvd.append(bytes(data))
        # connection-oriented traffic: the connection the peer opened (accepted here) and the one opened here
        if self.dlc["in"] is None and self.accepted is not None:
            self.dlc["in"] = self.accepted   # one iteration after accept(): the CC is on its way first (*)
        if self.accepted is None and len(self.srv._tco.recv_queue) > 0:
            self.accepted = self.srv.accept()
        if self.dlc["out"] is None and self.helper is not None:
            tco = self.cli._tco
            with tco.lock:          # either the helper has not seen the answer yet or it is through
                arrived = len(tco.recv_queue) > 0 or not tco.state.CONNECT
            if arrived:
                self.helper.join(20)
                if self.helper.is_alive():
                    raise RuntimeError("traffic harness: connect() did not return")
                self.helper = None
                if tco.state.ESTABLISHED:
                    self.dlc["out"] = self.cli
        for which in ("in", "out"):
            if self.dlc[which] is None:
                continue
            sock, d = self.dlc[which], self.dlc[which]._tco
            while len(d.recv_queue) > 0 and d.state.ESTABLISHED:
                self.i_rcvd[which].append(bytes(sock.recv()))
            if which not in self.over and d.state.ESTABLISHED:
                # first one message that is one octet more than the receiver allows: send() has to refuse it
                n = self.peer_limit[which] + 1
                try:
                    sock.send(pattern(90, n), nfc.llcp.MSG_DONTWAIT)
                    self.over[which] = (n, True, d.peer)
                except nfc.llcp.Error as e:
                    if e.errno == nfc.llcp.errno.EMSGSIZE:
                        self.over[which] = (n, False, d.peer)
                    elif e.errno != nfc.llcp.errno.EWOULDBLOCK:
                        raise
            while self.quota[which] > 0 and d.state.ESTABLISHED:
                # as much as this side believes it may send on the connection
                q = self.quota[which]
                n = d.send_miu if q % 3 else max(1, d.send_miu - 1 - k % 5)
                try:
                    sock.send(pattern(60 + q + (0 if which == "in" else 10), n), nfc.llcp.MSG_DONTWAIT)
                except nfc.llcp.Error as e:
                    if e.errno == nfc.llcp.errno.EWOULDBLOCK:
                        break
                    raise
                self.i_sent[which].append((60 + q + (0 if which == "in" else 10), n))
                self.quota[which] -= 1
        if self.side == "i" and j >= self.rounds + (14 if self.k % 8 == 3 else 0):
            self.done = True                 # (every 8th configuration: an idle tail of symmetry PDUs)


# ------------------------------------------------------------------------------------------------
# recorder: NFC-DEP frames on the air -> LLC PDUs -> descriptors

def dep_parse(fr):
    """air frame -> (kind, more, data, transport size) for DEP PDUs, else (None, False, b"", size|None)"""
    d = bytearray(fr.data)
    if fr.brty == "106A":
        if not d or d.pop(0) != 0xF0:
            return None, False, b"", None
    if not d or d[0] != len(d):
        return None, False, b"", None
    d.pop(0)
    size = len(d)
    if len(d) < 3 or d[0] != (0xD4 if fr.src == "I" else 0xD5) or d[1] != (0x06 if fr.src == "I" else 0x07):
        return None, False, b"", size
    pfb = d[2]
    typ = pfb >> 4
    skip = 3 + (1 if pfb & 4 else 0) + (1 if pfb & 8 else 0)
    if typ in (0, 1):
        return "INF", typ == 1, bytes(d[skip:]), size
    return {4: "ACK", 5: "NAK", 8: "ATN", 9: "RTOX"}.get(typ, "?"), False, b"", size


def llc_desc(b, nested=True):
    """LLC PDU bytes -> descriptor (own decoder): t, dsap, ssap, info (information field length), miux, inner"""
    if len(b) < 2:
        return dict(t="SHORT", dsap=0, ssap=0, info=len(b), miux=0, inner=[])
    dsap, pt, ssap = b[0] >> 2, ((b[0] & 3) << 2) | (b[1] >> 6), b[1] & 63
    t = PTYPE.get(pt, "T%d" % pt)
    out = dict(t=t, dsap=dsap, ssap=ssap, info=len(b) - 2, miux=0, inner=[])
    if t == "I":
        out["info"] = len(b) - 3
    elif t in ("RR", "RNR"):
        out["info"] = 0
    elif t in ("CONNECT", "CC"):
        miu, p = 128, 2
        while p + 2 <= len(b):
            ty, ln = b[p], b[p + 1]
            if ty == 2 and ln == 2 and p + 4 <= len(b):
                miu = 128 + (((b[p + 2] << 8) | b[p + 3]) & 0x7FF)
            p += 2 + ln
        out["miux"] = miu
    elif t == "AGF" and nested:
        p = 2
        while p + 2 <= len(b):
            ln = (b[p] << 8) | b[p + 1]
            inner = llc_desc(b[p + 2:p + 2 + ln], nested=False)
            inner.pop("inner")
            out["inner"].append(inner)
            p += 2 + ln
    return out


def llc_frames(log, start, stop):
    """reassemble the LLC PDUs carried by the DEP frames log[start:stop] (fault free: no retransmissions)"""
    buf = {"I": bytearray(), "T": bytearray()}
    out = []
    for fr in log[start:stop]:
        kind, more, data, _ = dep_parse(fr)
        if kind != "INF":
            continue
        buf[fr.src] += data
        if not more:
            out.append(("IT" if fr.src == "I" else "TI", bytes(buf[fr.src]), fr.time))
            buf[fr.src] = bytearray()
    return out
