"""C17, concurrent resolvers: 2-3 application threads in resolve() on one real LogicalLinkController under the
deterministic scheduler (sim/sched.py; its threading shim is put into nfc.llcp.llc / tco by bind/llc_peer.install),
a real peer controller with sockets bound by name, and a link thread that carries the frames separately, batched,
in reverse order, or never (service discovery shut down as terminate() does).  Every schedule is one trace for
Trace_LlcpResolve.tla (spec/LlcpResolve.tla): events are logged inside the controller lock in the scheduler's order.

The transaction ids are a conserved resource: every event carries what the real ServiceDiscovery object shows at that
moment (len(tids), the ids missing from tids, the ids in the sdreq queue), so that TLC judges PoolConserved after EVERY
real step of every schedule; and LONG sessions perform more lookups of distinct uncached names over one link than there
are transaction ids (300 and 2 x 160 against 256), so that every id is drawn again.
"""
import random
import sim.sched as S
import bind.llc_peer as LP

REAL = {"n1": b"urn:nfc:sn:svc1", "n2": b"urn:nfc:sn:svc2", "n3": b"urn:nfc:sn:svc3", "n4": b"urn:nfc:sn:svc4",
        "wk": b"urn:nfc:sn:snep"}


def _name(tag, n):
    return (b"urn:nfc:sn:" + tag + b"-" + b"x" * 200)[:n]


# names whose SDREQ TLVs (3 + length) sit around what is left of an SNL PDU at MIU 128
REAL.update(L70a=_name(b"a", 70), L70b=_name(b"b", 70), S16=_name(b"s", 16), L60a=_name(b"a", 60), L60b=_name(b"b", 60),
            L60c=_name(b"c", 60), L120=_name(b"a", 120), S3a=b"s3a", S3b=b"s3b")
# the long sessions: u1 .. u320, 15 octets each
REAL.update({"u%d" % i: b"urn:nfc:sn:u%03d" % i for i in range(1, 321)})
ABST = {v: k for k, v in REAL.items()}
# what the peer binds, in this order: n1 -> 16, n2 -> 17, wk -> 4, L70a -> 18, L70b -> 19, S16 -> 20, L60a -> 21, L120 -> 22
BOUND = ("n1", "n2", "wk", "L70a", "L70b", "S16", "L60a", "L120")
LONGBOUND = ("u5", "u130", "u257", "u300")                # long sessions only: -> 23, 24, 25, 26 (Trace_LlcpResolve.tla LongPeer)
RNONE, RKEYERR, ROTHER, RSTARVED = -2, -3, -4, -5

# more lookups of distinct uncached names over ONE link than there are transaction ids (256)
LONG = [
    (dict(r1=["u%d" % i for i in range(1, 301)]), "separate"),
    (dict(r1=["u%d" % i for i in range(1, 161)], r2=["u%d" % i for i in range(161, 321)]), "batched"),
]
NTIDS = 256


def observe(A):
    """What the real ServiceDiscovery object shows: the size of the id pool, the ids that are out, the queued ids."""
    sd = A.sap[1]
    tids = list(sd.tids)
    return dict(free=len(tids), busy=sorted(set(range(NTIDS)) - set(tids)), q=[int(t) for (t, _) in sd.sdreq])

# resolver programs: thread -> names resolved one after the other
PROGRAMS = [
    dict(r1=["n1"], r2=["n2"]),                              # two different names at the same time
    dict(r1=["n1"], r2=["n1"]),                              # the same name twice
    dict(r1=["n1", "n2"], r2=["n2", "n1"]),                  # crossing, second calls may hit the cache
    dict(r1=["n3"], r2=["n1"]),                              # one name the peer has not bound (answer 0)
    dict(r1=["n1"], r2=["n2"], r3=["n3"]),
    dict(r1=["n1"], r2=["n1"], r3=["n2", "n1"]),
    dict(r1=["wk", "n4"], r2=["n4"], r3=["n2"]),
    # three and four lookups pending at once, one does not fit what is left of the SNL PDU and a later one does
    dict(r1=["L70a"], r2=["L70b"], r3=["S16"]),
    dict(r1=["L60a"], r2=["L60b"], r3=["L60c"]),
    dict(r1=["L120"], r2=["S3a"], r3=["S3b"]),
    dict(r1=["S16"], r2=["L70a"], r3=["L70b"]),
    dict(r1=["L70a"], r2=["L70b"], r3=["S16"], r4=["n1"]),
    dict(r1=["L60a"], r2=["L120"], r3=["S3a"], r4=["L60b"]),
]
SIZED = range(7, 13)
POLICIES = ("separate", "batched", "reverse", "never", "some-then-never", "hold")      # hold: nothing is collected before every resolver waits


def run_case(prog, policy, chooser, seed, max_steps=4000, miu=128, bound=BOUND):
    """One schedule.  Returns (trace events, outcome, picks)."""
    import nfc.llcp
    import nfc.llcp.llc as llc_mod
    import nfc.llcp.pdu as pdu_mod
    rnd = random.Random(seed)
    random.seed(seed)                      # resolve() draws transaction ids from `random`
    sch = S.Sched(chooser, max_steps=max_steps)
    LP.install(sch)
    ev = []
    box = {}
    try:
        def setup():
            A = llc_mod.LogicalLinkController(miu=miu, sec=False)
            B = llc_mod.LogicalLinkController(miu=miu, sec=False)
            for x in (A, B):
                x.cfg["send-miu"], x.cfg["llcp-dpc"] = miu, 0
            keep = []
            for n in bound:
                s = nfc.llcp.Socket(B, nfc.llcp.DATA_LINK_CONNECTION)
                s.bind(REAL[n])
                keep.append(s)
            box.update(A=A, B=B, keep=keep)

        def resolver(t, names):
            def body():
                A = box["A"]
                for n in names:
                    with A.lock:                                   # re-entered by resolve(); wait() releases it fully
                        ev.append(dict(a="Call", t=t, n=n, **observe(A)))
                        try:
                            v = A.resolve(REAL[n])
                            ret = RNONE if v is None else int(v)
                        except KeyError:
                            ret = RKEYERR
                        except IndexError:                          # random.choice() of an empty pool
                            ret = RSTARVED
                        except Exception:                           # noqa - any raise is a finding
                            ret = ROTHER
                        ev.append(dict(a="Return", t=t, ret=ret, **observe(A)))
                    sch.yield_point()
            return body

        def link():
            setup()
            A, B = box["A"], box["B"]
            res = [sch.spawn(resolver(t, names), t) for t, names in sorted(prog.items())]
            to_b, to_a = [], []
            ended = False
            delivered = 0
            idle = 0
            while any(t.state != S.DONE for t in res) and idle < 60:
                did = False
                parked0 = all(t.state in (S.WAITING, S.DONE) for t in res)
                with A.lock:
                    # a terminated controller collects nothing
                    seen = observe(A)                               # before the critical section of this event
                    f = None if ended or (policy == "hold" and not parked0) else A.collect()
                    if f is not None:
                        pdus = list(f) if f.name == "AGF" else [f]
                        for p in pdus:
                            if p.name == "SNL" and p.sdreq:
                                ev.append(dict(a="Collect", names=[ABST[bytes(nm)] for (_, nm) in p.sdreq], **seen))
                        to_b.append(pdu_mod.encode(f))
                        did = True
                parked = all(t.state in (S.WAITING, S.DONE) for t in res)
                if to_b and (policy != "batched" or parked):
                    while to_b:
                        B.dispatch(pdu_mod.decode(to_b.pop(0)))
                        if policy in ("separate", "reverse", "never", "some-then-never", "hold"):
                            g = B.collect()
                            if g is not None:
                                to_a.append(g)
                    g = B.collect()
                    if g is not None:
                        to_a.append(g)
                    did = True
                stop_now = (policy == "never" and parked) or (policy == "some-then-never" and delivered >= 1 and parked)
                if stop_now and not ended:
                    with A.lock:
                        ev.append(dict(a="LinkEnd", **observe(A)))
                        A.sap[1].shutdown()
                    ended = did = True
                elif to_a and not ended and policy != "never" and (policy != "reverse" or parked):
                    g = to_a.pop(-1 if policy == "reverse" else 0)
                    data = pdu_mod.encode(g)
                    with A.lock:
                        q = pdu_mod.decode(data)
                        if q.name == "SNL" and q.sdres:
                            sent = A.sap[1].sent
                            ev.append(dict(a="Deliver", ans=[[ABST[bytes(sent[tid])], int(sap), int(tid)] for (tid, sap) in q.sdres
                                                             if tid in sent], **observe(A)))
                        A.dispatch(q)
                    delivered += 1
                    did = True
                # nothing to carry and every resolver asleep: nobody will ever wake them (counted, then reported)
                idle = 0 if did or not parked else idle + 1
                sch.yield_point()

        sch.spawn(link, "link")
        outcome = sch.run()
        if outcome != "done" or any(t.state != S.DONE or t.exc not in (None, "abort") for t in sch.threads):
            ev.append(dict(a="Deadlock", outcome=outcome, **observe(box["A"])))
        ev.append(dict(a="End", **observe(box["A"])))
        return ev, outcome, list(getattr(chooser, "picks", []))
    finally:
        LP.uninstall()


def schedules(prog, quick):
    """Choosers for one (program, policy): the fair default, each thread favoured from every scheduling point k of
    the default run, and seeded random schedules."""
    yield ("fair", None)
    for fav in sorted(prog):
        for k in range(0, 30 if quick else 90, 5 if quick else 1):
            yield ("pre", (k, fav))
    for s in range(3 if quick else 40):
        yield ("rnd", s)


def make_chooser(kind, arg, seed):
    if kind == "fair":
        return S.PreemptAtChooser(10 ** 9, "link")
    if kind == "pre":
        return S.PreemptAtChooser(arg[0], arg[1])
    return S.RandomChooser(seed * 7919 + arg, stick=0.5)


def cases(quick, seed):
    for li in range(len(LONG)):
        yield dict(long=li, policy=LONG[li][1], kind="fair", arg=None, miu=128)
    for pi, prog in enumerate(PROGRAMS):
        if pi in SIZED:
            # the queue order is what matters here: every order the scheduler can produce, few frame policies
            for policy, miu in (("hold", 128), ("batched", 128), ("separate", 128), ("hold", 248)):
                if quick and (policy == "separate" or (miu == 248 and pi % 2)):
                    continue
                for kind, arg in schedules(prog, quick):
                    if quick and kind == "pre" and arg[0] % 10:
                        continue
                    yield dict(pi=pi, policy=policy, kind=kind, arg=arg, miu=miu)
            continue
        for policy in POLICIES[:5]:
            if quick and (pi + POLICIES.index(policy)) % 2 and pi not in (0, 1):
                continue                                    # quick tier: half of the grid for the larger programs
            for kind, arg in schedules(prog, quick):
                yield dict(pi=pi, policy=policy, kind=kind, arg=arg, miu=128)


def trace_of(case, seed):
    ch = make_chooser(case["kind"], case["arg"], seed)
    miu = case.get("miu", 128)
    if "long" in case:
        ev, outcome, picks = run_case(LONG[case["long"]][0], case["policy"], ch, seed, miu=miu, bound=BOUND + LONGBOUND,
                                      max_steps=200000)
        return dict(id="res-long%d-%s-%d-fair" % (case["long"], case["policy"], miu), const=dict(miu=miu, long=1), ev=ev), outcome
    ev, outcome, picks = run_case(PROGRAMS[case["pi"]], case["policy"], ch, seed, miu=miu)
    arg = case["arg"]
    tag = "fair" if case["kind"] == "fair" else ("p%d%s" % (arg[0], arg[1]) if case["kind"] == "pre" else "r%d" % arg)
    return dict(id="res-%d-%s-%d-%s" % (case["pi"], case["policy"], miu, tag), const=dict(miu=miu), ev=ev), outcome


# ------------------------------------------------------------------------------------------------
# witnesses and the exhaustive configuration in which each is looked for (q3: three resolvers, one call each, three ids;
# the two-resolver configuration: two calls each, three ids for four lookups)
RES_WITNESSES = ["W_ForeignWake", "W_Skipped", "W_TwoWaiting", "W_SameName", "W_NoneReturn", "W_Absent"]
POOL_WITNESSES = ["W_PoolEmpty", "W_TidReused", "W_CachedCall"]          # W_Refilled: pool of two ids (the refill configuration)


def classify(tr, line, act, why):
    ev = tr["ev"][line - 1]
    if act == "Return" and ev.get("ret") == RSTARVED:
        return "resolve:IndexError-raised:no-transaction-id-left-in-the-pool"
    if why and why[0] == "inv" and "PoolConserved" in why[1]:
        if act == "Deliver":
            return "resolve:transaction-id-of-an-answered-lookup-not-returned-to-the-pool"
        if act == "Call":
            return "resolve:transaction-id-pool-not-conserved-by-the-lookup(id-not-taken/taken-twice)"
        return "resolve:transaction-id-pool-not-conserved@%s" % act
    if why and why[0] == "inv" and "NeverStarves" in why[1]:
        return "resolve:transaction-id-pool-not-full-with-every-lookup-answered@%s" % act
    if act == "Return" and ev.get("ret") == RKEYERR:
        return "resolve:KeyError-raised-in-a-thread-woken-by-the-answer-for-another-name"
    if act == "Return" and ev.get("ret") == ROTHER:
        return "resolve:exception-raised"
    if act == "Return":
        return "resolve:wrong-address-returned"
    if act == "Collect":
        return "resolve:SNL-PDU-carries-other-SDREQ-than-the-queue-order-and-budget-allow"
    if act == "Deadlock":
        return "resolve:thread-never-returned(%s)" % ev.get("outcome")
    return "resolve:%s@%s" % (why[0] if why else "?", act)


def stage(ck, tier, seed, tlc):
    """Exhaustive LlcpResolve + every schedule of the grid validated by Trace_LlcpResolve."""
    import json
    import time
    quick = tier == "quick"
    t_0, walls = time.time(), {}
    # the exhaustive runs go on in the background while the schedules are produced
    import concurrent.futures as cf
    ex = cf.ThreadPoolExecutor(max_workers=10)
    M = "MC_LlcpResolve.tla"
    wit = RES_WITNESSES[:2] if quick else RES_WITNESSES
    pwit = POOL_WITNESSES[:2] if quick else POOL_WITNESSES
    fut = dict(
        r=ex.submit(tlc.run, M, "MC_LlcpResolve%s.cfg" % ("" if quick else "_thorough"), "C17/resolve", workers=6,
                    timeout=300 if quick else 2400),
        r3=ex.submit(tlc.run, M, "MC_LlcpResolve_q3.cfg", "C17/resolve3", workers=4, timeout=600),      # three resolvers, one call each
        pop=ex.submit(tlc.run, M, "MC_LlcpResolve_pophead.cfg", "C17/resolve_pop", workers=2, timeout=300),
        wrong=ex.submit(tlc.run, M, "MC_LlcpResolve_if.cfg", "C17/resolve_if", workers=2, timeout=300),
        # the transaction id pool: the model whose answered lookups keep their ids must break the conservation invariant, and
        # in the code's model the pool runs empty and is full again later (temporal witness: the property must be violated)
        leak=ex.submit(tlc.run, M, "MC_LlcpResolve_leak.cfg", "C17/resolve_leak", workers=2, timeout=300),
        refill=ex.submit(tlc.run, M, "MC_LlcpResolve_refill.cfg", "C17/resolve_refill", workers=2, timeout=300),
        wit=ex.submit(tlc.witnesses, M, "MC_LlcpResolve_q3.cfg", "C17/wres", wit, workers=2, timeout=600),
        # the two-resolver configuration (two calls each): the witnesses that need a second call or an id drawn again
        pwit=ex.submit(tlc.witnesses, M, "MC_LlcpResolve.cfg", "C17/wpool", pwit, workers=2, timeout=600),
        rwit=ex.submit(tlc.witnesses, M, "MC_LlcpResolve_refill.cfg", "C17/wrefill", ["W_Refilled"], workers=2, timeout=600))

    def model_checking():
        r, r3 = fut["r"].result(), fut["r3"].result()
        if not r.ok:
            ck.violation("spec:LlcpResolve:" + ",".join(r.violated or ["deadlock"]),
                         "TLC found a violation in the resolver model: %s" % (r.error_trace or "")[:2000])
        ck.cover(states=r.distinct, transitions=r.generated)
        if not r3.ok:
            ck.violation("spec:LlcpResolve(3):" + ",".join(r3.violated or ["deadlock"]),
                         "TLC found a violation in the resolver model: %s" % (r3.error_trace or "")[:2000])
        ck.cover(states=r3.distinct, transitions=r3.generated)
        if "Recorded" not in fut["pop"].result().violated:
            raise tlc.TLCError("the pop-the-head variant of the resolver model does not violate Recorded: vacuous")
        if "ResolveReturns" not in fut["wrong"].result().violated:
            raise tlc.TLCError("the `if ...: wait()` variant of the resolver model does not violate ResolveReturns: vacuous")
        if "PoolConserved" not in fut["leak"].result().violated:
            raise tlc.TLCError("the keep-the-id variant of the resolver model does not violate PoolConserved: vacuous")
        refill = fut["refill"].result()
        if "<temporal>" not in refill.violated and "Temporal property NeverRefilled was violated" not in refill.out:
            raise tlc.TLCError("vacuous resolver model: the id pool never runs empty and full again (NeverRefilled holds)")
        hit = fut["wit"].result()[0] | fut["pwit"].result()[0] | fut["rwit"].result()[0]
        want = set(wit) | set(pwit) | {"W_Refilled"}
        if want - hit:
            raise tlc.TLCError("vacuous resolver model: witnesses not reached: %s" % sorted(want - hit))
        ck.cover(resolver_witnesses=sorted(hit) + ["NeverRefilled violated"])
    traces, meta, seen, nsched, outcomes = [], {}, set(), 0, {}
    for case in cases(quick, seed):
        tr, outcome = trace_of(case, seed)
        nsched += 1
        outcomes[outcome] = outcomes.get(outcome, 0) + 1
        key = json.dumps([tr["const"], tr["ev"]], sort_keys=True)
        if key in seen:
            continue
        seen.add(key)
        traces.append(tr)
        meta[tr["id"]] = case
    walls["schedules"] = round(time.time() - t_0, 1)
    # binding self-test: a wrong address and a dropped Deliver must be rejected
    src = next(t for t in traces if sum(1 for e in t["ev"] if e["a"] == "Deliver") >= 2 and not t["const"].get("long"))
    t1 = json.loads(json.dumps(src))
    for e in t1["ev"]:
        if e["a"] == "Return" and e["ret"] > 0:
            e["ret"] += 1
            break
    t1["id"] = src["id"] + "-corrupt"
    t2 = json.loads(json.dumps(src))
    for k, e in enumerate(t2["ev"]):
        if e["a"] == "Deliver":
            del t2["ev"][k]
            break
    t2["id"] = src["id"] + "-dropped"
    # a third corrupted trace: the real object shows one more id out than there are lookups pending (a leaked id)
    t3 = json.loads(json.dumps(src))
    for k, e in enumerate(t3["ev"]):
        if k and t3["ev"][k - 1]["a"] == "Deliver":
            for f in t3["ev"][k:]:
                f["busy"] = sorted(set(f["busy"]) | {min(set(range(NTIDS)) - set(f["busy"]))})
                f["free"] -= 1
            break
    t3["id"] = src["id"] + "-leaked"
    lng = [t for t in traces if t["const"].get("long")]
    big = [t for t in traces if t["const"]["miu"] == 248]
    lookups = {t["id"]: sum(1 for e in t["ev"] if e["a"] == "Collect" for _ in e["names"]) for t in lng}
    T = "Trace_LlcpResolve.tla"
    vf = [ex.submit(tlc.validate_traces, T, "Trace_LlcpResolve.cfg", "C17/res",
                    [t for t in traces if t["const"]["miu"] == 128 and not t["const"].get("long")] + [t1, t2, t3], shards=8, timeout=900),
          ex.submit(tlc.validate_traces, T, "Trace_LlcpResolve_long.cfg", "C17/reslong", lng, shards=2, timeout=900),
          ex.submit(tlc.validate_traces, T, "Trace_LlcpResolve_248.cfg", "C17/res248", big, shards=4, timeout=900)]
    verdicts, st = {}, dict(states=0)
    for f in vf:
        v2, st2 = f.result()
        verdicts.update(v2)
        st["states"] += st2["states"]
    model_checking()
    ex.shutdown()
    if any(verdicts[i][0] == "ACCEPT" and n <= NTIDS for i, n in lookups.items()):
        raise tlc.TLCError("binding vacuous: a long session made only %s uncached lookups" % lookups)
    if verdicts[t3["id"]][0] == "ACCEPT" or "PoolConserved" not in json.dumps(verdicts[t3["id"]]):
        raise tlc.TLCError("binding vacuous: resolver trace with a leaked transaction id: %s" % (verdicts[t3["id"]],))
    for t in (t1, t2):
        if verdicts[t["id"]][0] == "ACCEPT":
            raise tlc.TLCError("binding vacuous: corrupted resolver trace %s accepted" % t["id"])
    walls["validated"] = round(time.time() - t_0, 1)
    print("resolver stage walls (cumulative):", walls)
    acc = 0
    for tr in traces:
        v = verdicts[tr["id"]]
        if v[0] == "ACCEPT":
            acc += 1
            continue
        line, act, why = v[1], v[2], v[3]
        ck.violation(classify(tr, line, act, why), "resolver schedule %s rejected at event %d (%s): %s ; events=%s" % (
            tr["id"], line, act, json.dumps(why)[:300], json.dumps(tr["ev"][:line])[:900]),
            replay=dict(kind="resolve", case=meta[tr["id"]], seed=seed))
    ck.cover(resolver_schedules=nsched, resolver_traces_distinct=len(traces), resolver_traces_accepted=acc,
             resolver_outcomes=outcomes, traces_validated_against_impl=acc, trace_states=st["states"],
             resolver_long_sessions_uncached_lookups=lookups)
    ck.sample(dict(resolver_trace=traces[min(7, len(traces) - 1)]["id"], events=traces[min(7, len(traces) - 1)]["ev"][:10]))


def replay(rep, tlc):
    import json
    r = rep["replay"]
    tr, outcome = trace_of(r["case"], r["seed"])
    cfg = "Trace_LlcpResolve_248.cfg" if tr["const"]["miu"] == 248 else "Trace_LlcpResolve.cfg"
    if tr["const"].get("long"):
        cfg = "Trace_LlcpResolve_long.cfg"
    verdicts, st = tlc.validate_traces("Trace_LlcpResolve.tla", cfg, "C17_replay", [tr], shards=1)
    v = verdicts[tr["id"]]
    print("replay verdict:", v, "outcome:", outcome)
    print("events:", json.dumps(tr["ev"])[:1500])
    return 0 if v[0] == "ACCEPT" else 1
