"""Stand-alone reproduction of the C14 transport-layer finding (no /verif machinery, a 15-line serial mock):
    /venv/bin/python /verif/bind/c14_transport_repro.py      (imports nfcpy from /repo/src or $NFCPY_SRC)

nfc.clf.transport.TTY.read() takes a frame for an extended frame as soon as LEN = FFh.  A NORMAL frame with
LEN = FFh, LCS = 01h (253 data bytes after TFI and response code - Chipset.command() itself writes and accepts
such frames) is read as: read(6), read(3), LEN := TFI << 8 | code, read(LEN + 1) = read(54594): the call only
returns when the serial timeout (= the whole command timeout) has expired, and it swallows whatever else
arrived in the meantime (here: the ACK of the next exchange)."""
import os, sys, logging
sys.path.insert(0, os.environ.get("NFCPY_SRC", "/repo/src"))
logging.disable(logging.CRITICAL)
import nfc.clf.transport


class Serial(object):
    """bytes that have arrived; read(n) returns n bytes, or fewer after waiting for the timeout"""
    def __init__(self, data):
        self.data, self.timeout, self.waited, self.calls = bytearray(data), None, 0.0, []

    def read(self, n):
        self.calls.append(n)
        if len(self.data) < n:
            self.waited += self.timeout
        out, self.data = self.data[:n], self.data[n:]
        return bytes(out)


def frame(payload):
    n = len(payload)
    return bytes([0, 0, 255, n, (256 - n) & 255]) + payload + bytes([(256 - sum(payload)) & 255, 0])


ACK = bytes.fromhex("0000ff00ff00")
bad = 0
for n in (254, 255):
    f = frame(bytes([0xD5, 0x41]) + bytes(range(n - 2)))
    tty = nfc.clf.transport.TTY.__new__(nfc.clf.transport.TTY)
    tty.tty = Serial(f + ACK)
    got = tty.read(1000)
    ok = bytes(got) == f and tty.tty.waited == 0
    bad += not ok
    print("normal frame LEN=%02Xh LCS=%02Xh (%d bytes) followed by an ACK: serial reads %s, waited %.1f s, returned %d bytes %s" % (
        n, f[4], len(f), tty.tty.calls, tty.tty.waited, len(got),
        "= the frame" if ok else ("= the frame + the 6 bytes of the ACK" if bytes(got) == f + ACK else "(not the frame)")))
sys.exit(1 if bad else 0)
