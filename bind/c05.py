"""C05 -- LLCP data link connection: in order, exactly once, within the window.

Spec: spec/LlcpDlc.tla (exhaustive, M=4) ; binding: Trace_LlcpDlc.tla validates executions of two
real LogicalLinkController objects joined back to back (non-threaded interleaving of application
calls with collect()/dispatch(); close() runs in a helper thread because it blocks by design).
"""
import os, sys, random, threading, time, json
from vlib import tlc, check

import nfc.llcp
import nfc.llcp.llc as llc_mod
import nfc.llcp.tco as tco_mod
import nfc.llcp.pdu as pdu_mod
import nfc.llcp.err as err_mod
import errno

PID = "C05"
NONR = 16
ERRNAME = {errno.EMSGSIZE: "EMSGSIZE", errno.EWOULDBLOCK: "EWOULDBLOCK", errno.ENOTCONN: "ENOTCONN",
           errno.EPIPE: "EPIPE", errno.ESHUTDOWN: "ESHUTDOWN"}


class HarnessError(RuntimeError):
    pass


class SetupMismatch(Exception):
    """the CONNECT / CC handshake of the code under test left the two ends with parameters that contradict what was
    announced on the wire - a verdict about the code (window / MIU agreement), not a failure of the rig"""

    def __init__(self, what, cfg):
        Exception.__init__(self, what, cfg)
        self.what, self.cfg = what, cfg


def payload(side, mid, n):
    tag = mid.to_bytes(4, "little")
    body = bytes(((mid * 7 + i * 13 + (0 if side == "A" else 101)) & 0xFF) for i in range(n))
    return (tag + body)[:n] if n >= 4 else tag[:n]


class End(object):
    def __init__(self, name, llc):
        self.name, self.llc = name, llc
        self.dlc = None
        self.sent = []          # (mid, len) accepted
        self.closer = None

    def snap(self):
        d = self.dlc
        return dict(st=str(d.state), vs=d.send_cnt, vsa=d.send_ack, vr=d.recv_cnt, vra=d.recv_ack,
                    confs=d.recv_confs, acks=d.acks_recvd, nsq=len(d.send_queue), nrq=len(d.recv_queue),
                    busy=bool(d.mode.RECV_BUSY), busySent=bool(d.mode.RECV_BUSY_SENT),
                    sendBusy=bool(d.mode.SEND_BUSY))


def find_mid(sender, data, delivered_count):
    """message id of a payload sent by `sender` (ambiguity only for very short payloads)."""
    cands = [m for (m, n) in sender.sent if n == len(data) and payload(sender.name, m, n) == bytes(data)]
    if not cands:
        return -1
    later = [m for m in cands if m > delivered_count]
    return later[0] if later else cands[-1]


class Pair(object):
    """Two controllers with one established data link connection A(client) <-> B(server)."""

    def __init__(self, rwA, rwB, miuA, miuB, linkA, linkB, agfA, agfB, v0=0):
        A = llc_mod.LogicalLinkController(miu=linkA, agf=agfA, sec=False)
        B = llc_mod.LogicalLinkController(miu=linkB, agf=agfB, sec=False)
        A.cfg["send-miu"], B.cfg["send-miu"] = linkB, linkA
        A.cfg["llcp-dpc"] = B.cfg["llcp-dpc"] = 0
        self.A, self.B = End("A", A), End("B", B)
        self.ev = []
        self.broken = False
        self.wire = {"A": [], "B": []}     # encoded frames in flight (bytes or None for SYMM)
        srv = nfc.llcp.Socket(B, nfc.llcp.DATA_LINK_CONNECTION)
        srv.setsockopt(nfc.llcp.SO_RCVMIU, miuB)
        srv.setsockopt(nfc.llcp.SO_RCVBUF, rwB)
        srv.bind(40)
        srv.listen(1)
        cli = nfc.llcp.Socket(A, nfc.llcp.DATA_LINK_CONNECTION)
        cli.setsockopt(nfc.llcp.SO_RCVMIU, miuA)
        cli.setsockopt(nfc.llcp.SO_RCVBUF, rwA)
        box = {}
        t = threading.Thread(target=lambda: box.setdefault("r", cli.connect(40)), daemon=True)
        t.start()
        self._wait(lambda: len(cli._tco.send_queue) > 0)
        self._pump(A, B)               # CONNECT
        acc = srv.accept()
        self._pump(B, A)               # CC
        t.join(5)
        if t.is_alive():
            raise HarnessError("connect() did not return")
        self.A.dlc, self.B.dlc = cli._tco, acc._tco
        self.srv = srv
        for e in (self.A, self.B):
            if not e.dlc.state.ESTABLISHED:
                raise HarnessError("not established")
        a, b = self.A.dlc, self.B.dlc
        self.const = dict(rwA=a.recv_win, rwB=b.recv_win, smiuA=a.send_miu, rmiuA=a.recv_miu,
                          smiuB=b.send_miu, rmiuB=b.recv_miu, lmiuA=A.cfg["send-miu"],
                          lmiuB=B.cfg["send-miu"], agfA=bool(agfA), agfB=bool(agfB))
        mycfg = dict(rwA=rwA, rwB=rwB, miuA=miuA, miuB=miuB, linkA=linkA, linkB=linkB, agfA=agfA, agfB=agfB)
        if a.send_win != b.recv_win or b.send_win != a.recv_win:
            raise SetupMismatch("window-exchange:client(swin=%d,rwin=%d):server(swin=%d,rwin=%d)" % (
                a.send_win, a.recv_win, b.send_win, b.recv_win), mycfg)
        if a.send_miu > b.recv_miu or b.send_miu > a.recv_miu:
            raise SetupMismatch("miu-exchange:client(smiu=%d,rmiu=%d):server(smiu=%d,rmiu=%d)" % (
                a.send_miu, a.recv_miu, b.send_miu, b.recv_miu), mycfg)
        if v0:
            # start the conversation as if v0 messages had been exchanged and acknowledged in both directions
            # (all four state variables of both ends at v0): short histories then cross the modulo-16 wrap
            for d in (a, b):
                d.send_cnt = d.send_ack = d.recv_cnt = d.recv_ack = v0 % 16
            self.const["v0"] = v0 % 16

    @staticmethod
    def _wait(cond, t=5.0):
        t0 = time.time()
        while not cond():
            if time.time() - t0 > t:
                raise HarnessError("wait timeout")
            time.sleep(0.0005)

    @staticmethod
    def _pump(src, dst):
        f = src.collect()
        if f is not None:
            dst.dispatch(pdu_mod.decode(pdu_mod.encode(f)))

    def end(self, n):
        return self.A if n == "A" else self.B

    def peer(self, n):
        return self.B if n == "A" else self.A

    def log(self, e, a, **kw):
        who = self.peer(e) if a == "Deliver" else self.end(e)
        rec = dict(e=e, a=a, post=who.snap())
        rec.update(kw)
        self.ev.append(rec)
        return rec

    # ---- operations = spec actions -------------------------------------------------------
    def send(self, e, n):
        x = self.end(e)
        mid = len(x.sent) + 1
        try:
            x.dlc.send(payload(e, mid, n), nfc.llcp.MSG_DONTWAIT)
            res = "OK"
            x.sent.append((mid, n))
        except err_mod.Error as ex:
            res = ERRNAME.get(ex.errno, "E%d" % ex.errno)
        self.log(e, "Send", len=n, res=res)

    def can_recv(self, e):
        d = self.end(e).dlc
        return (d.state.ESTABLISHED or d.state.CLOSE_WAIT) and len(d.recv_queue) > 0

    def recv(self, e):
        x, p = self.end(e), self.peer(e)
        ndel = getattr(x, "ndel", 0)
        data = x.dlc.recv()
        if data is None:
            self.log(e, "Recv", t="DISC", m=0, len=0)
        else:
            m = find_mid(p, data, ndel)
            x.ndel = ndel + 1
            self.log(e, "Recv", t="I", m=m, len=len(data))

    def set_busy(self, e, b):
        self.end(e).dlc.setsockopt(nfc.llcp.SO_RCVBSY, b)
        self.log(e, "SetBusy", b=bool(b))

    def poll_acks(self, e):
        r = self.end(e).dlc.poll("acks", 0)
        self.log(e, "PollAcks", res=bool(r))

    def _desc(self, sender, p):
        t = p.name
        if t == "I":
            return dict(t="I", ns=p.ns, nr=NONR if p.nr is None else p.nr, len=len(p.data),
                        m=find_mid(sender, p.data, 0) if False else self._mid_of(sender, p.data))
        if t in ("RR", "RNR"):
            return dict(t=t, ns=0, nr=p.nr, len=0, m=0)
        return dict(t=t, ns=0, nr=0, len=0, m=0)

    def _mid_of(self, sender, data):
        # the sender's own queue order is FIFO by construction of send(); identify by content+length,
        # preferring the oldest id not yet seen on the wire
        seen = sender.__dict__.setdefault("wired", 0)
        cands = [m for (m, n) in sender.sent if n == len(data) and payload(sender.name, m, n) == bytes(data)]
        later = [m for m in cands if m > seen]
        m = later[0] if later else (cands[-1] if cands else -1)
        sender.wired = max(seen, m)
        return m

    def collect(self, e):
        x = self.end(e)
        f = x.llc.collect()
        if f is None:
            pdus = []
        elif f.name == "AGF":
            pdus = list(f)
        else:
            pdus = [f]
        desc = [self._desc(x, p) for p in pdus]
        broken = False
        data = None
        if f is not None:
            try:                       # what llc.exchange() does with the collected PDU
                data = pdu_mod.encode(f)
            except pdu_mod.Error:
                broken = True
        # FProj zeroes ns of FRMR etc.; frames that cannot be encoded never reach the wire
        if not broken:
            self.wire[e].append(data)
        self.log(e, "Collect", frame=desc, broken=broken)
        return broken

    def deliver(self, e):
        p = self.peer(e)
        data = self.wire[e].pop(0)
        with p.dlc.lock:
            if data is not None:
                p.llc.dispatch(pdu_mod.decode(data))
            self.log(e, "Deliver")
        self._reap(p.name)

    def close_begin(self, e):
        x = self.end(e)
        if x.dlc.recv_queue:
            x.dlc.close()
            self.log(e, "CloseBegin")
            return
        t = threading.Thread(target=x.dlc.close, daemon=True)
        x.closer = t
        t.start()
        self._wait(lambda: x.dlc.state.DISCONNECT)
        with x.dlc.lock:               # acquirable only once close() sits in recv_ready.wait()
            self.log(e, "CloseBegin")

    def _reap(self, e):
        x = self.end(e)
        if x.closer is not None and len(x.dlc.recv_queue) > 0:
            x.closer.join(5)
            if x.closer.is_alive():
                raise HarnessError("close() did not return after DM")
            x.closer = None
            self.log(e, "CloseEnd")

    def abandon(self):
        for x in (self.A, self.B):
            if x.closer is not None:
                # let the blocked close() finish so that no thread is left behind
                with x.dlc.lock:
                    x.dlc.recv_queue.append(pdu_mod.DisconnectedMode(0, 0, 0))
                    x.dlc.recv_ready.notify_all()
                x.closer.join(2)


def boundary_lens(smiu, rnd):
    c = [0, 1, 2, 3, 4, 5, smiu - 1, smiu, smiu + 1, max(0, smiu // 2), rnd.randint(0, smiu)]
    return [v for v in c if v >= 0]


def step_op(P, rnd, e, x, r, small, recv_p, busy_p, with_close):
    if r < 0.30:
        smiu = x.dlc.send_miu
        n = rnd.choice([0, 1, 2, 3, 5, 8]) if small and rnd.random() < 0.85 else rnd.choice(boundary_lens(smiu, rnd))
        P.send(e, n)
    elif r < 0.30 + recv_p:
        if P.can_recv(e):
            P.recv(e)
    elif r < 0.30 + recv_p + busy_p:
        P.set_busy(e, not x.dlc.mode.RECV_BUSY)
    elif r < 0.36 + recv_p + busy_p:
        if x.dlc.acks_recvd > 0 and not x.dlc.state.SHUTDOWN:
            P.poll_acks(e)
    elif with_close and rnd.random() < 0.02 and x.dlc.state.ESTABLISHED and x.closer is None:
        P.close_begin(e)
    else:
        if P.wire[e] and (rnd.random() < 0.6 or len(P.wire[e]) > 3):
            P.deliver(e)
        else:
            P.broken = P.collect(e)


def run_one(seed, steps, with_close, cfg=None):
    rnd = random.Random(seed)
    if cfg is None:
        link = lambda: rnd.choice([128, 129, 130, 131, 132, 140, 248, 255, 256, 1024, 2175])
        cfg = dict(rwA=rnd.choice([1, 1, 2, 3, 7, 14, 15, rnd.randint(1, 15)]),
                   rwB=rnd.choice([1, 2, 2, 5, 8, 15, rnd.randint(1, 15)]),
                   miuA=rnd.choice([128, 128, 129, 200, 248, 2175]), miuB=rnd.choice([128, 130, 160, 1000, 2175]),
                   linkA=link(), linkB=link(), agfA=rnd.random() < 0.7, agfB=rnd.random() < 0.7)
    P = Pair(**cfg)
    small = rnd.random() < 0.5         # small messages -> aggregation of many PDUs
    busy_p = rnd.choice([0.0, 0.02, 0.08])
    recv_p = rnd.choice([0.15, 0.3, 0.5])
    broken = False
    try:
        for k in range(steps):
            e = rnd.choice("AB")
            r = rnd.random()
            x = P.end(e)
            if broken:
                break
            try:
                step_op(P, rnd, e, x, r, small, recv_p, busy_p, with_close)
            except HarnessError:
                raise
            except Exception as ex:     # an exception out of the code under test is an observation, not a crash
                P.ev.append(dict(e=e, a="Raise", exc=type(ex).__name__, msg=str(ex)[:80], post=x.snap()))
                break
            broken = P.broken
            continue
            if r < 0.30:
                smiu = x.dlc.send_miu
                n = rnd.choice([0, 1, 2, 3, 5, 8]) if small and rnd.random() < 0.85 else rnd.choice(boundary_lens(smiu, rnd))
                P.send(e, n)
            elif r < 0.30 + recv_p:
                if P.can_recv(e):
                    P.recv(e)
            elif r < 0.30 + recv_p + busy_p:
                P.set_busy(e, not x.dlc.mode.RECV_BUSY)
            elif r < 0.36 + recv_p + busy_p:
                if x.dlc.acks_recvd > 0 and not x.dlc.state.SHUTDOWN:
                    P.poll_acks(e)
            elif with_close and rnd.random() < 0.02 and x.dlc.state.ESTABLISHED and x.closer is None:
                P.close_begin(e)
            else:
                if P.wire[e] and (rnd.random() < 0.6 or len(P.wire[e]) > 3):
                    P.deliver(e)
                else:
                    broken = P.collect(e)
    finally:
        P.abandon()
    return dict(id="s%d" % seed, const=P.const, ev=P.ev), cfg


# ------------------------------------------------------------------------------------------------
EXH_OPS = ("sA", "sB", "rA", "rB", "cA", "cB", "dA", "dB", "bA")


def exh_apply(P, op):
    """apply one op of the bounded-exhaustive alphabet; False if it is not enabled (sequence pruned)"""
    k, e = op[0], op[1]
    x = P.end(e)
    if k == "s":
        P.send(e, 1)
    elif k == "r":
        if not P.can_recv(e):
            return False
        P.recv(e)
    elif k == "c":
        if len(P.wire[e]) >= 2:
            return False
        P.broken = P.collect(e)
    elif k == "d":
        if not P.wire[e]:
            return False
        P.deliver(e)
    elif k == "b":
        P.set_busy(e, not x.dlc.mode.RECV_BUSY)
    return True


def exh_prefix(job):
    """all enabled op sequences of length `depth` that start with `prefix`, executed on the real code (one fresh
    connection per sequence); returns the traces"""
    cfg, prefix, depth, tag = job
    out = []

    def run_seq(seq):
        P = Pair(**cfg)
        try:
            for op in seq:
                if not exh_apply(P, op):
                    return None, P
                if P.broken:
                    break
        except HarnessError:
            raise
        except Exception as ex:
            P.ev.append(dict(e=seq[-1][1], a="Raise", exc=type(ex).__name__, msg=str(ex)[:80], post=P.end(seq[-1][1]).snap()))
        return P, P

    def rec(seq):
        if len(seq) == depth:
            P, _ = run_seq(seq)
            if P is not None:
                out.append(dict(id="%s.%s" % (tag, "".join(seq)), const=P.const, ev=P.ev))
            return
        # prune: a prefix that is not executable has no executable extension
        if seq:
            P, _ = run_seq(seq)
            if P is None:
                return
            if P.broken:
                out.append(dict(id="%s.%s" % (tag, "".join(seq)), const=P.const, ev=P.ev))
                return
        for op in EXH_OPS:
            rec(seq + [op])
    rec(list(prefix))
    return out


def exhaustive_stage(ck, quick, seed):
    """bounded-exhaustive short histories on the real code: every enabled sequence of `depth` operations over
    {send A/B (1 octet), recv A/B, collect A/B, deliver A/B, toggle busy A}, started at sequence numbers 0 and just
    below the modulo-16 wrap, for windows 1 and 2; every execution validated by Trace_LlcpDlc"""
    import multiprocessing as mp
    depth = 4 if quick else 6
    jobs = []
    for v0 in (0, 14, 15):
        for rw in (1, 2):
            cfg = dict(rwA=rw, rwB=rw, miuA=128, miuB=128, linkA=128, linkB=128, agfA=True, agfB=(v0 != 14), v0=v0)
            for a in EXH_OPS:
                for b in EXH_OPS:
                    jobs.append((cfg, (a, b), depth, "x%d.%d" % (v0, rw)))
    traces = []
    with mp.Pool(14) as pool:
        for part in pool.imap_unordered(exh_prefix, jobs, chunksize=2):
            traces.extend(part)
    verdicts, st = tlc.validate_traces("Trace_LlcpDlc.tla", "Trace_LlcpDlc.cfg", PID, traces, shards=16,
                                       timeout=900 if quick else 3000)
    acc = 0
    for tr in traces:
        v = verdicts[tr["id"]]
        if v[0] == "ACCEPT":
            acc += 1
            continue
        line, act, why = v[1], v[2], v[3]
        ev = tr["ev"][line - 1]
        ck.violation(classify(tr, line, act, why), "short history %s rejected at event %d (%s): %s ; event=%s" % (
            tr["id"], line, act, json.dumps(why)[:600], json.dumps(ev)[:400]),
            replay=dict(kind="exh", cfg={k: v for k, v in tr["const"].items()}, seq=tr["id"].split(".")[-1], id=tr["id"]))
    ck.cover(exhaustive_short_histories=len(traces), exhaustive_depth=depth, traces_validated_against_impl=acc,
             trace_events=sum(len(t["ev"]) for t in traces))


def mutate_for_selftest(tr):
    """binding self-test: corrupt one logged field / drop one event -> must be rejected."""
    out = []
    t1 = json.loads(json.dumps(tr))
    for ev in t1["ev"]:
        if ev["a"] == "Collect" and any(p["t"] == "I" for p in ev["frame"]):
            for p in ev["frame"]:
                if p["t"] == "I":
                    p["nr"] = (p["nr"] + 1) % 16
                    break
            break
    t1["id"] = tr["id"] + "-corrupt"
    out.append(t1)
    t2 = json.loads(json.dumps(tr))
    for i, ev in enumerate(t2["ev"]):
        if ev["a"] == "Deliver" and i > 5:
            del t2["ev"][i]
            break
    t2["id"] = tr["id"] + "-dropped"
    out.append(t2)
    return out


def run(tier, seed):
    ck = check.Check(PID, tier, seed, "model_checking")
    try:
        return _run(ck, tier, seed)
    except SetupMismatch as e:
        # no conversation can be driven over a connection whose ends disagree about the window: report and stop
        ck.violation("setup:" + e.what.split(":")[0] + ":" + ("server" if "server(swin" in e.what or "server(smiu" in e.what else "-"),
                     "after CONNECT/CC the two ends hold parameters that contradict the announced ones: %s cfg=%s" % (e.what, json.dumps(e.cfg)),
                     replay=dict(kind="setup", cfg=e.cfg))
        return ck.finish()


def _run(ck, tier, seed):
    quick = tier == "quick"
    t0 = time.time()
    # 0. the integer core (LlcpWindow.tla, modulus 16): Apalache works on the inductive invariant in the background
    from bind import c05win
    win = c05win.Stage(PID, quick)
    # 1. exhaustive model checking, scaled constants
    r = tlc.run("LlcpDlc.tla", "MC_LlcpDlc.cfg" if quick else "MC_LlcpDlc_thorough.cfg", PID,
                workers=16, timeout=900 if quick else 3600)
    if not r.ok:
        ck.violation("spec:LlcpDlc:" + ",".join(r.violated or ["deadlock"]),
                     "TLC found a violation in the design-level model: %s" % (r.error_trace or "")[:2000])
    ck.cover(states=r.distinct, transitions=r.generated)
    ck.cover(mc_depth=r.depth)
    # reachability witnesses: each must be violated, else the run is vacuous
    need = {"W_Wrap", "W_Agf", "W_Necessary", "W_Rnr", "W_FullWin"}
    hit, _ = tlc.witnesses("LlcpDlc.tla", "MC_LlcpDlc_reach.cfg", PID, sorted(need))
    missing = need - hit
    if missing:
        raise tlc.TLCError("vacuous model: witnesses not reached: %s" % sorted(missing))
    ck.cover(witnesses_reached=sorted(need))
    # the close() model (CloseBegin/CloseEnd enabled): same invariants incl. NotBroken
    c = tlc.run("LlcpDlc.tla", "MC_LlcpDlc_closeq.cfg" if quick else "MC_LlcpDlc_close.cfg", PID,
                workers=16, timeout=900 if quick else 3600)
    if not c.ok:
        ck.violation("spec:LlcpDlc(close):" + ",".join(c.violated or ["deadlock"]),
                     "TLC found a violation in the close() model: %s" % (c.error_trace or "")[:2000])
    ck.cover(states=c.distinct, transitions=c.generated)

    # 2. conformance: real executions -> Trace_LlcpDlc
    n = 120 if quick else 1500
    steps = 500 if quick else 900
    traces, cfgs = [], {}
    for i in range(n):
        s = seed * 100000 + i
        tr, cfg = run_one(s, steps, with_close=(i % 4 == 3))
        traces.append(tr)
        cfgs[tr["id"]] = dict(seed=s, steps=steps, with_close=(i % 4 == 3), cfg=cfg)
    self_t = mutate_for_selftest(traces[0])
    verdicts, st = tlc.validate_traces("Trace_LlcpDlc.tla", "Trace_LlcpDlc.cfg", PID, traces + self_t,
                                       shards=16, timeout=600 if quick else 2400)
    for t in self_t:
        if verdicts[t["id"]][0] == "ACCEPT":
            raise tlc.TLCError("binding vacuous: corrupted trace %s accepted" % t["id"])
    acc = 0
    nev = 0
    for tr in traces:
        v = verdicts[tr["id"]]
        nev += len(tr["ev"])
        if v[0] == "ACCEPT":
            acc += 1
            continue
        line, act, why = v[1], v[2], v[3]
        ev = tr["ev"][line - 1]
        key = classify(tr, line, act, why)
        ck.violation(key, "trace %s rejected at event %d (%s): %s ; event=%s" % (
            tr["id"], line, act, json.dumps(why)[:600], json.dumps(ev)[:400]),
            replay=dict(kind="trace", **cfgs[tr["id"]]))
    ck.cover(traces_validated_against_impl=acc, trace_events=nev, trace_states=st["states"],
             binding_selftest="corrupted N(R) and dropped Deliver both rejected")
    t1 = time.time()
    exhaustive_stage(ck, quick, seed)
    t2 = time.time()
    threaded_stage(ck, quick, seed)
    t3 = time.time()
    from bind import c05conn
    c05conn.stage(ck, quick, seed, tlc, PID)
    win.finish(ck)
    ck.cover(seconds_mc_and_random_walks=int(t1 - t0), seconds_short_histories=int(t2 - t1), seconds_threaded=int(t3 - t2),
             seconds_conn=int(time.time() - t3))
    ck.sample(dict(trace=traces[0]["id"], const=traces[0]["const"], first_events=traces[0]["ev"][:6]))
    ck.sample(dict(mc="LlcpDlc M=4", depth=r.depth, distinct=r.distinct))
    ck.assume("non-threaded binding: application calls use MSG_DONTWAIT and are interleaved with collect()/dispatch() by the harness",
              "threaded binding: blocking send()/recv() in application threads against both run loops under the deterministic scheduler "
              "(preemption at synchronisation points), random schedules; the two MACs are joined by an in-memory pipe",
              "exhaustive run of the implementation-shaped model uses modulus 4 / windows 1..2; modulus 16 and windows 0..15 are covered "
              "by LlcpWindow.tla (counters only; inductive invariant by Apalache, complete enumeration by TLC in the thorough tier) and "
              "its refinement mapping WinInd, which trace validation evaluates on the real modulus-16 code",
              "one data link connection per controller pair; frames are carried by a FIFO between collect() and dispatch()")
    return ck.finish()


def threaded_stage(ck, quick, seed):
    """blocking send()/recv() in application threads against the two run loops, under the scheduler"""
    import multiprocessing as mp
    from bind import c05t
    n = 160 if quick else 3000
    jobs = [(seed * 1000003 + i,) for i in range(n)]
    runs = []
    with mp.Pool(12, maxtasksperchild=50) as pool:
        for st, res in pool.imap_unordered(c05t.work, jobs, chunksize=4):
            if st != "ok":
                raise RuntimeError("threaded harness crashed:\n%s" % res)
            runs.append(res)
    runs.sort(key=lambda r: r["id"])
    traces = []
    for r in runs:
        rep = dict(kind="threaded", seed=r["seed"])
        if r["outcome"] != "done":
            ck.violation("threaded:%s:blocked=%s" % (r["outcome"], sorted(set(k.split("#")[0] for k in r["blocked"]))),
                         "schedule seed %d: %s; blocked %s" % (r["seed"], r["outcome"], r["blocked"]), replay=rep)
            continue
        if r["dead"]:
            ck.violation("threaded:thread-died:%s" % sorted(set(r["dead"].values())), "seed %d: %s" % (r["seed"], r["dead"]), replay=rep)
        traces.append(dict(id=r["id"], const=r["const"], ev=r["ev"]))
    base = next(t for t in traces if sum(1 for e in t["ev"] if e["a"] == "Enq" and e["out"]["t"] == "I") > 3)
    m1 = json.loads(json.dumps(base))
    for e in m1["ev"]:
        if e["a"] == "Deq" and e["out"]["t"] == "I":
            e["out"]["ns"] = (e["out"]["ns"] + 1) % 16
            break
    m1["id"] += "-ns"
    m2 = json.loads(json.dumps(base))
    idx = [i for i, e in enumerate(m2["ev"]) if e["a"] == "Enq"]
    del m2["ev"][idx[1]]
    m2["id"] += "-drop"
    verdicts, st = tlc.validate_traces("Trace_LlcpDlcT.tla", "Trace_LlcpDlcT.cfg", PID, traces + [m1, m2], shards=16, timeout=1200)
    if verdicts[m1["id"]][0] == "ACCEPT" or verdicts[m2["id"]][0] == "ACCEPT":
        raise tlc.TLCError("binding vacuous (threaded): mutated trace accepted")
    acc = 0
    for t in traces:
        v = verdicts[t["id"]]
        if v[0] == "ACCEPT":
            acc += 1
            continue
        line, act, why = v[1], v[2], v[3]
        clause = why.get("clause") if isinstance(why, dict) else "?"
        key = "threaded:inv:%s@%s" % (",".join(why.get("failed", [])), act) if clause == "inv" else "threaded:%s@%s" % (clause, act)
        ck.violation(key, "threaded trace %s rejected at event %d: %s ; %s" % (t["id"], line, json.dumps(t["ev"][line - 1])[:300],
                                                                             json.dumps(why, default=str)[:400]),
                     replay=dict(kind="threaded", seed=int(t["id"][1:])))
    ck.cover(traces_validated_against_impl=acc, threaded_schedules=len(runs), threaded_events=sum(len(t["ev"]) for t in traces))


def classify(tr, line, act, why):
    """Canonical key of a rejection: the failing clause + the situation, not the seed."""
    ev = tr["ev"][line - 1]
    kind = why[0] if why else "?"
    if act == "Raise":
        return "raise:%s:%s" % (ev.get("exc"), ev.get("msg", "")[:40])
    if act == "Collect" and ev.get("broken"):
        return "collect:I-PDU-without-N(R)-after-close:EncodeError->link-disruption"
    if kind == "inv":
        return "inv:%s@%s" % (",".join(why[1]), act)
    # canonical: failing clause + action + what the real step did differently (never the trace id / seed)
    detail = ""
    if kind == "result" and act == "Collect":
        got = [p["t"] for p in ev.get("frame", [])]
        exp = [p["t"] for p in why[1]] if isinstance(why[1], (list, tuple)) else why[1]
        detail = ":frame-kinds-got=%s-expected=%s" % ("+".join(got) or "SYMM", "+".join(exp) if isinstance(exp, list) else exp)
        if got == exp:
            detail = ":same-kinds-different-fields(N(S)/N(R)/len/order)"
    elif kind == "result":
        detail = ":got=%s-expected=%s" % (ev.get("res"), why[1])
    elif kind == "post" and isinstance(why[1], dict):
        diff = sorted(k for k in why[1] if why[1][k] != ev["post"].get(k))
        detail = ":fields=" + ",".join(diff)
    return "%s@%s%s" % (kind, act, detail)


def replay(rep, args):
    r = rep["replay"]
    if r.get("kind") == "setup":
        try:
            Pair(**r["cfg"])
        except SetupMismatch as e:
            print("replay verdict:", e.what)
            print("VIOLATION property=%s replay=%s" % (PID, args.replay))
            return 1
        print("replay verdict: handshake parameters agree")
        return 0
    if r.get("kind") == "conn":
        from bind import c05conn
        tr = c05conn.run_conn(r["seed"], r["listener"])
        import os
        cfgp = os.path.join(tlc.OUT, PID, "Trace_LlcpConn_replay.cfg")
        open(cfgp, "w").write(c05conn.cfg_text(tr["cfg"], r["listener"]))
        v, _ = tlc.validate_traces("Trace_LlcpConn.tla", cfgp, PID + "_replay", [dict(id=tr["id"], const=tr["const"], ev=tr["ev"])], shards=1)
        print(v)
        if v[tr["id"]][0] != "ACCEPT":
            print("VIOLATION property=%s replay=%s" % (PID, args.replay))
            return 1
        return 0
    if r.get("kind") == "exh":
        c = r["cfg"]
        cfg = dict(rwA=c["rwA"], rwB=c["rwB"], miuA=c["rmiuA"], miuB=c["rmiuB"], linkA=c["lmiuB"], linkB=c["lmiuA"],
                   agfA=c["agfA"], agfB=c["agfB"], v0=c.get("v0", 0))
        seq = [r["seq"][i:i + 2] for i in range(0, len(r["seq"]), 2)]
        trs = [t for t in exh_prefix((cfg, tuple(seq[:2]), len(seq), "replay")) if t["id"].endswith(r["seq"])]
        verdicts, _ = tlc.validate_traces("Trace_LlcpDlc.tla", "Trace_LlcpDlc.cfg", PID + "_replay", trs, shards=1)
        print(verdicts)
        if not trs or any(v[0] != "ACCEPT" for v in verdicts.values()):
            print("VIOLATION property=%s replay=%s" % (PID, args.replay))
            return 1
        return 0
    if r.get("kind") == "threaded":
        from bind import c05t
        st, res = c05t.work((r["seed"],))
        print(st, res["outcome"], res["dead"], res["blocked"])
        v, _ = tlc.validate_traces("Trace_LlcpDlcT.tla", "Trace_LlcpDlcT.cfg", PID + "_replay",
                                   [dict(id=res["id"], const=res["const"], ev=res["ev"])], shards=1)
        print(v)
        bad = res["outcome"] != "done" or res["dead"] or v[res["id"]][0] != "ACCEPT"
        if bad:
            print("VIOLATION property=%s replay=%s" % (PID, args.replay))
        return 1 if bad else 0
    tr, _ = run_one(r["seed"], r["steps"], r["with_close"], r.get("cfg"))
    verdicts, st = tlc.validate_traces("Trace_LlcpDlc.tla", "Trace_LlcpDlc.cfg", PID + "_replay", [tr], shards=1)
    v = verdicts[tr["id"]]
    print("replay verdict:", v)
    if v[0] != "ACCEPT":
        print("event:", json.dumps(tr["ev"][v[1] - 1]))
        print("VIOLATION property=%s replay=%s" % (PID, args.replay))
        return 1
    return 0
