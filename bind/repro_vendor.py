"""Stand-alone reproductions of the vendor-class findings (no simulator, no TLC): python bind/repro_vendor.py <name>
  ev1-protect | ev1-lock | ulc-auth-short | ntag-format-blank | fstd-reqsys | fstd-search | fstd-service-type | t1-dump-rall
Each prints what the unchanged code does and exits 1 if the defect shows."""
import sys, os
sys.path.insert(0, os.environ.get("NFCPY_SRC", "/repo/src"))
import nfc, nfc.clf, nfc.tag


class Clf(object):
    max_send_data_size = max_recv_data_size = 290

    def __init__(self, answer):
        self.answer, self.sent = answer, []

    def sense(self, *a, **kw):
        return self.target

    def exchange(self, data, timeout):
        self.sent.append(bytes(data))
        r = self.answer(bytes(data))
        if r is None:
            raise nfc.clf.TimeoutError("no answer")
        return bytearray(r)


def t2(answer):
    t = nfc.clf.RemoteTarget("106A")
    t.sens_res, t.sel_res, t.sdd_res = bytearray(b"\x44\x00"), bytearray(b"\x00"), bytearray.fromhex("04112233445566")
    c = Clf(answer)
    c.target = t
    return c, nfc.tag.activate(c, t)


def t3(answer, ic):
    t = nfc.clf.RemoteTarget("212F")
    t.sensf_res = bytearray.fromhex("01 0114b34a0c0d0e0f 00%02x4b024f4993ff 0003" % ic)
    c = Clf(answer)
    c.target = t
    return c, nfc.tag.activate(c, t)


def outcome(fn):
    try:
        return repr(fn())
    except Exception as e:          # noqa
        return "%s: %s" % (type(e).__name__, e)


def ev1(cmd):
    if cmd == b"\x60":
        return bytes.fromhex("0004030101000b03")
    if cmd[0] == 0x30:
        return bytes.fromhex("04112233445566778899000000e1100600")[1:] if cmd[1] == 0 else bytes(16)
    if cmd[0] == 0xA2:
        return b"\x0a"
    return None


def main(name):
    bad = False
    if name in ("ev1-protect", "ev1-lock"):
        c, tag = t2(ev1)
        r = outcome((lambda: tag.protect(b"123456")) if name == "ev1-protect" else (lambda: tag.protect()))
        print(type(tag).__name__, "protect ->", r, "| writes:", [x.hex() for x in c.sent if x[0] == 0xA2])
        bad = "AttributeError" in r
    elif name == "ulc-auth-short":
        for first, second in ((b"\xaf", None), (b"\xaf\x01\x02\x03", None), (b"\xaf" + bytes(8), b"\x00\x01\x02\x03")):
            n = [0]

            def ulc(cmd):
                if cmd == b"\x1a\x00":
                    n[0] += 1
                    return b"\xaf" + bytes(8) if n[0] == 1 else first
                if cmd[0] == 0xAF:
                    return second
                return None
            c, tag = t2(ulc)
            r = outcome(lambda: tag.authenticate(b""))
            print(type(tag).__name__, "authenticate, answers", first.hex(), second and second.hex(), "->", r)
            bad = bad or "Error" in r
    elif name == "ntag-format-blank":
        mem = bytearray(180)
        mem[0:10] = bytes.fromhex("04112233445566778899")
        mem[16:24] = b"userdata"                       # page 3 (CC) is 00000000: not an NFC Forum tag

        def ntag(cmd):
            if cmd == b"\x60":
                return bytes.fromhex("0004040201000f03")
            if cmd[0] == 0x30:
                return bytes(mem[4 * cmd[1]:4 * cmd[1] + 16])
            if cmd[0] == 0xA2:
                mem[4 * cmd[1]:4 * cmd[1] + 4] = cmd[2:6]
                return b"\x0a"
            return None
        c, tag = t2(ntag)
        r = outcome(lambda: tag.format())
        print(type(tag).__name__, "format() on a tag without capability container ->", r, "| pages 4-5 now:", bytes(mem[16:24]))
        bad = r == "False" and bytes(mem[16:24]) != b"userdata"
    elif name.startswith("fstd"):
        idm = bytes.fromhex("0114b34a0c0d0e0f")

        def frame(code, body):
            r = bytes([code]) + idm + body
            return bytes([len(r) + 1]) + r

        def card(cmd):
            code = cmd[1]
            if code == 0x0C:
                return frame(0x0D, b"" if name == "fstd-reqsys" else b"\x01\x00\x03")
            if code == 0x00:
                return bytes([18, 1]) + idm + bytes.fromhex("00014b024f4993ff")
            if code == 0x0A:
                idx = cmd[10] | cmd[11] << 8
                if name == "fstd-search":
                    return frame(0x0B, b"\x00\x00\xfe")                                 # three bytes
                ents = [b"\x00\x00\xfe\xff", b"\x44\x00"]                                # an area, then service code 0044h
                return frame(0x0B, ents[idx] if idx < len(ents) else b"\xff\xff")
            return None
        c, tag = t3(card, 0x01)
        r = outcome(lambda: tag.dump())
        print(type(tag).__name__, "dump() ->", r[:120])
        bad = "Error" in r or "error" in r
    elif name == "t1-dump-rall":
        t = nfc.clf.RemoteTarget("106A")
        t.sens_res, t.rid_res = bytearray(b"\x00\x0c"), bytearray.fromhex("114801020304")
        c = Clf(lambda cmd: b"\x11" if cmd[0] == 0x00 else None)                         # RALL answered with one byte
        c.target = t
        tag = nfc.tag.activate(c, t)
        r = outcome(lambda: tag.dump())
        print(type(tag).__name__, "dump() with a one byte RALL answer ->", r)
        bad = "IndexError" in r
    else:
        print(__doc__)
        return 2
    return 1 if bad else 0


if __name__ == "__main__":
    sys.exit(main(sys.argv[1] if len(sys.argv) > 1 else ""))
