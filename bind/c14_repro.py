"""Stand-alone reproduction of the C14 defects in pn53x.Chipset.command with a plain mock transport:
    /venv/bin/python /verif/bind/c14_repro.py        (imports nfcpy from /repo/src or $NFCPY_SRC)"""
import os, sys, logging
sys.path.insert(0, os.environ.get("NFCPY_SRC", "/repo/src"))
logging.disable(logging.CRITICAL)
from unittest import mock
import nfc.clf.pn533
H = bytearray.fromhex
for name, frame in (("3-byte response", "0000ff"), ("5-byte extended response", "0000ffffff"),
                    ("6-byte extended response", "0000ffffff00"),
                    ("valid response D5 43", "0000ff02fed543e800"),
                    ("DCS+1 / postamble FF", "0000ff02fed543e9ff"), ("DCS+0x28 / postamble D8", "0000ff02fed54310d8")):
    t = mock.Mock(); t.read.side_effect = [H("0000ff00ff00"), H(frame)]
    cs = nfc.clf.pn533.Chipset(t, logging.getLogger("x"))
    try:
        print("%-28s %-22s returned %r" % (name, frame, cs.command(0x42, b"", 0.1)))
    except Exception as e:
        print("%-28s %-22s raised %s: %s" % (name, frame, type(e).__name__, e))
# transport.TTY.read on a serial line that delivers only part of a frame header
import nfc.clf.transport, nfc.clf.pn532
for name, stream in (("tty: 3 bytes then silence", "0000ff"), ("tty: 6 bytes of an extended frame", "0000ffffff01")):
    tty = nfc.clf.transport.TTY.__new__(nfc.clf.transport.TTY)
    tty.tty = mock.Mock(); tty.tty.read.side_effect = [H("0000ff00ff00"), H(stream), b"", b""]
    cs = nfc.clf.pn532.Chipset(tty, logging.getLogger("x"))
    try:
        print("%-36s %-14s returned %r" % (name, stream, cs.command(0x42, b"", 0.1)))
    except Exception as e:
        print("%-36s %-14s raised %s: %s" % (name, stream, type(e).__name__, e))
